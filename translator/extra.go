package main

import (
	"fmt"
	"go/ast"
	"go/constant"
	"go/parser"
	"go/token"
	"go/types"
	"path/filepath"
	"strings"
)

// funcFacts lists, for one function body, every integer constant expression that is an
// operand of a comparison or arithmetic operator (in source order) and every comparison
// operator (in source order). The hand model indexes these lists, so moving a threshold
// or turning `<=` into `<` changes the model (and then breaks a proof obligation or is
// matched by the implementation in the correspondence run).
func funcFacts(dir, file string, fnames []string, prefix string) (map[string]string, error) {
	fset := token.NewFileSet()
	a, err := parser.ParseFile(fset, filepath.Join(dir, file), nil, 0)
	if err != nil {
		return nil, err
	}
	info := &types.Info{Types: map[ast.Expr]types.TypeAndValue{}}
	conf := types.Config{Error: func(error) {}, FakeImportC: true, Importer: fakeImporter{}}
	_, _ = conf.Check(a.Name.Name, fset, []*ast.File{a}, info)
	out := map[string]string{}
	want := map[string]bool{}
	for _, f := range fnames {
		want[f] = true
	}
	for _, d := range a.Decls {
		fd, ok := d.(*ast.FuncDecl)
		if !ok || !want[fd.Name.Name] || fd.Body == nil {
			continue
		}
		delete(want, fd.Name.Name)
		var lits []string
		var ops []string
		constOf := func(e ast.Expr) (string, bool) {
			if tv, ok := info.Types[e]; ok && tv.Value != nil && tv.Value.Kind() == constant.Int {
				return tv.Value.ExactString(), true
			}
			// math.MaxInt64 with the fake importer is not folded: recognise it by name
			if se, ok := e.(*ast.SelectorExpr); ok {
				if id, ok := se.X.(*ast.Ident); ok && id.Name == "math" {
					switch se.Sel.Name {
					case "MaxInt64":
						return "9223372036854775807", true
					case "MaxInt32":
						return "2147483647", true
					case "MaxUint32":
						return "4294967295", true
					}
				}
			}
			if bl, ok := e.(*ast.BasicLit); ok && bl.Kind == token.FLOAT {
				// e.g. `n.Div *= 10.0`
				if strings.HasSuffix(bl.Value, ".0") {
					return strings.TrimSuffix(bl.Value, ".0"), true
				}
			}
			return "", false
		}
		ast.Inspect(fd.Body, func(n ast.Node) bool {
			switch x := n.(type) {
			case *ast.BinaryExpr:
				switch x.Op {
				case token.LSS, token.LEQ, token.GTR, token.GEQ, token.EQL, token.NEQ:
					ops = append(ops, fmt.Sprintf("%d", cmpCode(x.Op)))
				}
				if s, ok := constOf(x.X); ok {
					lits = append(lits, s)
				}
				if s, ok := constOf(x.Y); ok {
					lits = append(lits, s)
				}
			case *ast.AssignStmt:
				if x.Tok == token.MUL_ASSIGN || x.Tok == token.ADD_ASSIGN || x.Tok == token.QUO_ASSIGN {
					for _, r := range x.Rhs {
						if s, ok := constOf(r); ok {
							lits = append(lits, s)
						}
					}
				}
			}
			return true
		})
		name := prefix + fd.Name.Name
		if fd.Recv != nil && len(fd.Recv.List) == 1 {
			// keep the plain function name; receivers are unique per prefix
		}
		out[name+"_lits"] = fmt.Sprintf("Definition %s_lits : list Z := [%s].", name, strings.Join(lits, "; "))
		out[name+"_ops"] = fmt.Sprintf("Definition %s_ops : list Z := [%s].", name, strings.Join(ops, "; "))
	}
	for f := range want {
		return nil, fmt.Errorf("%s/%s: function %s not found", dir, file, f)
	}
	return out, nil
}

func cmpCode(op token.Token) int {
	switch op {
	case token.LSS:
		return 0
	case token.LEQ:
		return 1
	case token.EQL:
		return 2
	case token.NEQ:
		return 3
	case token.GTR:
		return 4
	case token.GEQ:
		return 5
	}
	return -1
}

type fakeImporter struct{}

func (fakeImporter) Import(path string) (*types.Package, error) {
	name := path
	if i := strings.LastIndex(path, "/"); i >= 0 {
		name = path[i+1:]
	}
	p := types.NewPackage(path, name)
	if path == "math" {
		for n, v := range map[string]string{"MaxInt64": "9223372036854775807", "MinInt64": "-9223372036854775808",
			"MaxInt32": "2147483647", "MaxUint32": "4294967295", "MaxInt16": "32767", "MaxInt8": "127",
			"MaxUint16": "65535", "MaxUint8": "255"} {
			val := constant.MakeFromLiteral(v, token.INT, 0)
			p.Scope().Insert(types.NewConst(token.NoPos, p, n, types.Typ[types.UntypedInt], val))
		}
	}
	p.MarkComplete()
	return p, nil
}

func extraConsts(repo string) (map[string]string, error) {
	out := map[string]string{"0000": "From Coq Require Import List.\nImport ListNotations."}
	add := func(m map[string]string, err error) error {
		if err != nil {
			return err
		}
		for k, v := range m {
			out[k] = v
		}
		return nil
	}
	if err := add(funcFacts(filepath.Join(repo, "gen"), "number.go",
		[]string{"AddDigit", "AddFrac", "AddExp", "FillBig", "AsNum", "AsNode", "Reset"}, "gen_num_")); err != nil {
		return nil, err
	}
	return out, nil
}
