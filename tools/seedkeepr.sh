#!/bin/sh
# tools/seedkeepr.sh <PROP> <i> "<caught by>" : keep change i of /tmp/seedout_<PROP>, demo dir read from README.txt
prop=$1; i=$2; caught=$3
pkg=$(grep -i "^Change $i: demo package directory:" /tmp/seedout_$prop/README.txt | head -1 | sed 's/.*directory: *//; s/[ .]*$//; s/`//g')
[ -n "$pkg" ] || { echo "no demo dir for $prop $i"; exit 2; }
/verif/tools/seedkeepn.sh $prop $i $pkg "see README.txt" "$caught"
