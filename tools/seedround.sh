#!/bin/sh
# tools/seedround.sh <PROP> [<extra props>...] : run the quick check(s) against each change in /tmp/seedout_<PROP>
prop=$1; shift
for i in 1 2 3 4; do
  f=/tmp/seedout_$prop/patch$i.diff
  [ -f $f ] || continue
  echo "== $prop change $i"
  /verif/tools/seedtest.sh $f $prop "$@" | cut -c1-200
done
