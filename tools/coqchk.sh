#!/bin/sh
# tools/coqchk.sh : re-check every compiled property file (and everything it depends on) with the
# independent checker and record the axioms it reports. Takes many minutes; run once per tree.
cd /verif/coq || exit 2
mods=$(ls theories/Props/*.v | sed 's|theories/Props/\(.*\)\.v|Ojg.Props.\1|')
( echo "coqchk -silent -o on: $mods"; date; timeout 7200 coqchk -silent -o -Q theories Ojg $mods 2>&1 | tail -60; echo "exit=$?"; date ) > /verif/evidence/coqchk.txt
tail -5 /verif/evidence/coqchk.txt
