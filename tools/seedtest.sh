#!/bin/sh
# tools/seedtest.sh <patch.diff> <prop> [<prop>...] : apply a seeded change to /repo, run the
# quick checks, undo it. Prints one line per check.
patch=$1; shift
git -C /repo apply "$patch" || { echo "patch does not apply"; exit 2; }
for p in "$@"; do
  out=$(/verif/check $p quick 2>&1)
  rc=$?
  echo "$p rc=$rc $(echo "$out" | grep -c '^VIOLATION') violation lines; $(echo "$out" | tail -1)"
done
git -C /repo checkout -- .
/verif/bin/translator >/dev/null 2>&1
