#!/usr/bin/env python3
"""Regenerates /verif/MANIFEST.json from the table below (kept in one place so that the
manifest stays valid and in step with ./check)."""
import json
V = '/verif'
ALL = ['C%02d' % i for i in range(1, 21)]

LEVEL_NOTE_COMMON = ("Trusted: Coq 8.16.1 kernel with vm_compute (no native_compute, no axioms: every property theorem prints "
    "'Closed under the global context'); the translator that regenerates Gen/*.v from /repo on every run; extraction (ExtrOcamlBasic only) "
    "+ OCaml driver; the Go correspondence harness. Modelled, not verified: Go runtime semantics, strconv/utf8, int as unbounded.")

CHECKS = {
 'C01': dict(
   text="Machine-checked proof (Coq) that each of the front-end machines (oj.Parser, oj.Validator, oj.Tokenizer, gen.Parser; single- and multi-document) driven by the mode tables REGENERATED from oj/maps.go and gen/maps.go accepts exactly the inputs the table-free reference recogniser for RFC 8259 accepts: a finite sweep over (mode, nextMode, ri, stack view, byte) closed by vm_compute, lifted to every input of every length by induction (Sweep.accepts_eq_ref). The hand-written control model is tied to the Go code by a correspondence run: bounded-exhaustive short strings over byte-class representatives in 18 contexts, a number-shape grid, seeded grammar-directed and mutated documents, real front-ends vs extracted model vs reference recogniser.",
   technique="Coq proof: vm_compute table sweep + induction lift to the reference recogniser; translator-regenerated tables; model/implementation correspondence",
   design='6/C01'),
 'C02': dict(
   text="Proved in Coq: the integer clause on the digit-at-a-time path for literals of any length (NumberFacts.slow_int_exact, against the generated thresholds) and absence of uint64 wrap below the threshold. Decided by correspondence with the extracted models: values of all four front-ends vs the machine model (number accumulator with explicit uint64 wrap, FillBig text, string assembly, \\u decoding, build stack), and vs the reference parser RefParse.v (strings, escapes, surrogate pairs, duplicate keys, numbers by decimal denotation / nearest float64 via strconv). Two genuine defects are recorded as known findings (surrogate pairs; int64 top decade pinned by tests).",
   technique="Coq proof of the integer clause + extracted reference parser as oracle in a model/implementation correspondence",
   design='6/C02'),
 'C03': dict(
   text="Proved in Coq for every configuration of the machine: for every input and every way of cutting it into buffers, the chunked run and the whole-buffer run agree on error/no-error and on the reported position (Chunk.chunks_same_control: a buffer boundary only clears the integer scan-ahead flag, which neither control nor the position fields depend on). Values: the model's run_chunks is compared with the real reader entry points of all front-ends (single- and multi-document) under 1-byte, 2-byte, every single split point, random multi-splits and refill-boundary straddles at every offset, and the reader outcome is compared with the []byte entry point, across front-ends (Tokenizer rebuilt, gen.Parser, Validator) and with sen.Parse on accepted JSON. Two genuine chunking defects are recorded as known findings.",
   technique="Coq proof of chunking-independence of control/error/position + chunk-level model/implementation correspondence",
   design='6/C03'),
 'C04': dict(
   text="Proved in Coq for the model of oj.Writer (one buffer, flush after every value above WriteLimit, trailing-comma overwrite, indentation slices with the lengths regenerated from oj/writer.go, AppendJSONString over the regenerated jMap): for EVERY option combination, tree and WriteLimit the flushed bytes plus the buffer equal the unbuffered text (stream_text), hence streaming Write = in-memory call byte for byte (stream_eq). Decided by correspondence: oj.JSON, oj.Marshal, oj.Write and the gen form are byte-compared with the extracted model under Sort (32 option masks x indents x limits on fixed trees incl. depth 140, plus seeded trees with control/quote/HTML/U+2028/invalid-UTF-8 strings, int64 extremes, awkward floats), every output is parsed back and compared with the model's expected tree (members omitted, invalid UTF-8 replaced), the model's own text is checked with the reference parser per case, and pretty.JSON/WriteJSON are judged by parsing back on a width/depth/align grid. One genuine defect pinned by tests is a recorded known finding.",
   technique="Coq proof of streaming = in-memory for all options/limits + byte-level correspondence with the extracted writer model and parse-back oracle",
   design='6/C04'),
 'C05': dict(
   text="The denotation of JSONPath expressions (get_spec in Jp/Expr.v: child, index with negative-from-end, wildcard, descent = self and all descendants, union in listed order, slice with the documented normalisation, filter through the script denotation) is an executable Coq specification; theorems proved about it for all paths/data: position independence of every fragment, compositionality of path evaluation, the index law, and the exact membership and ascending order of a positive-step slice. jp.Expr.Get is compared with the extracted get_spec on a complete grid of slice/index/union bounds (-7..7 x steps -3..3 x lengths 0..5, as last and as inner fragment) and on seeded paths x trees (ordered comparison where the order is defined). Paths ending in a bare descent are excluded (no defined result list).",
   technique="Coq-specified denotation with proved laws + grid-exhaustive and seeded correspondence against the extracted specification",
   design='6/C05'),
 'C10': dict(
   text="Proved in Coq over the tables regenerated from string.go and sen/maps.go: every byte AppendSENString leaves bare continues a token for the SEN parser, and every first byte it leaves bare starts a token, except '-' and '+' (stated in the theorem; the recorded known finding). The proof attempt itself exposed that '|', '`' and '&' were written bare but are not token bytes (repaired by a fix: commit). The tree-level round trip sen.Parse(writer(v)) = v is decided on the real code: every special spelling as value/key/array element, all strings of length <= 2 over a 54-piece alphabet as value and key, seeded trees x options, through sen.String/Bytes/Write and pretty.SEN/WriteSEN; a failure is attributed to the known class only if the tree with exactly those strings defused round-trips.",
   technique="Coq proof of writer-class / parser-table consistency over regenerated tables + exhaustive short-string and seeded round-trip correspondence",
   design='6/C10'),
 'C11': dict(
   text="Has, First and Locate are modelled in Coq as separately defined evaluators (depth-first search with early exit; selection that carries normalized paths) over the fragment denotation of C05. Proved for all paths and data: Has is true exactly when Get is non-empty, First is the head of Get's result list (hence a member), and the values Locate points at are exactly Get's results in order. The real Has, FirstFound, Locate (every reported path re-evaluated with Get), Expr.Walk, GetNodes/FirstNode/Get on gen data, Get/Has on Keyed+Indexed wrappers and typed slices are compared with the extracted first_spec/has_spec/locate_spec/get_spec on seeded paths x trees. One genuine disagreement (slice normalisation of Locate/Walk, pinned by tests) is a recorded known finding, decided by an extracted specification variant.",
   technique="Coq proofs relating separately modelled evaluators to the Get denotation + correspondence of eight real evaluators and four data representations",
   design='6/C11'),
 'C17': dict(
   text="match_spec (Coq) specifies the streaming Match: one callback per outermost location some target selects (Locate denotation of C11), in document order, with the value at that location. Proved: every reported location is selected, none lies below another selected location, and each (path, value) is a location of the document. oj.Match, oj.MatchString, oj.MatchLoad (one piece, 1-byte reads, a random split) and sen.Match are compared, callback sequence by callback sequence, with the extracted match_spec on seeded documents x 1-2 seeded targets (child, index, wildcard, union, descent, trailing filter). Three genuine limitations of the streaming handler are recorded known findings (slice/negative-index targets; a filter target shadowing another target; a descent in front of a trailing filter), each attributed per case.",
   technique="Coq specification of outermost-match with proved laws + callback-sequence correspondence under all chunkings",
   design='6/C17'),
 'C07': dict(
   text="Proved in Coq (Reuse/Discipline.v) for any instance type whose fields are classified as reset (stored by the prologue of every entry point), configuration (never written by the body) or scratch (written by the body before it is read): after ANY history of calls, successful or not, the next call returns what a fresh instance with the same configuration returns (reuse_eq_fresh, history_eq_fresh). The classification of oj.Parser, oj.Validator, oj.Tokenizer, gen.Parser, sen.Parser, sen.Tokenizer, oj.Writer and sen.Writer is checked on every run against the struct definitions and the assignments of every entry method REGENERATED from /repo (C07_fields_covered: no unclassified field, every reset field assigned by every entry point). The write-before-read assumption on the bodies and the pooled package-level functions are decided by the history suite: 2-8 calls per history on one instance or through the pools, each call compared with a fresh instance, inputs that stop in every scratch state, failing readers and writers, panicking callbacks, option changes between calls; values returned earlier are re-inspected after every later call with the caller's buffers overwritten.",
   technique="Coq proof of history-independence under a field discipline + translator-regenerated field/assignment lists discharged by computation + call-history correspondence against fresh instances",
   design='6/C07'),
 'C08': dict(
   text="Proved in Coq (Conc/Pool.v) for any number of threads, any programs and EVERY schedule, including the runtime dropping pooled instances at any moment: an instance taken from the pool is never owned by two threads nor owned while pooled (ownership invariant by induction over the schedule), and with instances under the C07 field discipline every finished thread holds exactly the results of running each of its calls alone on a fresh instance (schedule independence). The pool protocol of the real package-level functions is regenerated from oj/oj.go and sen/sen.go on every run and discharged by computation: every pool Get has a deferred Put on the same pool and no function returns the pooled writer's buffer. What a proof about the model cannot exhibit - that the real call bodies touch nothing but their instance, their arguments and immutable shared objects (jp.Expr, Script templates, struct-info caches under their mutex, the pre-registered recomposer) - is observed: 8-16 goroutines run seeded sequences of 30 kinds of calls with shared expressions, scripts, options and struct types under the Go race detector, each result is compared with the same sequence run alone, and every returned buffer is re-read at the end of the round.",
   technique="Coq proof of pool ownership and schedule independence for all interleavings + regenerated pool-protocol facts + race-detector and sequential-equivalence correspondence runs",
   design='6/C08'),
 'C15': dict(
   text="Enc/Struct.v specifies, for struct types and values given as data, the tree the option documentation prescribes (UseTags / KeyExact / lower-case naming, NestEmbed, OmitNil, OmitEmpty, CreateKey, ,omitempty and ,string tags, '-' tags, unexported fields, flattened and nested embedded structs, nil pointers anywhere, the documented difference for objects left empty by alt.Decompose). Proved for all options, types and values: the object of a struct is the create key followed by per-field contributions that depend on their own field only; hence an omitempty tag never changes another field's member, and its own member is unchanged or dropped as a whole. Tied to the code on every run: struct types are generated with reflect.StructOf (field kinds incl. ten integer kinds, pointers, slices, maps, interfaces holding structs, nested and embedded named structs, nil embedded pointers, all tag forms), three values each, all 32 option combinations with and without CreateKey, by pointer and by value; oj.JSON (tight and indented), oj.Marshal, oj.Write, sen.String (tight and indented), pretty.JSON and alt.Decompose are parsed back and compared with the extracted specification, and oj.Marshal with the Go options with encoding/json. Three genuine divergences are recorded as known findings, each attributed per case by an extracted specification variant or a defused witness.",
   technique="Coq specification of struct encoding with proved locality of omitempty + correspondence of eight encoder entry points on run-time generated struct types against the extracted specification and encoding/json",
   design='6/C15'),
 'C16': dict(
   text="Proved in Coq: decoding the exact-key encoding of any well-typed value of a struct type (nested structs, pointers, slices, maps; Enc/Recompose.v dec against Enc/Struct.v enc) gives the value back with nil and empty containers identified (dec_enc, nested induction over values); a registry whose keys tell types apart gives every type its own field index after ANY history of recompositions (index_independent_of_history), while a key that does not - a shared short name, the empty name of anonymous types - makes the outcome history dependent (refutation with a witness). The registry discipline of alt/recomposer.go is regenerated on every run (which functions look composers up by name, which compare the composer's type) and discharged by computation. Decided on the real code: struct types generated with reflect.StructOf plus named types, seeded values, Decompose (exact / lower-case / tag keys, create key) -> Recompose on a fresh Recomposer and on one with a seeded history of other recompositions (same-named types from another package, named and anonymous types), oj.Marshal -> oj.Unmarshal and sen.String -> sen.Unmarshal through the default recomposer, compared as canonical JSON.",
   technique="Coq proofs of decode-after-encode and of history independence of a type-keyed registry (+ refutation for name keys) + regenerated registry facts + round-trip correspondence on run-time generated types with seeded registration histories",
   design='6/C16'),
 'C18': dict(
   text="Proved in Coq for all typed simple trees (ten Go integer kinds, uint64 wrap made explicit) and both OmitNil settings: Simplify after Generify equals Decompose; on JSON-like data with nulls kept Decompose/Dup/Alter is the identity, hence the Generify/Simplify trip is the identity; Generify after Simplify gives the generic tree back; the writers see the same tree in a generic value and in its Simplify; Generify never leaves the int64 range. Deep copy is proved on a model of containers with identity (Alt/Store.v): a copy allocates a fresh identity for every container, denotes the same value, and an in-place mutation of any container of either tree leaves the other unchanged. Tied to the code on every run: alt.Generify/GenAlter/Decompose/Dup/Alter, Node.Simplify/Alter against the extracted functions on typed trees x OmitNil; writer text of gen tree vs Simplify for oj/sen/pretty; gen.Parser vs Generify(oj.Parser); the storage identities of every container of original and copy are observed (reflect pointers) and three in-place mutations are applied to every container of the copy and of the original for five copying operations.",
   technique="Coq proofs of the conversion laws and of copy independence on a store model + correspondence of the kind switches and observed container identities / mutate-after-copy experiments",
   design='6/C18'),
 'C20': dict(
   text="Asm/Eval.v is an executable Coq model of the plan evaluator for 37 functions (asm, set, setall, del, delall, get, getall, int64 arithmetic with wrap, string sum, equality, the order tests with their short-circuit, and/or/not, cond, list, quote, nth, size, reverse, append, include, the type predicates, int, each with a local map), total by construction; it abstains on floats, on paths it cannot update functionally and where the implementation's sharing of stored values could matter (tracked by a taint flag and a cycle test). Proved in Coq for every plan, root and state (induction over the plan with one loop invariant per evaluation loop): if every set/setall/del/delall names a path whose first member is not src, the member src of the root is the same after any completed evaluation (Frame.safe_deepk, plan_keeps_src). Decided on the real code per seeded plan x root: Execute neither panics nor hangs; the result root equals the model's where the model decides; a second plan from the same description and a second Execute of the same Plan give the same result; Plan.Simplify() and Plan.String() rebuild a plan with the same behaviour; $.src is unchanged unless an updating function names a location under it. Four genuine findings are recorded and attributed per case by re-running a defused plan.",
   technique="Coq model of the evaluator with a proved frame theorem for $.src + model/implementation correspondence and determinism / print-rebuild laws on seeded plans",
   design='6/C20'),
 'C19': dict(
   text="diff, jeq and jmatch (Alt/Diff.v) specify alt.Diff, Compare and Match on JSON-like trees (numbers by value across int/float, null equal to an absent member, ignore paths with wildcards applied per key and per index, a shorter second array reported once). Proved for all pairs of trees: Diff without ignore paths is empty exactly when the trees are equal in that sense, and Compare is nil exactly when Diff is empty. alt.Diff (simple and gen data, compared as sets of paths), alt.Compare and alt.Match are compared with the extracted functions on directed pairs (ignore paths at different indexes, wildcards) and seeded trees with 0-3 perturbations and 0-2 ignore paths.",
   technique="Coq proof that the Diff specification is empty iff trees are equal + correspondence of Diff/Compare/Match against the extracted specification",
   design='6/C19'),
 'C14': dict(
   text="Proved in Coq: the string-literal codec of JSONPath text (jp.AppendString with the escape classes regenerated from jp/string.go, read back by the model of readStr/readEscStr) is the identity on every string of bytes below 0x80 for both quote characters in any following context. Decided by correspondence: jp.AppendString vs the model on all 1-byte and 896 2-byte ASCII strings; seeded expressions (keys mixing quotes, backslashes, control, punctuation, non-ASCII) through String()/BracketString() and seeded equation trees through Equation/Script/Filter String(): the text must parse, print identically again, and evaluate as the ORIGINAL tree denotes (get_spec / script_match of C05/C12 as oracle). One genuine defect pinned by a test is a recorded known finding.",
   technique="Coq proof of the string-literal round trip + print/parse/evaluate correspondence against the Coq denotation of the original tree",
   design='6/C14'),
 'C13': dict(
   text="Set, Del, Remove and Modify are specified in Coq as functional updates at the normalized paths the expression locates. Proved for every normalized path, update function and document: effect (afterwards the location holds the new value) and frame (every location diverging from the updated one keeps its value). The real Set/SetOne/Del/DelOne/Remove/RemoveOne/Modify/ModifyOne on simple and gen data are compared with the extracted specifications (the *One forms against the per-location candidates) on seeded paths x trees x values whenever the model says the request needs no element creation and the selected locations do not contain one another; panics are violations. Two genuine defects are recorded as known findings, each decided by an extracted specification variant.",
   technique="Coq proofs of frame and effect for path updates + correspondence of eight mutation entry points against extracted update specifications",
   design='6/C13'),
 'C12': dict(
   text="The script denotation (apply_bin/evals/script_match in Jp/Expr.v, numbers as exact rationals) is the executable Coq specification of the operator documentation; proved for all operands: == and != are complements, mismatched kinds and containers are unequal, ordering between different kinds is false, int/float compare by value, a missing path is Nothing for exists/has, evaluation is total (always yields a value), and Match(v) is membership in the filter result. Script.Match and filters are compared with the extracted denotation on the complete operator x left-kind x right-kind matrix (16 x 16 x 16 plus constants, missing paths and Nothing) and on seeded nested equations; every panic of the real code is a violation.",
   technique="Coq-specified operator semantics with proved laws + exhaustive operand-kind matrix correspondence",
   design='6/C12'),
 'C06': dict(
   text="Proved in Coq for the four JSON front-ends: no control state reachable on any input faults on any byte (Sweep.ctl_never_faults, from the same sweep as C01; the control-level faults are the literal-word index). Data-level faults (nil-map write in add, p.stack[0], slice bounds) are modelled as Fault outcomes of the machine and checked by correspondence on the fault-directed streams (mutated near-valid inputs, exhaustive short strings); every panic of the real code is a violation.",
   technique="Coq proof (control never faults, all inputs) + fault-outcome model and correspondence for data faults",
   design='6/C06'),
 'C09': dict(
   text="Proved in Coq for oj.Parser, oj.Validator, oj.Tokenizer and gen.Parser: whenever the machine rejects w with (line, col), that pair designates the end of a prefix p of w that can still be completed to a valid JSON text (RefLive.ref_live: every reachable configuration of the reference recogniser has an accepting completion), and either p = w (only incomplete) or no extension of p plus the next byte is valid (PositionSpec.error_position_spec); line/column arithmetic is proved from the generated tables (newline actions fire exactly on 0x0A). The same statement for all four machines gives front-end independence; chunking independence is by correspondence (reader variants vs model).",
   technique="Coq proof: position invariant + control simulation + liveness of the reference recogniser; correspondence for the tie",
   design='6/C09'),
}

def main():
    checks = []
    for pid in sorted(CHECKS):
        c = CHECKS[pid]
        checks.append({
            'property_id': pid,
            'quick_cmd': './check %s quick' % pid,
            'thorough_cmd': './check %s thorough' % pid,
            'evidence_file': '/verif/evidence/%s.json' % pid,
            'replay_cmd_template': './check %s --replay {path}' % pid,
            'engine': 'coq-model-correspondence',
            'level_claimed': {'category': 'proof', 'text': c['text'], 'design_ref': 'DESIGN.md §' + c['design']},
            'level_note': c.get('note', LEVEL_NOTE_COMMON),
            'technique': c['technique'],
        })
    na = [{'property_id': p, 'reason': 'check not built yet in this revision (model and harness in progress); not a claim that the technique cannot apply'}
          for p in ALL if p not in CHECKS]
    m = {
        'version': 1,
        'setup_cmd': 'cd /verif && ./setup.sh',
        'hooks': {'guard': 'verif', 'enable': 'go build -tags verif (the harness module replaces github.com/ohler55/ojg with /repo)',
                  'baseline_off_cmd': 'cd /repo && GOFLAGS=-mod=mod go test -vet=off -count=1 ./...',
                  'source_commits': [], 'add_only': True},
        'engines': [{'name': 'coq-model-correspondence', 'path': '/verif/check',
                     'serves_properties': sorted(CHECKS),
                     'kind_free_text': 'Coq 8.16 development (/verif/coq) with translator-generated tables, extracted to OCaml (/verif/ocaml), compared with the real code by a Go harness (/verif/harness)'}],
        'checks': checks,
        'not_applicable': na,
        'notes': 'Known findings and fixed defects: /verif/known_findings.json. Design: /verif/DESIGN.md.',
    }
    json.dump(m, open(V + '/MANIFEST.json', 'w'), indent=1)

if __name__ == '__main__':
    main()
