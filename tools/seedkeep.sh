#!/bin/sh
# tools/seedkeep.sh <srcdir> <id> <property> <demo_pkg_dir> "<needs>" "<caught by>"
# Confirms a seeded change in a scratch worktree (applies, builds, unedited suite passes, demo
# fails with the change and passes without) and keeps it under /verif/seeded/<id>/.
src=$1; id=$2; prop=$3; pkg=$4; needs=$5; caught=$6
export GOFLAGS=-mod=mod GOPROXY=off GOSUMDB=off GOTOOLCHAIN=local
wt=/tmp/seedverify_$$
git -C /repo worktree add -q $wt HEAD || exit 2
cd $wt
demo=$(ls $src/*_test.go | head -1)
cp $demo $pkg/zz_seed_demo_test.go
without=$(go test -vet=off -count=1 ./$pkg/ 2>&1 | tail -1)
git apply $src/patch.diff || { echo "patch does not apply"; cd /; git -C /repo worktree remove --force $wt; exit 2; }
build=$(go build ./... 2>&1 | tail -1)
with=$(go test -vet=off -count=1 ./$pkg/ 2>&1 | grep -c "^--- FAIL")
rm $pkg/zz_seed_demo_test.go
suite=$(go test -vet=off -count=1 ./... 2>&1 | grep -v "no test files" | grep -vc "^ok")
cd /
git -C /repo worktree remove --force $wt
echo "without-change demo: $without | build: [$build] | demo failures with change: $with | suite packages not ok with change: $suite"
case "$without" in ok*) ;; *) echo "REJECT: demo does not pass without the change"; exit 1;; esac
[ "$with" -ge 1 ] || { echo "REJECT: demo does not fail with the change"; exit 1; }
[ "$suite" -eq 0 ] || { echo "REJECT: existing suite fails with the change"; exit 1; }
mkdir -p /verif/seeded/$id
cp $src/patch.diff /verif/seeded/$id/patch.diff
cp $demo /verif/seeded/$id/demo_test.go
[ -f $src/README.txt ] && cp $src/README.txt /verif/seeded/$id/README.txt
python3 - "$id" "$prop" "$pkg" "$needs" "$caught" "$without" "$with" <<'PY'
import json,sys
id,prop,pkg,needs,caught,without,withc=sys.argv[1:8]
json.dump({"id":id,"breaks_property":prop,"demo_package_dir":pkg,"needs_to_manifest":needs,
 "confirmed":{"patch_applies_to_repo_HEAD":True,"go_build":"ok","existing_suite_with_change":"all packages ok",
   "demo_without_change":without,"demo_failures_with_change":int(withc),
   "how":"tools/seedkeep.sh in a scratch worktree of /repo under /tmp (removed afterwards)"},
 "caught_by":caught,"how_checked":"tools/seedtest.sh <patch> <props> (git -C /repo apply; ./check <prop> quick; git -C /repo checkout -- .)"},
 open('/verif/seeded/%s/meta.json'%id,'w'),indent=1)
PY
echo kept $id
