#!/bin/sh
# tools/seedkeepn.sh <PROP> <i> <pkgdir> "<needs>" "<caught by>" : keep change i of /tmp/seedout_<PROP>
prop=$1; i=$2; pkg=$3; needs=$4; caught=$5
d=/tmp/seedkeep_$prop-$i; rm -rf $d; mkdir -p $d
cp /tmp/seedout_$prop/patch$i.diff $d/patch.diff; cp /tmp/seedout_$prop/demo${i}_test.go $d/demo_test.go; cp /tmp/seedout_$prop/README.txt $d/README.txt
n=$(ls /verif/seeded | grep -c "^$prop-"); id="$prop-$((n+1))"
/verif/tools/seedkeep.sh $d $id $prop $pkg "$needs" "$caught" 2>&1 | tail -2
[ -d /verif/seeded/$id ] && rm -rf $d
