(* Line-oriented driver around the extracted Coq model. Trusted glue: hex <-> byte list,
   int <-> Z. One result line per request line. *)
open Model

let byte_of_int (i : int) : byte = Obj.magic i
let int_of_byte (b : byte) : int = Obj.magic b

let bytes_of_hex (s : string) : byte list =
  let n = String.length s / 2 in
  let hv c = match c with
    | '0'..'9' -> Char.code c - 48 | 'a'..'f' -> Char.code c - 87 | 'A'..'F' -> Char.code c - 55
    | _ -> failwith "bad hex" in
  let rec go i acc = if i < 0 then acc else go (i - 1) (byte_of_int (hv s.[2*i] * 16 + hv s.[2*i+1]) :: acc) in
  go (n - 1) []

let string_of_bytes (l : byte list) : string =
  let b = Buffer.create 64 in
  List.iter (fun x -> Buffer.add_char b (Char.chr (int_of_byte x))) l;
  Buffer.contents b

let bytes_of_string (s : string) : byte list =
  let rec go i acc = if i < 0 then acc else go (i - 1) (byte_of_int (Char.code s.[i]) :: acc) in
  go (String.length s - 1) []

let rec pos_of_int (n : int) : positive =
  if n = 1 then XH else if n land 1 = 1 then XI (pos_of_int (n lsr 1)) else XO (pos_of_int (n lsr 1))
let z_of_int (n : int) : z = if n = 0 then Z0 else if n > 0 then Zpos (pos_of_int n) else Zneg (pos_of_int (-n))

(* decimal string (possibly huge) -> Z, through the extracted arithmetic *)
let z_of_string (s : string) : z =
  let neg = String.length s > 0 && s.[0] = '-' in
  let ten = z_of_int 10 in
  let acc = ref Z0 in
  String.iteri (fun i c -> if not (i = 0 && neg) then
    acc := Z.add (Z.mul !acc ten) (z_of_int (Char.code c - 48))) s;
  if neg then Z.opp !acc else !acc

let handle (line : string) : string =
  match String.split_on_char ' ' line with
  | ["parse"; fe; hex] -> string_of_bytes (model_parse (z_of_int (int_of_string fe)) (bytes_of_hex hex))
  | ["chunks"; fe; hexes] ->
      let cs = List.map bytes_of_hex (List.filter (fun x -> x <> "") (String.split_on_char ',' hexes)) in
      string_of_bytes (model_parse_chunks (z_of_int (int_of_string fe)) cs)
  | ["accept"; one; hex] -> if spec_accepts (one = "1") (bytes_of_hex hex) then "1" else "0"
  | ["spec"; one; hex] -> string_of_bytes (spec_parse (one = "1") true (bytes_of_hex hex))
  | ["speck"; one; hex] -> string_of_bytes (spec_parse (one = "1") false (bytes_of_hex hex))
  | _ -> Dispatch.handle line

let () =
  try
    while true do
      let line = input_line stdin in
      let out = try handle line with e -> "!EXC " ^ Printexc.to_string e in
      print_string out; print_char '\n'
    done
  with End_of_file -> ()
