(* further commands are added here as more models are extracted *)
let handle (line : string) : string = "!UNKNOWN " ^ line
