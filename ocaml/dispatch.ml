(* further commands: <cmd>\t<arg>\t<arg>... (tab separated because arguments contain spaces) *)
open Model
open Sexp

let string_of_bytes (l : byte list) : string =
  let b = Buffer.create 64 in
  List.iter (fun x -> Buffer.add_char b (Char.chr (Obj.magic x : int))) l;
  Buffer.contents b

let handle (line : string) : string =
  match String.split_on_char '\t' line with
  | ["get"; path; data] ->
      let x = parse_path { s = path; i = 0 } in
      let d = parse_jv { s = data; i = 0 } in
      string_of_bytes (model_get x d)
  | [("locate" | "locates" | "first" | "has") as cmd; path; data] ->
      let x = parse_path { s = path; i = 0 } in
      let d = parse_jv { s = data; i = 0 } in
      string_of_bytes ((match cmd with "locate" -> model_locate | "locates" -> model_locate_ses | "first" -> model_first | _ -> model_has) x d)
  | [("mutate" | "mutate1" | "mutatek" | "mutate1k") as cmd; op; path; data; value] ->
      let x = parse_path { s = path; i = 0 } in
      let d = parse_jv { s = data; i = 0 } in
      let v = parse_jv { s = value; i = 0 } in
      let o = z_of_int (int_of_string op) in
      let incl = (cmd = "mutatek" || cmd = "mutate1k") in
      string_of_bytes ((if cmd = "mutate" || cmd = "mutatek" then model_mutate else model_mutate_one) incl o x d v)
  | ["locatev"; mode; ses; path; data] ->
      let x = parse_path { s = path; i = 0 } in
      let d = parse_jv { s = data; i = 0 } in
      string_of_bytes (model_locate_rv (z_of_int (int_of_string mode)) (z_of_int (int_of_string ses)) x d)
  | [("mutatel" | "mutatelk") as cmd; op; path; data; value] ->
      let x = parse_path { s = path; i = 0 } in
      let d = parse_jv { s = data; i = 0 } in
      let v = parse_jv { s = value; i = 0 } in
      string_of_bytes (model_mutate_live (cmd = "mutatelk") (z_of_int (int_of_string op)) x d v)
  | ["jpstr"; hex; delim] ->
      string_of_bytes (model_jpstr (bytes_of_hex hex) (List.hd (bytes_of_hex delim)))
  | ["senstr"; html; hex] ->
      string_of_bytes (hexs (sen_string (html = "1") (bytes_of_hex hex)))
  | ["senarr"; html; hexes] ->
      let xs = List.map bytes_of_hex (List.tl (String.split_on_char ',' hexes)) in
      string_of_bytes (hexs (sen_array (html = "1") xs))
  | ["senobj"; html; hexes] ->
      let rec pairs l = match l with k :: v :: r -> (bytes_of_hex k, bytes_of_hex v) :: pairs r | _ -> [] in
      string_of_bytes (hexs (sen_object (html = "1") (pairs (List.tl (String.split_on_char ',' hexes)))))
  | ["senreadobj"; hex] ->
      string_of_bytes (show_read_object (bytes_of_hex hex))
  | ["senreadarr"; hex] ->
      string_of_bytes (show_read_array (bytes_of_hex hex))
  | ["senread"; hex] ->
      string_of_bytes (show_read (bytes_of_hex hex))
  | [("jppath" | "jppathb" | "jppath@" | "jppath-") as cmd; frags] ->
      let fr w = match w.[0] with
        | 'c' -> NChild (bytes_of_hex (String.sub w 1 (String.length w - 1)))
        | 'w' -> NWild (w = "w*")
        | 'd' -> NDescent
        | 'l' -> NSlice (List.map z_of_string (List.filter (fun x -> x <> "") (String.split_on_char ',' (String.sub w 1 (String.length w - 1)))))
        | 'u' ->
            let mem m = if m.[0] = 's' then Inl (bytes_of_hex (String.sub m 1 (String.length m - 1)))
                        else Inr (z_of_string (String.sub m 1 (String.length m - 1))) in
            NUnion (List.map mem (List.filter (fun x -> x <> "") (String.split_on_char ',' (String.sub w 1 (String.length w - 1)))))
        | _ -> NNth (z_of_string (String.sub w 1 (String.length w - 1))) in
      let fs = List.map fr (List.filter (fun x -> x <> "") (String.split_on_char ' ' frags)) in
      string_of_bytes (hex_of_bytes ((match cmd with "jppath" -> print_path | "jppathb" -> print_path_b
                                      | "jppath@" -> print_path_h HAt | _ -> print_path_h HNone) fs))
  | ["jpparse"; hex] ->
      string_of_bytes (model_jpparse (bytes_of_hex hex))
  | ["jpparseh"; hex] ->
      string_of_bytes (model_jpparse_h (bytes_of_hex hex))
  | ["jpread"; delim; hex] ->
      string_of_bytes (model_jpread (List.hd (bytes_of_hex delim)) (bytes_of_hex hex))
  | ["write"; indent; mask; limit; data] ->
      let d = parse_jv { s = data; i = 0 } in
      string_of_bytes (model_write (z_of_int (int_of_string indent)) (z_of_int (int_of_string mask)) (z_of_int (int_of_string limit)) d)
  | ["diff"; a; b; ign] ->
      let pa = parse_jv { s = a; i = 0 } in
      let pb = parse_jv { s = b; i = 0 } in
      (* ignore paths: ';'-separated, each a space-separated list of k<hex> / i<int> / * *)
      let elem w = match w.[0] with
        | 'k' -> PKey (bytes_of_hex (String.sub w 1 (String.length w - 1)))
        | 'i' -> PIdx (z_of_string (String.sub w 1 (String.length w - 1)))
        | _ -> PWild in
      let paths = List.filter (fun x -> x <> "") (String.split_on_char ';' ign) in
      let ig = List.map (fun p -> List.map elem (List.filter (fun x -> x <> "") (String.split_on_char ' ' p))) paths in
      string_of_bytes (model_diff pa pb ig)
  | ["matchdoc"; targets; data] ->
      let ts = List.map (fun t -> parse_path { s = t; i = 0 }) (List.filter (fun x -> x <> "") (String.split_on_char ';' targets)) in
      let d = parse_jv { s = data; i = 0 } in
      string_of_bytes (model_matchdoc ts d)
  | ["convert"; omit; data] ->
      let d = parse_sv { s = data; i = 0 } in
      string_of_bytes (model_convert (omit = "1") d)
  | ["asm"; plan; data] ->
      let c = { s = plan; i = 0 } in
      let rec args acc = skip_ws c; if peek c = '\000' then List.rev acc else args (parse_arg c :: acc) in
      let d = parse_jv { s = data; i = 0 } in
      string_of_bytes (model_asm (args []) d)
  | ["enc"; flags; ck; t; v] ->
      let b i = flags.[i] = '1' in
      let o = { o_tags = b 0; o_exact = b 1; o_nest = b 2; o_omitnil = b 3; o_omitempty = b 4;
                o_ck = (if ck = "-" then None else Some (bytes_of_hex ck)); o_decomp = b 5; o_tagexact = b 6; o_derefempty = b 7 } in
      string_of_bytes (model_enc o (parse_ty { s = t; i = 0 }) (parse_gv { s = v; i = 0 }))
  | ["match"; eq; data] ->
      let e = parse_eqn { s = eq; i = 0 } in
      let d = parse_jv { s = data; i = 0 } in
      string_of_bytes (model_match e d)
  | _ -> "!UNKNOWN " ^ line
