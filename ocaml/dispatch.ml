(* further commands: <cmd>\t<arg>\t<arg>... (tab separated because arguments contain spaces) *)
open Model
open Sexp

let string_of_bytes (l : byte list) : string =
  let b = Buffer.create 64 in
  List.iter (fun x -> Buffer.add_char b (Char.chr (Obj.magic x : int))) l;
  Buffer.contents b

let handle (line : string) : string =
  match String.split_on_char '\t' line with
  | ["get"; path; data] ->
      let x = parse_path { s = path; i = 0 } in
      let d = parse_jv { s = data; i = 0 } in
      string_of_bytes (model_get x d)
  | [("locate" | "locates" | "first" | "has") as cmd; path; data] ->
      let x = parse_path { s = path; i = 0 } in
      let d = parse_jv { s = data; i = 0 } in
      string_of_bytes ((match cmd with "locate" -> model_locate | "locates" -> model_locate_ses | "first" -> model_first | _ -> model_has) x d)
  | [("mutate" | "mutate1" | "mutatek" | "mutate1k") as cmd; op; path; data; value] ->
      let x = parse_path { s = path; i = 0 } in
      let d = parse_jv { s = data; i = 0 } in
      let v = parse_jv { s = value; i = 0 } in
      let o = z_of_int (int_of_string op) in
      let incl = (cmd = "mutatek" || cmd = "mutate1k") in
      string_of_bytes ((if cmd = "mutate" || cmd = "mutatek" then model_mutate else model_mutate_one) incl o x d v)
  | ["jpstr"; hex; delim] ->
      string_of_bytes (model_jpstr (bytes_of_hex hex) (List.hd (bytes_of_hex delim)))
  | ["write"; indent; mask; limit; data] ->
      let d = parse_jv { s = data; i = 0 } in
      string_of_bytes (model_write (z_of_int (int_of_string indent)) (z_of_int (int_of_string mask)) (z_of_int (int_of_string limit)) d)
  | ["match"; eq; data] ->
      let e = parse_eqn { s = eq; i = 0 } in
      let d = parse_jv { s = data; i = 0 } in
      string_of_bytes (model_match e d)
  | _ -> "!UNKNOWN " ^ line
