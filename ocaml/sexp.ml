(* Parsers for the harness' text forms of values (the Jv.show format), JSONPath expressions
   and filter equations, building the extracted Coq inductives. Trusted glue. *)
open Model

let byte_of_int (i : int) : byte = Obj.magic i
let hexv c = match c with
  | '0'..'9' -> Char.code c - 48 | 'a'..'f' -> Char.code c - 87 | 'A'..'F' -> Char.code c - 55
  | _ -> failwith "bad hex"
let bytes_of_hex (s : string) : byte list =
  let n = String.length s / 2 in
  let rec go i acc = if i < 0 then acc else go (i - 1) (byte_of_int (hexv s.[2*i] * 16 + hexv s.[2*i+1]) :: acc) in
  go (n - 1) []
let bytes_of_string (s : string) : byte list =
  let rec go i acc = if i < 0 then acc else go (i - 1) (byte_of_int (Char.code s.[i]) :: acc) in
  go (String.length s - 1) []

let rec pos_of_int (n : int) : positive =
  if n = 1 then XH else if n land 1 = 1 then XI (pos_of_int (n lsr 1)) else XO (pos_of_int (n lsr 1))
let z_of_int (n : int) : z = if n = 0 then Z0 else if n > 0 then Zpos (pos_of_int n) else Zneg (pos_of_int (-n))
let z_of_string (s : string) : z =
  let neg = String.length s > 0 && s.[0] = '-' in
  let ten = z_of_int 10 in
  let acc = ref Z0 in
  String.iteri (fun i c -> if not (i = 0 && (neg || c = '+')) then
    acc := Z.add (Z.mul !acc ten) (z_of_int (Char.code c - 48))) s;
  if neg then Z.opp !acc else !acc

type cur = { s : string; mutable i : int }
let peek c = if c.i < String.length c.s then c.s.[c.i] else '\000'
let adv c = c.i <- c.i + 1
let skip_ws c = while peek c = ' ' do adv c done
let word c =
  let st = c.i in
  while (let ch = peek c in ch <> ' ' && ch <> ')' && ch <> '(' && ch <> ']' && ch <> '}' && ch <> '\000') do adv c done;
  String.sub c.s st (c.i - st)

(* the Jv.show format *)
let rec parse_jv c : jv =
  skip_ws c;
  match peek c with
  | '[' -> adv c;
      let rec items acc = skip_ws c; if peek c = ']' then (adv c; List.rev acc) else items (parse_jv c :: acc) in
      JArr (items [])
  | '{' -> adv c;
      let rec mems acc =
        skip_ws c;
        if peek c = '}' then (adv c; List.rev acc)
        else begin
          let k = word c in
          if String.length k = 0 || k.[0] <> 'k' then failwith "key expected";
          let key = bytes_of_hex (String.sub k 1 (String.length k - 1)) in
          let v = parse_jv c in
          mems ((key, v) :: acc)
        end in
      JObj (mems [])
  | _ ->
      let w = word c in
      if w = "" then failwith "value expected";
      let rest = String.sub w 1 (String.length w - 1) in
      (match w.[0] with
       | 'n' -> JNull | 't' -> JBool true | 'f' -> JBool false
       | 'i' -> JInt (z_of_string rest)
       | 'd' -> JFloat (bytes_of_string rest)
       | 'b' -> JBig (bytes_of_string rest)
       | 's' -> JStr (bytes_of_hex rest)
       | _ -> failwith ("bad value token " ^ w))

(* typed simple values: like parse_jv with I<kind>:<dec> integers *)
let rec parse_sv c : tval =
  skip_ws c;
  match peek c with
  | '[' -> adv c;
      let rec items acc = skip_ws c; if peek c = ']' then (adv c; List.rev acc) else items (parse_sv c :: acc) in
      VArr (items [])
  | '{' -> adv c;
      let rec mems acc =
        skip_ws c;
        if peek c = '}' then (adv c; List.rev acc)
        else begin
          let k = word c in
          if String.length k = 0 || k.[0] <> 'k' then failwith "key expected";
          let key = bytes_of_hex (String.sub k 1 (String.length k - 1)) in
          let v = parse_sv c in
          mems ((key, v) :: acc)
        end in
      VMap (mems [])
  | _ ->
      let w = word c in
      if w = "" then failwith "value expected";
      let rest = String.sub w 1 (String.length w - 1) in
      (match w.[0] with
       | 'n' -> VNil | 't' -> VBool true | 'f' -> VBool false
       | 'I' -> (match String.split_on_char ':' rest with
                 | [k; z] -> VInt (z_of_string k, z_of_string z)
                 | _ -> failwith "bad typed int")
       | 'd' -> VFloat (bytes_of_string rest)
       | 's' -> VStr (bytes_of_hex rest)
       | _ -> failwith ("bad value token " ^ w))

let expect c ch = skip_ws c; if peek c <> ch then failwith (Printf.sprintf "expected %c at %d" ch c.i); adv c

let opcode_of = function
  | "eq" -> OEq | "neq" -> ONeq | "lt" -> OLt | "gt" -> OGt | "lte" -> OLte | "gte" -> OGte
  | "or" -> OOr | "and" -> OAnd | "not" -> ONot | "add" -> OAdd | "sub" -> OSub | "mul" -> OMul
  | "div" -> ODiv | "in" -> OIn | "empty" -> OEmpty | "has" -> OHas | "exists" -> OExists
  | "length" -> OLength | "count" -> OCount | s -> failwith ("bad op " ^ s)

let rec parse_frags c : frag list =
  skip_ws c;
  if peek c = ')' then (adv c; []) else
  let f = parse_frag c in f :: parse_frags c
and parse_frag c : frag =
  skip_ws c;
  if peek c = '(' then begin
    adv c;
    let tag = word c in
    match tag with
    | "c" -> skip_ws c; let h = word c in expect c ')'; FChild (bytes_of_hex h)
    | "n" -> skip_ws c; let n = word c in expect c ')'; FNth (z_of_string n)
    | "u" ->
        let rec items acc =
          skip_ws c;
          if peek c = ')' then (adv c; List.rev acc)
          else begin
            expect c '(';
            let t = word c in skip_ws c; let a = word c in expect c ')';
            items ((if t = "k" then UKey (bytes_of_hex a) else UIdx (z_of_string a)) :: acc)
          end in
        FUnion (items [])
    | "s" ->
        let rec ints acc = skip_ws c; if peek c = ')' then (adv c; List.rev acc) else ints (z_of_string (word c) :: acc) in
        FSlice (ints [])
    | "f" -> let e = parse_eqn c in expect c ')'; FFilter e
    | t -> failwith ("bad frag " ^ t)
  end else begin
    match word c with
    | "R" -> FRoot | "A" -> FAt | "W" -> FWild | "D" -> FDescent
    | t -> failwith ("bad frag word " ^ t)
  end
and parse_eqn c : eqn =
  skip_ws c;
  if peek c = '(' then begin
    adv c;
    let tag = word c in
    match tag with
    | "v" -> let v = parse_jv c in expect c ')'; EConst v
    | "p" -> EPath (parse_frags c)
    | "un" -> skip_ws c; let o = opcode_of (word c) in let a = parse_eqn c in expect c ')'; EUn (o, a)
    | "bin" -> skip_ws c; let o = opcode_of (word c) in let a = parse_eqn c in let b = parse_eqn c in expect c ')'; EBin (o, a, b)
    | t -> failwith ("bad eqn " ^ t)
  end else begin
    match word c with
    | "N" -> ENothing
    | t -> failwith ("bad eqn word " ^ t)
  end

(* "(p frags...)" *)
let parse_path c : frag list =
  expect c '(';
  let t = word c in
  if t <> "p" then failwith "path expected";
  parse_frags c

(* asm plan arguments: (l <jv>) | (p frags...) | (c <fname> args...) *)
let fname_of = function
  | "asm" -> FnAsm | "set" -> FnSet | "setall" -> FnSetall | "del" -> FnDel | "delall" -> FnDelall
  | "get" -> FnGet | "getall" -> FnGetall | "sum" -> FnSum | "dif" -> FnDif | "product" -> FnProduct
  | "quotient" -> FnQuotient | "mod" -> FnMod | "eq" -> FnEq | "neq" -> FnNeq | "lt" -> FnLt | "lte" -> FnLte
  | "gt" -> FnGt | "gte" -> FnGte | "and" -> FnAnd | "or" -> FnOr | "not" -> FnNot | "cond" -> FnCond
  | "list" -> FnList | "quote" -> FnQuote | "nth" -> FnNth | "size" -> FnSize | "reverse" -> FnReverse
  | "append" -> FnAppend | "include" -> FnInclude | "array?" -> FnIsArray | "bool?" -> FnIsBool | "map?" -> FnIsMap
  | "null?" -> FnIsNull | "num?" -> FnIsNum | "string?" -> FnIsString | "int" -> FnInt | "each" -> FnEach
  | s -> failwith ("bad asm function " ^ s)

let rec parse_arg c : arg =
  expect c '(';
  let tag = word c in
  match tag with
  | "l" -> let v = parse_jv c in expect c ')'; ALit v
  | "p" -> APath (parse_frags c)
  | "c" -> skip_ws c; let f = fname_of (word c) in
      let rec args acc = skip_ws c; if peek c = ')' then (adv c; List.rev acc) else args (parse_arg c :: acc) in
      ACall (f, args [])
  | t -> failwith ("bad arg " ^ t)

(* struct encoding: types and values *)
let hexw w = if w = "-" then [] else bytes_of_hex w
let rec parse_ty c : ty =
  skip_ws c;
  if peek c = '(' then begin
    adv c;
    let tag = word c in
    match tag with
    | "P" -> let t = parse_ty c in expect c ')'; TPtr t
    | "L" -> let t = parse_ty c in expect c ')'; TSlice t
    | "M" -> let t = parse_ty c in expect c ')'; TMap t
    | "S" -> skip_ws c; let name = hexw (word c) in
        let rec fields acc = skip_ws c; if peek c = ')' then (adv c; List.rev acc) else fields (parse_field c :: acc) in
        TStruct (name, fields [])
    | t -> failwith ("bad ty " ^ t)
  end else
    match word c with
    | "b" -> TBool | "i" -> TInt false | "I" -> TInt true | "f" -> TFloat | "s" -> TStr | "A" -> TAny
    | t -> failwith ("bad ty word " ^ t)
and parse_field c : field =
  expect c '(';
  let _ = word c in
  skip_ws c; let name = hexw (word c) in
  skip_ws c; let exported = (word c = "1") in
  skip_ws c; let has = (word c = "1") in
  skip_ws c; let tname = hexw (word c) in
  skip_ws c; let dash = (word c = "1") in
  skip_ws c; let omit = (word c = "1") in
  skip_ws c; let str = (word c = "1") in
  skip_ws c; let emb = (word c = "1") in
  let t = parse_ty c in
  expect c ')';
  Fld (name, exported, { t_has = has; t_name = tname; t_dash = dash; t_omit = omit; t_str = str }, emb, t)

let rec parse_gv c : gv =
  skip_ws c;
  if peek c = '(' then begin
    adv c;
    let tag = word c in
    match tag with
    | "P" -> let v = parse_gv c in expect c ')'; GPtr v
    | "L" -> let rec items acc = skip_ws c; if peek c = ')' then (adv c; List.rev acc) else items (parse_gv c :: acc) in GSlice (items [])
    | "S" -> let rec items acc = skip_ws c; if peek c = ')' then (adv c; List.rev acc) else items (parse_gv c :: acc) in GStruct (items [])
    | "M" -> let rec mems acc = skip_ws c; if peek c = ')' then (adv c; List.rev acc) else begin
               expect c '('; let k = word c in let v = parse_gv c in expect c ')';
               mems ((hexw (String.sub k 1 (String.length k - 1)), v) :: acc) end in
             GMap (mems [])
    | "A" -> let t = parse_ty c in let v = parse_gv c in expect c ')'; GAny (t, v)
    | t -> failwith ("bad gv " ^ t)
  end else begin
    let w = word c in
    let rest = String.sub w 1 (String.length w - 1) in
    match w.[0] with
    | 'n' -> GNil | 't' -> GBool true | 'f' -> GBool false
    | 'i' -> GInt (z_of_string rest)
    | 'd' -> GFloat (bytes_of_string rest)
    | 's' -> GStr (bytes_of_hex rest)
    | _ -> failwith ("bad gv token " ^ w)
  end
