#!/bin/sh
# Offline build of the whole framework from files on disk: translator, Coq development
# (full .vo), extraction + OCaml model driver, Go harness.
set -e
cd /verif
export GOFLAGS=-mod=mod GOPROXY=off GOSUMDB=off GOTOOLCHAIN=local CGO_ENABLED=0
mkdir -p bin evidence/replay
(cd translator && go build -o /verif/bin/translator .)
/verif/bin/translator -repo /repo -out /verif/coq/theories/Gen
(cd coq && coq_makefile -f _CoqProject -o Makefile >/dev/null && timeout 3000 make -j16 >/dev/null)
(cd ocaml && coqc -Q ../coq/theories Ojg ../coq/theories/Extract/Extract.v -o Extract.vo >/dev/null && \
   ocamlfind ocamlopt -O3 -w -a model.mli model.ml sexp.ml dispatch.ml driver.ml -o /verif/bin/model)
[ -f harness/go.sum ] || cp /repo/go.sum harness/go.sum 2>/dev/null || true
(cd harness && go build -tags verif -o /verif/bin/harness .)
echo setup ok
