// Package other holds struct types whose short names clash with types of the harness' main
// package (C16: the recomposer must not confuse them).
package other

type Inner struct {
	Q string
	A float64
}

type EmbA struct {
	P []int
	X string
}
