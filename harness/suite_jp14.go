package main

import (
	"fmt"
	"math"
	"regexp"
	"sort"
	"strings"

	"github.com/ohler55/ojg/jp"
)

var keyPieces = []string{"a", "b", "key", " ", "'", "\"", "\\", "\n", "\t", "\x01", "\x7f", ".", "[", "]", "*", "$", "@", "?", "(", ")", "é", "€", "😀", " ", "0", "-", "1a", "", "true", "null"}

func init() {
	// invisible and non-printable runes, inside and outside the BMP
	keyPieces = append(keyPieces, "\u200b", "\u00a0", "\u0085", "\U000E0001", "\U000E0001 x", "\U0010FFFF", "\ufeff", "\u2028")
}

func genKey(r *Rng) string {
	n := 1 + r.Intn(3)
	if r.Chance(10) {
		n = 0
	}
	var sb strings.Builder
	for i := 0; i < n; i++ {
		sb.WriteString(r.Pick(keyPieces))
	}
	return sb.String()
}

func withOddKeys(r *Rng, fs []Frag) []Frag {
	out := make([]Frag, len(fs))
	copy(out, fs)
	for i := range out {
		if out[i].Kind == "c" && r.Chance(50) {
			out[i].Key = genKey(r)
		}
		if out[i].Kind == "u" {
			items := append([]UItem(nil), out[i].Items...)
			for j := range items {
				if items[j].IsKey && r.Chance(50) {
					items[j].Key = genKey(r)
				}
			}
			out[i].Items = items
		}
	}
	return out
}

// a union of a single key has the same text as a child (and of a single index as an index):
// the text cannot tell them apart, so they are not part of "prints identically"
func noSingleUnions(fs []Frag) []Frag {
	for i := range fs {
		if fs[i].Kind == "u" && len(fs[i].Items) == 1 {
			fs[i].Items = append(fs[i].Items, UItem{Idx: 0})
		}
		if fs[i].Kind == "f" {
			fixEq(fs[i].Eq)
		}
	}
	return fs
}

func fixEq(e *Eqn) {
	if e == nil {
		return
	}
	if e.Kind == "p" {
		e.Path = noSingleUnions(e.Path)
	}
	fixEq(e.A)
	fixEq(e.B)
}

func suiteText(tier string, seed uint64, model string) *Report {
	rep := &Report{Property: "C14", Tier: tier, Seed: seed}
	r := NewRng(seed)
	n := 12000
	if tier == "thorough" {
		n = 600000
	}
	// ---- string literals: AppendString vs the Coq model, for all 1- and 2-byte ASCII strings
	var sreqs []string
	var strs []string
	for a := 0; a < 128; a++ {
		strs = append(strs, string([]byte{byte(a)}))
		for _, b := range []byte{'a', '\'', '"', '\\', 0x00, 0x1f, 'u'} {
			strs = append(strs, string([]byte{byte(a), b}))
		}
	}
	// and beyond ASCII: every byte alone and after a lead byte, runes of every width, the escaped
	// runes U+2028 / U+2029, U+FFFD itself, truncated, overlong and surrogate encodings
	for a := 128; a < 256; a++ {
		strs = append(strs, string([]byte{byte(a)}), string([]byte{'a', byte(a)}), string([]byte{0xc3, byte(a)}),
			string([]byte{0xe2, 0x80, byte(a)}), string([]byte{0xe2, byte(a), 0xa8}), string([]byte{0xf0, 0x9f, 0x98, byte(a)}), string([]byte{byte(a), '\'', 0x80}))
	}
	for _, u := range []string{"é", "€", "😀", "\u2028", "\u2029", "\ufffd", "\ufeff", "\xc3", "\xe2\x80", "\xff", "\xed\xa0\x80", "\xc0\x80", "\xf4\x90\x80\x80", "\xf0\x9f\x98"} {
		for _, v := range []string{"", "a", "'", "\"", "\\", "\n", "\x00", "é", "\xff", "\u2028"} {
			strs = append(strs, u+v, v+u, v+u+v)
		}
	}
	for _, s := range strs {
		sreqs = append(sreqs, "jpstr\t"+hx([]byte(s))+"\t27", "jpstr\t"+hx([]byte(s))+"\t22")
	}
	// the reader model (Jp/Str.v read_str) against the parser: what AppendString wrote, and
	// hand-made literals with every escape form, as the key of a bracketed child
	var rtexts []string
	var rdelims []byte
	for _, s := range strs {
		for _, delim := range []byte{'\'', '"'} {
			rtexts = append(rtexts, string(jp.AppendString(nil, s, delim)[1:])+"]")
			rdelims = append(rdelims, delim)
		}
	}
	for _, body := range []string{`a\nb`, `\b\t\n\f\r`, `\"\'\\`, `\u0041`, `\U0041`, `\u00e9`, `\ud83d\ude00`, `\uFFFF`, `\u00E9`, `\x41`, `\/`, `\a`, `\u12`, `\u12g4`, "é", "\xff", "a\"b", "a'b", ``, `\u0000`} {
		for _, delim := range []byte{'\'', '"'} {
			rtexts = append(rtexts, body+string(delim)+"]")
			rdelims = append(rdelims, delim)
		}
	}
	var rreqs []string
	for i, t := range rtexts {
		rreqs = append(rreqs, fmt.Sprintf("jpread\t%02x\t%s", rdelims[i], hx([]byte(t))))
	}
	type pc struct {
		path []Frag
		data any
	}
	var pcs []pc
	var reqs []string
	for i := 0; i < n; i++ {
		p := withOddKeys(r, noSingleUnions(genPath(r, 2)))
		d := genTree(r, 1+r.Intn(3))
		// make some of the odd keys present in the data
		if m, ok := d.(map[string]any); ok {
			for _, f := range p {
				if f.Kind == "c" {
					m[f.Key] = genScalar(r)
				}
			}
		}
		pcs = append(pcs, pc{p, d})
		reqs = append(reqs, "get\t"+PathSexp(p)+"\t"+Show(d))
	}
	type ec struct {
		eq   *Eqn
		data any
	}
	var ecs []ec
	for i := 0; i < n; i++ {
		e := genEqn(r, 1, 3)
		fixEq(e)
		d := genTree(r, 1+r.Intn(3))
		ecs = append(ecs, ec{e, d})
		reqs = append(reqs, "match\t"+e.Sexp()+"\t"+Show(d))
	}
	// every nesting of two arithmetic operators, on both sides, with operands for which the two
	// groupings differ (integer division, subtraction)
	arith := []string{"add", "sub", "mul", "div"}
	cst := func(v any) *Eqn { return &Eqn{Kind: "v", Const: v} }
	for _, o1 := range arith {
		for _, o2 := range arith {
			for _, ops := range [][3]any{{int64(3), int64(7), int64(2)}, {int64(9), int64(4), int64(3)}, {2.5, int64(7), int64(2)}, {int64(8), int64(3), 1.5}} {
				a, b, c := cst(ops[0]), cst(ops[1]), cst(ops[2])
				right := &Eqn{Kind: "bin", Op: o1, A: a, B: &Eqn{Kind: "bin", Op: o2, A: b, B: c}}
				left := &Eqn{Kind: "bin", Op: o2, A: &Eqn{Kind: "bin", Op: o1, A: a, B: b}, B: c}
				for _, shape := range []*Eqn{right, left} {
					for _, k := range []any{int64(9), int64(10), int64(0), int64(1), 10.5, int64(-1), int64(12)} {
						for _, cmp := range []string{"eq", "gt"} {
							e := &Eqn{Kind: "bin", Op: cmp, A: shape, B: cst(k)}
							ecs = append(ecs, ec{e, map[string]any{"a": int64(1)}})
							reqs = append(reqs, "match\t"+e.Sexp()+"\t"+Show(map[string]any{"a": int64(1)}))
						}
					}
				}
			}
		}
	}
	// a ! at the bottom right of two or three binary operators of rising precedence, itself the left
	// operand of a looser operator
	{
		pa := func(k string) *Eqn { return &Eqn{Kind: "p", Path: []Frag{{Kind: "A"}, {Kind: "c", Key: k}}} }
		not := func(e *Eqn) *Eqn { return &Eqn{Kind: "un", Op: "not", A: e} }
		bin := func(op string, a, b *Eqn) *Eqn { return &Eqn{Kind: "bin", Op: op, A: a, B: b} }
		var shapes []*Eqn
		for _, top := range []string{"and", "or"} {
			for _, mid := range []string{"eq", "neq", "and", "or"} {
				shapes = append(shapes,
					bin(top, bin(mid, pa("a"), not(pa("b"))), pa("c")),
					bin(top, bin("and", pa("x"), bin(mid, pa("a"), not(pa("b")))), pa("c")),
					bin(top, bin("or", pa("x"), bin(mid, pa("a"), not(pa("b")))), pa("c")),
					bin(top, pa("c"), bin(mid, pa("a"), not(pa("b")))))
			}
		}
		bools := []any{true, false}
		for _, e := range shapes {
			for _, va := range bools {
				for _, vb := range bools {
					for _, vc := range bools {
						d := map[string]any{"a": va, "b": vb, "c": vc, "x": vb}
						ecs = append(ecs, ec{e, d})
						reqs = append(reqs, "match\t"+e.Sexp()+"\t"+Show(d))
					}
				}
			}
		}
	}
	ans, err := RunModel(model, append(sreqs, reqs...))
	if err != nil {
		rep.Add(Disagreement{Kind: "harness-error", Detail: err.Error()})
		return rep
	}
	sans, ans := ans[:len(sreqs)], ans[len(sreqs):]
	// ---- normal paths (root, children, indexes): printer and parser models of Jp/PathText.v
	keyPieces := []string{"a", "abc", "k1", "_x", "$r", "@t", "-", "0", "a b", "", "'", "\"", "\\", ".", "..", "*", "[", "]", "a.b", "a[0]", "?", "(", ":", ",", "\n", "\x00", "\x7f",
		"é", "€", "😀", "\u2028", "\ufeff", "\xff", "\xc3", "a\xffb", "\xed\xa0\x80", "true", "null", "Nothing"}
	idxs := []int{0, 1, -1, 7, 10, -10, 99, 100, 12345, -2147483648, 4294967296, math.MaxInt64, math.MinInt64 + 1, math.MinInt64, 1000000000000000000, -1000000000000000000, 999999999999999999}
	type npath struct {
		x    jp.Expr
		spec string
	}
	var nps []npath
	mk := func(r *Rng, n int) npath {
		x := jp.R()
		var sp []string
		for j := 0; j < n; j++ {
			if c := r.Intn(100); c < 10 {
				x = x.W()
				sp = append(sp, "w*")
			} else if c < 16 {
				x = append(x, jp.Wildcard('#'))
				sp = append(sp, "w#")
			} else if c < 28 {
				x = x.D()
				sp = append(sp, "d")
			} else if c < 38 {
				// a union of 2-4 members (one-member unions read back as a child / index: directed below)
				var ms []any
				u := "u"
				for m := 2 + r.Intn(3); m > 0; m-- {
					if r.Bool() {
						k := keyPieces[r.Intn(len(keyPieces))]
						ms = append(ms, k)
						u += ",s" + hx([]byte(k))
					} else {
						i := idxs[r.Intn(len(idxs))]
						ms = append(ms, int64(i))
						u += fmt.Sprintf(",i%d", i)
					}
				}
				x = append(x, jp.NewUnion(ms...))
				sp = append(sp, u)
			} else if c < 48 {
				// a slice of 0-3 numbers
				sv := []int{0, 1, -1, 2, 5, -3, 2147483647, 2147483646, -2147483648, math.MaxInt64, math.MinInt64}
				var sl jp.Slice
				u := "l"
				for m := r.Intn(4); m > 0; m-- {
					v := sv[r.Intn(len(sv))]
					sl = append(sl, v)
					u += fmt.Sprintf(",%d", v)
				}
				x = append(x, sl)
				sp = append(sp, u)
			} else if c < 72 {
				k := keyPieces[r.Intn(len(keyPieces))]
				if r.Chance(30) {
					k += keyPieces[r.Intn(len(keyPieces))]
				}
				x = x.C(k)
				sp = append(sp, "c"+hx([]byte(k)))
			} else {
				i := idxs[r.Intn(len(idxs))]
				if r.Chance(30) {
					i = r.Intn(2001) - 1000
				}
				x = x.N(i)
				sp = append(sp, fmt.Sprintf("i%d", i))
			}
		}
		return npath{x, strings.Join(sp, " ")}
	}
	for _, k := range keyPieces {
		nps = append(nps, npath{jp.R().C(k), "c" + hx([]byte(k))}, npath{jp.R().C(k).C("z"), "c" + hx([]byte(k)) + " c7a"}, npath{jp.R().N(3).C(k).N(0), "i3 c" + hx([]byte(k)) + " i0"})
	}
	// descents and wildcards next to every kind of fragment
	for _, k := range []string{"a", "a b", "", "*", "é"} {
		kh := "c" + hx([]byte(k))
		nps = append(nps, npath{jp.R().D().C(k), "d " + kh}, npath{jp.R().C(k).D(), kh + " d"}, npath{jp.R().D().C(k).D().D().C(k), "d " + kh + " d d " + kh},
			npath{jp.R().W().C(k).W(), "w* " + kh + " w*"}, npath{append(jp.R().C(k), jp.Wildcard('#')).C(k), kh + " w# " + kh})
	}
	nps = append(nps, npath{jp.R().D(), "d"}, npath{jp.R().D().D(), "d d"}, npath{jp.R().D().W(), "d w*"}, npath{append(jp.R().D(), jp.Wildcard('#')), "d w#"},
		npath{jp.R().D().N(2), "d i2"}, npath{jp.R().W().D().N(-1).D(), "w* d i-1 d"}, npath{jp.R().W().W(), "w* w*"})
	nps = append(nps, npath{append(jp.R(), jp.NewUnion("a")), "u,s61"}, npath{append(jp.R(), jp.NewUnion(3)).C("b"), "u,i3 c62"},
		npath{append(jp.R().D(), jp.NewUnion("a b", -1, "", "'")), "d u,s612062,i-1,s,s27"}, npath{append(jp.R(), jp.NewUnion(0, 0)), "u,i0,i0"})
	for _, i := range idxs {
		nps = append(nps, npath{jp.R().N(i), fmt.Sprintf("i%d", i)}, npath{jp.R().C("a").N(i).C("b"), fmt.Sprintf("c61 i%d c62", i)})
	}
	nn := 1500
	if tier == "thorough" {
		nn = 40000
	}
	for i := 0; i < nn; i++ {
		nps = append(nps, mk(r, r.Intn(6)))
	}
	var preqs []string
	for _, np := range nps {
		preqs = append(preqs, "jppath\t"+np.spec, "jppathb\t"+np.spec)
	}
	pans, err := RunModel(model, preqs)
	if err != nil {
		rep.Add(Disagreement{Kind: "harness-error", Detail: err.Error()})
		return rep
	}
	ptexts := map[string]bool{}
	for i, np := range nps {
		rep.Evaluations++
		got := hx([]byte(np.x.String()))
		if got != pans[2*i] {
			rep.Add(Disagreement{Case: np.spec, Where: "Expr.String (normal path)", Kind: "impl-vs-model:path-print", Impl: got, Model: pans[2*i]})
		}
		rep.Evaluations++
		gotb := hx([]byte(np.x.BracketString()))
		if gotb != pans[2*i+1] {
			rep.Add(Disagreement{Case: np.spec, Where: "Expr.BracketString (normal path)", Kind: "impl-vs-model:path-print", Impl: gotb, Model: pans[2*i+1]})
		}
		t := np.x.String()
		ptexts[t] = true
		ptexts[np.x.BracketString()] = true
		// spellings the printer does not produce: spaces inside brackets, the other quote
		ptexts[strings.ReplaceAll(strings.ReplaceAll(t, "[", "[ "), "]", " ]")] = true
		ptexts[strings.ReplaceAll(t, "['", "[\"")] = true
	}
	for _, t := range []string{"$", "$.a", "$[007]", "$[-0]", "$[ 1 ]", "$['a' ]", "$[\"a\"]", "$.a.b[1]", "$.a..b", "$.*", "$[*]", "$*", "$..*", "$..", "$...a", "$....a", "$..[*]", "$[ * ]", "$.a*", "$..['a']", "$..a.b..c", "$.a[", "$[1", "$['a'", "$.", "$[]", "$[-]", "$[1 2]", "$.a b", "$x", "a.b", "@.a", "$[1,2]", "$[1:2]", "$[:]", "$[::]", "$[1:]", "$[:2]", "$[::2]", "$[1::2]", "$[1:2:3]", "$[ 1 : 2 ]", "$[1:2:]", "$[1 :2]", "$[: 2]", "$[-1:-3:-1]", "$[1:2:3:4]", "$[1:a]", "$[:2].a[1:]", "$['a','b']", "$[ 1 , 'a' ,2 ]", "$[1,]", "$[,1]", "$['a',]", "$[1 ,2].x", "$[\"a\",\"b\"]", "$[1,'a'", "$[+1]", "$.a['b'].c"} {
		ptexts[t] = true
	}
	var ptl []string
	for t := range ptexts {
		ptl = append(ptl, t)
	}
	sort.Strings(ptl)
	preqs = preqs[:0]
	for _, t := range ptl {
		preqs = append(preqs, "jpparse\t"+hx([]byte(t)))
	}
	pans, err = RunModel(model, preqs)
	if err != nil {
		rep.Add(Disagreement{Kind: "harness-error", Detail: err.Error()})
		return rep
	}
	pin := 0
	for i, t := range ptl {
		rep.Evaluations++
		if pans[i] == "-" {
			continue // outside the model of normal paths (or rejected)
		}
		pin++
		got := safe(func() string {
			y, err := jp.ParseString(t)
			if err != nil {
				return "E " + err.Error()
			}
			if len(y) == 0 {
				return "? empty"
			}
			if _, ok := y[0].(jp.Root); !ok {
				return fmt.Sprintf("? first %T", y[0])
			}
			var sp []string
			for _, f := range y[1:] {
				switch tf := f.(type) {
				case jp.Child:
					sp = append(sp, "c"+hx([]byte(string(tf))))
				case jp.Nth:
					sp = append(sp, fmt.Sprintf("i%d", int(tf)))
				case jp.Wildcard:
					sp = append(sp, "w"+string([]byte{byte(tf)}))
				case jp.Descent:
					sp = append(sp, "d")
				case jp.Slice:
					u := "l"
					for _, v := range tf {
						u += fmt.Sprintf(",%d", v)
					}
					sp = append(sp, u)
				case jp.Union:
					u := "u"
					for _, m := range tf {
						switch tm := m.(type) {
						case string:
							u += ",s" + hx([]byte(tm))
						case int64:
							u += fmt.Sprintf(",i%d", tm)
						default:
							u += fmt.Sprintf(",?%T", m)
						}
					}
					sp = append(sp, u)
				default:
					sp = append(sp, fmt.Sprintf("?%T", f))
				}
			}
			return strings.TrimSpace("O " + strings.Join(sp, " "))
		})
		if got != strings.TrimSpace(pans[i]) {
			rep.Add(Disagreement{Case: fmt.Sprintf("%q", t), Where: "jp.ParseString vs parse_path", Kind: "impl-vs-model:path-parse", Impl: got, Model: pans[i]})
		}
	}
	rep.Count(fmt.Sprintf("path-text-model:printed=%d parsed-in-domain=%d of %d", len(nps), pin, len(ptl)))
	// the same fragment lists after @ and without a head (first fragment written without its dot)
	preqs = preqs[:0]
	for _, np := range nps {
		preqs = append(preqs, "jppath@\t"+np.spec, "jppath-\t"+np.spec)
	}
	pans, err = RunModel(model, preqs)
	if err != nil {
		rep.Add(Disagreement{Kind: "harness-error", Detail: err.Error()})
		return rep
	}
	htexts := map[string]bool{"": true, "a": true, "a.b": true, "*": true, "..": true, "..a": true, "[1]": true, "@": true, "@.a": true, "@a": true, "$a": true, "a$": true, "['a'].b": true, ".a": true, "*.a": true, "a*": true}
	for i, np := range nps {
		xa := append(jp.A(), np.x[1:]...)
		xn := append(jp.Expr{}, np.x[1:]...)
		for j, x := range []jp.Expr{xa, xn} {
			rep.Evaluations++
			got := hx([]byte(x.String()))
			if got != pans[2*i+j] {
				rep.Add(Disagreement{Case: np.spec, Where: []string{"Expr.String after @", "Expr.String without head"}[j], Kind: "impl-vs-model:path-print", Impl: got, Model: pans[2*i+j]})
			}
			htexts[x.String()] = true
		}
	}
	var htl []string
	for t := range htexts {
		htl = append(htl, t)
	}
	sort.Strings(htl)
	preqs = preqs[:0]
	for _, t := range htl {
		preqs = append(preqs, "jpparseh\t"+hx([]byte(t)))
	}
	pans, err = RunModel(model, preqs)
	if err != nil {
		rep.Add(Disagreement{Kind: "harness-error", Detail: err.Error()})
		return rep
	}
	hin := 0
	for i, t := range htl {
		rep.Evaluations++
		if pans[i] == "-" {
			continue
		}
		hin++
		got := safe(func() string {
			y, err := jp.ParseString(t)
			if err != nil {
				return "E " + err.Error()
			}
			head := "-"
			rest := y
			if len(y) > 0 {
				switch y[0].(type) {
				case jp.Root:
					head, rest = "$", y[1:]
				case jp.At:
					head, rest = "@", y[1:]
				}
			}
			var sp []string
			for _, f := range rest {
				switch tf := f.(type) {
				case jp.Child:
					sp = append(sp, "c"+hx([]byte(string(tf))))
				case jp.Nth:
					sp = append(sp, fmt.Sprintf("i%d", int(tf)))
				case jp.Wildcard:
					sp = append(sp, "w"+string([]byte{byte(tf)}))
				case jp.Descent:
					sp = append(sp, "d")
				case jp.Slice:
					u := "l"
					for _, v := range tf {
						u += fmt.Sprintf(",%d", v)
					}
					sp = append(sp, u)
				case jp.Union:
					u := "u"
					for _, m := range tf {
						switch tm := m.(type) {
						case string:
							u += ",s" + hx([]byte(tm))
						case int64:
							u += fmt.Sprintf(",i%d", tm)
						}
					}
					sp = append(sp, u)
				default:
					sp = append(sp, fmt.Sprintf("?%T", f))
				}
			}
			return strings.TrimSpace("O " + head + " " + strings.Join(sp, " "))
		})
		if got != strings.TrimSpace(pans[i]) {
			rep.Add(Disagreement{Case: fmt.Sprintf("%q", t), Where: "jp.ParseString vs parse_path_h", Kind: "impl-vs-model:path-parse", Impl: got, Model: pans[i]})
		}
	}
	rep.Count(fmt.Sprintf("path-text-model:heads parsed-in-domain=%d of %d", hin, len(htl)))
	rans, err := RunModel(model, rreqs)
	if err != nil {
		rep.Add(Disagreement{Kind: "harness-error", Detail: err.Error()})
		return rep
	}
	inDom := 0
	for i, t := range rtexts {
		rep.Evaluations++
		if rans[i] == "-" {
			continue // outside the reader model (\x escapes, bad escapes, not terminated)
		}
		sp := strings.SplitN(rans[i], " ", 2)
		if len(sp) != 2 || sp[1] != hx([]byte("]")) {
			continue // hand-made text whose literal ends early
		}
		inDom++
		doc := "$[" + string(rdelims[i]) + t
		got := safe(func() string {
			y, err := jp.ParseString(doc)
			if err != nil {
				return "E " + err.Error()
			}
			if len(y) != 2 {
				return fmt.Sprintf("? %d fragments", len(y))
			}
			c, ok := y[1].(jp.Child)
			if !ok {
				return fmt.Sprintf("? %T", y[1])
			}
			return hx([]byte(string(c)))
		})
		if got != sp[0] {
			rep.Add(Disagreement{Case: fmt.Sprintf("%q", doc), Where: "jp.ParseString vs read_str", Kind: "impl-vs-model:string-read", Impl: got, Model: sp[0]})
		}
	}
	rep.Count(fmt.Sprintf("string-reader-model:in-domain=%d of %d", inDom, len(rtexts)))
	for i, s := range strs {
		for j, delim := range []byte{'\'', '"'} {
			impl := hx(jp.AppendString(nil, s, delim))
			rep.Evaluations++
			if impl != sans[2*i+j] {
				rep.Add(Disagreement{Case: hx([]byte(s)), Where: "jp.AppendString", Kind: "impl-vs-model:string", Impl: impl, Model: sans[2*i+j]})
			}
		}
		// and the key read back through the parser
		x := jp.R().C(s)
		back := safe(func() string {
			y, err := jp.ParseString(x.String())
			if err != nil {
				return "E " + err.Error()
			}
			if len(y) != 2 {
				return fmt.Sprintf("? %d fragments", len(y))
			}
			c, _ := y[1].(jp.Child)
			return hx([]byte(string(c)))
		})
		if back != hx([]byte(s)) {
			rep.Add(Disagreement{Case: hx([]byte(s)), Where: "ParseString(C(key).String())", Kind: "impl-vs-spec:key-roundtrip", Impl: back, Spec: hx([]byte(s))})
		}
	}
	distinct := map[string]bool{}
	for i, c := range pcs {
		x := BuildExpr(c.path)
		desc := reqs[i][4:]
		ordered := !pathHas(c.path, "D") && !multiKeyObject(c.data)
		skipEval := c.path[len(c.path)-1].Kind == "D"
		for _, form := range []string{"String", "BracketString"} {
			rep.Evaluations++
			s := x.String()
			if form == "BracketString" {
				s = x.BracketString()
			}
			out := safe(func() string {
				y, err := jp.ParseString(s)
				if err != nil {
					return "E " + err.Error()
				}
				s2 := y.String()
				if form == "BracketString" {
					s2 = y.BracketString()
				}
				if s2 != s {
					return "P " + s2
				}
				return strings.Join(showList(y.Get(c.data)), " ; ")
			})
			if strings.HasPrefix(out, "E ") || strings.HasPrefix(out, "F ") || strings.HasPrefix(out, "P ") {
				class := ""
				if form == "BracketString" && strings.HasPrefix(out, "E ") && strings.Contains(s, "[..]") {
					// is the bracketed descent the only obstacle? the same path without its descents reads back
					class = "bracket-descent"
					var nd []Frag
					for _, f := range c.path {
						if f.Kind != "D" {
							nd = append(nd, f)
						}
					}
					if len(nd) > 0 {
						if _, err := jp.ParseString(BuildExpr(nd).BracketString()); err != nil {
							class = ""
						}
					}
				}
				rep.Add(Disagreement{Case: desc, Where: "Expr." + form, Kind: "impl-vs-spec:expr-roundtrip", Impl: out, Spec: s, Class: class})
				continue
			}
			distinct[s] = true
			if !skipEval && !sameList(splitResults(out), splitResults(ans[i]), ordered) {
				rep.Add(Disagreement{Case: desc, Where: "Expr." + form, Kind: "impl-vs-spec:expr-roundtrip-eval", Impl: out, Spec: ans[i], Detail: s})
			}
		}
		if i%2999 == 0 && len(rep.Samples) < 8 {
			rep.Samples = append(rep.Samples, x.String())
		}
	}
	for i, c := range ecs {
		e := BuildEq(c.eq)
		desc := reqs[len(pcs)+i][6:]
		want := ans[len(pcs)+i]
		forms := map[string]string{"Equation.String": e.String(), "Script.String": e.Script().String(), "Filter.String": e.Filter().String()}
		for where, s := range forms {
			rep.Evaluations++
			out := safe(func() string {
				var m func(any) bool
				var s2 string
				switch where {
				case "Equation.String":
					e2, err := jp.ParseString("$[?" + s + "]")
					if err != nil {
						return "E " + err.Error()
					}
					f, _ := e2[1].(*jp.Filter)
					m = f.Match
					s2 = s // the equation text is embedded; print stability is checked on the other forms
				case "Script.String":
					sc, err := jp.NewScript(s)
					if err != nil {
						return "E " + err.Error()
					}
					m = sc.Match
					s2 = sc.String()
				default:
					f, err := jp.NewFilter(s)
					if err != nil {
						return "E " + err.Error()
					}
					m = f.Match
					s2 = f.String()
				}
				if s2 != s {
					return "P " + s2
				}
				if m(c.data) {
					return "t"
				}
				return "f"
			})
			if out != want {
				kind := "impl-vs-spec:equation-roundtrip-eval"
				if strings.HasPrefix(out, "E ") || strings.HasPrefix(out, "F ") || strings.HasPrefix(out, "P ") {
					kind = "impl-vs-spec:equation-roundtrip"
				}
				rep.Add(Disagreement{Case: desc, Where: where, Kind: kind, Impl: out, Spec: want, Detail: s})
			}
			distinct[s] = true
		}
		if i%2999 == 0 && len(rep.Samples) < 16 {
			rep.Samples = append(rep.Samples, e.String())
		}
	}
	// regular expression constants (outside the Coq model): the text must read back, print
	// identically and match the same strings as the original equation
	rxs := []string{"^[A-Z]:\\\\", "a\\/b", "x$", "\\\\\\\\", "a|b", "\\d+", "^$", "[/]", "\\\\x$", "a\\\\", "\\\\/", "(ab)+c?", "\\.", " ", "'", "\""}
	subjects := []any{"C:\\", "a/b", "x", "\\\\", "b", "42", "", "/", "\\x", "a\\", "\\/", "ababc", ".", " ", "'", "\"", int64(3), nil}
	for _, src := range rxs {
		rx, err := regexp.Compile(src)
		if err != nil {
			continue
		}
		for _, mk := range []func(l, r *jp.Equation) *jp.Equation{jp.Regex, jp.Match, jp.Search} {
			e := mk(jp.Get(jp.A().C("a")), jp.ConstRegex(rx))
			text := e.Filter().String()
			rep.Evaluations++
			rep.Count("regex-equation")
			out := safe(func() string {
				f, err := jp.NewFilter(text)
				if err != nil {
					return "E " + err.Error()
				}
				if f.String() != text {
					return "P " + f.String()
				}
				var sb strings.Builder
				for _, sub := range subjects {
					d := map[string]any{"a": sub}
					if f.Match(d) != e.Filter().Match(d) {
						sb.WriteString(fmt.Sprintf("differs on %q;", sub))
					}
				}
				return "ok " + sb.String()
			})
			if out != "ok " {
				rep.Add(Disagreement{Case: src, Where: "Filter.String (regex)", Kind: "impl-law:equation-roundtrip", Impl: out, Spec: "reads back, prints identically, matches the same strings", Detail: text})
			}
		}
	}
	// expressions that only the reader produces (the bracket wildcard '#', bracketed children) and
	// float constants in exponent form: print, read back, print again, evaluate as the original
	texts := []string{"$..[*]", "$.a..[*].b", "$[*]..[*]", "$..[*][0]", "@..[*]", "$.a[*]", "$['a'][*]..b", "$[?(@..[*] == 1)]",
		"$..[*]..[*]", "$[?(@.a[*] == 2)].a", "$..['a']", "$..[1]", "$..[0,1]", "$..[1:2]", "$.a.*", "$..*"}
	tdata := []any{
		map[string]any{"a": []any{int64(1), map[string]any{"b": int64(2), "a": []any{int64(2), int64(3)}}}, "b": []any{[]any{int64(1)}}},
		[]any{map[string]any{"a": []any{int64(2)}}, []any{int64(1), []any{int64(7), int64(8)}}, int64(1)},
	}
	for _, x := range []jp.Expr{jp.R().Slice(1, 6, 2, 0), jp.R().Child("a").Slice(0, 3, 1, 7, 9), jp.R().Slice(1, 2, 1, 1).Child("b"), {jp.Root('$'), jp.Slice{0, 5, 2, 1}}} {
		rep.Evaluations++
		out := safe(func() string {
			for _, s1 := range []string{x.String(), x.BracketString()} {
				y, err := jp.ParseString(s1)
				if err != nil {
					return "E " + s1 + ": " + err.Error()
				}
				for _, d := range tdata {
					if a, b := showList(x.Get(d)), showList(y.Get(d)); !sameList(a, b, false) {
						return "V " + s1
					}
				}
			}
			return "ok"
		})
		if out != "ok" {
			rep.Add(Disagreement{Case: fmt.Sprintf("%#v", x), Where: "Expr.String (slice with more than three members)", Kind: "impl-law:expr-roundtrip", Impl: out, Spec: "reads back and selects the same elements"})
		}
	}
	for _, t := range texts {
		rep.Evaluations++
		out := safe(func() string {
			x, err := jp.ParseString(t)
			if err != nil {
				return "E0 " + err.Error()
			}
			for _, form := range []string{"String", "BracketString"} {
				s1 := x.String()
				if form == "BracketString" {
					s1 = x.BracketString()
					if strings.Contains(s1, "[..]") {
						continue // the recorded BracketString finding
					}
				}
				y, err := jp.ParseString(s1)
				if err != nil {
					return "E " + form + " " + s1 + ": " + err.Error()
				}
				s2 := y.String()
				if form == "BracketString" {
					s2 = y.BracketString()
				}
				if s2 != s1 {
					return "P " + s1 + " -> " + s2
				}
				for _, d := range tdata {
					a, b := showList(x.Get(d)), showList(y.Get(d))
					if !sameList(a, b, false) {
						return "V " + s1 + ": " + strings.Join(b, " ; ") + " != " + strings.Join(a, " ; ")
					}
				}
			}
			return "ok"
		})
		if out != "ok" {
			rep.Add(Disagreement{Case: t, Where: "Expr.String (parsed expression)", Kind: "impl-law:expr-roundtrip", Impl: out, Spec: "reads back, prints identically, selects the same elements"})
		}
	}
	fconsts := []float64{1e6, 8.64e7, 1e21, 1.5e6, 1e-7, 123456789, -1e6, 2.5e10, 1e5, 999999, 1e15, 1e16, 0.000001, 5e-324, 1.7976931348623157e308}
	for _, base := range []float64{12.1, 0.3, 1, 100000.1, 5e-5, 123456.789, 0.1, 7.7, 1234567.1, 99.99} {
		// neighbours of round decimals: their shortest texts have 16-17 significant digits
		up, down := math.Nextafter(base, math.Inf(1)), math.Nextafter(base, math.Inf(-1))
		fconsts = append(fconsts, up, down, math.Nextafter(up, math.Inf(1)), base*3, base/3)
	}
	for _, k := range fconsts {
		for _, op := range []func(l, r *jp.Equation) *jp.Equation{jp.Eq, jp.Lt, jp.Gte} {
			e := op(jp.Get(jp.A().C("a")), jp.ConstFloat(k))
			for where, text := range map[string]string{"Filter.String": e.Filter().String(), "Script.String": e.Script().String()} {
				rep.Evaluations++
				out := safe(func() string {
					var m func(any) bool
					var s2 string
					if where == "Filter.String" {
						f, err := jp.NewFilter(text)
						if err != nil {
							return "E " + err.Error()
						}
						m, s2 = f.Match, f.String()
					} else {
						sc, err := jp.NewScript(text)
						if err != nil {
							return "E " + err.Error()
						}
						m, s2 = sc.Match, sc.String()
					}
					if s2 != text {
						return "P " + s2
					}
					for _, v := range []any{k, k * 2, k / 2, int64(5), -k, "x"} {
						d := map[string]any{"a": v}
						if m(d) != e.Filter().Match(d) {
							return fmt.Sprintf("V differs on %v", v)
						}
					}
					return "ok"
				})
				if out != "ok" {
					rep.Add(Disagreement{Case: fmt.Sprint(k), Where: where + " (float constant)", Kind: "impl-law:equation-roundtrip", Impl: out, Spec: "reads back, prints identically, matches the same values", Detail: text})
				}
			}
		}
	}
	rep.Distinct = len(distinct)
	rep.Rule = "parsed-only expressions (bracket wildcard after a descent etc.) and float constants in exponent form: print-parse-print-evaluate laws; string literals: all 1-byte and 896 2-byte ASCII strings through jp.AppendString (both quotes) vs the Coq model, and as a child key through ParseString(String()); expressions: seeded paths whose keys mix quotes, backslashes, control, punctuation and non-ASCII characters, String() and BracketString() parsed back, printed again (must be identical) and evaluated (must equal the denotation of the ORIGINAL path); equations: seeded operator trees of depth <= 4 through Equation/Script/Filter String(), parsed back, printed again and evaluated (must equal the denotation of the ORIGINAL tree); non-trivial = distinct printed texts"
	return rep
}
