package main

import (
	"fmt"
	"math"
	"sort"
	"strings"

	"github.com/ohler55/ojg"
	"github.com/ohler55/ojg/alt"
)

func pathText(p alt.Path) string {
	if len(p) == 1 && p[0] == nil { // the root itself differs
		return "/"
	}
	return ignText(p)
}

func ignText(p alt.Path) string {
	parts := make([]string, len(p))
	for i, e := range p {
		switch t := e.(type) {
		case int:
			parts[i] = fmt.Sprintf("i%d", t)
		case string:
			parts[i] = "k" + hx([]byte(t))
		case nil:
			parts[i] = "*"
		default:
			parts[i] = fmt.Sprintf("?%T", e)
		}
	}
	return "/" + strings.Join(parts, " ")
}

func perturb(r *Rng, v any, depth int) any {
	switch t := v.(type) {
	case []any:
		a := make([]any, len(t))
		copy(a, t)
		switch {
		case len(a) > 0 && r.Chance(60):
			i := r.Intn(len(a))
			a[i] = perturb(r, a[i], depth+1)
		case r.Chance(50):
			a = append(a, genScalar(r))
		case len(a) > 0:
			a = a[:len(a)-1]
		}
		return a
	case map[string]any:
		m := map[string]any{}
		for k, e := range t {
			m[k] = e
		}
		keys := make([]string, 0, len(m))
		for k := range m {
			keys = append(keys, k)
		}
		sort.Strings(keys)
		switch {
		case len(keys) > 0 && r.Chance(55):
			k := keys[r.Intn(len(keys))]
			m[k] = perturb(r, m[k], depth+1)
		case r.Chance(40):
			m[jpKeys[r.Intn(len(jpKeys))]] = genScalar(r)
		case len(keys) > 0 && r.Chance(50):
			delete(m, keys[r.Intn(len(keys))])
		case len(keys) > 0:
			m[keys[r.Intn(len(keys))]] = nil // null versus absent
		}
		return m
	case int64:
		switch r.Intn(4) {
		case 0:
			return float64(t) // numeric width only
		case 1:
			return t + 1
		default:
			return genScalar(r)
		}
	case float64:
		if t == float64(int64(t)) && r.Chance(40) {
			return int64(t)
		}
		return genScalar(r)
	}
	return genScalar(r)
}

func genIgnores(r *Rng, v any) []alt.Path {
	var out []alt.Path
	n := r.Intn(3)
	for i := 0; i < n; i++ {
		var p alt.Path
		cur := v
		for d := 0; d < 1+r.Intn(3); d++ {
			switch t := cur.(type) {
			case []any:
				if r.Chance(20) {
					p = append(p, nil)
				} else {
					p = append(p, r.Intn(len(t)+1))
				}
				if len(t) > 0 {
					cur = t[r.Intn(len(t))]
				} else {
					cur = nil
				}
			case map[string]any:
				if r.Chance(20) {
					p = append(p, nil)
					cur = nil
				} else {
					k := jpKeys[r.Intn(len(jpKeys))]
					p = append(p, k)
					cur = t[k]
				}
			default:
				d = 99
			}
		}
		if len(p) > 0 {
			out = append(out, p)
		}
	}
	return out
}

func suiteDiff(tier string, seed uint64, model string) *Report {
	rep := &Report{Property: "C19", Tier: tier, Seed: seed}
	r := NewRng(seed)
	n := 20000
	if tier == "thorough" {
		n = 1000000
	}
	type cs struct {
		a, b any
		ign  []alt.Path
	}
	var cases []cs
	// directed: ignore paths naming different array indexes, wildcards, nested
	base := []any{map[string]any{"a": int64(1), "b": int64(2)}, map[string]any{"a": int64(3), "b": int64(4)}, []any{int64(5), int64(6)}}
	other := []any{map[string]any{"a": int64(9), "b": int64(2)}, map[string]any{"a": int64(3), "b": int64(8)}, []any{int64(5), int64(7)}}
	igs := [][]alt.Path{nil, {{0, "a"}}, {{0, "a"}, {1, "b"}}, {{1, "b"}, {0, "a"}}, {{nil, "a"}}, {{nil, "a"}, {1, "b"}}, {{nil, nil}}, {{2, 1}}, {{2, nil}, {0, "a"}},
		{{0}, {1, "b"}}, {{nil}}, {{0, "a"}, {1, "b"}, {2, 1}}}
	for _, ig := range igs {
		cases = append(cases, cs{base, other, ig}, cs{other, base, ig}, cs{base, base, ig})
	}
	// integers that differ but round to the same float64, at every nesting kind
	for _, pr := range [][2]int64{{1 << 53, 1<<53 + 1}, {9223372036854775806, 9223372036854775807}, {-(1 << 53), -(1 << 53) - 1}, {1 << 60, 1<<60 + 64}, {5, 5}} {
		x, y := pr[0], pr[1]
		cases = append(cases, cs{x, y, nil}, cs{[]any{int64(1), x}, []any{int64(1), y}, nil},
			cs{map[string]any{"a": map[string]any{"b": x}}, map[string]any{"a": map[string]any{"b": y}}, nil},
			cs{[]any{map[string]any{"a": x}, "s"}, []any{map[string]any{"a": y}, "s"}, nil})
	}
	for i := 0; i < n; i++ {
		var a any
		if r.Chance(50) {
			a = genArrayTree(r, 1+r.Intn(3))
		} else {
			a = genTree(r, 1+r.Intn(3))
		}
		b := deepCopy(a)
		np := r.Intn(4)
		for j := 0; j < np; j++ {
			b = perturb(r, b, 0)
		}
		var ig []alt.Path
		if r.Chance(45) {
			ig = genIgnores(r, a)
		}
		cases = append(cases, cs{a, b, ig})
	}
	var reqs []string
	for _, c := range cases {
		igt := make([]string, len(c.ign))
		for i, p := range c.ign {
			igt[i] = strings.TrimPrefix(ignText(p), "/")
		}
		reqs = append(reqs, "diff\t"+Show(c.a)+"\t"+Show(c.b)+"\t"+strings.Join(igt, ";"))
	}
	ans, err := RunModel(model, reqs)
	if err != nil {
		rep.Add(Disagreement{Kind: "harness-error", Detail: err.Error()})
		return rep
	}
	distinct := map[string]bool{}
	for i, c := range cases {
		parts := strings.Split(ans[i], " | ")
		if len(parts) != 2 {
			rep.Add(Disagreement{Case: reqs[i], Kind: "harness-error", Detail: ans[i]})
			continue
		}
		want := splitResults(parts[0])
		flags := strings.Fields(parts[1])
		desc := reqs[i][5:]
		rep.Evaluations++
		if len(want) > 0 {
			distinct[desc] = true
		}
		got := safe(func() string {
			ds := alt.Diff(c.a, c.b, c.ign...)
			out := make([]string, len(ds))
			for j, d := range ds {
				out[j] = pathText(d)
			}
			sort.Strings(out)
			return strings.Join(out, " ; ")
		})
		ws := append([]string(nil), want...)
		sort.Strings(ws)
		if got != strings.Join(ws, " ; ") {
			rep.Add(Disagreement{Case: desc, Where: "alt.Diff", Kind: "impl-vs-spec:diff", Impl: got, Spec: strings.Join(ws, " ; ")})
		}
		// the same on gen data
		ggot := safe(func() string {
			ds := alt.Diff(toGen(c.a), toGen(c.b), c.ign...)
			out := make([]string, len(ds))
			for j, d := range ds {
				out[j] = pathText(d)
			}
			sort.Strings(out)
			return strings.Join(out, " ; ")
		})
		if ggot != strings.Join(ws, " ; ") {
			rep.Add(Disagreement{Case: desc, Where: "alt.Diff/gen", Kind: "impl-vs-spec:diff", Impl: ggot, Spec: strings.Join(ws, " ; ")})
		}
		// Compare: nil exactly when Diff is empty, otherwise one of Diff's paths
		cmp := safe(func() string {
			p := alt.Compare(c.a, c.b, c.ign...)
			if p == nil {
				return "nil"
			}
			return pathText(p)
		})
		okc := (cmp == "nil") == (len(want) == 0)
		if okc && cmp != "nil" {
			okc = false
			for _, w := range want {
				if w == cmp {
					okc = true
				}
			}
		}
		if !okc {
			rep.Add(Disagreement{Case: desc, Where: "alt.Compare", Kind: "impl-vs-spec:compare", Impl: cmp, Spec: parts[0]})
		}
		// Match(fingerprint, target)
		m := safe(func() string {
			if alt.Match(c.a, c.b) {
				return "t"
			}
			return "f"
		})
		if len(flags) == 2 && m != flags[1] {
			rep.Add(Disagreement{Case: desc, Where: "alt.Match", Kind: "impl-vs-spec:match", Impl: m, Spec: flags[1]})
		}
		if i%2499 == 0 && len(rep.Samples) < 10 {
			rep.Samples = append(rep.Samples, desc)
		}
	}
	rep.Distinct = len(distinct)
	rep.Rule = "directed pairs with ignore paths naming different array indexes, wildcards and nested positions; seeded trees with 0-3 perturbations (replace a leaf, int<->float of the same value, append/drop an element, add/delete a member, null instead of absent) and 0-2 ignore paths drawn from the tree; alt.Diff on simple and gen data (as a set of paths), alt.Compare and alt.Match against the extracted diff / jeq / jmatch; non-trivial = pairs with a non-empty specified Diff"
	return rep
}

// struct arguments: Match / Diff / Compare on Go structs behave as on their decomposition with
// every field kept (nil fields included)
type dInner struct{ N int }
type dRec struct {
	Name  string
	Next  *dInner
	Props map[string]any
	List  []any
}

func suiteDiffStructs(tier string, seed uint64) *Report {
	rep := &Report{Property: "C19", Tier: tier, Seed: seed}
	r := NewRng(seed + 1919)
	n := 400
	if tier == "thorough" {
		n = 8000
	}
	gen := func() *dRec {
		x := &dRec{Name: r.Pick([]string{"a", "b", ""})}
		if r.Chance(50) {
			x.Next = &dInner{N: r.Intn(3)}
		}
		switch r.Intn(4) {
		case 0:
			x.Props = map[string]any{"p": nil}
		case 1:
			x.Props = map[string]any{"p": int64(r.Intn(2))}
		case 2:
			x.Props = map[string]any{"p": int64(1), "q": nil}
		}
		if r.Chance(40) {
			x.List = []any{int64(r.Intn(2)), nil}
		}
		return x
	}
	keepAll := &ojg.Options{}
	for i := 0; i < n; i++ {
		a, b := gen(), gen()
		if r.Chance(30) {
			cp := *a
			b = &cp
		}
		ma, mb := alt.Decompose(a, keepAll), alt.Decompose(b, keepAll)
		rep.Evaluations++
		check := func(where, got, want string) {
			if got != want {
				rep.Add(Disagreement{Case: Show(ma) + " / " + Show(mb), Where: where, Kind: "impl-law:struct-arguments", Impl: got, Spec: want})
			}
		}
		check("alt.Match(struct, struct)", safe(func() string { return fmt.Sprint(alt.Match(a, b)) }), safe(func() string { return fmt.Sprint(alt.Match(ma, mb)) }))
		check("alt.Diff(struct, struct)", safe(func() string { return fmt.Sprint(len(alt.Diff(a, b)) == 0) }), safe(func() string { return fmt.Sprint(len(alt.Diff(ma, mb)) == 0) }))
		check("alt.Compare(struct, struct)", safe(func() string { return fmt.Sprint(alt.Compare(a, b) == nil) }), safe(func() string { return fmt.Sprint(alt.Compare(ma, mb) == nil) }))
	}
	// directed: whole floats outside the int64 range against the int64 extremes; typed nil pointers
	// held in a fingerprint; several differing leaves at depth 4-8 (every Diff path leads to a
	// genuine difference, no path twice, Compare returns one of them)
	for _, pr := range [][2]any{{int64(math.MinInt64), 1e300}, {int64(math.MaxInt64), 1e300}, {int64(math.MinInt64), -1e300}, {int64(math.MinInt64), math.Inf(-1)},
		{uint64(1 << 63), 1e19}, {int64(math.MaxInt64), float32(3e38)}, {int64(5), 5.0}, {int64(math.MinInt64), -9.223372036854775808e18}} {
		rep.Evaluations++
		same := fmt.Sprint(pr[0]) == fmt.Sprint(pr[1]) || (pr[0] == any(int64(5)) && pr[1] == any(5.0)) || (pr[0] == any(int64(math.MinInt64)) && pr[1] == any(-9.223372036854775808e18))
		for _, nest := range []bool{false, true} {
			a, b := pr[0], pr[1]
			if nest {
				a, b = map[string]any{"k": []any{a}}, map[string]any{"k": []any{b}}
			}
			got := safe(func() string {
				return fmt.Sprint(len(alt.Diff(a, b)) == 0, alt.Compare(a, b) == nil, alt.Match(a, b))
			})
			if want := fmt.Sprint(same, same, same); got != want {
				rep.Add(Disagreement{Case: fmt.Sprintf("%v (%T) vs %v (%T) nested=%v", pr[0], pr[0], pr[1], pr[1], nest), Where: "alt.Diff/Compare/Match", Kind: "impl-law:numeric-width", Impl: got, Spec: want})
			}
		}
	}
	for k := 0; k < 4; k++ {
		rep.Evaluations++
		var np *dInner
		fp := map[string]any{"p": np, "n": int64(k)}
		tg := map[string]any{"p": &dInner{N: k}, "n": int64(k)}
		if got := safe(func() string { return fmt.Sprint(alt.Match(fp, tg), alt.Match([]any{np}, []any{&dInner{N: 1}})) }); got != "false false" {
			rep.Add(Disagreement{Case: "fingerprint holding a typed nil pointer against a target with a value", Where: "alt.Match", Kind: "impl-law:struct-arguments", Impl: got, Spec: "false false"})
		}
	}
	for depth := 1; depth <= 8; depth++ {
		mk := func(leaf []any) any {
			var v any = leaf
			for i := 0; i < depth; i++ {
				v = map[string]any{fmt.Sprintf("k%d", i): v}
			}
			return v
		}
		a, b := mk([]any{int64(1), int64(2), int64(3), int64(4)}), mk([]any{int64(1), int64(5), int64(6), int64(4)})
		rep.Evaluations++
		out := safe(func() string {
			ds := alt.Diff(a, b)
			seen := map[string]bool{}
			for _, p := range ds {
				t := pathText(p)
				if seen[t] {
					return "path " + t + " returned twice"
				}
				seen[t] = true
			}
			if len(ds) != 2 {
				return fmt.Sprintf("%d paths: %v", len(ds), ds)
			}
			for _, idx := range []int{1, 2} {
				want := make(alt.Path, 0, depth+1)
				for i := depth - 1; i >= 0; i-- {
					want = append(want, fmt.Sprintf("k%d", i))
				}
				want = append(want, idx)
				if !seen[pathText(want)] {
					return "missing " + pathText(want) + " in " + fmt.Sprint(ds)
				}
			}
			if c := alt.Compare(a, b); c == nil || !seen[pathText(c)] {
				return "Compare returns " + fmt.Sprint(c) + ", not one of Diff's paths"
			}
			return "ok"
		})
		if out != "ok" {
			rep.Add(Disagreement{Case: fmt.Sprintf("two differing leaves at depth %d", depth+1), Where: "alt.Diff/Compare", Kind: "impl-law:paths", Impl: out, Spec: "exactly the two differing leaves, each once"})
		}
	}
	rep.Rule = "directed: int64 extremes against whole floats outside the range; typed nil pointers in fingerprints; differing leaves at depth 2-9; struct arguments: Match / Diff / Compare on pairs of Go structs (nil pointer fields, nil map members, nil list elements) must answer as on their decompositions with every field kept"
	return rep
}
