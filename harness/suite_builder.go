package main

import (
	"encoding/json"
	"fmt"
	"strings"

	"github.com/ohler55/ojg/alt"
	"github.com/ohler55/ojg/oj"
	"github.com/ohler55/ojg/sen"
)

// C03, Tokenizer + Builder clause: the documents rebuilt from the tokenizer callbacks with the
// package's own Builder (one instance, Reset after every document, results looked at after the
// whole text has been read) are the documents the parser's callback delivers.

type rebuilder struct {
	b     alt.Builder
	key   string
	hasKy bool
	depth int
	docs  []any
	fresh bool // a new Builder for every document
}

func (h *rebuilder) keys() []string {
	if h.hasKy {
		h.hasKy = false
		return []string{h.key}
	}
	return nil
}

func (h *rebuilder) done() {
	if h.depth == 0 {
		h.docs = append(h.docs, h.b.Result())
		if h.fresh {
			h.b = alt.Builder{}
		}
		h.b.Reset()
	}
}

func (h *rebuilder) value(v any) {
	_ = h.b.Value(v, h.keys()...)
	h.done()
}

func (h *rebuilder) Null()           { h.value(nil) }
func (h *rebuilder) Bool(v bool)     { h.value(v) }
func (h *rebuilder) Int(v int64)     { h.value(v) }
func (h *rebuilder) Float(v float64) { h.value(v) }
func (h *rebuilder) Number(v string) { h.value(json.Number(v)) }
func (h *rebuilder) String(v string) { h.value(v) }
func (h *rebuilder) Key(k string)    { h.key, h.hasKy = k, true }
func (h *rebuilder) ObjectStart()    { _ = h.b.Object(h.keys()...); h.depth++ }
func (h *rebuilder) ArrayStart()     { _ = h.b.Array(h.keys()...); h.depth++ }
func (h *rebuilder) ObjectEnd()      { h.b.Pop(); h.depth--; h.done() }
func (h *rebuilder) ArrayEnd()       { h.b.Pop(); h.depth--; h.done() }

func suiteTokenBuilder(tier string, seed uint64) *Report {
	rep := &Report{Property: "C03", Tier: tier, Seed: seed}
	r := NewRng(seed + 303)
	n := 1500
	if tier == "thorough" {
		n = 40000
	}
	texts := []string{
		`[1,2,3] [4,5] [6]`,
		`["a",["b"],{"c":[true]}] {"x":[1,2]} [null,false] 7 []`,
		`[[1,2],[3]] [[4]] {"a":[5,6,7]} [8,9]`,
		`{} [] "s" [1] [] [2,3]`,
	}
	for i := 0; i < n; i++ {
		var sb strings.Builder
		for k := 0; k < 2+r.Intn(4); k++ {
			d := genDoc(r)
			if len(d) > 0 && (d[0] == '[' || d[0] == '{' || r.Chance(30)) {
				sb.Write(d)
				sb.WriteByte(' ')
			}
		}
		if sb.Len() > 0 {
			texts = append(texts, sb.String())
		}
	}
	for _, src := range texts {
		var want []any
		if _, err := oj.Parse([]byte(src), func(v any) bool { want = append(want, v); return false }); err != nil {
			continue
		}
		rep.Evaluations++
		ws := showList(want)
		run := func(where string, f func(h *rebuilder) error, fresh bool) {
			h := &rebuilder{fresh: fresh}
			h.b.Reset()
			out := safe(func() string {
				if err := f(h); err != nil {
					return "E " + err.Error()
				}
				return strings.Join(showList(h.docs), " ; ")
			})
			if out != strings.Join(ws, " ; ") {
				rep.Add(Disagreement{Case: src, Where: where, Kind: "impl-law:tokenizer-builder", Impl: out, Spec: strings.Join(ws, " ; ")})
			}
		}
		run("oj.Tokenize + one alt.Builder", func(h *rebuilder) error { return oj.Tokenize([]byte(src), h) }, false)
		run("oj.TokenizeLoad + one alt.Builder", func(h *rebuilder) error { return oj.TokenizeLoad(strings.NewReader(src), h) }, false)
		run("sen.Tokenize + one alt.Builder", func(h *rebuilder) error { return sen.Tokenize([]byte(src), h) }, false)
		run("oj.Tokenize + fresh alt.Builders", func(h *rebuilder) error { return oj.Tokenize([]byte(src), h) }, true)
	}
	rep.Rule = fmt.Sprintf("Tokenizer + Builder clause: %d multi-document texts (fixed + sequences of seeded documents); the documents rebuilt from oj.Tokenize / oj.TokenizeLoad / sen.Tokenize callbacks with one alt.Builder that is Reset after every document (and with a fresh Builder per document), read after the whole text, equal the documents of the oj.Parse callback", len(texts))
	return rep
}
