package main

import (
	"bytes"
	"errors"
	"fmt"
	"io"
	"strconv"
	"strings"

	"github.com/ohler55/ojg/gen"
	"github.com/ohler55/ojg/oj"
)

// front-end codes shared with Coq (Show.fe_of_code)
const (
	feParser = iota
	feValidator
	feTokenizer
	feGen
	feParserMulti
	feValidatorMulti
	feTokenizerMulti
	feGenMulti
)

var feNames = []string{"oj.Parser", "oj.Validator", "oj.Tokenizer", "gen.Parser",
	"oj.Parser/multi", "oj.Validator/multi", "oj.Tokenizer/multi", "gen.Parser/multi"}

type evCollector struct{ sb []string }

func (e *evCollector) Null()           { e.sb = append(e.sb, "n") }
func (e *evCollector) Bool(b bool)     { e.sb = append(e.sb, map[bool]string{true: "t", false: "f"}[b]) }
func (e *evCollector) Int(i int64)     { e.sb = append(e.sb, "i"+strconv.FormatInt(i, 10)) }
func (e *evCollector) Float(f float64) { e.sb = append(e.sb, fmtFloat(f)) }
func (e *evCollector) Number(s string) { e.sb = append(e.sb, "b"+s) }
func (e *evCollector) String(s string) { e.sb = append(e.sb, "s"+hx([]byte(s))) }
func (e *evCollector) ObjectStart()    { e.sb = append(e.sb, "{") }
func (e *evCollector) ObjectEnd()      { e.sb = append(e.sb, "}") }
func (e *evCollector) Key(s string)    { e.sb = append(e.sb, "k"+hx([]byte(s))) }
func (e *evCollector) ArrayStart()     { e.sb = append(e.sb, "[") }
func (e *evCollector) ArrayEnd()       { e.sb = append(e.sb, "]") }

func errOutcome(err error) string {
	var pe *oj.ParseError
	if errors.As(err, &pe) {
		return fmt.Sprintf("E %d %d", pe.Line, pe.Column)
	}
	var ge *gen.ParseError
	if errors.As(err, &ge) {
		return fmt.Sprintf("E %d %d", ge.Line, ge.Column)
	}
	return "X"
}

// chunkReader delivers the input in the given chunk sizes (then the rest in one piece).
type chunkReader struct {
	data        []byte
	chunks      []int
	eofWithData bool
}

func (c *chunkReader) Read(p []byte) (int, error) {
	if len(c.data) == 0 {
		return 0, io.EOF
	}
	n := len(c.data)
	if len(c.chunks) > 0 {
		n = c.chunks[0]
		c.chunks = c.chunks[1:]
	}
	if n > len(c.data) {
		n = len(c.data)
	}
	if n > len(p) {
		n = len(p)
	}
	copy(p, c.data[:n])
	c.data = c.data[n:]
	if len(c.data) == 0 && c.eofWithData {
		return n, io.EOF
	}
	return n, nil
}

// RunFE runs one front-end on input (whole buffer when chunks == nil, else through a reader
// with that chunking) and renders the outcome in the model's text form.
func RunFE(fe int, input []byte, chunks []int, useReader bool) (out string) {
	defer func() {
		if r := recover(); r != nil {
			out = "F " + strings.ReplaceAll(fmt.Sprint(r), "\n", " ")
		}
	}()
	buf := append([]byte(nil), input...)
	var rd io.Reader
	if useReader {
		rd = &chunkReader{data: buf, chunks: append([]int(nil), chunks...)}
	}
	multi := fe >= feParserMulti
	switch fe % 4 {
	case feParser:
		p := oj.Parser{}
		var docs []string
		var args []any
		if multi {
			args = append(args, func(v any) { docs = append(docs, Show(v)) })
		}
		var v any
		var err error
		if useReader {
			v, err = p.ParseReader(rd, args...)
		} else {
			v, err = p.Parse(buf, args...)
		}
		if err != nil {
			return errOutcome(err)
		}
		if !multi {
			docs = []string{Show(v)}
		}
		return "O " + strings.Join(docs, " ") + " | "
	case feGen:
		p := gen.Parser{}
		var docs []string
		var args []any
		if multi {
			args = append(args, func(v gen.Node) bool { docs = append(docs, Show(v)); return false })
		}
		var v gen.Node
		var err error
		if useReader {
			v, err = p.ParseReader(rd, args...)
		} else {
			v, err = p.Parse(buf, args...)
		}
		if err != nil {
			return errOutcome(err)
		}
		if !multi {
			docs = []string{Show(v)}
		}
		return "O " + strings.Join(docs, " ") + " | "
	case feValidator:
		p := oj.Validator{OnlyOne: !multi}
		var err error
		if useReader {
			err = p.ValidateReader(rd)
		} else {
			err = p.Validate(buf)
		}
		if err != nil {
			return errOutcome(err)
		}
		return "O  | "
	case feTokenizer:
		t := oj.Tokenizer{}
		t.OnlyOne = !multi
		h := &evCollector{}
		var err error
		if useReader {
			err = t.Load(rd, h)
		} else {
			err = t.Parse(buf, h)
		}
		if err != nil {
			return errOutcome(err)
		}
		return "O  | " + strings.Join(h.sb, " ")
	}
	return "?"
}

// normalise a model outcome for comparison with the implementation's text
func NormModel(fe int, s string) string {
	s = NormFloats(s)
	if (fe == feParser || fe == feGen) && s == "O  | " {
		// single-document builders return nil both for "no document" and for null
		return "O n | "
	}
	return s
}

func accepted(outcome string) bool { return strings.HasPrefix(outcome, "O") }

var _ = bytes.Equal
