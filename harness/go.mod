module verif/harness

go 1.21

require github.com/ohler55/ojg v0.0.0

replace github.com/ohler55/ojg => /repo
