package main

import (
	"fmt"
	"strings"
	"time"

	"github.com/ohler55/ojg/alt"
	"github.com/ohler55/ojg/asm"
	"github.com/ohler55/ojg/jp"
	"github.com/ohler55/ojg/oj"
	"github.com/ohler55/ojg/sen"
)

// C06 beyond the JSON front-ends: SEN parser and tokenizer, JSONPath and script parsing, plan
// construction and execution, Unmarshal / Recompose into user types. Every entry point must
// terminate and report malformed input through its error result; a Go panic that escapes, a hang,
// or an error that is a masked runtime fault (index out of range, nil map, failed assertion,
// comparing uncomparable) is a disagreement.

type faultTarget struct {
	name string
	run  func(in []byte) error
}

func runGuarded(f func() error) (out string) {
	done := make(chan string, 1)
	go func() {
		defer func() {
			if rec := recover(); rec != nil {
				done <- "PANIC " + strings.ReplaceAll(fmt.Sprint(rec), "\n", " ")
			}
		}()
		if err := f(); err != nil {
			msg := err.Error()
			if strings.Contains(msg, "runtime error") || strings.Contains(msg, "interface conversion") || strings.Contains(msg, "reflect:") || strings.Contains(msg, "assignment to entry in nil map") {
				done <- "MASKED " + msg
				return
			}
			done <- "error"
			return
		}
		done <- "ok"
	}()
	select {
	case out = <-done:
	case <-time.After(5 * time.Second):
		out = "TIMEOUT"
	}
	return
}

type fuser struct {
	A int
	B string
	C []int
	D map[string]float64
	E *fuser
	F any
	G [2]bool
	H []*fuser
	I uint8
	J float32
	K bool
	L []string
	M map[string]*fuser
	N map[string]any
	O [][]int
	P *int
	Q []any
	R time.Time
	S fembed
	*fembed2
}

type fembed struct{ X int }
type fembed2 struct{ Y []string }

func suiteFaultOther(tier string, seed uint64) *Report {
	rep := &Report{Property: "C06", Tier: tier, Seed: seed}
	r := NewRng(seed + 77)
	deep := tier == "thorough"
	targets := map[string][]faultTarget{
		"sen": {
			{"sen.Parse", func(in []byte) error { _, err := sen.Parse(in); return err }},
			{"sen.ParseReader/1-byte", func(in []byte) error {
				_, err := sen.ParseReader(&chunkReader{data: append([]byte(nil), in...), chunks: []int{1, 1, 1, 1, 1, 1, 1, 1, 2, 3}})
				return err
			}},
			{"sen.Parse/multi", func(in []byte) error { _, err := sen.Parse(in, func(any) {}); return err }},
			{"sen.Tokenize", func(in []byte) error { return sen.Tokenize(in, &evCollector{}) }},
			{"sen.TokenizeLoad", func(in []byte) error {
				return sen.TokenizeLoad(&chunkReader{data: append([]byte(nil), in...), chunks: []int{2, 1, 3}}, &evCollector{})
			}},
		},
		"jp": {
			{"jp.ParseString", func(in []byte) error { _, err := jp.ParseString(string(in)); return err }},
			{"jp.NewScript", func(in []byte) error { _, err := jp.NewScript(string(in)); return err }},
			{"jp.NewFilter", func(in []byte) error { _, err := jp.NewFilter(string(in)); return err }},
		},
		"plan": {
			{"asm.NewPlan+Execute", func(in []byte) error {
				v, err := sen.Parse(in)
				if err != nil {
					return nil // not a plan text: nothing to construct
				}
				l, ok := v.([]any)
				if !ok {
					return nil
				}
				p := asm.NewPlan(l)
				if p == nil {
					return nil
				}
				return p.Execute(map[string]any{"src": []any{int64(1), "a", map[string]any{"b": nil}}})
			}},
		},
		"recompose": {
			{"oj.Unmarshal", func(in []byte) error { var u fuser; return oj.Unmarshal(in, &u) }},
			{"sen.Unmarshal", func(in []byte) error { var u fuser; return sen.Unmarshal(in, &u) }},
			{"alt.Recompose", func(in []byte) error {
				v, err := oj.Parse(in)
				if err != nil {
					return nil
				}
				_, err = alt.Recompose(v, &fuser{})
				return err
			}},
			{"alt.Recompose/slice", func(in []byte) error {
				v, err := oj.Parse(in)
				if err != nil {
					return nil
				}
				_, err = alt.Recompose(v, []*fuser{})
				return err
			}},
		},
	}
	alpha := map[string][]string{
		"sen":       {"{", "}", "[", "]", "(", ")", ":", ",", "\"", "'", "+", "-", "1", "a", " ", "\n", "\\", "/", "#", "0x", "e", ".", "true", "null", "\x00", "\xef\xbb\xbf", "*", "`", "|", "\"a\"", "/*x*/", "//c\n"},
		"jp":        {"$", "@", ".", "..", "[", "]", "(", ")", "?", "*", "'", "\"", "\\", ",", ":", "-", "1", "a", " ", "=", "<", ">", "!", "&", "|", "~", "/", "+", "x", "in", "has", "exists", "empty", "length", "count", "match", "search", "true", "null", "0.5", "\x00", "\\ud834", "\\udd22", "\\u00e9", "\\u"},
		"plan":      {"[", "]", "{", "}", "\"\"", "\"$.a\"", "\"@.b\"", "set", "get", "cond", "each", "sort", "at", "\"+\"", "lt", "1", "null", "true", " ", ":", "a", "\"$\"", "\"@\"", "join", "substr", "replace", "nth", "-1", "1.5", "quotient", "mod", "0", "0.0", "/", "include", "[1]", "9223372036854775807", "h\u00e9llo", "6", "\"\u00e9\""},
		"recompose": {"{", "}", "[", "]", "\"A\"", "\"B\"", "\"C\"", "\"D\"", "\"E\"", "\"F\"", "\"G\"", "\"H\"", ":", ",", "1", "\"x\"", "null", "true", "1.5", "-1", "\"^\"", "\"fuser\"", "99999999999999999999", "{}", "[]"},
	}
	valid := map[string][]string{
		"sen":       {"{a:1 b:[true null 2.5e3] c:{d:\"x\"}}", "[1 2 3]", "{a:\"x\" + \"y\"}", "fun(1 2)", "{a:1 + \"x\"}", "[1 + \"x\"]", "+ \"x\"", "{a:b c:d}", "// c\n[1]", "[0x1f -0 +3]", "[\"a\" + /* x */ \"b\" 1 \"c\"]", "{x: \"a\" + // more\n \"b\" y: \"c\"}", "[\"a\" + /* x */ 1 \"b\"]", "{x: \"a\" + // c\n y: \"b\"}"},
		"jp":        {"$.a.b[1]", "$..a[*]['x','y'][1:3:2]", "$[?(@.a > 1 && @.b in [1,2])]", "@.x[?(@.y =~ /a.b/)].z", "$[?(length(@.a) == 2)]", "(@.a + 1 >= 2 || !(@.b exists true))", "$['a\\'b'][-1]", "$[?(@.a has true)][0,'k']", "$['\\ud834\\udd22x']['\\u00e9\\\\']"},
		"plan":      {"[[set $.asm.a [\"+\" 1 2]] [set $.asm.b [cond [[lt 1 2] x] [true y]]]]", "[asm [set $.asm [each $.src [set @.asm [string @.src]]]]]", "[[set \"$.asm.x\" [join [list a b] \"\"]]]", "[[sort $.src @] [nth $.src -1] [substr abc 1 2]]", "[[include [[1] a] [1]] [substr abcdef 1 9223372036854775807] [include [{a:1}] {a:1}]]", "[[substr h\u00e9llo 6] [substr \"\u00e9\u00e9\" 3 9] [substr h\u00e9llo -9 2]]"},
		"recompose": {"{\"A\":1,\"B\":\"x\",\"C\":[1,2],\"D\":{\"k\":1.5},\"E\":{\"A\":2},\"F\":[1],\"G\":[true,false],\"H\":[{\"A\":3},null]}", "[{\"A\":1}]", "{\"a\":\"1\",\"c\":{\"x\":1},\"g\":[1,2,3]}"},
	}
	maxLen := map[string]int{"sen": 4, "jp": 4, "plan": 4, "recompose": 5}
	timeouts := 0
	for group, ts := range targets {
		var inputs [][]byte
		// exhaustive short sequences of pieces
		var rec func(prefix string, depth int)
		ml := maxLen[group]
		if !deep {
			ml--
		}
		rec = func(prefix string, depth int) {
			inputs = append(inputs, []byte(prefix))
			if depth == ml {
				return
			}
			for _, a := range alpha[group] {
				rec(prefix+a, depth+1)
			}
		}
		rec("", 0)
		// valid texts, their prefixes, and mutations with the group's pieces
		for _, v := range valid[group] {
			for i := 0; i <= len(v); i++ {
				inputs = append(inputs, []byte(v[:i]))
			}
			nm := 300
			if deep {
				nm = 3000
			}
			for i := 0; i < nm; i++ {
				b := []byte(v)
				for k := 0; k < 1+r.Intn(3); k++ {
					p := r.Intn(len(b) + 1)
					piece := alpha[group][r.Intn(len(alpha[group]))]
					switch r.Intn(3) {
					case 0:
						b = append(b[:p], append([]byte(piece), b[p:]...)...)
					case 1:
						if p < len(b) {
							b = append(b[:p], b[p+1:]...)
						}
					default:
						if p < len(b) {
							b = append(b[:p], append([]byte(piece), b[p+1:]...)...)
						}
					}
				}
				inputs = append(inputs, b)
			}
		}
		if group == "recompose" {
			// every field of the target type against every shape of value, alone and nested
			vals := []string{"null", "true", "1", "-1", "1.5", "\"x\"", "\"\"", "[]", "[null]", "[1]", "[\"x\"]", "[true]", "[[1]]", "[{}]", "[null,2]", "[1,null]", "{}",
				"{\"k\":null}", "{\"k\":1}", "{\"k\":\"x\"}", "{\"k\":[1]}", "{\"A\":null}", "{\"A\":\"x\"}", "{\"E\":{\"E\":null}}", "[{\"A\":null}]", "[{\"H\":[null]}]",
				"99999999999999999999", "1e400", "-0", "{\"^\":\"fuser\"}", "{\"^\":1}", "[{\"^\":\"nope\"}]", "[1,2,3]", "[true,false,true]"}
			for _, f := range []string{"A", "B", "C", "D", "E", "F", "G", "H", "I", "J", "K", "L", "M", "N", "O", "P", "Q", "R", "S", "X", "Y", "a", "h", "^", "Z"} {
				for _, v := range vals {
					one := "{\"" + f + "\":" + v + "}"
					inputs = append(inputs, []byte(one), []byte("["+one+"]"), []byte("{\"E\":"+one+"}"), []byte("{\"H\":["+one+"]}"), []byte("{\"F\":"+one+"}"))
				}
			}
		}
		for _, in := range inputs {
			for _, t := range ts {
				rep.Evaluations++
				out := runGuarded(func() error { return t.run(in) })
				rep.Count(group + ":" + strings.Fields(out)[0])
				if out != "ok" && out != "error" {
					kind := "impl-law:panic"
					switch {
					case strings.HasPrefix(out, "MASKED"):
						kind = "impl-law:masked-runtime-fault"
					case out == "TIMEOUT":
						kind = "impl-law:does-not-terminate"
						timeouts++
					}
					rep.Add(Disagreement{Case: hx(in), Where: t.name, Kind: kind, Impl: out, Model: "returns nil or an error describing the input", Detail: fmt.Sprintf("%q", in)})
					if timeouts >= 3 {
						rep.Notes = map[string]string{"stopped": "three calls did not return within 5 s; the run was cut short"}
						return rep
					}
				}
			}
		}
	}
	rep.Rule = "other entry points: sen.Parse / ParseReader (1-byte reads) / multi-document / Tokenize / TokenizeLoad, jp.ParseString / NewScript / NewFilter, asm.NewPlan + Execute on every text that parses as a SEN array, oj.Unmarshal / sen.Unmarshal / alt.Recompose into a struct with every field kind; inputs: every sequence of up to 3 (thorough: 4-5) pieces of a per-group alphabet (delimiters, quotes, signs, keywords, NUL, BOM), every prefix of valid texts, and 300 (3000) mutations per valid text; a panic that escapes, a call that does not return within 5 s, and an error that is a masked runtime fault are disagreements"
	return rep
}
