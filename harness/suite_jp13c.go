package main

import (
	"fmt"
	"sort"
	"strings"

	"github.com/ohler55/ojg/jp"
)

// C13 on user collections: Set / Del / Remove / Modify on data held in Keyed and (Removable)
// Indexed collections change what they change on the same data held in maps and slices.

type kcoll struct{ m map[string]any }

func (k *kcoll) ValueForKey(key string) (any, bool) { v, ok := k.m[key]; return v, ok }
func (k *kcoll) SetValueForKey(key string, v any)   { k.m[key] = v }
func (k *kcoll) RemoveValueForKey(key string)       { delete(k.m, key) }
func (k *kcoll) Keys() []string {
	keys := make([]string, 0, len(k.m))
	for key := range k.m {
		keys = append(keys, key)
	}
	sort.Strings(keys)
	return keys
}

type icoll struct{ a []any }

func (l *icoll) ValueAtIndex(i int) any       { return l.a[i] }
func (l *icoll) SetValueAtIndex(i int, v any) { l.a[i] = v }
func (l *icoll) Size() int                    { return len(l.a) }
func (l *icoll) RemoveValueAtIndex(i int)     { l.a = append(l.a[:i], l.a[i+1:]...) }

func toColl(v any) any {
	switch t := v.(type) {
	case []any:
		a := make([]any, len(t))
		for i, e := range t {
			a[i] = toColl(e)
		}
		return &icoll{a}
	case map[string]any:
		m := map[string]any{}
		for k, e := range t {
			m[k] = toColl(e)
		}
		return &kcoll{m}
	}
	return v
}

func fromColl(v any) any {
	switch t := v.(type) {
	case *icoll:
		a := make([]any, len(t.a))
		for i, e := range t.a {
			a[i] = fromColl(e)
		}
		return a
	case *kcoll:
		m := map[string]any{}
		for k, e := range t.m {
			m[k] = fromColl(e)
		}
		return m
	}
	return v
}

func suiteMutateCollections(tier string, seed uint64) *Report {
	rep := &Report{Property: "C13", Tier: tier, Seed: seed}
	r := NewRng(seed + 1313)
	n := 3000
	if tier == "thorough" {
		n = 60000
	}
	opNames := []string{"Set", "Del", "Remove", "Modify"}
	for i := 0; i < n; i++ {
		op := r.Intn(4)
		var d any
		if r.Chance(45) {
			d = genArrayTree(r, 1+r.Intn(3))
		} else {
			d = genTree(r, 1+r.Intn(3))
		}
		switch d.(type) {
		case []any, map[string]any:
		default:
			d = []any{d, genTree(r, 2)}
		}
		p := genMutPath(r, op)
		if pathHas(p, "D") || pathHas(p, "s") || pathHas(p, "f") {
			continue // descents order, the recorded slice and filter-root findings: simple data suite
		}
		x := BuildExpr(p)
		run := func(data any) (res any, out string) {
			out = safeT(func() string {
				var err error
				res = data
				switch op {
				case 0:
					err = x.Set(data, int64(99))
				case 1:
					err = x.Del(data)
				case 2:
					res, err = x.Remove(data)
				default:
					res, err = x.Modify(data, func(e any) (any, bool) { return int64(99), true })
				}
				if err != nil {
					return "E"
				}
				return "ok"
			})
			return
		}
		sres, sout := run(deepCopy(d))
		cres, cout := run(toColl(deepCopy(d)))
		rep.Evaluations++
		desc := fmt.Sprintf("%s %s on %s", opNames[op], x.String(), Show(d))
		if strings.HasPrefix(cout, "F ") {
			rep.Add(Disagreement{Case: desc, Where: opNames[op] + "/Keyed+Indexed", Kind: "impl-law:collections-panic", Impl: cout})
			continue
		}
		if sout != cout || (sout == "ok" && Show(sres) != Show(fromColl(cres))) {
			rep.Add(Disagreement{Case: desc, Where: opNames[op] + "/Keyed+Indexed", Kind: "impl-law:collections", Impl: cout + " " + Show(fromColl(cres)), Spec: sout + " " + Show(sres)})
		}
	}
	// directed: members whose value is null are members like any other
	for _, c := range []struct {
		path string
		data any
	}{
		{"$.a", map[string]any{"a": nil, "b": int64(1)}},
		{"$[*].a", []any{map[string]any{"a": nil}, map[string]any{"a": int64(2), "b": nil}}},
		{"$.x.a", map[string]any{"x": map[string]any{"a": nil, "c": nil}}},
		{"$['a','b']", map[string]any{"a": nil, "b": nil, "c": int64(3)}},
	} {
		x := jp.MustParseString(c.path)
		for op, name := range []string{"Del", "Remove"} {
			run := func(data any) string {
				return safeT(func() string {
					var err error
					res := data
					if op == 0 {
						err = x.Del(data)
					} else {
						res, err = x.Remove(data)
					}
					if err != nil {
						return "E"
					}
					return Show(fromColl(res))
				})
			}
			rep.Evaluations++
			if a, b := run(deepCopy(c.data)), run(toColl(deepCopy(c.data))); a != b {
				rep.Add(Disagreement{Case: name + " " + c.path + " on " + Show(c.data), Where: name + "/Keyed+Indexed", Kind: "impl-law:collections", Impl: b, Spec: a})
			}
		}
	}
	// directed: Set on a struct reached by reflection - own fields and fields promoted from an
	// embedded struct are written where Get reads them
	type Meta struct {
		Version int
		Note    string
	}
	type Wrapped struct {
		Meta
		Name string
		N    int
	}
	for k := 0; k < 10; k++ {
		for _, f := range []string{"version", "note", "name", "n", "Version"} {
			w := &Wrapped{Meta: Meta{Version: 1, Note: "x"}, Name: "nm", N: 3}
			root := map[string]any{"w": w}
			x := jp.MustParseString("$.w." + f)
			var val any = 40 + k // an int, the type of the fields
			if f == "note" || f == "name" {
				val = fmt.Sprintf("s%d", k)
			}
			rep.Evaluations++
			out := safeT(func() string {
				if err := x.Set(root, val); err != nil {
					return "E " + err.Error()
				}
				got := x.Get(root)
				if len(got) != 1 || fmt.Sprint(got[0]) != fmt.Sprint(val) {
					return fmt.Sprintf("after Set Get gives %v", got)
				}
				return "ok"
			})
			if out != "ok" {
				rep.Add(Disagreement{Case: "Set $.w." + f + " on a struct with an embedded struct", Where: "Set/reflect", Kind: "impl-law:set-then-get", Impl: out, Spec: fmt.Sprint(val)})
			}
		}
	}
	// directed: a Modify modifier whose result has no generic form is an error on gen data and leaves it unchanged
	for k := 0; k < 5; k++ {
		g := toGen(map[string]any{"a": []any{int64(1), int64(2)}, "b": int64(k)})
		before := Show(g)
		rep.Evaluations++
		out := safeT(func() string {
			res, err := jp.MustParseString("$.a[*]").Modify(g, func(e any) (any, bool) { return make(chan int), true })
			if err == nil {
				return "no error, result " + Show(res)
			}
			if Show(g) != before {
				return "error but data changed to " + Show(g)
			}
			return "ok"
		})
		if out != "ok" {
			rep.Add(Disagreement{Case: "Modify $.a[*] on gen data with a modifier returning a chan", Where: "Modify/gen", Kind: "impl-law:impossible-request", Impl: out, Spec: "an error, data unchanged"})
		}
	}
	rep.Rule = "directed: Set then Get on own and promoted struct fields; a modifier result without generic form is an error on gen data; user collections: seeded paths without descents, slices and filters x seeded trees; Set, Del, Remove and Modify on the tree held in Keyed / RemovableIndexed collections must give the result they give on maps and slices"
	return rep
}
