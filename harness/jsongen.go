package main

import (
	"fmt"
	"strconv"
	"strings"
)

// alphabet of byte-class representatives for bounded-exhaustive enumeration: every byte the
// tables or the handlers distinguish has a member here.
var jsonAlphabet = []byte{' ', '\n', '\t', '"', '\\', '/', ',', ':', '[', ']', '{', '}', '-', '+', '.',
	'0', '1', '9', 'e', 'E', 'a', 'b', 'f', 'l', 'n', 'r', 's', 't', 'u', 'x', 'A', 'F',
	0x00, 0x1f, 0x7f, 0x80, 0xff}

func enumStrings(alpha []byte, maxLen int, f func([]byte)) {
	buf := make([]byte, 0, maxLen)
	var rec func(int)
	rec = func(n int) {
		f(buf)
		if n == maxLen {
			return
		}
		for _, b := range alpha {
			buf = append(buf, b)
			rec(n + 1)
			buf = buf[:len(buf)-1]
		}
	}
	rec(0)
}

var wsChoices = []string{"", "", "", " ", "\n", "\t", "\r\n", "  ", " \n ", "\n\n", "\n\n  ", "\n \n", "\r\n\r\n\t", "\n\n\n"}

func genWs(r *Rng) string { return r.Pick(wsChoices) }

var strPieces = []string{"a", "b", "xyz", " ", "\\\"", "\\\\", "\\/", "\\b", "\\f", "\\n", "\\r", "\\t",
	"\\u0041", "\\u00e9", "\\u20AC", "\\ud83d\\ude00", "\\ud800", "\\udc00", "\\uFFFF", "\\u0000", "é", "€", "😀",
	"\x7f", "\x80", "\xff", "\xc3", "{", "}", "[", "]", ",", ":", "null", "true", "1", "/"}

func genStringLit(r *Rng) string {
	var sb strings.Builder
	sb.WriteByte('"')
	n := r.Intn(5)
	if r.Chance(5) {
		n = 20 + r.Intn(60)
	}
	for i := 0; i < n; i++ {
		sb.WriteString(r.Pick(strPieces))
	}
	sb.WriteByte('"')
	return sb.String()
}

func digits(r *Rng, n int, first string) string {
	var sb strings.Builder
	for i := 0; i < n; i++ {
		if i == 0 && first != "" {
			sb.WriteByte(first[r.Intn(len(first))])
		} else {
			switch r.Intn(4) {
			case 0:
				sb.WriteByte('0')
			case 1:
				sb.WriteByte('9')
			default:
				sb.WriteByte(byte('0' + r.Intn(10)))
			}
		}
	}
	return sb.String()
}

var boundaryInts = []string{"9223372036854775807", "9223372036854775808", "9223372036854775806",
	"18446744073709551615", "18446744073709551616", "18446744073709551617", "922337203685477580",
	"922337203685477581", "9223372036854775799", "9223372036854775810", "1000000000000000000",
	"999999999999999999", "10000000000000000000", "100000000000000000000", "123456789012345678901234567890"}

// number literal from the shape grammar of the design (digit counts on both sides, exponent forms,
// boundary values)
func genNumber(r *Rng) string {
	var sb strings.Builder
	if r.Chance(35) {
		sb.WriteByte('-')
	}
	switch r.Intn(10) {
	case 0:
		sb.WriteByte('0')
	case 1, 2:
		sb.WriteString(r.Pick(boundaryInts))
	case 3:
		sb.WriteString(digits(r, 17+r.Intn(6), "123456789"))
	default:
		sb.WriteString(digits(r, 1+r.Intn(4), "123456789"))
	}
	if r.Chance(40) {
		sb.WriteByte('.')
		switch r.Intn(6) {
		case 0:
			sb.WriteString(digits(r, 17+r.Intn(6), ""))
		case 1:
			sb.WriteString(strings.Repeat("0", 1+r.Intn(22)) + digits(r, 1+r.Intn(3), "123456789"))
		case 2:
			sb.WriteString(r.Pick(boundaryInts))
		default:
			sb.WriteString(digits(r, 1+r.Intn(4), ""))
		}
	}
	if r.Chance(30) {
		sb.WriteByte("eE"[r.Intn(2)])
		sb.WriteString(r.Pick([]string{"", "", "+", "-"}))
		switch r.Intn(6) {
		case 0:
			sb.WriteString(r.Pick([]string{"102", "103", "1022", "1023", "1024", "308", "309", "324", "400", "00", "007", "99999"}))
		default:
			sb.WriteString(strconv.Itoa(r.Intn(40)))
		}
	}
	return sb.String()
}

// gridNumbers enumerates the digit-count grid of the design: ip x fp digit counts with fixed
// digit patterns and the exponent forms.
func gridNumbers(maxDigits int, f func(string)) {
	pats := []func(n int) string{
		func(n int) string { return strings.Repeat("9", n) },
		func(n int) string { return "1" + strings.Repeat("0", n-1) },
		func(n int) string { return strings.Repeat("0", n-1) + "1" },
		func(n int) string { return "9223372036854775807922337203685477580"[:n] },
	}
	exps := []string{"", "e0", "e5", "E-5", "e+102", "e103", "e-1022", "e1023"}
	for ip := 1; ip <= maxDigits; ip++ {
		for fp := 0; fp <= maxDigits; fp++ {
			for pi, p := range pats {
				ipart := p(ip)
				if ip > 1 && ipart[0] == '0' {
					ipart = "1" + ipart[1:]
				}
				for qi, q := range pats {
					if fp == 0 && qi > 0 {
						continue
					}
					if (pi+qi)%2 == 1 && ip > 3 && fp > 3 {
						continue // thin the grid away from the small sizes
					}
					s := ipart
					if fp > 0 {
						s += "." + q(fp)
					}
					for _, e := range exps {
						f(s + e)
						f("-" + s + e)
					}
				}
			}
		}
	}
}

func genValue(r *Rng, depth int) string {
	k := r.Intn(12)
	if depth <= 0 && k >= 8 {
		k = r.Intn(8)
	}
	switch k {
	case 0:
		return "null"
	case 1:
		return "true"
	case 2:
		return "false"
	case 3, 4:
		return genNumber(r)
	case 5, 6, 7:
		return genStringLit(r)
	case 8, 9:
		n := r.Intn(4)
		var sb strings.Builder
		sb.WriteString("[" + genWs(r))
		for i := 0; i < n; i++ {
			if i > 0 {
				sb.WriteString(genWs(r) + "," + genWs(r))
			}
			sb.WriteString(genValue(r, depth-1))
		}
		sb.WriteString(genWs(r) + "]")
		return sb.String()
	default:
		n := r.Intn(4)
		var sb strings.Builder
		sb.WriteString("{" + genWs(r))
		for i := 0; i < n; i++ {
			if i > 0 {
				sb.WriteString(genWs(r) + "," + genWs(r))
			}
			if r.Chance(25) {
				sb.WriteString(fmt.Sprintf("\"k%d\"", r.Intn(2))) // duplicates
			} else {
				sb.WriteString(genStringLit(r))
			}
			sb.WriteString(genWs(r) + ":" + genWs(r))
			sb.WriteString(genValue(r, depth-1))
		}
		sb.WriteString(genWs(r) + "}")
		return sb.String()
	}
}

func genDoc(r *Rng) []byte {
	s := genWs(r) + genValue(r, 1+r.Intn(4)) + genWs(r)
	return []byte(s)
}

var mutBytes = []byte{' ', '\n', '"', '\\', ',', ':', '[', ']', '{', '}', '-', '+', '.', '0', '1', 'e', 'E', 'n', 't', 'f', 'u', 'l', 'a', 0x00, 0x80, 0xef}

func mutate(r *Rng, in []byte) []byte {
	b := append([]byte(nil), in...)
	n := 1 + r.Intn(2)
	for i := 0; i < n; i++ {
		if len(b) == 0 {
			b = append(b, mutBytes[r.Intn(len(mutBytes))])
			continue
		}
		p := r.Intn(len(b))
		switch r.Intn(6) {
		case 0: // delete
			b = append(b[:p], b[p+1:]...)
		case 1: // insert
			b = append(b[:p], append([]byte{mutBytes[r.Intn(len(mutBytes))]}, b[p:]...)...)
		case 2: // replace
			b[p] = mutBytes[r.Intn(len(mutBytes))]
		case 3: // truncate
			b = b[:p]
		case 4: // duplicate a byte
			b = append(b[:p], append([]byte{b[p]}, b[p:]...)...)
		case 5: // swap close brackets / append junk
			if r.Bool() {
				b = append(b, mutBytes[r.Intn(len(mutBytes))])
			} else {
				for j := range b {
					if b[j] == ']' {
						b[j] = '}'
						break
					} else if b[j] == '}' {
						b[j] = ']'
						break
					}
				}
			}
		}
	}
	return b
}
