package main

import (
	"fmt"
	"sort"
	"strconv"
	"strings"

	"github.com/ohler55/ojg/gen"
	"github.com/ohler55/ojg/jp"
)

// normalised path of the implementation as the model's S-expression
func npathSexp(x jp.Expr) string {
	parts := make([]string, 0, len(x))
	for _, f := range x {
		switch t := f.(type) {
		case jp.Root:
			parts = append(parts, "R")
		case jp.At:
			parts = append(parts, "A")
		case jp.Child:
			parts = append(parts, "(c "+hx([]byte(string(t)))+")")
		case jp.Nth:
			parts = append(parts, "(n "+strconv.Itoa(int(t))+")")
		default:
			parts = append(parts, fmt.Sprintf("?%T", f))
		}
	}
	return "(p " + strings.Join(parts, " ") + ")"
}

// ---- other representations of the same tree

type keyedMap struct{ m map[string]any }

func (k keyedMap) ValueForKey(key string) (any, bool) { v, ok := k.m[key]; return v, ok }
func (k keyedMap) SetValueForKey(key string, v any)   { k.m[key] = v }
func (k keyedMap) RemoveValueForKey(key string)       { delete(k.m, key) }
func (k keyedMap) Keys() []string {
	keys := make([]string, 0, len(k.m))
	for key := range k.m {
		keys = append(keys, key)
	}
	sort.Strings(keys)
	return keys
}

type indexedList struct{ a []any }

func (l indexedList) ValueAtIndex(i int) any       { return l.a[i] }
func (l indexedList) SetValueAtIndex(i int, v any) { l.a[i] = v }
func (l indexedList) Size() int                    { return len(l.a) }

// toCollections wraps every object as Keyed and every array as Indexed
func toCollections(v any) any {
	switch t := v.(type) {
	case []any:
		a := make([]any, len(t))
		for i, e := range t {
			a[i] = toCollections(e)
		}
		return indexedList{a}
	case map[string]any:
		m := map[string]any{}
		for k, e := range t {
			m[k] = toCollections(e)
		}
		return keyedMap{m}
	}
	return v
}

func fromCollections(v any) any {
	switch t := v.(type) {
	case indexedList:
		a := make([]any, len(t.a))
		for i, e := range t.a {
			a[i] = fromCollections(e)
		}
		return a
	case keyedMap:
		m := map[string]any{}
		for k, e := range t.m {
			m[k] = fromCollections(e)
		}
		return m
	}
	return v
}

// typed representation reached by reflection: arrays become []any held in a typed slice type,
// objects with keys within {a,b,c} become a struct
// toGen builds the gen form of a simple tree directly (alt.Generify is C18's subject)
func toGen(v any) gen.Node {
	switch t := v.(type) {
	case nil:
		return nil
	case bool:
		return gen.Bool(t)
	case int64:
		return gen.Int(t)
	case float64:
		return gen.Float(t)
	case string:
		return gen.String(t)
	case []any:
		a := make(gen.Array, len(t))
		for i, e := range t {
			a[i] = toGen(e)
		}
		return a
	case map[string]any:
		o := gen.Object{}
		for k, e := range t {
			o[k] = toGen(e)
		}
		return o
	}
	panic("toGen")
}

type refStruct struct {
	A any `json:"a"`
	B any `json:"b"`
	C any `json:"c"`
}
type anySlice []any

func suiteEvaluators(tier string, seed uint64, model string) *Report {
	rep := &Report{Property: "C11", Tier: tier, Seed: seed}
	r := NewRng(seed)
	n := 12000
	if tier == "thorough" {
		n = 600000
	}
	type cs struct {
		path []Frag
		data any
	}
	var cases []cs
	for i := 0; i < n; i++ {
		var d any
		if r.Chance(50) {
			d = genArrayTree(r, 1+r.Intn(4))
		} else {
			d = genTree(r, 1+r.Intn(4))
		}
		p := genPath(r, 1)
		if p[len(p)-1].Kind == "D" { // "every path expression not ending in a bare descent"
			p = append(p, Frag{Kind: "W"})
		}
		cases = append(cases, cs{p, d})
	}
	dps, dds := directedJpCases()
	for i := range dps {
		cases = append(cases, cs{dps[i], dds[i]})
	}
	// a path that ends in a bare descent has no specified result list, but the representations must
	// still agree with each other on it: same elements, same order where the data defines one
	for i := 0; i < n/20; i++ {
		d := genArrayTree(r, 1+r.Intn(4))
		p := genPath(r, 1)
		if p[len(p)-1].Kind != "D" {
			p = append(p, Frag{Kind: "D"})
		}
		x := BuildExpr(p)
		rep.Evaluations++
		simple := safe(func() string { return strings.Join(showList(x.Get(d)), " ; ") })
		onGen := safe(func() string { return strings.Join(showList(x.Get(toGen(d))), " ; ") })
		ordered := !multiKeyObject(d) && strings.Count(PathSexp(p), " D") == 1
		if strings.HasPrefix(simple, "F ") || strings.HasPrefix(onGen, "F ") || !sameList(splitResults(simple), splitResults(onGen), ordered) {
			rep.Add(Disagreement{Case: PathSexp(p) + "\t" + Show(d), Where: "Expr.Get/gen vs Expr.Get (trailing descent)", Kind: "impl-law:representations", Impl: onGen, Spec: simple})
		}
	}
	var reqs []string
	for _, c := range cases {
		ps, ds := PathSexp(c.path), Show(c.data)
		reqs = append(reqs, "get\t"+ps+"\t"+ds, "locate\t"+ps+"\t"+ds, "first\t"+ps+"\t"+ds, "has\t"+ps+"\t"+ds, "locates\t"+ps+"\t"+ds)
	}
	ans, err := RunModel(model, reqs)
	if err != nil {
		rep.Add(Disagreement{Kind: "harness-error", Detail: err.Error()})
		return rep
	}
	distinct := map[string]bool{}
	type rvCand struct {
		d          Disagreement
		req, reqSs string
	}
	var rvCands []rvCand
	for i, c := range cases {
		x := BuildExpr(c.path)
		desc := reqs[5*i][4:]
		mGet := splitResults(ans[5*i])
		mLoc := splitResults(ans[5*i+1])
		mFirst, mHas := ans[5*i+2], ans[5*i+3]
		mLocSes := splitResults(ans[5*i+4])
		ordered := !pathHas(c.path, "D") && !multiKeyObject(c.data)
		rep.Evaluations++
		if len(mGet) > 0 {
			distinct[desc] = true
		}
		bad := func(where, impl, spec string) {
			rep.Add(Disagreement{Case: desc, Where: where, Kind: "impl-vs-spec:evaluator", Impl: impl, Spec: spec})
		}
		// Has
		has := safe(func() string {
			if x.Has(c.data) {
				return "t"
			}
			return "f"
		})
		if has != mHas {
			bad("Expr.Has", has, mHas)
		}
		// First / FirstFound
		first := safe(func() string {
			v, ok := x.FirstFound(c.data)
			if !ok {
				return "N"
			}
			return "S " + Show(v)
		})
		if ordered {
			if first != mFirst {
				bad("Expr.FirstFound", first, mFirst)
			}
		} else {
			ok := (first == "N") == (len(mGet) == 0)
			if ok && first != "N" {
				ok = false
				for _, g := range mGet {
					if "S "+g == first {
						ok = true
					}
				}
			}
			if !ok {
				bad("Expr.FirstFound", first, strings.Join(mGet, " ; "))
			}
		}
		// Locate: normalised paths + the value each one leads to
		locRun := func(x jp.Expr) string {
			return safe(func() string {
				var out []string
				for _, p := range x.Locate(c.data, 0) {
					vs := p.Get(c.data)
					val := "<" + strconv.Itoa(len(vs)) + " results>"
					if len(vs) == 1 {
						val = Show(vs[0])
					}
					out = append(out, npathSexp(p)+" | "+val)
				}
				return strings.Join(out, " ; ")
			})
		}
		loc := locRun(x)
		locClass := func(impl string) string {
			// equal to the specification variant that normalises slices as Slice.startEndStep does
			if !strings.HasPrefix(impl, "F ") && pathHas(c.path, "s") && sameList(splitResults(impl), mLocSes, false) {
				return "slice-normalisation"
			}
			return ""
		}
		// exact attribution for the recorded behaviour "Locate and Walk do not resolve $ inside a
		// filter against the document": with every $-operand replaced by the scalar it denotes, the
		// same call gives the specified result
		// second attribution, for $-operands that denote containers: the result equals the model's
		// variant in which a filter's $ is nil (Locate) / the candidate element (Walk); decided
		// after the loop with one more model batch
		addLW := func(d Disagreement, mode int) {
			if d.Class == "" && !strings.HasPrefix(d.Impl, "F ") && filterHasRootOperand(c.path) {
				rvCands = append(rvCands, rvCand{d, fmt.Sprintf("locatev\t%d\t0\t%s\t%s", mode, PathSexp(c.path), Show(c.data)),
					fmt.Sprintf("locatev\t%d\t1\t%s\t%s", mode, PathSexp(c.path), Show(c.data))})
				return
			}
			rep.Add(d)
		}
		rootClass := func(run func(x jp.Expr) string, locOrdered bool) string {
			dp, changed, ok := defuseRootOperands(c.path, c.data)
			if !changed || !ok {
				return ""
			}
			got := run(BuildExpr(dp))
			if !strings.HasPrefix(got, "F ") && sameList(splitResults(got), mLoc, locOrdered) {
				return "filter-root-operand-in-locate-walk"
			}
			return ""
		}
		// Locate and Walk report a set of paths: filters enumerate their matches from the end
		locOrdered := ordered && !pathHas(c.path, "f")
		if strings.HasPrefix(loc, "F ") || !sameList(splitResults(loc), mLoc, locOrdered) {
			cl := locClass(loc)
			if cl == "" {
				cl = rootClass(locRun, locOrdered)
			}
			addLW(Disagreement{Case: desc, Where: "Expr.Locate", Kind: "impl-vs-spec:evaluator", Impl: loc, Spec: strings.Join(mLoc, " ; "), Class: cl}, 0)
		}
		// Expr.Walk
		walkRun := func(x jp.Expr) string {
			return safe(func() string {
				var out []string
				x.Walk(c.data, func(path jp.Expr, nodes []any) {
					ps := npathSexp(path)
					if len(c.path) > 0 && c.path[0].Kind == "R" { // Expr.Walk leaves the root fragment out
						ps = strings.Replace(ps, "(p ", "(p R ", 1)
						ps = strings.Replace(ps, "(p R )", "(p R)", 1)
					}
					out = append(out, ps+" | "+Show(nodes[len(nodes)-1]))
				})
				return strings.Join(out, " ; ")
			})
		}
		walk := walkRun(x)
		if strings.HasPrefix(walk, "F ") || !sameList(splitResults(walk), mLoc, locOrdered) {
			cl := locClass(walk)
			if cl == "" {
				cl = rootClass(walkRun, locOrdered)
			}
			addLW(Disagreement{Case: desc, Where: "Expr.Walk", Kind: "impl-vs-spec:evaluator", Impl: walk, Spec: strings.Join(mLoc, " ; "), Class: cl}, 1)
		}
		// gen data: GetNodes / FirstNode / Get on gen
		gd := toGen(c.data)
		nodes := safe(func() string {
			rs := x.GetNodes(gd)
			out := make([]string, len(rs))
			for j, v := range rs {
				out[j] = Show(v)
			}
			return strings.Join(out, " ; ")
		})
		if strings.HasPrefix(nodes, "F ") || !sameList(splitResults(nodes), mGet, ordered) {
			bad("Expr.GetNodes", nodes, ans[5*i])
		}
		fnode := safe(func() string {
			v := x.FirstNode(gd)
			if v == nil {
				return "N-or-null"
			}
			return "S " + Show(v)
		})
		if ordered && fnode != mFirst && !(fnode == "N-or-null" && (mFirst == "N" || mFirst == "S n")) {
			bad("Expr.FirstNode", fnode, mFirst)
		}
		ggen := safe(func() string { return strings.Join(showList(x.Get(gd)), " ; ") })
		if strings.HasPrefix(ggen, "F ") || !sameList(splitResults(ggen), mGet, ordered) {
			bad("Expr.Get/gen", ggen, ans[5*i])
		}
		// Keyed / Indexed collections (length/count/empty/in are defined on built-in containers only)
		if ps := PathSexp(c.path); strings.Contains(ps, "length") || strings.Contains(ps, "count") || strings.Contains(ps, "empty") || strings.Contains(ps, "bin in") {
			continue
		}
		cd := toCollections(c.data)
		gcol := safe(func() string {
			rs := x.Get(cd)
			out := make([]string, len(rs))
			for j, v := range rs {
				out[j] = Show(fromCollections(v))
			}
			return strings.Join(out, " ; ")
		})
		// Keyed.Keys() is sorted here, so the order is defined whenever there is no descent
		if strings.HasPrefix(gcol, "F ") || !sameList(splitResults(gcol), mGet, ordered) {
			bad("Expr.Get/Keyed+Indexed", gcol, ans[5*i])
		}
		hcol := safe(func() string {
			if x.Has(cd) {
				return "t"
			}
			return "f"
		})
		if hcol != mHas {
			bad("Expr.Has/Keyed+Indexed", hcol, mHas)
		}
		// reflection: the top level as a typed slice / struct
		switch t := c.data.(type) {
		case []any:
			rs := safe(func() string { return strings.Join(showList(x.Get(anySlice(t))), " ; ") })
			if strings.HasPrefix(rs, "F ") || !sameList(splitResults(rs), mGet, ordered) {
				bad("Expr.Get/typed-slice", rs, ans[5*i])
			}
		}
		if i%1499 == 0 && len(rep.Samples) < 10 {
			rep.Samples = append(rep.Samples, desc)
		}
	}
	_ = gen.Int(0)
	if len(rvCands) > 0 {
		var rq []string
		for _, rc := range rvCands {
			rq = append(rq, rc.req, rc.reqSs)
		}
		rans, err := RunModel(model, rq)
		for i, rc := range rvCands {
			if err == nil && (sameList(splitResults(rc.d.Impl), splitResults(rans[2*i]), false) || sameList(splitResults(rc.d.Impl), splitResults(rans[2*i+1]), false)) {
				rc.d.Class = "filter-root-operand-in-locate-walk"
			}
			rep.Add(rc.d)
		}
	}
	rep.Distinct = len(distinct)
	rep.Rule = "seeded paths (not ending in a bare descent) x seeded trees; Has, FirstFound, Locate (each path re-evaluated with Get), Expr.Walk, GetNodes/FirstNode/Get on the generified tree, Get/Has on Keyed+Indexed wrappers and on a typed slice, all against the extracted get_spec / first_spec / has_spec / locate_spec; non-trivial = distinct (path,data) with a non-empty specified result"
	return rep
}

// filterHasRootOperand: some filter of the path has an operand anchored at $
func filterHasRootOperand(path []Frag) bool {
	for _, f := range path {
		if f.Kind == "f" && strings.Contains(f.Eq.Sexp(), "(p R") {
			return true
		}
	}
	return false
}
