package main

import (
	"encoding/json"
	"fmt"
	"strings"

	"github.com/ohler55/ojg"
	"github.com/ohler55/ojg/alt"
	"github.com/ohler55/ojg/oj"
	"github.com/ohler55/ojg/pretty"
	"github.com/ohler55/ojg/sen"
)

// C15, directed: embedding more than one level deep (value around pointer, pointer in pointer,
// nil at either level), and one Writer instance used for several calls with changing options.
// No step model for these shapes: judged by agreement of the encoders with each other (the tree
// oj.JSON denotes) and, under the Go-compatible options, with encoding/json.

type NIn struct {
	W int
	V string `json:"v,omitempty"`
}
type NMid struct {
	*NIn
	M int
}
type NOutV struct {
	NMid
	O int
}
type NOutP struct {
	*NMid
	O int
}
type NOutPV struct {
	*NOutV
	Q []int
}
type NPlain struct {
	A int
	B string
	C []int
	D map[string]int
	E *int
}

func embedValues() []any {
	in := &NIn{W: 3, V: "x"}
	return []any{
		NOutV{NMid: NMid{NIn: in, M: 1}, O: 2}, NOutV{NMid: NMid{NIn: nil, M: 1}, O: 2}, &NOutV{O: 5},
		NOutP{NMid: &NMid{NIn: in, M: 1}, O: 2}, NOutP{NMid: &NMid{NIn: nil, M: 1}, O: 2}, NOutP{NMid: nil, O: 2}, &NOutP{},
		NOutPV{NOutV: &NOutV{NMid: NMid{NIn: nil, M: 7}, O: 8}, Q: []int{1}}, NOutPV{}, &NOutPV{NOutV: &NOutV{NMid: NMid{NIn: in}}},
		[]any{NOutV{}, NOutP{}, &NMid{}}, map[string]any{"k": NOutP{NMid: &NMid{}}},
	}
}

func suiteEmbed(tier string, seed uint64) *Report {
	rep := &Report{Property: "C15", Tier: tier, Seed: seed}
	trees := func(v any, o ojg.Options) map[string]string {
		out := map[string]string{}
		out["oj.JSON"] = safe(func() string { return parsedShow(oj.JSON(v, &o), false) })
		out["oj.Marshal"] = safe(func() string {
			b, err := oj.Marshal(v, &o)
			if err != nil {
				return "E " + err.Error()
			}
			return parsedShow(string(b), false)
		})
		out["sen.String"] = safe(func() string { return parsedShow(sen.String(v, &o), true) })
		out["pretty.JSON"] = safe(func() string { return parsedShow(pretty.JSON(v, &o), false) })
		out["alt.Decompose"] = safe(func() string {
			d := alt.Decompose(v, &o)
			wo := o
			wo.OmitNil, wo.OmitEmpty = false, false
			return parsedShow(oj.JSON(d, &wo), false)
		})
		return out
	}
	for vi, v := range embedValues() {
		for mask := 0; mask < 32; mask++ {
			o := ojg.Options{Sort: true, UseTags: mask&1 != 0, KeyExact: mask&2 != 0, NestEmbed: mask&4 != 0, OmitNil: mask&8 != 0, OmitEmpty: mask&16 != 0}
			rep.Evaluations++
			ts := trees(v, o)
			ref := ts["oj.JSON"]
			desc := fmt.Sprintf("value %d %T %+v mask %d", vi, v, v, mask)
			for name, t := range ts {
				if strings.HasPrefix(t, "F ") {
					rep.Add(Disagreement{Case: desc, Where: name, Kind: "impl-law:nested-embed-panic", Impl: t})
				} else if t != ref && !strings.HasPrefix(ref, "F ") {
					// Decompose judges emptiness through pointers (recorded finding): only compare it when OmitEmpty is off
					if (name == "alt.Decompose" || name == "pretty.JSON") && o.OmitEmpty {
						continue // Decompose (and pretty, which decomposes) drops emptied structs under the OmitEmpty option
					}
					rep.Add(Disagreement{Case: desc, Where: name, Kind: "impl-law:nested-embed-encoders-differ", Impl: t, Spec: ref})
				}
			}
			if mask == 0 { // once per value: oj.Marshal without options against encoding/json
				gj, gerr := json.Marshal(v)
				got := safe(func() string {
					ob, oerr := oj.Marshal(v)
					if oerr != nil {
						return "E " + oerr.Error()
					}
					return nilAsEmpty(parsedShow(string(ob), false))
				})
				if gerr == nil {
					if want := nilAsEmpty(parsedShow(string(gj), false)); got != want {
						rep.Add(Disagreement{Case: desc, Where: "oj.Marshal vs encoding/json", Kind: "impl-law:nested-embed-go", Impl: got, Spec: want})
					}
				}
			}
		}
	}
	// one Writer, several calls, options changed between the calls: every call equals a fresh Writer
	r := NewRng(seed + 1515)
	n := 400
	if tier == "thorough" {
		n = 20000
	}
	vals := []any{NPlain{}, NPlain{A: 1, B: "b", C: []int{1}, D: map[string]int{"k": 1}}, &NPlain{C: []int{}}, NOutV{}, NOutP{NMid: &NMid{}},
		[]any{NPlain{}, NPlain{A: 2}}, map[string]any{"p": NPlain{B: "z"}}, NIn{}, NIn{W: 1, V: "v"}}
	for i := 0; i < n; i++ {
		sw := &sen.Writer{Options: ojg.Options{Sort: true}}
		ow := &oj.Writer{Options: ojg.Options{Sort: true}}
		pw := &pretty.Writer{Options: ojg.Options{Sort: true}, Width: 80, MaxDepth: 3}
		for k := 0; k < 2+r.Intn(4); k++ {
			mask := r.Intn(32)
			v := vals[r.Intn(len(vals))]
			set := func(o *ojg.Options) {
				o.UseTags, o.KeyExact, o.NestEmbed, o.OmitNil, o.OmitEmpty = mask&1 != 0, mask&2 != 0, mask&4 != 0, mask&8 != 0, mask&16 != 0
			}
			set(&sw.Options)
			set(&ow.Options)
			set(&pw.Options)
			fo := ojg.Options{Sort: true}
			set(&fo)
			rep.Evaluations++
			desc := fmt.Sprintf("history %d call %d: %T %+v mask %d", i, k, v, v, mask)
			if got, want := safe(func() string { return sw.SEN(v) }), safe(func() string { return (&sen.Writer{Options: fo}).SEN(v) }); got != want {
				rep.Add(Disagreement{Case: desc, Where: "sen.Writer reused", Kind: "impl-law:reused-writer-options", Impl: got, Spec: want})
			}
			if got, want := safe(func() string { return ow.JSON(v) }), safe(func() string { return (&oj.Writer{Options: fo}).JSON(v) }); got != want {
				rep.Add(Disagreement{Case: desc, Where: "oj.Writer reused", Kind: "impl-law:reused-writer-options", Impl: got, Spec: want})
			}
			if got, want := safe(func() string { return string(pw.Encode(v)) }), safe(func() string {
				return string((&pretty.Writer{Options: fo, Width: 80, MaxDepth: 3}).Encode(v))
			}); got != want {
				rep.Add(Disagreement{Case: desc, Where: "pretty.Writer reused", Kind: "impl-law:reused-writer-options", Impl: got, Spec: want})
			}
		}
	}
	// directed: a member that is nil only behind a pointer (**T with a nil inner pointer, *any holding
	// nothing) is dropped under OmitNil and written as null otherwise, by every encoder and in the
	// tight and the indented writers alike
	{
		type ppIn struct{ V int }
		type ppT struct {
			A int
			P **int
			Q *any
			R **ppIn
		}
		var np *int
		var na any
		var nin *ppIn
		for vi, v := range []any{ppT{A: 1}, ppT{A: 1, P: &np, Q: &na, R: &nin}, &ppT{A: 2, P: &np}, []any{ppT{A: 3, Q: &na}}, map[string]any{"m": ppT{A: 4, R: &nin}}} {
			for _, omit := range []bool{true, false} {
				for _, indent := range []int{0, 2} {
					o := ojg.Options{Sort: true, OmitNil: omit, Indent: indent}
					rep.Evaluations++
					ts := trees(v, o)
					desc := fmt.Sprintf("nil behind a pointer: value %d omitNil=%v indent=%d", vi, omit, indent)
					for name, t := range ts {
						nulls := strings.Count(t, " n") + strings.Count(t, "[n") + strings.Count(t, "{n")
						if strings.HasPrefix(t, "F ") || strings.HasPrefix(t, "E ") {
							rep.Add(Disagreement{Case: desc, Where: name, Kind: "impl-law:nil-behind-pointer", Impl: t, Spec: "no failure"})
						} else if omit && strings.Contains(t, "n") && nulls > 0 {
							rep.Add(Disagreement{Case: desc, Where: name, Kind: "impl-law:nil-behind-pointer", Impl: t, Spec: "no null member under OmitNil"})
						} else if t != ts["sen.String"] {
							rep.Add(Disagreement{Case: desc, Where: name, Kind: "impl-law:nil-behind-pointer", Impl: t, Spec: ts["sen.String"] + " (sen.String)"})
						}
					}
				}
			}
		}
	}
	rep.Rule = "directed: members nil only behind a pointer (**T, *any) under OmitNil on / off, tight and indented, all encoders agree and none writes null under OmitNil; structs embedding two levels deep (value around pointer, pointer in pointer, pointer in pointer in value; nil at either level; inside slices and maps) x 32 option masks: no encoder panics, sen.String / pretty.JSON / oj.Marshal / alt.Decompose denote the tree oj.JSON denotes, oj.JSON equals encoding/json under the Go-compatible options; one sen / oj / pretty Writer used for 2-5 calls with the option flags changed between the calls equals a fresh Writer each time"
	return rep
}
