package main

import (
	"fmt"
	"os"
	"strings"

	"github.com/ohler55/ojg/gen"
	"github.com/ohler55/ojg/jp"
)

func deepCopy(v any) any {
	switch t := v.(type) {
	case []any:
		a := make([]any, len(t))
		for i, e := range t {
			a[i] = deepCopy(e)
		}
		return a
	case map[string]any:
		m := map[string]any{}
		for k, e := range t {
			m[k] = deepCopy(e)
		}
		return m
	}
	return v
}

func genMutPath(r *Rng, op int) []Frag {
	for {
		p := genPath(r, 1)
		if len(p) == 0 || p[0].Kind != "R" {
			continue
		}
		last := p[len(p)-1].Kind
		if last == "D" || last == "R" || last == "A" {
			continue
		}
		if (op == 0 || op == 1) && !(last == "c" || last == "n" || last == "W" || last == "u") {
			continue
		}
		if len(p) < 2 {
			continue
		}
		if op == 4 && pathHas(p, "D") { // a wrapping modifier under a descent keeps finding its own output
			continue
		}
		return p
	}
}

func suiteMutate(tier string, seed uint64, model string) *Report {
	rep := &Report{Property: "C13", Tier: tier, Seed: seed}
	r := NewRng(seed)
	n := 16000
	if tier == "thorough" {
		n = 800000
	}
	type cs struct {
		op   int
		one  bool
		path []Frag
		data any
		val  any
	}
	var cases []cs
	var reqs []string
	opNames := []string{"Set", "Del", "Remove", "Modify(const)", "Modify(wrap)"}
	for i := 0; i < n; i++ {
		op := r.Intn(5)
		var d any
		if r.Chance(45) {
			d = genArrayTree(r, 1+r.Intn(3))
		} else {
			d = genTree(r, 1+r.Intn(3))
		}
		switch d.(type) {
		case []any, map[string]any:
		default:
			d = []any{d, genTree(r, 2)}
		}
		var v any = r.Pick([]string{"NEW", "z"})
		if r.Chance(40) {
			v = int64(99)
		}
		if r.Chance(15) {
			v = map[string]any{"n": int64(1)}
		}
		if r.Chance(12) {
			v = nil // a null replacement value (on gen data: a nil gen.Node)
		}
		c := cs{op: op, one: r.Chance(35), path: genMutPath(r, op), data: d, val: v}
		if _, isMap := v.(map[string]any); isMap && pathHas(c.path, "D") {
			// Set of one shared container value under a descent makes the data cyclic and the
			// descent never ends (observed: $....* = {"n":1}); recorded in DESIGN.md, not exercised
			c.val = int64(7)
			v = c.val
		}
		cases = append(cases, c)
		cmd := "mutate"
		if c.one {
			cmd = "mutate1"
		}
		reqs = append(reqs, fmt.Sprintf("%s\t%d\t%s\t%s\t%s", cmd, op, PathSexp(c.path), Show(d), Show(v)))
		reqs = append(reqs, fmt.Sprintf("%sk\t%d\t%s\t%s\t%s", cmd, op, PathSexp(c.path), Show(d), Show(v)))
	}
	// directed grid: several matches under unions / wildcards / descents, nested arrays
	ck := func(k string) Frag { return Frag{Kind: "c", Key: k} }
	nn := func(i int) Frag { return Frag{Kind: "n", N: i} }
	un := func(items ...any) Frag {
		f := Frag{Kind: "u"}
		for _, it := range items {
			switch t := it.(type) {
			case int:
				f.Items = append(f.Items, UItem{Idx: t})
			case string:
				f.Items = append(f.Items, UItem{IsKey: true, Key: t})
			}
		}
		return f
	}
	R, W, D := Frag{Kind: "R"}, Frag{Kind: "W"}, Frag{Kind: "D"}
	dpaths := [][]Frag{{R, un(0, 2)}, {R, ck("a"), un(-1, 0)}, {R, un(0, 1), nn(0)}, {R, D, ck("a")}, {R, D, nn(0)},
		{R, W, ck("a")}, {R, W, nn(0)}, {R, D, un("a", "b")}, {R, un("a", "b")}, {R, W, W}, {R, D, W}, {R, nn(-1), W},
		{R, un(1, 0), un(0, 1)}, {R, ck("a"), W}, {R, W, un(0, -1)}}
	obj := func(kv ...any) map[string]any {
		m := map[string]any{}
		for i := 0; i+1 < len(kv); i += 2 {
			m[kv[i].(string)] = kv[i+1]
		}
		return m
	}
	ddata := []any{
		[]any{[]any{obj("a", int64(1), "b", int64(2))}, obj("a", int64(3)), []any{[]any{obj("a", int64(4))}}},
		obj("a", []any{int64(1), int64(2), int64(3)}, "b", []any{int64(4)}),
		[]any{[]any{int64(1), int64(2)}, []any{int64(3), int64(4)}},
		[]any{int64(1), int64(2), int64(3)},
		obj("a", obj("a", int64(1), "b", int64(2)), "b", obj("a", int64(3))),
		[]any{obj("a", int64(1)), obj("a", int64(2), "b", int64(5)), obj("b", int64(3))},
		// the first parents visited lack the member / the element
		[]any{obj("b", int64(3)), obj("a", int64(1)), obj("a", int64(2), "b", int64(5))},
		[]any{[]any{}, obj("b", int64(1)), []any{int64(7), int64(8)}, obj("a", int64(2))},
	}
	for _, dp := range dpaths {
		for _, dd := range ddata {
			for op := 0; op < 5; op++ {
				last := dp[len(dp)-1].Kind
				if (op == 0 || op == 1) && !(last == "c" || last == "n" || last == "W" || last == "u") {
					continue
				}
				if op == 4 && pathHas(dp, "D") {
					continue
				}
				for _, one := range []bool{false, true} {
					c := cs{op: op, one: one, path: dp, data: dd, val: int64(99)}
					cases = append(cases, c)
					cmd := "mutate"
					if one {
						cmd = "mutate1"
					}
					reqs = append(reqs, fmt.Sprintf("%s\t%d\t%s\t%s\t%s", cmd, op, PathSexp(c.path), Show(dd), Show(c.val)))
					reqs = append(reqs, fmt.Sprintf("%sk\t%d\t%s\t%s\t%s", cmd, op, PathSexp(c.path), Show(dd), Show(c.val)))
				}
			}
		}
	}
	// a filter in the middle of the path whose operand is anchored at the document root
	{
		dps, dds := directedJpCases()
		for i, dp := range dps {
			if len(dp) < 3 || dp[len(dp)-1].Kind != "c" || !pathHas(dp, "f") || pathHas(dp, "D") {
				continue
			}
			for _, op := range []int{0, 1, 2, 3} {
				for _, one := range []bool{false, true} {
					c := cs{op: op, one: one, path: dp, data: dds[i], val: int64(99)}
					cases = append(cases, c)
					cmd := "mutate"
					if one {
						cmd = "mutate1"
					}
					reqs = append(reqs, fmt.Sprintf("%s\t%d\t%s\t%s\t%s", cmd, op, PathSexp(c.path), Show(c.data), Show(c.val)))
					reqs = append(reqs, fmt.Sprintf("%sk\t%d\t%s\t%s\t%s", cmd, op, PathSexp(c.path), Show(c.data), Show(c.val)))
				}
			}
		}
	}
	// slice grid: a slice as last fragment (and one level up) with bounds -6..6 in either order and
	// steps absent / 1 / 2 / -1 on arrays of 0..5 elements, for Remove, RemoveOne and Modify
	{
		sl := func(b ...int) Frag { return Frag{Kind: "s", Slice: b} }
		arrs := []any{}
		for ln := 0; ln <= 5; ln++ {
			a := make([]any, ln)
			for i := range a {
				a[i] = int64(i)
			}
			arrs = append(arrs, a)
		}
		bounds := []int{-6, -3, -2, -1, 0, 1, 2, 3, 4, 6}
		for _, a := range arrs {
			for _, lo := range bounds {
				for _, hi := range bounds {
					for _, st := range []int{0, 1, 2, -1} {
						f := sl(lo, hi)
						if st != 0 {
							f = sl(lo, hi, st)
						}
						for _, op := range []int{2, 3} {
							for _, one := range []bool{false, true} {
								if one && (lo+hi+st)%3 != 0 {
									continue
								}
								c := cs{op: op, one: one, path: []Frag{R, f}, data: a, val: int64(99)}
								cases = append(cases, c)
								cmd := "mutate"
								if one {
									cmd = "mutate1"
								}
								reqs = append(reqs, fmt.Sprintf("%s\t%d\t%s\t%s\t%s", cmd, op, PathSexp(c.path), Show(c.data), Show(c.val)))
								reqs = append(reqs, fmt.Sprintf("%sk\t%d\t%s\t%s\t%s", cmd, op, PathSexp(c.path), Show(c.data), Show(c.val)))
							}
						}
					}
				}
			}
		}
	}
	ans, err := RunModel(model, reqs)
	if err != nil {
		rep.Add(Disagreement{Kind: "harness-error", Detail: err.Error()})
		return rep
	}
	distinct := map[string]bool{}
	// Modify disagreements whose path has a filter below a descent are attributed after the loop
	// (one more model batch): known class "modify-filter-sees-modified-descendants"
	type liveCand struct {
		d        Disagreement
		req      string
		reqIncl  string // the same traversal with the inclusive slice rule ("" if the path has no slice)
		filterBD bool   // a filter below a descent
	}
	var liveCands []liveCand
	for i, c := range cases {
		x := BuildExpr(c.path)
		name := opNames[c.op]
		if c.one {
			name += "One"
		}
		desc := reqs[2*i][strings.Index(reqs[2*i], "\t")+1:]
		rep.Evaluations++
		comparable := strings.HasPrefix(ans[2*i], "c ")
		body := ans[2*i][2:]
		varComparable := strings.HasPrefix(ans[2*i+1], "c ")
		varBody := ans[2*i+1][2:]
		hasSlice := pathHas(c.path, "s")
		// known class: equal to the specification variant with the inclusive-end slice rule
		filterRoot := c.op == 2 && c.path[len(c.path)-1].Kind == "f" && strings.Contains(c.path[len(c.path)-1].Eq.Sexp(), "(p R")
		filterBD := filterBelowDescentNoRoot(c.path)
		liveShape := c.op >= 3 && !c.one && pathHas(c.path, "D") && !filterHasRootOperand(c.path) && (filterBD || hasSlice)
		add := func(d Disagreement) {
			if d.Class == "" && liveShape && d.Kind == "impl-vs-spec:mutate" {
				lc := liveCand{d: d, filterBD: filterBD, req: fmt.Sprintf("mutatel\t%d\t%s\t%s\t%s", c.op, PathSexp(c.path), Show(c.data), Show(c.val))}
				if hasSlice {
					lc.reqIncl = fmt.Sprintf("mutatelk\t%d\t%s\t%s\t%s", c.op, PathSexp(c.path), Show(c.data), Show(c.val))
				}
				liveCands = append(liveCands, lc)
				return
			}
			rep.Add(d)
		}
		classOf := func(got string, one bool) string {
			label := ""
			switch {
			case hasSlice:
				label = "slice-inclusive-end"
			case filterRoot:
				label = "remove-filter-root"
			default:
				return ""
			}
			// Remove under the inclusive rule with parents that contain one another (a slice next to a
			// descent): removing inside an element that is removed as well changes nothing, so the
			// variant's result is definite although it is flagged as not comparable
			if hasSlice && c.op == 2 && !one && !varComparable && got == varBody {
				return label
			}
			// the variant is decisive when it is comparable, or when it says nothing is selected and
			// the implementation indeed left the data unchanged
			if !varComparable && !(got == Show(c.data) && (varBody == got || strings.Contains(" ; "+varBody+" ; ", " ; "+got+" ; "))) {
				return ""
			}
			if !one && got == varBody {
				return label
			}
			if one {
				for _, cand := range splitResults(varBody) {
					if cand == got {
						return label
					}
				}
			}
			return ""
		}
		xr := x // the expression the next run uses (swapped for the defused re-run)
		run := func(data any, isGen bool) (res any, errs string) {
			x := xr
			defer func() {
				if rc := recover(); rc != nil {
					errs = "F " + strings.ReplaceAll(fmt.Sprint(rc), "\n", " ")
				}
			}()
			var err error
			res = data
			mod := func(e any) (any, bool) { return c.val, true }
			if c.op == 4 {
				mod = func(e any) (any, bool) { return []any{e}, true }
			}
			if isGen {
				gv := toGen(c.val)
				mod = func(e any) (any, bool) { return gv, true }
				if c.op == 4 {
					mod = func(e any) (any, bool) { n, _ := e.(gen.Node); return gen.Array{n}, true }
				}
			}
			switch {
			case c.op == 0 && !c.one:
				err = x.Set(data, c.val)
			case c.op == 0:
				err = x.SetOne(data, c.val)
			case c.op == 1 && !c.one:
				err = x.Del(data)
			case c.op == 1:
				err = x.DelOne(data)
			case c.op == 2 && !c.one:
				res, err = x.Remove(data)
			case c.op == 2:
				res, err = x.RemoveOne(data)
			case !c.one:
				res, err = x.Modify(data, mod)
			default:
				res, err = x.ModifyOne(data, mod)
			}
			if err != nil {
				errs = "E " + err.Error()
			}
			return
		}
		simple := deepCopy(c.data)
		if os.Getenv("VERIF_TRACE") != "" {
			fmt.Fprintln(os.Stderr, name, desc)
		}
		res, errs := run(simple, false)
		rep.Count("op:" + name)
		if strings.HasPrefix(errs, "F ") {
			rep.Add(Disagreement{Case: desc, Where: name, Kind: "impl-vs-spec:mutate-panic", Impl: errs, Spec: ans[2*i]})
			continue
		}
		// an impossible request must be an error on gen data as well, never a panic
		if _, gerrs := run(toGen(deepCopy(c.data)), true); strings.HasPrefix(gerrs, "F ") {
			rep.Add(Disagreement{Case: desc, Where: name + "/gen", Kind: "impl-vs-spec:mutate-panic", Impl: gerrs})
			continue
		}
		if !comparable && !((hasSlice || filterRoot) && (varComparable || true)) {
			rep.Count("skipped:not-comparable(creation/overlap/no-parent)")
			continue
		}
		if c.op == 2 && len(c.path) >= 2 && c.path[len(c.path)-2].Kind == "D" {
			// Remove rewrites the path to "modify the parent"; a parent path ending in a descent is
			// refused with an error (an impossible request reported as an error)
			rep.Count("skipped:remove-below-descent")
			continue
		}
		if errs != "" {
			if !comparable {
				continue
			}
			rep.Add(Disagreement{Case: desc, Where: name, Kind: "impl-vs-spec:mutate-error", Impl: errs, Spec: ans[2*i]})
			continue
		}
		got := Show(res)
		if body != Show(c.data) {
			distinct[reqs[2*i]] = true
		}
		differs := got != body
		if c.one {
			differs = true
			for _, cand := range splitResults(body) {
				if cand == got {
					differs = false
				}
			}
		}
		if differs {
			kind := "impl-vs-spec:mutate"
			if c.one {
				kind = "impl-vs-spec:mutate-one"
			}
			cl := classOf(got, c.one)
			if cl == "" && !c.one && c.op >= 2 && filterHasRootOperand(c.path) {
				// exact attribution for "a filter's $ operand is read from the document while the same
				// call is already changing it": with every $ operand replaced by the scalar it denotes in
				// the original document the same call gives the specified result
				if dp, changed, ok := defuseRootOperands(c.path, c.data); changed && ok {
					xr = BuildExpr(dp)
					if r2, e2 := run(deepCopy(c.data), false); e2 == "" && Show(r2) == body {
						cl = "filter-root-operand-sees-modified-document"
					} else if e2 == "" && hasSlice && varComparable && Show(r2) == varBody {
						cl = "slice-inclusive-end+filter-root-operand-sees-modified-document"
					}
					xr = x
				}
			}
			if comparable && !(c.one && filterRoot) {
				add(Disagreement{Case: desc, Where: name, Kind: kind, Impl: got, Spec: body, Class: cl})
			} else if cl != "" {
				rep.Add(Disagreement{Case: desc, Where: name, Kind: kind, Impl: got, Spec: body, Class: cl})
			}
		}
		if !comparable {
			continue
		}
		// the same operation on gen data
		gd := toGen(deepCopy(c.data))
		gres, gerrs := run(gd, true)
		if strings.HasPrefix(gerrs, "F ") {
			rep.Add(Disagreement{Case: desc, Where: name + "/gen", Kind: "impl-vs-spec:mutate-panic", Impl: gerrs})
		} else if gerrs == "" && !c.one && Show(gres) != body {
			gcl := classOf(Show(gres), false)
			if gcl == "" && c.op >= 2 && filterHasRootOperand(c.path) {
				if dp, changed, ok := defuseRootOperands(c.path, c.data); changed && ok {
					xr = BuildExpr(dp)
					if r2, e2 := run(toGen(deepCopy(c.data)), true); e2 == "" && Show(r2) == body {
						gcl = "filter-root-operand-sees-modified-document"
					} else if e2 == "" && hasSlice && varComparable && Show(r2) == varBody {
						gcl = "slice-inclusive-end+filter-root-operand-sees-modified-document"
					}
					xr = x
				}
			}
			add(Disagreement{Case: desc, Where: name + "/gen", Kind: "impl-vs-spec:mutate", Impl: Show(gres), Spec: body, Class: gcl})
		} else if gerrs == "" && c.one && !(c.one && filterRoot) {
			gg := Show(gres)
			in := false
			for _, cand := range splitResults(body) {
				if cand == gg {
					in = true
				}
			}
			if !in {
				rep.Add(Disagreement{Case: desc, Where: name + "/gen", Kind: "impl-vs-spec:mutate-one", Impl: gg, Spec: body, Class: classOf(gg, true)})
			}
		} else if gerrs != "" {
			rep.Add(Disagreement{Case: desc, Where: name + "/gen", Kind: "impl-vs-spec:mutate-error", Impl: gerrs, Spec: body})
		}
		if i%1999 == 0 && len(rep.Samples) < 10 {
			rep.Samples = append(rep.Samples, name+" "+desc)
		}
	}
	if len(liveCands) > 0 {
		var lreqs []string
		for _, lc := range liveCands {
			lreqs = append(lreqs, lc.req)
			if lc.reqIncl != "" {
				lreqs = append(lreqs, lc.reqIncl)
			} else {
				lreqs = append(lreqs, lc.req)
			}
		}
		lans, err := RunModel(model, lreqs)
		for i, lc := range liveCands {
			switch {
			case err != nil:
			case lc.filterBD && lans[2*i] == lc.d.Impl:
				lc.d.Class = "modify-filter-sees-modified-descendants"
			case lc.reqIncl != "" && lans[2*i+1] == lc.d.Impl:
				// the inclusive slice rule, nested (overlapping) selections applied in the visiting order
				lc.d.Class = "slice-inclusive-end"
			}
			rep.Add(lc.d)
		}
	}
	_ = jp.R
	rep.Distinct = len(distinct)
	rep.Rule = "seeded root-anchored paths (2-5 fragments, last one allowed for the operation) x seeded trees x replacement values; Set/SetOne/Del/DelOne/Remove/RemoveOne/Modify/ModifyOne (constant and wrapping modifiers) on a deep copy, simple and gen data; compared with the extracted set_spec/del_spec/remove_spec/modify_spec (the *One forms: the result must be one of the per-location candidates) whenever the model says the request needs no element creation and the selected locations do not contain one another; every panic is a violation; non-trivial = cases whose specified result differs from the input"
	return rep
}

// filterBelowDescentNoRoot: the path has a filter somewhere after a descent, and no filter of the
// path has an operand anchored at $
func filterBelowDescentNoRoot(path []Frag) bool {
	seenD, found := false, false
	for _, f := range path {
		switch f.Kind {
		case "D":
			seenD = true
		case "f":
			if strings.Contains(f.Eq.Sexp(), "(p R") {
				return false
			}
			if seenD {
				found = true
			}
		}
	}
	return found
}
