package main

import (
	"flag"
	"fmt"
	"os"
)

func main() {
	prop := flag.String("prop", "", "property id")
	tier := flag.String("tier", "quick", "quick|thorough")
	seed := flag.Uint64("seed", 1, "seed")
	model := flag.String("model", "/verif/bin/model", "extracted model binary")
	out := flag.String("out", "", "report path")
	flag.Parse()
	var rep *Report
	switch *prop {
	case "C01":
		rep = suiteParse("C01", *tier, *seed, *model, map[string]bool{"accept": true})
		rep.Merge(suiteDeep("C01"))
	case "C04":
		rep = suiteWrite(*tier, *seed, *model)
	case "C05":
		rep = suiteGet(*tier, *seed, *model)
	case "C10":
		rep = suiteSen(*tier, *seed, *model)
	case "C11":
		rep = suiteEvaluators(*tier, *seed, *model)
		rep.Merge(suiteReflect(*tier, *seed))
	case "C17":
		rep = suiteMatchDoc(*tier, *seed, *model)
	case "C07":
		rep = suiteReuse(*tier, *seed, *model)
	case "C08":
		rep = suiteConc(*tier, *seed, *model)
	case "C20":
		rep = suiteAsm(*tier, *seed, *model)
	case "C15":
		rep = suiteStruct(*tier, *seed, *model)
		rep.Merge(suiteIfaceMembers(*tier, *seed))
		rep.Merge(suiteEmbed(*tier, *seed))
	case "C15e":
		rep = suiteEmbed(*tier, *seed)
	case "C16":
		rep = suiteRecompose(*tier, *seed, *model)
		rep.Merge(suiteRecomposeDirected(*tier, *seed))
	case "C18":
		rep = suiteConvert(*tier, *seed, *model)
	case "C19":
		rep = suiteDiff(*tier, *seed, *model)
		rep.Merge(suiteDiffStructs(*tier, *seed))
	case "C14":
		rep = suiteText(*tier, *seed, *model)
	case "C13":
		rep = suiteMutate(*tier, *seed, *model)
		rep.Merge(suiteMutateCollections(*tier, *seed))
	case "C12":
		rep = suiteScript(*tier, *seed, *model)
	case "C03":
		rep = suiteChunk("C03", "", *tier, *seed, *model)
		rep.Merge(suiteSenAgree(*tier, *seed))
		rep.Merge(suiteChannel(*tier, *seed))
		rep.Merge(suiteTokenBuilder(*tier, *seed))
	case "C03b":
		rep = suiteTokenBuilder(*tier, *seed)
	case "C03s":
		rep = suiteSenAgree(*tier, *seed)
		rep.Merge(suiteChannel(*tier, *seed))
	case "C02":
		rep = suiteParse("C02", *tier, *seed, *model, map[string]bool{"value": true})
		rep.Merge(suiteNumConvGlobal())
	case "C06":
		rep = suiteParse("C06", *tier, *seed, *model, map[string]bool{"fault": true})
		rep.Merge(suiteChunk("C06", "fault", *tier, *seed, *model))
		rep.Merge(suiteFaultOther(*tier, *seed))
		rep.Merge(suiteDeep("C06"))
	case "C09":
		rep = suiteParse("C09", *tier, *seed, *model, map[string]bool{"position": true})
		rep.Merge(suiteChunk("C09", "position", *tier, *seed, *model))
		rep.Merge(suiteDeep("C09"))
		rep.Merge(suiteUnmarshalPos(*seed))
	case "C13c":
		rep = suiteMutateCollections(*tier, *seed)
	case "C11r":
		rep = suiteReflect(*tier, *seed)
	case "C06x":
		rep = suiteFaultOther(*tier, *seed)
	default:
		fmt.Fprintf(os.Stderr, "unknown property %q\n", *prop)
		os.Exit(2)
	}
	if *out != "" {
		if err := rep.Write(*out); err != nil {
			fmt.Fprintln(os.Stderr, err)
			os.Exit(2)
		}
	}
	fmt.Printf("evaluations=%d disagreements=%d\n", rep.Evaluations, len(rep.Disagreements))
}
