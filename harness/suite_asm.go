package main

import (
	"fmt"
	"sort"
	"strings"
	"time"

	"github.com/ohler55/ojg/asm"
	"github.com/ohler55/ojg/sen"
)

// C20: assembly plans. Plans are generated as a neutral tree, built into the []any form
// asm.NewPlan takes, and serialised for the extracted model (Asm/Eval.v).

type AArg struct {
	Kind string // l p c
	Lit  any
	Path []Frag
	Fn   string // model name
	Name string // name used in the plan (an alias of Fn)
	Args []*AArg
}

var asmAliases = map[string][]string{
	"sum": {"sum", "+"}, "dif": {"dif", "-"}, "product": {"product", "*"}, "quotient": {"quotient", "/"},
	"eq": {"eq", "==", "equal"}, "neq": {"neq", "!="}, "lt": {"lt", "<"}, "lte": {"lte", "<="}, "gt": {"gt", ">"}, "gte": {"gte", ">="},
}

func (a *AArg) Sexp() string {
	switch a.Kind {
	case "l":
		return "(l " + Show(a.Lit) + ")"
	case "p":
		return PathSexp(a.Path)
	}
	parts := make([]string, len(a.Args))
	for i, x := range a.Args {
		parts[i] = x.Sexp()
	}
	return "(c " + a.Fn + " " + strings.Join(parts, " ") + ")"
}

// the plan element asm.NewPlan compiles; copyWrap wraps stored values in the harness' vcopy
func (a *AArg) Go(copyWrap bool) any {
	switch a.Kind {
	case "l":
		return copyTyped(a.Lit)
	case "p":
		return BuildExpr(a.Path).String()
	}
	out := []any{a.Name}
	for i, x := range a.Args {
		g := x.Go(copyWrap)
		if a.Fn == "cond" && x.Kind == "c" && x.Fn == "list" && len(x.Args) == 2 {
			val := x.Args[1].Go(copyWrap)
			if copyWrap && x.Args[1].Kind == "l" && isContainer(x.Args[1].Lit) {
				val = []any{"vcopy", val} // a literal that cond returns (and that may become @)
			}
			g = []any{x.Args[0].Go(copyWrap), val} // a clause is a bare two-element list
		}
		if copyWrap && ((a.Fn == "set" || a.Fn == "setall" || a.Fn == "append") && i == 1) {
			g = []any{"vcopy", g}
		}
		if copyWrap && a.Fn == "list" {
			g = []any{"vcopy", g}
		}
		if copyWrap && a.Fn == "asm" && x.Kind == "l" && isContainer(x.Lit) {
			g = []any{"vcopy", g} // a literal that becomes @ for the following steps
		}
		if copyWrap && a.Fn == "asm" && x.Kind == "c" && x.Fn == "quote" {
			g = []any{"vcopy", g} // a quoted literal that becomes @ for the following steps
		}
		out = append(out, g)
	}
	return out
}

func (a *AArg) uses(pred func(*AArg) bool) bool {
	if pred(a) {
		return true
	}
	for _, x := range a.Args {
		if x.uses(pred) {
			return true
		}
	}
	return false
}

func init() {
	asm.Define(&asm.Fn{Name: "vcopy", Desc: "harness: deep copy of the single argument",
		Eval: func(root map[string]any, at any, args ...any) any {
			if len(args) != 1 {
				panic("vcopy expects one argument")
			}
			// evaluate like evalArg does, through a list call
			l := asm.NewFn("list")
			l.Args = args
			v := l.Eval(root, at, l.Args...).([]any)[0]
			return copyTyped(v)
		}})
}

var asmKeys = []string{"a", "b", "c", "x"}

func genAsmPath(r *Rng, inEach bool) []Frag {
	var fs []Frag
	switch {
	case inEach && r.Chance(60):
		fs = []Frag{{Kind: "A"}, {Kind: "c", Key: "src"}}
	case r.Chance(15):
		fs = []Frag{{Kind: "A"}}
		if r.Chance(50) {
			fs = append(fs, Frag{Kind: "c", Key: r.Pick([]string{"src", "asm"})})
		}
	case r.Chance(75):
		fs = []Frag{{Kind: "R"}, {Kind: "c", Key: "src"}}
	default:
		fs = []Frag{{Kind: "R"}, {Kind: "c", Key: "asm"}}
	}
	n := r.Intn(3)
	for i := 0; i < n; i++ {
		switch r.Intn(6) {
		case 0, 1, 2:
			fs = append(fs, Frag{Kind: "c", Key: asmKeys[r.Intn(len(asmKeys))]})
		case 3, 4:
			fs = append(fs, Frag{Kind: "n", N: r.Intn(5) - 2})
		default:
			fs = append(fs, Frag{Kind: "s", Slice: []int{r.Intn(3), 1 + r.Intn(3)}})
		}
	}
	return fs
}

func genAsmLit(r *Rng) any {
	switch r.Intn(14) {
	case 0:
		return nil
	case 1:
		return r.Bool()
	case 2, 3, 4:
		return int64(r.Intn(13) - 4)
	case 5:
		return []int64{9223372036854775807, -9223372036854775808, 4611686018427387904, 9007199254740993, -1}[r.Intn(5)]
	case 6:
		return niceFloat(r)
	case 7, 8:
		return r.Pick([]string{"", "a", "b", "ab", "abc", "1", "x y", "$5.00", "@home"})
	case 9:
		return []any{int64(r.Intn(4)), int64(r.Intn(4)), int64(r.Intn(4))}
	case 10:
		return []any{}
	case 11:
		return map[string]any{asmKeys[r.Intn(4)]: int64(r.Intn(5))}
	case 12:
		return []any{int64(1), []any{int64(2)}, "s"}
	}
	return int64(r.Intn(3))
}

var asmStrict = []string{"sum", "dif", "product", "quotient", "mod", "lt", "lte", "gt", "gte", "not", "list", "nth", "size", "reverse", "append", "include",
	"array?", "bool?", "map?", "null?", "num?", "string?", "int"}

func call(r *Rng, fn string, args ...*AArg) *AArg {
	name := fn
	if al, ok := asmAliases[fn]; ok {
		name = al[r.Intn(len(al))]
	}
	return &AArg{Kind: "c", Fn: fn, Name: name, Args: args}
}

func genAsmExpr(r *Rng, depth int, inEach bool) *AArg {
	return genAsmTyped(r, depth, inEach, "any")
}

// well-typed arguments most of the time (so that plans complete), anything now and then
func genAsmTyped(r *Rng, depth int, inEach bool, want string) *AArg {
	if r.Chance(12) {
		want = "any"
	}
	srcPath := func(keys ...string) *AArg {
		fs := []Frag{{Kind: "R"}, {Kind: "c", Key: "src"}}
		if inEach && r.Chance(50) {
			fs = []Frag{{Kind: "A"}, {Kind: "c", Key: "src"}}
			return &AArg{Kind: "p", Path: fs}
		}
		for _, k := range keys {
			fs = append(fs, Frag{Kind: "c", Key: k})
		}
		return &AArg{Kind: "p", Path: fs}
	}
	sub := func(w string) *AArg { return genAsmTyped(r, depth-1, inEach, w) }
	leaf := depth <= 0 || r.Chance(30)
	switch want {
	case "num":
		if leaf {
			switch r.Intn(6) {
			case 0:
				return srcPath("n")
			case 1:
				return &AArg{Kind: "p", Path: []Frag{{Kind: "R"}, {Kind: "c", Key: "src"}, {Kind: "c", Key: "l"}, {Kind: "n", N: r.Intn(5) - 2}}}
			case 2:
				return &AArg{Kind: "l", Lit: []int64{9223372036854775807, -9223372036854775808, 4611686018427387904, 9007199254740993, -1}[r.Intn(5)]}
			case 3:
				if r.Chance(50) {
					return &AArg{Kind: "l", Lit: niceFloat(r)}
				}
			}
			return &AArg{Kind: "l", Lit: int64(r.Intn(13) - 4)}
		}
		switch r.Intn(8) {
		case 0, 1:
			return call(r, "sum", sub("num"), sub("num"))
		case 2:
			return call(r, "dif", sub("num"), sub("num"))
		case 3:
			return call(r, "product", sub("num"), sub("num"), sub("num"))
		case 4:
			return call(r, "quotient", sub("num"), sub("num"))
		case 5:
			return call(r, "mod", sub("num"), sub("num"))
		case 6:
			return call(r, "size", sub(r.Pick([]string{"list", "str", "any"})))
		}
		return call(r, "nth", sub("list"), sub("num"))
	case "bool":
		if leaf {
			if r.Chance(30) {
				return srcPath("t")
			}
			return &AArg{Kind: "l", Lit: r.Pick3()}
		}
		switch r.Intn(9) {
		case 0, 1:
			return call(r, r.Pick([]string{"lt", "lte", "gt", "gte"}), sub("num"), sub("num"), sub("num"))
		case 2:
			return call(r, r.Pick([]string{"lt", "gte"}), sub("str"), sub("str"))
		case 3:
			return call(r, r.Pick([]string{"eq", "neq"}), sub("any"), sub("any"))
		case 4:
			return call(r, r.Pick([]string{"and", "or"}), sub("bool"), sub("bool"), sub("bool"))
		case 5:
			return call(r, "not", sub("bool"))
		case 6:
			return call(r, "include", sub("list"), sub(r.Pick([]string{"num", "any", "list"})))
		case 7:
			return call(r, "include", sub("str"), sub("str"))
		}
		return call(r, r.Pick([]string{"array?", "bool?", "map?", "null?", "num?", "string?"}), sub("any"))
	case "str":
		if leaf {
			if r.Chance(25) {
				return srcPath("s")
			}
			return &AArg{Kind: "l", Lit: r.Pick([]string{"", "a", "b", "ab", "abc", "1", "x y"})}
		}
		return call(r, "sum", sub("str"), sub(r.Pick([]string{"str", "num"})))
	case "list":
		if leaf {
			switch r.Intn(4) {
			case 0:
				return srcPath("l")
			case 1:
				return srcPath("a")
			case 2:
				return &AArg{Kind: "l", Lit: []any{int64(r.Intn(4)), int64(r.Intn(4)), int64(r.Intn(4))}}
			}
			return &AArg{Kind: "l", Lit: []any{int64(1), []any{int64(2)}, "s"}}
		}
		switch r.Intn(6) {
		case 0:
			return call(r, "list", sub("any"), sub("any"))
		case 1:
			return call(r, "reverse", sub("list"))
		case 2:
			return call(r, "append", sub("list"), sub("any"))
		case 3:
			return call(r, "getall", &AArg{Kind: "p", Path: []Frag{{Kind: "R"}, {Kind: "c", Key: "src"}, {Kind: "c", Key: "l"}, {Kind: "s", Slice: []int{r.Intn(3), 1 + r.Intn(3)}}}})
		case 4:
			if !inEach {
				body := call(r, "set", &AArg{Kind: "p", Path: []Frag{{Kind: "A"}, {Kind: "c", Key: "asm"}}}, genAsmTyped(r, depth-1, true, "any"))
				if r.Chance(30) {
					body = call(r, "asm", call(r, "set", &AArg{Kind: "p", Path: []Frag{{Kind: "A"}, {Kind: "c", Key: "tmp"}}}, genAsmTyped(r, depth-1, true, "num")),
						call(r, "set", &AArg{Kind: "p", Path: []Frag{{Kind: "A"}, {Kind: "c", Key: "asm"}}}, call(r, "sum", &AArg{Kind: "p", Path: []Frag{{Kind: "A"}, {Kind: "c", Key: "tmp"}}}, &AArg{Kind: "l", Lit: int64(1)})))
				}
				return call(r, "each", sub("list"), body)
			}
		}
		return call(r, "quote", &AArg{Kind: "l", Lit: []any{int64(5), "q"}})
	}
	// any
	if leaf {
		if r.Chance(45) {
			return &AArg{Kind: "p", Path: genAsmPath(r, inEach)}
		}
		return &AArg{Kind: "l", Lit: genAsmLit(r)}
	}
	switch r.Intn(12) {
	case 0, 1:
		return sub("num")
	case 2, 3:
		return sub("bool")
	case 4:
		return sub("str")
	case 5:
		return sub("list")
	case 6:
		n := 1 + r.Intn(3)
		args := make([]*AArg, n)
		for i := range args {
			args[i] = call(r, "list", sub("bool"), sub("any"))
			args[i].Name = "list"
		}
		return call(r, "cond", args...)
	case 7:
		fn := r.Pick([]string{"get", "getall"})
		args := []*AArg{{Kind: "p", Path: genAsmPath(r, inEach)}}
		if r.Chance(30) {
			gp := genAsmPath(r, false)
			if len(gp) > 2 {
				gp = gp[2:]
			} else {
				gp = []Frag{{Kind: "c", Key: "a"}}
			}
			args[0] = &AArg{Kind: "p", Path: append([]Frag{{Kind: "A"}}, gp...)}
			args = append(args, sub("any"))
		}
		return call(r, fn, args...)
	case 8:
		if r.Chance(50) {
			// a path built at run time from data: [get [at src <string from the data>]]
			name := "root"
			first := "src"
			if inEach || r.Chance(30) {
				name = "at"
			}
			key := &AArg{Kind: "p", Path: []Frag{{Kind: "R"}, {Kind: "c", Key: "src"}, {Kind: "c", Key: "s"}}}
			if inEach {
				key = &AArg{Kind: "p", Path: []Frag{{Kind: "A"}, {Kind: "c", Key: "src"}}}
			}
			pa := &AArg{Kind: "c", Fn: "", Name: name, Args: []*AArg{{Kind: "l", Lit: first}, key}}
			return &AArg{Kind: "c", Fn: "", Name: r.Pick([]string{"get", "getall"}), Args: []*AArg{pa}}
		}
		return call(r, "quote", &AArg{Kind: "l", Lit: genAsmLit(r)})
	case 9:
		return call(r, "asm", sub("any"), sub("any"))
	case 10:
		return call(r, "int", sub("any"))
	}
	if r.Chance(45) {
		// a function outside the Coq model (strings, time, sort, conversions ...): only the laws are checked
		names := unmodelledFns()
		name := names[r.Intn(len(names))]
		n := r.Intn(4)
		args := make([]*AArg, n)
		for i := range args {
			args[i] = sub(r.Pick([]string{"any", "str", "list", "num"}))
		}
		if name == "sort" && n == 2 {
			args[0] = sub("list")
			args[1] = &AArg{Kind: "p", Path: []Frag{{Kind: "A"}}}
		}
		return &AArg{Kind: "c", Fn: "", Name: name, Args: args}
	}
	// anything goes: any function, any arity
	fn := asmStrict[r.Intn(len(asmStrict))]
	n := r.Intn(4)
	args := make([]*AArg, n)
	for i := range args {
		args[i] = sub("any")
	}
	return call(r, fn, args...)
}

func (r *Rng) Pick3() any {
	switch r.Intn(5) {
	case 0:
		return nil
	case 1, 2:
		return true
	case 3:
		return false
	}
	return int64(1)
}

func genAsmTarget(r *Rng, inEach bool) []Frag {
	if inEach {
		if r.Chance(85) {
			return []Frag{{Kind: "A"}, {Kind: "c", Key: r.Pick([]string{"asm", "asm", "tmp"})}}
		}
		return []Frag{{Kind: "A"}, {Kind: "c", Key: "src"}, {Kind: "c", Key: "a"}}
	}
	var fs []Frag
	switch r.Intn(12) {
	case 0:
		fs = []Frag{{Kind: "R"}, {Kind: "c", Key: "src"}}
	case 1:
		fs = []Frag{{Kind: "A"}, {Kind: "c", Key: r.Pick([]string{"asm", "q"})}}
	default:
		fs = []Frag{{Kind: "R"}, {Kind: "c", Key: "asm"}}
	}
	n := r.Intn(3)
	for i := 0; i < n; i++ {
		if r.Chance(88) {
			fs = append(fs, Frag{Kind: "c", Key: asmKeys[r.Intn(len(asmKeys))]})
		} else {
			fs = append(fs, Frag{Kind: "n", N: r.Intn(3)})
		}
	}
	return fs
}

func genAsmStmt(r *Rng, depth int, inEach bool) *AArg {
	switch r.Intn(12) {
	case 0:
		return call(r, r.Pick([]string{"del", "delall"}), &AArg{Kind: "p", Path: genAsmTarget(r, inEach)})
	case 1:
		return call(r, "setall", &AArg{Kind: "p", Path: genAsmTarget(r, inEach)}, genAsmExpr(r, depth, inEach))
	case 2:
		if !inEach {
			return genAsmExpr(r, depth, inEach) // a bare expression: its value becomes the local value
		}
	}
	return call(r, "set", &AArg{Kind: "p", Path: genAsmTarget(r, inEach)}, genAsmExpr(r, depth, inEach))
}

type asmCase struct {
	stmts []*AArg
	root  map[string]any
	root2 map[string]any // another root for the same plan
}

func (c *asmCase) planGo(copyWrap bool) []any {
	out := make([]any, 0, len(c.stmts))
	for _, s := range c.stmts {
		g := s.Go(copyWrap)
		if copyWrap && ((s.Kind == "l" && isContainer(s.Lit)) || (s.Kind == "c" && s.Fn == "quote")) {
			g = []any{"vcopy", g} // a literal that becomes @ for the following statements
		}
		out = append(out, g)
	}
	return out
}

func isContainer(v any) bool {
	switch v.(type) {
	case []any, map[string]any:
		return true
	}
	return false
}

var modelledNames = map[string]bool{"asm": true, "set": true, "setall": true, "del": true, "delall": true, "get": true, "getall": true,
	"sum": true, "+": true, "dif": true, "-": true, "product": true, "*": true, "quotient": true, "/": true, "mod": true,
	"eq": true, "==": true, "equal": true, "neq": true, "!=": true, "lt": true, "<": true, "lte": true, "<=": true, "gt": true, ">": true, "gte": true, ">=": true,
	"and": true, "or": true, "not": true, "cond": true, "list": true, "quote": true, "nth": true, "size": true, "reverse": true, "append": true, "include": true,
	"array?": true, "bool?": true, "map?": true, "null?": true, "num?": true, "string?": true, "int": true, "each": true, "vcopy": true, "inspect": true}

var unmodelledCache []string

// every function the package defines that the model does not cover (inspect prints: left out)
func unmodelledFns() []string {
	if unmodelledCache == nil {
		for name := range asm.FnDocs() {
			if !modelledNames[name] {
				unmodelledCache = append(unmodelledCache, name)
			}
		}
		sort.Strings(unmodelledCache)
	}
	return unmodelledCache
}

func (c *asmCase) modelled() bool {
	for _, s := range c.stmts {
		if s.uses(func(a *AArg) bool { return a.Kind == "c" && a.Fn == "" }) {
			return false
		}
	}
	return true
}

func (c *asmCase) sexp() string {
	parts := make([]string, len(c.stmts))
	for i, s := range c.stmts {
		parts[i] = s.Sexp()
	}
	return strings.Join(parts, " ")
}

// run a plan on a copy of the root: "V <root>" or "E" (or "P ..." when Execute itself panics)
func runPlan(p *asm.Plan, root map[string]any) (out string, after map[string]any) {
	r := copyTyped(root).(map[string]any)
	defer func() {
		if rec := recover(); rec != nil {
			out = "P " + fmt.Sprint(rec)
		}
	}()
	done := make(chan string, 1)
	go func() {
		defer func() {
			if rec := recover(); rec != nil {
				done <- "P " + fmt.Sprint(rec)
			}
		}()
		if err := p.Execute(r); err != nil {
			done <- "E"
			return
		}
		done <- "V " + showGuard(r)
	}()
	select {
	case out = <-done:
	case <-time.After(10 * time.Second):
		out = "T timeout"
	}
	return out, r
}

// Show with protection against cyclic data (a plan can store a container inside itself)
func showGuard(v any) (s string) {
	if cyclic(v, map[uintptr]bool{}, 0) {
		return "?cyclic"
	}
	return Show(v)
}

func cyclic(v any, on map[uintptr]bool, depth int) bool {
	if depth > 200 {
		return true
	}
	switch t := v.(type) {
	case []any:
		id := identity(t)
		if id != 0 {
			if on[id] {
				return true
			}
			on[id] = true
			defer delete(on, id)
		}
		for _, e := range t {
			if cyclic(e, on, depth+1) {
				return true
			}
		}
	case map[string]any:
		id := identity(t)
		if on[id] {
			return true
		}
		on[id] = true
		defer delete(on, id)
		for _, e := range t {
			if cyclic(e, on, depth+1) {
				return true
			}
		}
	case *asm.Plan:
		return cyclic(&t.Fn, on, depth+1)
	case *asm.Fn:
		for _, e := range t.Args {
			if cyclic(e, on, depth+1) {
				return true
			}
		}
	}
	return false
}

func isUpdate(a *AArg) bool {
	return a.Kind == "c" && (a.Fn == "set" || a.Fn == "setall" || a.Fn == "del" || a.Fn == "delall")
}

func suiteAsm(tier string, seed uint64, model string) *Report {
	rep := &Report{Property: "C20", Tier: tier, Seed: seed}
	r := NewRng(seed)
	n := 40000
	if tier == "thorough" {
		n = 150000
	}
	var cases []*asmCase
	lit := func(v any) *AArg { return &AArg{Kind: "l", Lit: v} }
	path := func(fs ...Frag) *AArg { return &AArg{Kind: "p", Path: fs} }
	R, C := Frag{Kind: "R"}, func(k string) Frag { return Frag{Kind: "c", Key: k} }
	fixed := r.Fork()
	// directed: aliasing, literal mutation, first argument of the order tests, cond values
	cases = append(cases,
		&asmCase{[]*AArg{call(fixed, "set", path(R, C("asm")), path(R, C("src"))), call(fixed, "set", path(R, C("asm"), C("y")), lit(int64(1)))}, map[string]any{"src": map[string]any{"x": int64(1)}}, nil},
		&asmCase{[]*AArg{call(fixed, "set", path(R, C("asm")), lit(map[string]any{"a": int64(1)})), call(fixed, "set", path(R, C("asm"), C("n")), call(fixed, "size", path(R, C("asm"))))}, map[string]any{"src": nil}, nil},
		&asmCase{[]*AArg{call(fixed, "set", path(R, C("asm"), C("a")), &AArg{Kind: "c", Fn: "lt", Name: "lt", Args: []*AArg{path(R, C("src"), C("x")), lit(int64(3))}})}, map[string]any{"src": map[string]any{"x": int64(1)}}, nil},
		&asmCase{[]*AArg{call(fixed, "set", path(R, C("asm"), C("a")), &AArg{Kind: "c", Fn: "gte", Name: ">=", Args: []*AArg{call(fixed, "sum", lit(int64(1)), lit(int64(1))), lit(int64(2))}})}, map[string]any{"src": nil}, nil},
		&asmCase{[]*AArg{call(fixed, "set", path(R, C("asm"), C("a")), call(fixed, "cond", &AArg{Kind: "c", Fn: "list", Name: "list", Args: []*AArg{lit(true), lit([]any{int64(1), int64(2)})}}))}, map[string]any{"src": nil}, nil},
	)
	// equality of containers: same size, different keys, null values; nested
	eqPairs := [][2]any{
		{map[string]any{"a": nil}, map[string]any{"b": nil}}, {map[string]any{"a": nil}, map[string]any{"a": nil}},
		{map[string]any{"a": int64(1), "b": nil}, map[string]any{"a": int64(1), "c": nil}},
		{[]any{map[string]any{"x": map[string]any{"a": nil}}}, []any{map[string]any{"x": map[string]any{"b": nil}}}},
		{map[string]any{"a": int64(1)}, map[string]any{"a": int64(1), "b": nil}}, {[]any{nil}, []any{}}, {[]any{nil, int64(1)}, []any{int64(1), nil}},
		{map[string]any{}, map[string]any{"a": nil}}, {map[string]any{"a": []any{nil}}, map[string]any{"a": []any{nil}}},
	}
	for _, pr := range eqPairs {
		for _, fn := range []string{"eq", "neq"} {
			cases = append(cases,
				&asmCase{[]*AArg{call(fixed, "set", path(R, C("asm"), C("r")), call(fixed, fn, lit(pr[0]), path(R, C("src"))))}, map[string]any{"src": pr[1]}, nil},
				&asmCase{[]*AArg{call(fixed, "set", path(R, C("asm"), C("r")), call(fixed, fn, path(R, C("src")), lit(pr[0])))}, map[string]any{"src": pr[1]}, nil},
				&asmCase{[]*AArg{call(fixed, "set", path(R, C("asm"), C("r")), call(fixed, fn, lit(pr[0]), lit(pr[1])))}, map[string]any{"src": nil}, nil})
		}
	}
	// order tests on integers beyond 2^53 that differ by less than the float64 spacing; zero divisors
	bigs := []int64{9007199254740992, 9007199254740993, 9007199254740994, -9007199254740993, 9223372036854775806, 9223372036854775807, 1700000000000000001, 1700000000000000002}
	for _, fn := range []string{"lt", "lte", "gt", "gte", "eq", "neq"} {
		for _, a := range bigs {
			for _, b := range bigs {
				cases = append(cases,
					&asmCase{[]*AArg{call(fixed, "set", path(R, C("asm"), C("r")), call(fixed, fn, lit(a), lit(b)))}, map[string]any{"src": nil}, nil},
					&asmCase{[]*AArg{call(fixed, "set", path(R, C("asm"), C("r")), call(fixed, fn, path(R, C("src")), lit(b)))}, map[string]any{"src": a}, nil})
			}
		}
	}
	for _, fn := range []string{"quotient", "mod"} {
		for _, a := range []any{int64(7), int64(0), 2.5} {
			for _, b := range []any{int64(0), 0.0, int64(2)} {
				cases = append(cases, &asmCase{[]*AArg{call(fixed, "set", path(R, C("asm"), C("r")), call(fixed, fn, lit(a), lit(b)))}, map[string]any{"src": nil}, nil})
			}
		}
	}
	for i := 0; i < n; i++ {
		ns := 1 + r.Intn(4)
		c := &asmCase{}
		for j := 0; j < ns; j++ {
			c.stmts = append(c.stmts, genAsmStmt(r, 1+r.Intn(3), false))
		}
		src := map[string]any{"l": []any{int64(r.Intn(5)), int64(r.Intn(5)), int64(r.Intn(5))}, "n": int64(r.Intn(9) - 2), "t": r.Bool(), "s": r.Pick([]string{"", "a", "zz", "n", "l"})}
		for _, k := range asmKeys {
			if r.Chance(60) {
				src[k] = genTree(r, 1+r.Intn(2))
			}
		}
		if r.Chance(20) {
			src["a"] = []any{map[string]any{"a": int64(1), "b": "x"}, map[string]any{"a": int64(2)}, int64(3)}
		}
		c.root = map[string]any{"src": src}
		if r.Chance(50) {
			src2 := map[string]any{"l": []any{int64(r.Intn(5)), int64(7), int64(r.Intn(5))}, "n": int64(r.Intn(9) - 2), "t": r.Bool(), "s": r.Pick([]string{"l", "n", "zz"})}
			for _, k := range asmKeys {
				if r.Chance(60) {
					src2[k] = genTree(r, 1+r.Intn(2))
				}
			}
			c.root2 = map[string]any{"src": src2}
		}
		if r.Chance(30) {
			c.root["asm"] = map[string]any{}
		}
		if r.Chance(8) {
			c.root["asm"] = genTree(r, 2)
		}
		cases = append(cases, c)
	}
	reqs := make([]string, len(cases))
	var sent []string
	var sentIdx []int
	for i, c := range cases {
		if c.modelled() {
			reqs[i] = "asm\t" + c.sexp() + "\t" + Show(c.root)
			sent = append(sent, reqs[i])
			sentIdx = append(sentIdx, i)
		} else {
			parts := make([]string, len(c.stmts))
			for j, s := range c.stmts {
				parts[j] = sen.String(s.Go(false))
			}
			reqs[i] = "asm\t" + strings.Join(parts, " ") + "\t" + Show(c.root)
		}
	}
	got1, err := RunModel(model, sent)
	if err != nil {
		rep.Add(Disagreement{Kind: "harness-error", Detail: err.Error()})
		return rep
	}
	ans := make([]string, len(cases))
	for i := range ans {
		ans[i] = "U"
	}
	for j, i := range sentIdx {
		ans[i] = got1[j]
	}
	distinct := map[string]bool{}
	timeouts := 0
	for i, c := range cases {
		desc := strings.TrimPrefix(reqs[i], "asm\t")
		rep.Evaluations++
		for _, st := range c.stmts {
			st.uses(func(a *AArg) bool {
				if a.Kind == "c" {
					rep.Count("fn:" + a.Name)
				}
				return false
			})
		}
		plan := asm.NewPlan(c.planGo(false))
		got, after := runPlan(plan, c.root)
		srcBefore := Show(c.root["src"])
		switch got[0] {
		case 'V':
			rep.Count("outcome:completed")
		case 'E':
			rep.Count("outcome:error")
		default:
			rep.Count("outcome:" + got[:1])
			rep.Add(Disagreement{Case: desc, Where: "Plan.Execute", Kind: "impl-law:panic-or-timeout", Impl: got, Model: "completes or returns an error"})
			if got[0] == 'T' {
				timeouts++
				if timeouts >= 3 {
					rep.Notes = map[string]string{"stopped": "three plans did not terminate within 10 s; the run was cut short"}
					rep.Distinct = len(distinct)
					return rep
				}
			}
			continue
		}
		// model
		m := ans[i]
		switch {
		case m == "U":
			rep.Count("model:function-outside-model")
		case m == "S":
			rep.Count("model:abstains")
		case strings.HasPrefix(m, "!"):
			rep.Add(Disagreement{Case: desc, Kind: "harness-error", Detail: m})
		default:
			rep.Count("model:decides")
			distinct[desc] = true
			if m != got {
				cl := ""
				rep.Add(Disagreement{Case: desc, Where: "Plan.Execute", Kind: "impl-vs-model:result", Impl: got, Model: m, Class: cl})
			}
		}
		// determinism: a second plan built from the same description, and the same plan run again
		if got2, _ := runPlan(asm.NewPlan(c.planGo(false)), c.root); got2 != got {
			rep.Add(Disagreement{Case: desc, Where: "Plan.Execute", Kind: "impl-law:nondeterministic", Impl: got2, Model: got, Detail: "a second plan built from the same description"})
		}
		if got3, _ := runPlan(plan, c.root); got3 != got {
			cl := ""
			if g4, _ := runPlan(asm.NewPlan(c.planGo(true)), c.root); true {
				p5 := asm.NewPlan(c.planGo(true))
				a, _ := runPlan(p5, c.root)
				b, _ := runPlan(p5, c.root)
				if a == b && a == g4 {
					cl = "stored-without-copy"
				}
			}
			rep.Add(Disagreement{Case: desc, Where: "Plan.Execute", Kind: "impl-law:second-run-differs", Impl: got3, Model: got, Class: cl, Detail: "the same Plan executed a second time on an equal root"})
		}
		// the same Plan on another root behaves like a fresh plan on that root
		if c.root2 != nil {
			fresh2, _ := runPlan(asm.NewPlan(c.planGo(false)), c.root2)
			used2, _ := runPlan(plan, c.root2)
			if used2 != fresh2 {
				cl := ""
				p5 := asm.NewPlan(c.planGo(true))
				runPlan(p5, c.root)
				a, _ := runPlan(p5, c.root2)
				b, _ := runPlan(asm.NewPlan(c.planGo(true)), c.root2)
				if a == b {
					cl = "stored-without-copy"
				}
				rep.Add(Disagreement{Case: desc, Where: "Plan.Execute", Kind: "impl-law:second-run-differs", Impl: used2, Model: fresh2, Class: cl, Detail: "the Plan had been executed on " + Show(c.root) + " before; second root " + Show(c.root2)})
			}
		}
		// executing a plan does not change what it prints as (compared as parsed SEN: members of
		// literal objects print in map order)
		stableString := func(fp *asm.Plan) (ok bool, before, after string) {
			canon := func(t string) string {
				if v, err := sen.Parse([]byte(t)); err == nil {
					return Show(v)
				}
				return t
			}
			before = safe(func() string { return canon(fp.String()) })
			runPlan(fp, c.root)
			if cyclic(fp, map[uintptr]bool{}, 0) {
				// the recorded stored-without-copy finding can make a literal of the plan contain itself
				rep.Count("skipped:plan-cyclic-after-execute")
				return true, "", ""
			}
			after = safe(func() string { return canon(fp.String()) })
			return after == before, before, after
		}
		if fp := asm.NewPlan(c.planGo(false)); fp != nil {
			if ok, before, after := stableString(fp); !ok {
				cl := ""
				if fp2 := asm.NewPlan(c.planGo(true)); fp2 != nil {
					if ok2, _, _ := stableString(fp2); ok2 {
						cl = "stored-without-copy" // with every stored value copied the printed plan is stable
					}
				}
				rep.Add(Disagreement{Case: desc, Where: "Plan.String", Kind: "impl-law:string-changes-after-execute", Impl: after, Model: before, Class: cl})
			}
		}
		// String() and Simplify() rebuild a plan with the same behaviour
		if simp, ok := plan2(c).Simplify().([]any); ok {
			if g, _ := runPlan(asm.NewPlan(simp), c.root); g != got {
				rep.Add(Disagreement{Case: desc, Where: "Plan.Simplify", Kind: "impl-law:rebuild-differs", Impl: g, Model: got})
			}
		} else {
			rep.Add(Disagreement{Case: desc, Where: "Plan.Simplify", Kind: "impl-law:rebuild-differs", Impl: "not a list", Model: got})
		}
		text := safe(func() string { return plan2(c).String() })
		reb := safe(func() string {
			v, err := sen.Parse([]byte(text))
			if err != nil {
				return "unparsable: " + err.Error()
			}
			l, ok := v.([]any)
			if !ok {
				return "not a list"
			}
			g, _ := runPlan(asm.NewPlan(l), c.root)
			return g
		})
		if normNums(reb) != normNums(got) { // 5.0 is written as 5: int or float is not compared here
			// attributed to a recorded class only when the plan with exactly those spellings replaced round-trips
			cl := ""
			if d := defusePlan(c); d != nil {
				dp := asm.NewPlan(d.planGo(false))
				dgot, _ := runPlan(dp, d.root)
				dreb := safe(func() string {
					v, err := sen.Parse([]byte(asm.NewPlan(d.planGo(false)).String()))
					if err != nil {
						return "unparsable: " + err.Error()
					}
					l, ok := v.([]any)
					if !ok {
						return "not a list"
					}
					g, _ := runPlan(asm.NewPlan(l), d.root)
					return g
				})
				if normNums(dreb) == normNums(dgot) {
					switch {
					case usesBoundaryInt(c):
						cl = "int64-boundary-literal"
					case usesIntegralFloat(c):
						cl = "integral-float-literal"
					default:
						cl = "sen-bare-sign-or-reserved"
					}
				}
			}
			rep.Add(Disagreement{Case: desc, Where: "Plan.String", Kind: "impl-law:rebuild-differs", Impl: reb, Model: got, Class: cl, Detail: text})
		}
		// $.src changes only through the updating functions
		if got[0] == 'V' {
			srcAfter := showGuard(after["src"])
			upd := false
			underSrc := false
			for _, s := range c.stmts {
				if s.uses(isUpdate) {
					upd = true
				}
				if s.uses(func(a *AArg) bool {
					return isUpdate(a) && len(a.Args) > 0 && a.Args[0].Kind == "p" && (a.Args[0].Path[0].Kind == "A" || (len(a.Args[0].Path) > 1 && a.Args[0].Path[1].Key == "src") || len(a.Args[0].Path) == 1)
				}) {
					underSrc = true
				}
			}
			switch {
			case srcAfter == srcBefore:
			case !upd:
				rep.Add(Disagreement{Case: desc, Where: "$.src", Kind: "impl-law:src-changed-without-update-function", Impl: srcAfter, Model: srcBefore})
			case !underSrc:
				// every update names a location under $.asm: with values copied when stored the source must stay as it is
				cl := ""
				g, a2 := runPlan(asm.NewPlan(c.planGo(true)), c.root)
				if g[0] != 'V' || showGuard(a2["src"]) == srcBefore {
					cl = "stored-without-copy"
				}
				rep.Add(Disagreement{Case: desc, Where: "$.src", Kind: "impl-law:src-changed-by-update-elsewhere", Impl: srcAfter, Model: srcBefore, Class: cl})
			}
		}
		if i%1499 == 0 && len(rep.Samples) < 10 {
			rep.Samples = append(rep.Samples, desc)
		}
	}
	rep.Distinct = len(distinct)
	// directed laws on unmodelled functions
	runText := func(plan string, root any) (map[string]any, string) {
		var out map[string]any
		res := safe(func() string {
			l, _ := sen.MustParse([]byte(plan)).([]any)
			rt, _ := copyTyped(root).(map[string]any)
			if err := asm.NewPlan(l).Execute(rt); err != nil {
				return "E " + err.Error()
			}
			out = rt
			return "ok"
		})
		return out, res
	}
	// sort and reverse are documented to return a copy: writing into the stored result never reaches $.src
	for _, fn := range []string{"sort $.src.l @", "reverse $.src.l"} {
		for ln := 1; ln <= 4; ln++ {
			l := make([]any, ln)
			for i := range l {
				l[i] = int64((i*7 + 3) % 5)
			}
			root := map[string]any{"src": map[string]any{"l": l}}
			rep.Evaluations++
			out, res := runText(`[[set $.asm.s [`+fn+`]] [set "$.asm.s[0]" 99]]`, root)
			if res != "ok" || Show(out["src"]) != Show(root["src"]) {
				rep.Add(Disagreement{Case: fn + " on " + Show(l), Where: "Plan.Execute", Kind: "impl-law:copy-function-aliases-source", Impl: res + " src=" + showGuard(out["src"]), Model: "src=" + Show(root["src"])})
			}
		}
	}
	// each: every element gets its own @ - the result for an element does not depend on the others
	eachPlan := `[[set $.asm [each $.src [asm [cond [[gt @.src 1] [set @.tmp @.src]] [true @]] [set @.asm @.tmp]]]]]`
	for k := 0; k < 40; k++ {
		l := []any{int64(fixed.Intn(4)), int64(fixed.Intn(4)), int64(fixed.Intn(4)), int64(fixed.Intn(4))}
		rep.Evaluations++
		whole, res := runText(eachPlan, map[string]any{"src": l})
		var parts []any
		for _, e := range l {
			one, r1 := runText(eachPlan, map[string]any{"src": []any{e}})
			if r1 != "ok" {
				res = r1
				break
			}
			if a, ok := one["asm"].([]any); ok && len(a) == 1 {
				parts = append(parts, a[0])
			}
		}
		if res != "ok" || Show(whole["asm"]) != Show(parts) {
			rep.Add(Disagreement{Case: "each over " + Show(l), Where: "Plan.Execute", Kind: "impl-law:each-elements-not-independent", Impl: res + " " + showGuard(whole["asm"]), Model: Show(parts)})
		}
	}
	rep.Rule = "directed laws: sort / reverse results do not alias $.src; each element of an each is evaluated independently; directed plans (aliasing, literal reuse, order tests with a path or call first, cond values) and seeded plans of 1-4 statements (set / setall / del / delall on $.asm..., $.src, @...; bare expressions) over 37 modelled functions incl. aliases (+ - * / == != < <= > >=), all argument kinds (null, bool, ints incl. int64 extremes, floats, strings, arrays, objects, paths with child/index/slice, nested calls, wrong arities), cond clauses, each with a body, nested asm; roots with seeded $.src trees; checked per case: Execute neither panics nor hangs; result root vs the extracted model where the model decides; a second plan and a second run of the same plan give the same result; Simplify() and String() rebuild a plan with the same behaviour; $.src unchanged unless an updating function names a location under $.src or @; non-trivial = cases the model decides"
	return rep
}

func plan2(c *asmCase) *asm.Plan { return asm.NewPlan(c.planGo(false)) }

func usesSignOrReserved(c *asmCase) bool {
	bad := func(s string) bool {
		return s == "+" || s == "-" || s == "true" || s == "false" || s == "null" || (len(s) > 0 && (s[0] == '+' || s[0] == '-'))
	}
	var inLit func(v any) bool
	inLit = func(v any) bool {
		switch t := v.(type) {
		case string:
			return bad(t)
		case []any:
			for _, e := range t {
				if inLit(e) {
					return true
				}
			}
		case map[string]any:
			for k, e := range t {
				if bad(k) || inLit(e) {
					return true
				}
			}
		}
		return false
	}
	for _, s := range c.stmts {
		if s.uses(func(a *AArg) bool { return (a.Kind == "c" && bad(a.Name)) || (a.Kind == "l" && inLit(a.Lit)) }) {
			return true
		}
	}
	return false
}

// integer literals that the SEN parser reads back as big numbers (C02 finding for 922337203685477580x;
// -9223372036854775808 has a magnitude outside int64)
func usesBoundaryInt(c *asmCase) bool {
	var inLit func(v any) bool
	inLit = func(v any) bool {
		switch t := v.(type) {
		case int64:
			return t >= 9223372036854775800 || t == -9223372036854775808
		case []any:
			for _, e := range t {
				if inLit(e) {
					return true
				}
			}
		case map[string]any:
			for _, e := range t {
				if inLit(e) {
					return true
				}
			}
		}
		return false
	}
	for _, s := range c.stmts {
		if s.uses(func(a *AArg) bool { return a.Kind == "l" && inLit(a.Lit) }) {
			return true
		}
	}
	return false
}

// float literals with an integral value: the writers print 3.0 as 3, which reads back as an int
func usesIntegralFloat(c *asmCase) bool {
	var inLit func(v any) bool
	inLit = func(v any) bool {
		switch t := v.(type) {
		case float64:
			return t == float64(int64(t))
		case []any:
			for _, e := range t {
				if inLit(e) {
					return true
				}
			}
		case map[string]any:
			for _, e := range t {
				if inLit(e) {
					return true
				}
			}
		}
		return false
	}
	for _, s := range c.stmts {
		if s.uses(func(a *AArg) bool { return a.Kind == "l" && inLit(a.Lit) }) {
			return true
		}
	}
	return false
}

// defusePlan: the same plan with the spellings of the recorded String() findings replaced:
// "+" and "-" by their word aliases, int64 boundary literals by small ones, integral floats by x.5;
// nil when nothing had to be replaced
func defusePlan(c *asmCase) *asmCase {
	changed := false
	var lit func(v any) any
	lit = func(v any) any {
		switch t := v.(type) {
		case int64:
			if t >= 9223372036854775800 || t == -9223372036854775808 {
				changed = true
				return int64(7)
			}
		case float64:
			if t == float64(int64(t)) {
				changed = true
				return t + 0.5
			}
		case []any:
			a := make([]any, len(t))
			for i, e := range t {
				a[i] = lit(e)
			}
			return a
		case map[string]any:
			m := map[string]any{}
			for k, e := range t {
				m[k] = lit(e)
			}
			return m
		}
		return v
	}
	var arg func(a *AArg) *AArg
	arg = func(a *AArg) *AArg {
		b := *a
		if a.Kind == "l" {
			b.Lit = lit(a.Lit)
		}
		if a.Kind == "c" && (a.Name == "+" || a.Name == "-") {
			b.Name = a.Fn
			changed = true
		}
		b.Args = make([]*AArg, len(a.Args))
		for i, x := range a.Args {
			b.Args[i] = arg(x)
		}
		return &b
	}
	d := &asmCase{root: c.root}
	for _, s := range c.stmts {
		d.stmts = append(d.stmts, arg(s))
	}
	if !changed {
		return nil
	}
	return d
}
