package main

import (
	"bytes"
	"fmt"
	"os"
	"path/filepath"
	"regexp"
	"sort"
	"strings"
	"sync"

	"github.com/ohler55/ojg"
	"github.com/ohler55/ojg/alt"
	"github.com/ohler55/ojg/jp"
	"github.com/ohler55/ojg/oj"
	"github.com/ohler55/ojg/pretty"
	"github.com/ohler55/ojg/sen"
)

// C08: N goroutines run seeded sequences of package-level calls and of evaluations through
// shared expressions on private data; afterwards the same sequences are run one after the other
// and every result is compared. Built with -race the Go race detector observes every access;
// its reports are collected from the log.

type CS1 struct {
	A int            `json:"a"`
	B string         `json:"b,omitempty"`
	C []int          `json:"c"`
	D *CS2           `json:"d,omitempty"`
	E map[string]any `json:"e,omitempty"`
	F float64
}

type CS2 struct {
	X bool
	Y []string
	Z *CS1
}

type CS3 struct {
	CS2
	Name string `json:"name"`
	N    int64
}

type concShared struct {
	exprs     []jp.Expr
	scripts   []*jp.Script
	mvExprs   []jp.Expr
	mvScripts []*jp.Script
	optsS     *ojg.Options // sorted, shared by every goroutine
	optsI     *ojg.Options
	recomp    *alt.Recomposer
}

func newConcShared() *concShared {
	s := &concShared{}
	for _, x := range []string{"$.a", "$..a", "$[*].b", "$.a[1:3]", "$[?(@.a > 1)]", "$..[?(@.b == 'x')].a", "$['a','b']", "$.c[-1]", "$[?(@.a in [1,2,3])]", "$.*.*", "@.a.b", "$[0,2].a", "$..x", "$[?(length(@.c) > 1)]",
		"$[?(@.c[*] == 2)]", "$[?(@..a == 1)]", "$..[?(@.c[*] > 1)].a", "$[?(@.c[*] == @.a)]", "$[?(@.*.a == 1 || @.c[*] == 3)]"} {
		s.exprs = append(s.exprs, jp.MustParseString(x))
	}
	for _, x := range []string{"(@.a > 1)", "(@.b == 'x' || @.a < 0)", "(@.c[0] in [1,2])", "(!(@.a exists true))", "(@.a + 1 >= 2 && @.b != 'q')", "(@.x has true)", "(@.c[*] == 2)", "(@.c[*] == @.a)", "(@..a == 1)"} {
		s.scripts = append(s.scripts, jp.MustNewScript(x))
	}
	for _, x := range []string{"$[?(@.c[*] == 2)]", "$[?(@.c[*] == @.a)]", "$[?(@..a == 1)].a", "$[?(@.c[*] > 1 && @.c[*] < 3)]", "$[?(@.c[*] == @.d.*)]"} {
		s.mvExprs = append(s.mvExprs, jp.MustParseString(x))
	}
	for _, x := range []string{"(@.c[*] == 2)", "(@.c[*] == @.a)", "(@..a == 1)", "(@.c[*] > 1 && @.c[*] < 3)"} {
		s.mvScripts = append(s.mvScripts, jp.MustNewScript(x))
	}
	o := ojg.DefaultOptions
	o.Sort = true
	s.optsS = &o
	o2 := ojg.GoOptions
	o2.Sort = true
	o2.Indent = 2
	s.optsI = &o2
	rc, err := alt.NewRecomposer("type", map[any]alt.RecomposeFunc{&CS1{}: nil, &CS2{}: nil, &CS3{}: nil})
	if err != nil {
		panic(err)
	}
	s.recomp = rc
	return s
}

func genCS1(r *Rng, depth int) *CS1 {
	v := &CS1{A: r.Intn(100) - 50, B: r.Pick([]string{"", "x", "yy"}), F: niceFloat(r)}
	for i := 0; i < r.Intn(4); i++ {
		v.C = append(v.C, r.Intn(10))
	}
	if depth > 0 && r.Chance(60) {
		v.D = &CS2{X: r.Bool(), Y: []string{r.Pick([]string{"p", "q"})}}
		if depth > 1 && r.Chance(50) {
			v.D.Z = genCS1(r, depth-2)
		}
	}
	if r.Chance(40) {
		v.E = map[string]any{"k": int64(r.Intn(5))}
	}
	return v
}

type concOp struct {
	desc string
	out  string
	buf  []byte // a []byte handed to the caller, with its snapshot
	snap string
}

// one operation; every random choice comes from r, results are canonical text
func concStep(sh *concShared, r *Rng) (op concOp) {
	defer func() {
		if rec := recover(); rec != nil {
			op.out = "panic: " + fmt.Sprint(rec)
		}
	}()
	which := r.Intn(32)
	tree := genTree(r, 1+r.Intn(3))
	doc := genReuseInput(r)
	op.desc = fmt.Sprintf("op%d", which)
	res := func(v any, err error) string { return Show(v) + " " + errText(err) }
	switch which {
	case 0:
		op.desc = fmt.Sprintf("oj.Parse %q", doc)
		op.out = res(oj.Parse(append([]byte(nil), doc...)))
	case 1:
		op.desc = fmt.Sprintf("oj.ParseString %q", doc)
		op.out = res(oj.ParseString(string(doc)))
	case 2:
		op.desc = fmt.Sprintf("oj.Load %q", doc)
		op.out = res(oj.Load(&chunkReader{data: append([]byte(nil), doc...), chunks: []int{5, 3}}))
	case 3:
		op.desc = fmt.Sprintf("oj.Validate %q", doc)
		op.out = errText(oj.Validate(doc))
	case 4:
		op.desc = fmt.Sprintf("oj.Tokenize %q", doc)
		ev := &evCollector{}
		err := oj.Tokenize(doc, ev)
		op.out = strings.Join(ev.sb, " ") + " " + errText(err)
	case 5:
		op.desc = "oj.JSON " + Show(tree)
		op.out = oj.JSON(tree, sh.optsS)
	case 6:
		op.desc = "oj.JSON(pooled) " + Show(singleKey(tree))
		op.out = oj.JSON(singleKey(tree))
	case 7:
		op.desc = "oj.Marshal " + Show(singleKey(tree))
		b, err := oj.Marshal(singleKey(tree))
		op.out = string(b) + " " + errText(err)
		op.buf, op.snap = b, string(b)
	case 8:
		op.desc = "oj.Write " + Show(singleKey(tree))
		var b bytes.Buffer
		err := oj.Write(&b, singleKey(tree))
		op.out = b.String() + " " + errText(err)
	case 9:
		op.desc = fmt.Sprintf("sen.Parse %q", doc)
		op.out = res(sen.Parse(append([]byte(nil), doc...)))
	case 10:
		op.desc = "sen.String " + Show(singleKey(tree))
		op.out = sen.String(singleKey(tree))
	case 11:
		op.desc = "sen.Bytes " + Show(singleKey(tree))
		b := sen.Bytes(singleKey(tree))
		op.out = string(b)
		op.buf, op.snap = b, string(b)
	case 12:
		op.desc = "sen.Write " + Show(singleKey(tree))
		var b bytes.Buffer
		err := sen.Write(&b, singleKey(tree))
		op.out = b.String() + " " + errText(err)
	case 13:
		op.desc = "pretty.JSON " + Show(tree)
		op.out = pretty.JSON(tree, sh.optsS)
	case 14:
		op.desc = "pretty.SEN " + Show(tree)
		op.out = pretty.SEN(tree, sh.optsS)
	case 15:
		op.desc = "alt.Decompose struct"
		v := genCS1(r, 2)
		op.out = oj.JSON(alt.Decompose(v, sh.optsS), sh.optsS)
	case 16:
		op.desc = "alt.Generify " + Show(tree)
		op.out = Show(alt.Generify(tree, sh.optsS))
	case 17:
		op.desc = "oj.JSON struct"
		v := genCS1(r, 2)
		op.out = oj.JSON(v, sh.optsS) + " | " + oj.JSON(&CS3{CS2: CS2{X: true}, Name: v.B, N: int64(v.A)}, sh.optsI)
	case 18:
		op.desc = "oj.Marshal struct"
		v := genCS1(r, 2)
		b, err := oj.Marshal(v)
		op.out = string(b) + " " + errText(err)
		op.buf, op.snap = b, string(b)
	case 19:
		op.desc = "sen.String struct"
		v := genCS1(r, 2)
		op.out = sen.String(v, sh.optsS)
	case 20:
		op.desc = "Recompose"
		v := genCS1(r, 2)
		dec := alt.Decompose(v, &ojg.Options{CreateKey: "type", OmitNil: true})
		out, err := sh.recomp.Recompose(dec, &CS1{})
		op.out = oj.JSON(out, sh.optsS) + " " + errText(err)
	case 21:
		op.desc = "oj.Unmarshal"
		v := genCS1(r, 1)
		b := []byte(oj.JSON(v, &ojg.Options{Sort: true, UseTags: true}))
		var back CS1
		err := sh.recompUnmarshal(b, &back)
		op.out = oj.JSON(&back, sh.optsS) + " " + errText(err)
	case 22, 23:
		x := sh.exprs[r.Intn(len(sh.exprs))]
		op.desc = "Get " + x.String() + " " + Show(tree)
		op.out = "[" + joinShowSorted(x.Get(tree)) + "]" // members of an object come in map order: compare as a multiset
	case 24:
		x := sh.exprs[r.Intn(len(sh.exprs))]
		op.desc = "First/Has " + x.String() + " " + Show(tree)
		_ = x.First(tree) // which member comes first depends on map order: exercised, not compared
		op.out = fmt.Sprint(x.Has(tree))
	case 25:
		x := sh.exprs[r.Intn(5)]
		op.desc = "Set " + x.String() + " " + Show(tree)
		d := copyTyped(tree)
		err := x.Set(d, int64(7))
		op.out = Show(d) + " " + errText(err)
	case 26:
		x := sh.exprs[r.Intn(len(sh.exprs))]
		op.desc = "Del " + x.String() + " " + Show(tree)
		d := copyTyped(tree)
		err := x.Del(d)
		op.out = Show(d) + " " + errText(err)
	case 27:
		s := sh.scripts[r.Intn(len(sh.scripts))]
		op.desc = "Script.Match " + s.String() + " " + Show(tree)
		op.out = fmt.Sprint(s.Match(tree))
	case 28:
		x := sh.exprs[r.Intn(len(sh.exprs))]
		op.desc = "Modify " + x.String() + " " + Show(tree)
		d := copyTyped(tree)
		out, err := x.Modify(d, func(e any) (any, bool) { return []any{e}, true })
		op.out = Show(out) + " " + errText(err)
	case 30, 31:
		// filters and scripts whose operands select several values per element, on data built for them
		rows := make([]any, 3+r.Intn(4))
		for i := range rows {
			cs := make([]any, r.Intn(4))
			for j := range cs {
				cs[j] = int64(r.Intn(4))
			}
			rows[i] = map[string]any{"a": int64(r.Intn(4)), "c": cs, "d": map[string]any{"a": int64(r.Intn(3))}}
		}
		if which == 30 {
			x := sh.mvExprs[r.Intn(len(sh.mvExprs))]
			op.desc = "Get " + x.String() + " " + Show(rows)
			op.out = "[" + joinShow(x.Get(rows)) + "]"
		} else {
			sc := sh.mvScripts[r.Intn(len(sh.mvScripts))]
			row := rows[0]
			op.desc = "Script.Match " + sc.String() + " " + Show(row)
			op.out = fmt.Sprint(sc.Match(row))
		}
	default:
		op.desc = "oj.Match " + string(doc)
		var got []string
		err := oj.Match(doc, func(p jp.Expr, v any) { got = append(got, p.String()+"="+Show(v)) }, sh.exprs[0], sh.exprs[6])
		op.out = strings.Join(got, ";") + " " + errText(err)
	}
	return
}

func (sh *concShared) recompUnmarshal(b []byte, vp any) error {
	return oj.Unmarshal(b, vp, sh.recomp)
}

func joinShowSorted(vs []any) string {
	out := make([]string, len(vs))
	for i, v := range vs {
		out[i] = Show(v)
	}
	sort.Strings(out)
	return strings.Join(out, " ; ")
}

func joinShow(vs []any) string {
	out := make([]string, len(vs))
	for i, v := range vs {
		out[i] = Show(v)
	}
	return strings.Join(out, " ; ")
}

func suiteConc(tier string, seed uint64, model string) *Report {
	rep := &Report{Property: "C08", Tier: tier, Seed: seed}
	rounds, workers, steps := 6, 8, 400
	if tier == "thorough" {
		rounds, workers, steps = 40, 16, 800
	}
	rep.Notes = map[string]string{"race_detector": fmt.Sprint(raceEnabled), "workers": fmt.Sprint(workers), "steps_per_worker": fmt.Sprint(steps), "rounds": fmt.Sprint(rounds)}
	sh := newConcShared()
	// warm-up required by the documentation of the default recomposer (types registered beforehand)
	for round := 0; round < rounds; round++ {
		seeds := make([]uint64, workers)
		base := NewRng(seed*1000 + uint64(round))
		for i := range seeds {
			seeds[i] = base.Next()
		}
		conc := make([][]concOp, workers)
		var wg sync.WaitGroup
		start := make(chan struct{})
		for g := 0; g < workers; g++ {
			wg.Add(1)
			go func(g int) {
				defer wg.Done()
				r := NewRng(seeds[g])
				<-start
				for i := 0; i < steps; i++ {
					conc[g] = append(conc[g], concStep(sh, r))
				}
			}(g)
		}
		close(start)
		wg.Wait()
		// buffers handed out must still hold what they held
		for g := range conc {
			for _, op := range conc[g] {
				if op.buf != nil && string(op.buf) != op.snap {
					rep.Add(Disagreement{Case: op.desc, Where: strings.Fields(op.desc)[0], Kind: "impl-law:returned-buffer-overwritten", Impl: string(op.buf), Model: op.snap,
						Detail: "a []byte returned to one goroutine was written by another call"})
				}
			}
		}
		// the same sequences, one goroutine after the other
		for g := 0; g < workers; g++ {
			r := NewRng(seeds[g])
			for i := 0; i < steps; i++ {
				want := concStep(sh, r)
				got := conc[g][i]
				rep.Evaluations++
				rep.Count("op:" + strings.Fields(want.desc)[0])
				if got.out != want.out {
					rep.Add(Disagreement{Case: want.desc, Where: strings.Fields(want.desc)[0], Kind: "impl-law:concurrent-differs-from-sequential", Impl: got.out, Model: want.out,
						Detail: fmt.Sprintf("round %d goroutine %d step %d", round, g, i)})
				}
			}
		}
	}
	// race detector reports
	if raceEnabled {
		logs, _ := filepath.Glob(os.Getenv("C08_RACE_LOG") + "*")
		re := regexp.MustCompile(`(?s)WARNING: DATA RACE.*?==================`)
		seen := map[string]bool{}
		for _, f := range logs {
			b, err := os.ReadFile(f)
			if err != nil {
				continue
			}
			for _, blk := range re.FindAllString(string(b), -1) {
				key := raceKey(blk)
				if seen[key] {
					continue
				}
				seen[key] = true
				rep.Add(Disagreement{Case: key, Where: raceWhere(key), Kind: "data-race", Impl: blk[:min(len(blk), 1800)], Model: "no data race"})
			}
		}
		rep.Notes["race_reports"] = fmt.Sprint(len(seen))
	}
	rep.Distinct = rep.Evaluations
	rep.Rule = fmt.Sprintf("%d rounds x %d goroutines x %d seeded operations each (30 kinds: pooled oj/sen parse, load, validate, tokenize, JSON, Marshal, Write, String, Bytes; pretty; Decompose, Generify and struct encoding of three struct types first used concurrently; Recompose and Unmarshal with a pre-registered recomposer; Get, First, Has, Set, Del, Modify through 14 shared jp.Expr and Match through 6 shared jp.Script on goroutine-private data; oj.Match with shared targets) with shared *ojg.Options; every result compared with the same sequence run alone; every returned []byte re-read at the end of the round; Go race detector reports collected when built with -race", rounds, workers, steps)
	return rep
}

var raceFrame = regexp.MustCompile(`(?m)^\s+(github\.com/ohler55/ojg[^\s(]*)\(`)

// the ojg functions named in a race report identify it
func raceKey(blk string) string {
	fs := raceFrame.FindAllStringSubmatch(blk, -1)
	var names []string
	seen := map[string]bool{}
	for _, f := range fs {
		n := strings.TrimPrefix(f[1], "github.com/ohler55/ojg/")
		if !seen[n] {
			seen[n] = true
			names = append(names, n)
		}
		if len(names) >= 6 {
			break
		}
	}
	return strings.Join(names, " <- ")
}

func raceWhere(key string) string {
	if i := strings.Index(key, " "); i > 0 {
		return key[:i]
	}
	return key
}
