package main

import (
	"bufio"
	"bytes"
	"encoding/hex"
	"encoding/json"
	"fmt"
	"github.com/ohler55/ojg"
	"github.com/ohler55/ojg/oj"
	"github.com/ohler55/ojg/sen"
	"os"
	"path/filepath"
	"strings"
	"unicode/utf8"
)

type pcase struct {
	in  []byte
	src string
}

func loadCorpus(dir string) [][]byte {
	var out [][]byte
	files, _ := filepath.Glob(filepath.Join(dir, "*.txt"))
	for _, f := range files {
		fh, err := os.Open(f)
		if err != nil {
			continue
		}
		sc := bufio.NewScanner(fh)
		sc.Buffer(make([]byte, 1<<20), 1<<24)
		for sc.Scan() {
			line := strings.TrimSpace(sc.Text())
			if line == "" || strings.HasPrefix(line, "#") {
				continue
			}
			if strings.HasPrefix(line, "hex:") {
				if b, err := hex.DecodeString(line[4:]); err == nil {
					out = append(out, b)
				}
			} else {
				out = append(out, []byte(line))
			}
		}
		fh.Close()
	}
	return out
}

func parseCases(tier string, seed uint64, rep *Report) []pcase {
	var cases []pcase
	seen := map[string]bool{}
	add := func(b []byte, src string) {
		k := string(b)
		if seen[k] {
			return
		}
		seen[k] = true
		cases = append(cases, pcase{in: append([]byte(nil), b...), src: src})
		rep.Count("source:" + src)
	}
	for _, b := range loadCorpus("/verif/corpus/json") {
		add(b, "corpus")
	}
	maxLen := 3
	nDocs := 6000
	grid := 8
	if tier == "thorough" {
		maxLen = 4
		nDocs = 120000
		grid = 25
	}
	enumStrings(jsonAlphabet, maxLen, func(b []byte) { add(b, "enum") })
	// every enumerated 2-string inside a container context, so that in-container cells are hit
	enumStrings(jsonAlphabet, 2, func(b []byte) {
		add(append([]byte("["), b...), "enum-ctx")
		add(append([]byte("{\"a\":"), b...), "enum-ctx")
		add(append([]byte("[1"), b...), "enum-ctx")
		add(append(append([]byte("[1"), b...), ']'), "enum-ctx")
		add(append(append([]byte("{\"a\":1"), b...), '}'), "enum-ctx")
		add(append([]byte("{\"a\""), b...), "enum-ctx")
		add(append([]byte("\"\\"), b...), "enum-ctx")
		add(append(append([]byte("\"\\u"), b...), []byte("00\"")...), "enum-ctx")
		add(append([]byte("1"), b...), "enum-ctx")
		add(append([]byte("-"), b...), "enum-ctx")
		add(append([]byte("1."), b...), "enum-ctx")
		add(append([]byte("1e"), b...), "enum-ctx")
		add(append([]byte("\xef\xbb\xbf"), b...), "enum-ctx")
		for _, pre := range []string{"[1\n\n", "1\n\n", "[\n\n", "[1\n ", "{\"a\":1\n\n", "[\"a\"\n\n", "[1 \n\n", "[1.5\n\n", "[1e2\n\n", "[0\n\n"} {
			add(append([]byte(pre), b...), "enum-nl")
		}
		for _, w := range []string{"tr", "fal", "nu", "t", "fals"} {
			add(append([]byte(w), b...), "enum-ctx")
		}
	})
	gridNumbers(grid, func(s string) {
		add([]byte(s), "number-grid")
		if len(s)%3 == 0 {
			add([]byte("["+s+","+s+"]"), "number-grid")
			add([]byte("{\"n\":"+s+"}"), "number-grid")
		}
	})
	// every \uXXXX escape (code units 0000..ffff, surrogates included), 512 per document, as array
	// elements; the encoding-length boundaries also as member names and inside longer strings
	for lo := 0; lo < 0x10000; lo += 512 {
		var sb strings.Builder
		sb.WriteByte('[')
		for cu := lo; cu < lo+512; cu++ {
			if cu > lo {
				sb.WriteByte(',')
			}
			fmt.Fprintf(&sb, "\"\\u%04x\"", cu)
		}
		sb.WriteByte(']')
		add([]byte(sb.String()), "escape-sweep")
	}
	for _, cu := range []int{0x00, 0x1f, 0x7f, 0x80, 0xff, 0x7ff, 0x800, 0x801, 0xfff, 0x1000, 0xd7ff, 0xe000, 0xfeff, 0xfffd, 0xffff} {
		add([]byte(fmt.Sprintf("{\"\\u%04x\":1,\"a\\u%04Xb\":\"x\\u%04x\\u%04xy\"}", cu, cu, cu, cu)), "escape-sweep")
	}
	r := NewRng(seed)
	for i := 0; i < nDocs; i++ {
		d := genDoc(r)
		add(d, "doc")
		if r.Chance(70) {
			add(mutate(r, d), "mutated")
		}
		if r.Chance(20) {
			add([]byte(genNumber(r)), "number")
		}
	}
	return cases
}

// classify the kind of difference between two outcome strings
func diffKind(a, b string) string {
	switch {
	case accepted(a) != accepted(b):
		return "accept"
	case strings.HasPrefix(a, "F") || strings.HasPrefix(b, "F"):
		return "fault"
	case accepted(a):
		return "value"
	default:
		return "position"
	}
}

// suiteParse: whole-buffer correspondence of the four table-driven front-ends with the model
// and the specification. [kinds] selects which differences this property is about.
func suiteParse(prop, tier string, seed uint64, model string, kinds map[string]bool) *Report {
	rep := &Report{Property: prop, Tier: tier, Seed: seed}
	cases := parseCases(tier, seed, rep)
	fes := []int{feParser, feValidator, feTokenizer, feGen}
	var reqs []string
	for _, c := range cases {
		h := hx(c.in)
		for _, fe := range fes {
			reqs = append(reqs, fmt.Sprintf("parse %d %s", fe, h))
		}
		reqs = append(reqs, "accept 1 "+h)
		reqs = append(reqs, "spec 1 "+h)
		reqs = append(reqs, "speck 1 "+h)
	}
	ans, err := RunModel(model, reqs)
	if err != nil {
		rep.Add(Disagreement{Kind: "harness-error", Detail: err.Error()})
		return rep
	}
	nontrivial := 0
	for i, c := range cases {
		base := i * (len(fes) + 3)
		specTree := ans[base+len(fes)+1]
		specKnown := ans[base+len(fes)+2]
		h := hx(c.in)
		spec := ans[base+len(fes)] == "1"
		if spec {
			rep.Count("spec:accept")
		} else {
			rep.Count("spec:reject")
		}
		if len(c.in) > 1 {
			nontrivial++
		}
		if kinds["accept"] && len(bytes.TrimSpace(c.in)) > 0 && !bytes.HasPrefix(c.in, []byte("\xef\xbb\xbf")) {
			// the reference recogniser itself against an independent decoder (encoding/json): same
			// language, except that the empty text is no document for encoding/json and that a byte
			// order mark is not skipped there
			rep.Evaluations++
			if gv := json.Valid(c.in); gv != spec {
				rep.Add(Disagreement{Case: h, Where: "reference recogniser vs encoding/json", Kind: "spec-vs-go:accept", Impl: fmt.Sprint(gv), Spec: fmt.Sprint(spec)})
			}
		}
		if kinds["value"] && strings.HasPrefix(specTree, "O ") && utf8.Valid(c.in) && len(bytes.TrimSpace(c.in)) > 0 && !bytes.HasPrefix(c.in, []byte("\xef\xbb\xbf")) {
			// the reference parser itself against encoding/json (numbers as text): same tree, for texts
			// that are valid UTF-8 (encoding/json replaces invalid bytes, the reference keeps them)
			dec := json.NewDecoder(bytes.NewReader(c.in))
			dec.UseNumber()
			var gv any
			if err := dec.Decode(&gv); err == nil {
				rep.Evaluations++
				if got := "O " + Show(gv); got != specTree {
					rep.Add(Disagreement{Case: h, Where: "reference parser vs encoding/json", Kind: "spec-vs-go:value", Impl: got, Spec: specTree})
				}
			}
		}
		for j, fe := range fes {
			impl := RunFE(fe, c.in, nil, false)
			mod := NormModel(fe, ans[base+j])
			rep.Evaluations++
			if strings.HasPrefix(impl, "F") {
				rep.Count("impl:fault")
			}
			if kinds["accept"] {
				// the 3-byte input EF BB BF is left unspecified by the property text
				if accepted(impl) != spec && string(c.in) != "\xef\xbb\xbf" && !strings.HasPrefix(impl, "F") {
					rep.Add(Disagreement{Case: h, Where: feNames[fe], Kind: "impl-vs-spec:accept", Impl: impl, Spec: fmt.Sprint(spec), Model: mod})
				}
			}
			if kinds["fault"] && strings.HasPrefix(impl, "F") {
				rep.Add(Disagreement{Case: h, Where: feNames[fe], Kind: "impl-vs-spec:fault", Impl: impl, Model: mod})
			}
			if kinds["value"] && (fe == feParser || fe == feGen) && accepted(impl) && strings.HasPrefix(specTree, "O") {
				iv := strings.TrimSuffix(strings.TrimPrefix(impl, "O "), " | ")
				sv := strings.TrimPrefix(specTree, "O ")
				if sv == "" {
					sv = "n"
				}
				if why := specMatch(sv, iv); why != "" {
					class := ""
					if strings.HasPrefix(why, "KNOWN:") {
						class = strings.TrimPrefix(why, "KNOWN:")
					} else if w2 := specMatch(strings.TrimPrefix(specKnown, "O "), iv); w2 == "" || strings.HasPrefix(w2, "KNOWN:") {
						// equal to the specification variant that decodes each surrogate on its own
						class = "surrogate-pair"
					}
					rep.Add(Disagreement{Case: h, Where: feNames[fe], Kind: "impl-vs-spec:value", Impl: impl, Spec: specTree, Detail: why, Class: class})
				}
			}
			if impl != mod {
				k := diffKind(impl, mod)
				if kinds[k] {
					rep.Add(Disagreement{Case: h, Where: feNames[fe], Kind: "impl-vs-model:" + k, Impl: impl, Model: mod})
				}
			}
		}
		if i%997 == 0 && len(rep.Samples) < 12 {
			rep.Samples = append(rep.Samples, fmt.Sprintf("%s %q", c.src, string(c.in)))
		}
	}
	rep.Distinct = nontrivial
	rep.Rule = "corpus + all strings up to the tier's length over 37 byte-class representatives (alone and inside 18 syntactic contexts) + digit-count grid of number literals + seeded grammar-directed documents and 1-2 byte mutations of them; distinct inputs (deduplicated) longer than one byte count as non-trivial; each is run through oj.Parser, oj.Validator, oj.Tokenizer, gen.Parser and compared with the extracted Coq model and the reference recogniser"
	return rep
}

// suiteDeep: nesting far beyond any initial capacity or the built-in limit of other decoders (10000
// in encoding/json). The extracted model is quadratic in the depth, so these inputs are judged
// against the outcome the grammar fixes by hand: accepted, or rejected at the stated position, by
// every front-end, from a buffer and from a reader.
func suiteDeep(prop string) *Report {
	rep := &Report{Property: prop}
	type dc struct {
		in   string
		want string
	}
	var cases []dc
	for _, d := range []int{10001, 12000} {
		cases = append(cases,
			dc{strings.Repeat("[", d) + strings.Repeat("]", d), "accept"},
			dc{strings.Repeat("[", d) + "x", fmt.Sprintf("E 1 %d", d+1)},
			dc{strings.Repeat("[{\"a\":", d/2) + "1" + strings.Repeat("}]", d/2), "accept"},
			dc{strings.Repeat("[{\"a\":", d/2) + "\n}", "E 2 1"},
			dc{strings.Repeat("[", d) + "1", fmt.Sprintf("E 1 %d", d+2)})
	}
	for _, c := range cases {
		for _, fe := range []int{feParser, feValidator, feTokenizer, feGen} {
			for _, reader := range []bool{false, true} {
				rep.Evaluations++
				out := RunFE(fe, []byte(c.in), []int{}, reader)
				got := out
				if accepted(out) {
					got = "accept"
				}
				if got != c.want {
					kind := "impl-vs-spec:accept"
					if strings.HasPrefix(got, "E") && strings.HasPrefix(c.want, "E") {
						kind = "impl-vs-spec:position"
					} else if strings.HasPrefix(got, "F") {
						kind = "impl-vs-spec:fault"
					}
					if len(got) > 80 {
						got = got[:80]
					}
					rep.Add(Disagreement{Case: fmt.Sprintf("depth-%d %.12s...%.6s", len(c.in), c.in, c.in[len(c.in)-6:]), Where: fmt.Sprintf("%s reader=%v", feNames[fe], reader), Kind: kind, Impl: got, Spec: c.want})
				}
			}
		}
	}
	return rep
}

// suiteUnmarshalPos (C09): the Unmarshal entry points are strict-JSON front-ends as well: on a
// rejected text they report the position oj.Parse reports.
func suiteUnmarshalPos(seed uint64) *Report {
	rep := &Report{Property: "C09"}
	r := NewRng(seed + 909)
	inputs := []string{" [1,x]", "\n\n [1,", "{\"a\":[1,2\n", "  {\"a\":tru}", "\t\n[1 2]", "[1,2]  x", "\n \n{\"a\" 1}", " ", "\n", " \n 1 2", "[1,\n\n", "   "}
	for i := 0; i < 300; i++ {
		d := string(mutate(r, genDoc(r)))
		if len(d) > 120 {
			continue
		}
		ws := []string{"", " ", "\n", " \n ", "\t"}
		inputs = append(inputs, ws[r.Intn(len(ws))]+d+ws[r.Intn(len(ws))])
	}
	errText := func(err error) string {
		if err == nil {
			return "ok"
		}
		return err.Error()
	}
	for _, in := range inputs {
		_, perr := oj.Parse([]byte(in))
		want := errText(perr)
		if want == "ok" {
			continue // accepted texts: what Unmarshal stores is C16's subject
		}
		rep.Evaluations++
		var v1, v2 any
		for where, got := range map[string]string{
			"oj.Unmarshal":        safe(func() string { return errText(oj.Unmarshal([]byte(in), &v1)) }),
			"oj.Parser.Unmarshal": safe(func() string { p := oj.Parser{}; return errText(p.Unmarshal([]byte(in), &v2)) }),
		} {
			if got != want {
				rep.Add(Disagreement{Case: hx([]byte(in)), Where: where, Kind: "impl-law:position-unmarshal", Impl: got, Spec: want, Detail: fmt.Sprintf("%q", in)})
			}
		}
	}
	return rep
}

// suiteNumConvGlobal (C02): the package-wide default number conversion does not make a tokenizer
// lose or reorder events (no digit or element is ever lost).
func suiteNumConvGlobal() *Report {
	rep := &Report{Property: "C02"}
	inputs := []string{`[12345678901234567890123,1]`, `{"a":12345678901234567890123,"b":2}`, `[1e400,1.5,123456789012345678901234567890.5e-3,"x"]`, `12345678901234567890123`, `[0.1234567890123456789012345,true]`}
	run := func(in string, useSen bool) string {
		return safe(func() string {
			ec := &evCollector{}
			var err error
			if useSen {
				err = sen.Tokenize([]byte(in), ec)
			} else {
				err = oj.Tokenize([]byte(in), ec)
			}
			if err != nil {
				return "E " + err.Error()
			}
			return strings.Join(ec.sb, " ")
		})
	}
	saved := ojg.DefaultNumConvMethod
	defer func() { ojg.DefaultNumConvMethod = saved }()
	for _, in := range inputs {
		for _, useSen := range []bool{false, true} {
			ojg.DefaultNumConvMethod = saved
			want := run(in, useSen)
			for _, m := range []ojg.NumConvMethod{ojg.NumConvString, ojg.NumConvFloat64, ojg.NumConvNone} {
				ojg.DefaultNumConvMethod = m
				rep.Evaluations++
				got := run(in, useSen)
				// the representation of a big number may follow the setting; the number of events and every other event may not
				if len(strings.Fields(got)) != len(strings.Fields(want)) {
					rep.Add(Disagreement{Case: in, Where: fmt.Sprintf("Tokenize sen=%v DefaultNumConvMethod=%v", useSen, m), Kind: "impl-law:events-lost", Impl: got, Spec: want})
				}
			}
		}
	}
	ojg.DefaultNumConvMethod = saved
	return rep
}
