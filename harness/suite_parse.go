package main

import (
	"bufio"
	"encoding/hex"
	"fmt"
	"os"
	"path/filepath"
	"strings"
)

type pcase struct {
	in  []byte
	src string
}

func loadCorpus(dir string) [][]byte {
	var out [][]byte
	files, _ := filepath.Glob(filepath.Join(dir, "*.txt"))
	for _, f := range files {
		fh, err := os.Open(f)
		if err != nil {
			continue
		}
		sc := bufio.NewScanner(fh)
		sc.Buffer(make([]byte, 1<<20), 1<<24)
		for sc.Scan() {
			line := strings.TrimSpace(sc.Text())
			if line == "" || strings.HasPrefix(line, "#") {
				continue
			}
			if strings.HasPrefix(line, "hex:") {
				if b, err := hex.DecodeString(line[4:]); err == nil {
					out = append(out, b)
				}
			} else {
				out = append(out, []byte(line))
			}
		}
		fh.Close()
	}
	return out
}

func parseCases(tier string, seed uint64, rep *Report) []pcase {
	var cases []pcase
	seen := map[string]bool{}
	add := func(b []byte, src string) {
		k := string(b)
		if seen[k] {
			return
		}
		seen[k] = true
		cases = append(cases, pcase{in: append([]byte(nil), b...), src: src})
		rep.Count("source:" + src)
	}
	for _, b := range loadCorpus("/verif/corpus/json") {
		add(b, "corpus")
	}
	maxLen := 3
	nDocs := 6000
	grid := 8
	if tier == "thorough" {
		maxLen = 4
		nDocs = 120000
		grid = 25
	}
	enumStrings(jsonAlphabet, maxLen, func(b []byte) { add(b, "enum") })
	// every enumerated 2-string inside a container context, so that in-container cells are hit
	enumStrings(jsonAlphabet, 2, func(b []byte) {
		add(append([]byte("["), b...), "enum-ctx")
		add(append([]byte("{\"a\":"), b...), "enum-ctx")
		add(append([]byte("[1"), b...), "enum-ctx")
		add(append(append([]byte("[1"), b...), ']'), "enum-ctx")
		add(append(append([]byte("{\"a\":1"), b...), '}'), "enum-ctx")
		add(append([]byte("{\"a\""), b...), "enum-ctx")
		add(append([]byte("\"\\"), b...), "enum-ctx")
		add(append(append([]byte("\"\\u"), b...), []byte("00\"")...), "enum-ctx")
		add(append([]byte("1"), b...), "enum-ctx")
		add(append([]byte("-"), b...), "enum-ctx")
		add(append([]byte("1."), b...), "enum-ctx")
		add(append([]byte("1e"), b...), "enum-ctx")
		add(append([]byte("\xef\xbb\xbf"), b...), "enum-ctx")
		for _, pre := range []string{"[1\n\n", "1\n\n", "[\n\n", "[1\n ", "{\"a\":1\n\n", "[\"a\"\n\n", "[1 \n\n", "[1.5\n\n", "[1e2\n\n", "[0\n\n"} {
			add(append([]byte(pre), b...), "enum-nl")
		}
		for _, w := range []string{"tr", "fal", "nu", "t", "fals"} {
			add(append([]byte(w), b...), "enum-ctx")
		}
	})
	gridNumbers(grid, func(s string) {
		add([]byte(s), "number-grid")
		if len(s)%3 == 0 {
			add([]byte("["+s+","+s+"]"), "number-grid")
			add([]byte("{\"n\":"+s+"}"), "number-grid")
		}
	})
	r := NewRng(seed)
	for i := 0; i < nDocs; i++ {
		d := genDoc(r)
		add(d, "doc")
		if r.Chance(70) {
			add(mutate(r, d), "mutated")
		}
		if r.Chance(20) {
			add([]byte(genNumber(r)), "number")
		}
	}
	return cases
}

// classify the kind of difference between two outcome strings
func diffKind(a, b string) string {
	switch {
	case accepted(a) != accepted(b):
		return "accept"
	case strings.HasPrefix(a, "F") || strings.HasPrefix(b, "F"):
		return "fault"
	case accepted(a):
		return "value"
	default:
		return "position"
	}
}

// suiteParse: whole-buffer correspondence of the four table-driven front-ends with the model
// and the specification. [kinds] selects which differences this property is about.
func suiteParse(prop, tier string, seed uint64, model string, kinds map[string]bool) *Report {
	rep := &Report{Property: prop, Tier: tier, Seed: seed}
	cases := parseCases(tier, seed, rep)
	fes := []int{feParser, feValidator, feTokenizer, feGen}
	var reqs []string
	for _, c := range cases {
		h := hx(c.in)
		for _, fe := range fes {
			reqs = append(reqs, fmt.Sprintf("parse %d %s", fe, h))
		}
		reqs = append(reqs, "accept 1 "+h)
		reqs = append(reqs, "spec 1 "+h)
		reqs = append(reqs, "speck 1 "+h)
	}
	ans, err := RunModel(model, reqs)
	if err != nil {
		rep.Add(Disagreement{Kind: "harness-error", Detail: err.Error()})
		return rep
	}
	nontrivial := 0
	for i, c := range cases {
		base := i * (len(fes) + 3)
		specTree := ans[base+len(fes)+1]
		specKnown := ans[base+len(fes)+2]
		h := hx(c.in)
		spec := ans[base+len(fes)] == "1"
		if spec {
			rep.Count("spec:accept")
		} else {
			rep.Count("spec:reject")
		}
		if len(c.in) > 1 {
			nontrivial++
		}
		for j, fe := range fes {
			impl := RunFE(fe, c.in, nil, false)
			mod := NormModel(fe, ans[base+j])
			rep.Evaluations++
			if strings.HasPrefix(impl, "F") {
				rep.Count("impl:fault")
			}
			if kinds["accept"] {
				// the 3-byte input EF BB BF is left unspecified by the property text
				if accepted(impl) != spec && string(c.in) != "\xef\xbb\xbf" && !strings.HasPrefix(impl, "F") {
					rep.Add(Disagreement{Case: h, Where: feNames[fe], Kind: "impl-vs-spec:accept", Impl: impl, Spec: fmt.Sprint(spec), Model: mod})
				}
			}
			if kinds["fault"] && strings.HasPrefix(impl, "F") {
				rep.Add(Disagreement{Case: h, Where: feNames[fe], Kind: "impl-vs-spec:fault", Impl: impl, Model: mod})
			}
			if kinds["value"] && (fe == feParser || fe == feGen) && accepted(impl) && strings.HasPrefix(specTree, "O") {
				iv := strings.TrimSuffix(strings.TrimPrefix(impl, "O "), " | ")
				sv := strings.TrimPrefix(specTree, "O ")
				if sv == "" {
					sv = "n"
				}
				if why := specMatch(sv, iv); why != "" {
					class := ""
					if strings.HasPrefix(why, "KNOWN:") {
						class = strings.TrimPrefix(why, "KNOWN:")
					} else if w2 := specMatch(strings.TrimPrefix(specKnown, "O "), iv); w2 == "" || strings.HasPrefix(w2, "KNOWN:") {
						// equal to the specification variant that decodes each surrogate on its own
						class = "surrogate-pair"
					}
					rep.Add(Disagreement{Case: h, Where: feNames[fe], Kind: "impl-vs-spec:value", Impl: impl, Spec: specTree, Detail: why, Class: class})
				}
			}
			if impl != mod {
				k := diffKind(impl, mod)
				if kinds[k] {
					rep.Add(Disagreement{Case: h, Where: feNames[fe], Kind: "impl-vs-model:" + k, Impl: impl, Model: mod})
				}
			}
		}
		if i%997 == 0 && len(rep.Samples) < 12 {
			rep.Samples = append(rep.Samples, fmt.Sprintf("%s %q", c.src, string(c.in)))
		}
	}
	rep.Distinct = nontrivial
	rep.Rule = "corpus + all strings up to the tier's length over 37 byte-class representatives (alone and inside 18 syntactic contexts) + digit-count grid of number literals + seeded grammar-directed documents and 1-2 byte mutations of them; distinct inputs (deduplicated) longer than one byte count as non-trivial; each is run through oj.Parser, oj.Validator, oj.Tokenizer, gen.Parser and compared with the extracted Coq model and the reference recogniser"
	return rep
}
