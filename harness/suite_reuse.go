package main

import (
	"bytes"
	"errors"
	"fmt"
	"io"
	"strings"

	"github.com/ohler55/ojg"
	"github.com/ohler55/ojg/gen"
	"github.com/ohler55/ojg/oj"
	"github.com/ohler55/ojg/sen"
)

// C07: every call on a reused instance (or through the pooled package-level functions) is
// compared with the same call on a fresh instance; values returned earlier are re-inspected
// after the later calls and after the caller's input buffers have been overwritten.

// rcall is one replayable call: run executes it on the given instance (nil for the
// package-level functions) and returns the canonical outcome plus the values it returned.
type rcall struct {
	desc string
	tag  string                                                      // for the distribution
	run  func(inst any, fresh bool) (outcome string, returned []any) // returned: retv values (value + snapshot taken inside the call)
}

type retv struct {
	v    any
	snap string
}

// snapshots are taken before the deferred overwrite of the caller's buffer runs
func snapAll(vs []any) []any {
	out := make([]any, len(vs))
	for i, v := range vs {
		if b, ok := v.([]byte); ok {
			out[i] = retv{v, string(b)}
		} else {
			out[i] = retv{v, Show(v)}
		}
	}
	return out
}

type rkind struct {
	name  string
	fresh func(cfg int) any
	cfgs  int
	gen   func(r *Rng, cfg int) rcall
	reuse func(cfg int) bool // returned maps may be altered later (documented)
}

type failReader struct {
	data []byte
	n    int
}

func (f *failReader) Read(p []byte) (int, error) {
	if f.n <= 0 {
		return 0, errors.New("reader failed")
	}
	k := f.n
	if k > len(f.data) {
		k = len(f.data)
	}
	if k > len(p) {
		k = len(p)
	}
	copy(p, f.data[:k])
	f.data = f.data[k:]
	f.n -= k
	if k == 0 {
		return 0, errors.New("reader failed")
	}
	return k, nil
}

type failWriter struct {
	left int
	buf  bytes.Buffer
}

func (f *failWriter) Write(p []byte) (int, error) {
	if f.left <= 0 {
		return 0, errors.New("writer failed")
	}
	f.left--
	return f.buf.Write(p)
}

func errText(err error) string {
	if err == nil {
		return "ok"
	}
	return "error: " + err.Error()
}

// documents for histories: valid, multi-document, and inputs that fail in every scratch state
var reuseBad = []string{
	"nu", "tru", "fals", "nul", "[tr", "[1,", "{\"a\"", "{\"a\":", "\"abc", "\"a\\", "\"a\\u12", "\"\\ud83d", "-", "1.", "1e", "1e+", "123456789012345678901234567890",
	"[123456789012345678901234567890", "1.5e3x", "[[[[", "{\"a\":{\"b\":[1,{\"c\":", "[1 2]", "]", "{\"a\":1,}", "\xef\xbb", "\xef\xbb\xbf[", "[\"x\\", "0.1234567890123456789012345678",
	"[1]]", "{}{", "nulll", "truefalse", "[1,2", "\"\\u00", "+", "[+", "{a:+", "abc def", "[1 -", "'ab", "[a b", "{a:", "1 2 3 [",
}

func genReuseInput(r *Rng) []byte {
	switch r.Intn(10) {
	case 0, 1, 2:
		return []byte(reuseBad[r.Intn(len(reuseBad))])
	case 3:
		return mutate(r, genDoc(r))
	case 4:
		var sb strings.Builder
		for i := 0; i < 1+r.Intn(3); i++ {
			sb.Write(genDoc(r))
			sb.WriteString(r.Pick([]string{" ", "\n", ""}))
		}
		return []byte(sb.String())
	case 5:
		// longer than a read buffer so that reader calls refill
		var sb strings.Builder
		sb.WriteString("[")
		for i := 0; i < 700+r.Intn(200); i++ {
			if i > 0 {
				sb.WriteString(",")
			}
			sb.WriteString(genValue(r, 1))
		}
		if r.Chance(70) {
			sb.WriteString("]")
		}
		return []byte(sb.String())
	}
	return genDoc(r)
}

type inMode struct {
	kind   int // 0 buffer, 1 reader one piece, 2 reader chunked, 3 failing reader
	chunks []int
	failAt int
}

func genInMode(r *Rng, n int) inMode {
	switch r.Intn(6) {
	case 0, 1, 2:
		return inMode{kind: 0}
	case 3:
		return inMode{kind: 1}
	case 4:
		var ch []int
		for i := 0; i < 4; i++ {
			ch = append(ch, 1+r.Intn(5))
		}
		return inMode{kind: 2, chunks: ch}
	}
	return inMode{kind: 3, failAt: r.Intn(n + 1)}
}

func (m inMode) reader(buf []byte) io.Reader {
	switch m.kind {
	case 1:
		return &chunkReader{data: buf}
	case 2:
		return &chunkReader{data: buf, chunks: append([]int(nil), m.chunks...)}
	}
	return &failReader{data: buf, n: m.failAt}
}

func (m inMode) String() string {
	return [...]string{"buffer", "reader", "reader-chunked", "reader-failing"}[m.kind]
}

// parser option: 0 none, 1 func(any), 2 func(any) bool, 3..5 NumConvMethod, 6 invalid option, 7 callback that panics on the second document, 8 chan
func parserCall(r *Rng, who string) rcall {
	in := genReuseInput(r)
	mode := genInMode(r, len(in))
	opt := r.Intn(11) // 9, 10: the Unmarshal method of oj.Parser / sen.Parser (into any, into a struct)
	desc := fmt.Sprintf("%s %s opt=%d input=%q", who, mode, opt, in)
	return rcall{desc: desc, tag: fmt.Sprintf("%s/%s/opt%d", who, mode, opt), run: func(inst any, fresh bool) (out string, ret []any) {
		buf := append([]byte(nil), in...)
		var docs []string
		defer func() {
			if rec := recover(); rec != nil {
				out = "panic: " + fmt.Sprint(rec) + " docs=" + strings.Join(docs, " ")
			}
			for i := range buf { // the caller reuses its buffer
				buf[i] = 'X'
			}
		}()
		var v any
		var err error
		switch p := inst.(type) {
		case *oj.Parser:
			var args []any
			var ch chan any
			switch opt {
			case 1:
				args = append(args, func(x any) { docs = append(docs, Show(x)); ret = append(ret, x) })
			case 2:
				args = append(args, func(x any) bool { docs = append(docs, Show(x)); ret = append(ret, x); return false })
			case 3:
				args = append(args, ojg.NumConvFloat64)
			case 4:
				args = append(args, ojg.NumConvString)
			case 5:
				args = append(args, ojg.NumConvNone)
			case 6:
				args = append(args, 17)
			case 7:
				args = append(args, func(x any) {
					docs = append(docs, Show(x))
					if len(docs) == 2 {
						panic("callback abort")
					}
				})
			case 8:
				ch = make(chan any, 4096)
				args = append(args, ch)
			}
			switch {
			case opt == 9:
				var x any
				err = p.Unmarshal(buf, &x)
				v = x
			case opt == 10:
				var x struct {
					A int
					B []float64
				}
				err = p.Unmarshal(buf, &x)
				v = fmt.Sprintf("%v", x)
			case mode.kind == 0:
				v, err = p.Parse(buf, args...)
			default:
				v, err = p.ParseReader(mode.reader(buf), args...)
			}
			if ch != nil {
				close(ch)
				for x := range ch {
					docs = append(docs, Show(x))
					ret = append(ret, x)
				}
			}
		case *gen.Parser:
			var args []any
			var ch chan gen.Node
			switch opt {
			case 1:
				args = append(args, func(x gen.Node) { docs = append(docs, Show(x)); ret = append(ret, x) })
			case 2:
				args = append(args, func(x gen.Node) bool { docs = append(docs, Show(x)); ret = append(ret, x); return false })
			case 6:
				args = append(args, 17)
			case 7:
				args = append(args, func(x gen.Node) {
					docs = append(docs, Show(x))
					if len(docs) == 2 {
						panic("callback abort")
					}
				})
			case 8:
				ch = make(chan gen.Node, 4096)
				args = append(args, ch)
			}
			var n gen.Node
			if mode.kind == 0 {
				n, err = p.Parse(buf, args...)
			} else {
				n, err = p.ParseReader(mode.reader(buf), args...)
			}
			if n != nil {
				v = n
			}
			if ch != nil {
				close(ch)
				for x := range ch {
					docs = append(docs, Show(x))
					ret = append(ret, x)
				}
			}
		case *sen.Parser:
			var args []any
			var ch chan any
			switch opt {
			case 1:
				args = append(args, func(x any) { docs = append(docs, Show(x)); ret = append(ret, x) })
			case 2:
				args = append(args, func(x any) bool { docs = append(docs, Show(x)); ret = append(ret, x); return false })
			case 3:
				args = append(args, ojg.NumConvFloat64)
			case 4:
				args = append(args, ojg.NumConvString)
			case 5:
				args = append(args, ojg.NumConvNone)
			case 6:
				args = append(args, 17)
			case 7:
				args = append(args, func(x any) {
					docs = append(docs, Show(x))
					if len(docs) == 2 {
						panic("callback abort")
					}
				})
			case 8:
				ch = make(chan any, 4096)
				args = append(args, ch)
			}
			switch {
			case opt == 9:
				var x any
				err = p.Unmarshal(buf, &x)
				v = x
			case opt == 10:
				var x struct {
					A int
					B []float64
				}
				err = p.Unmarshal(buf, &x)
				v = fmt.Sprintf("%v", x)
			case mode.kind == 0:
				v, err = p.Parse(buf, args...)
			default:
				v, err = p.ParseReader(mode.reader(buf), args...)
			}
			if ch != nil {
				close(ch)
				for x := range ch {
					docs = append(docs, Show(x))
					ret = append(ret, x)
				}
			}
		}
		if v != nil {
			ret = append(ret, v)
		}
		return "result=" + Show(v) + " " + errText(err) + " docs=" + strings.Join(docs, " "), snapAll(ret)
	}}
}

func validatorCall(r *Rng) rcall {
	in := genReuseInput(r)
	mode := genInMode(r, len(in))
	return rcall{desc: fmt.Sprintf("Validator %s input=%q", mode, in), tag: "Validator/" + mode.String(), run: func(inst any, fresh bool) (out string, ret []any) {
		defer func() {
			if rec := recover(); rec != nil {
				out = "panic: " + fmt.Sprint(rec)
			}
		}()
		p := inst.(*oj.Validator)
		buf := append([]byte(nil), in...)
		if mode.kind == 0 {
			return errText(p.Validate(buf)), nil
		}
		return errText(p.ValidateReader(mode.reader(buf))), nil
	}}
}

type panicHandler struct {
	evCollector
	at int
}

func (h *panicHandler) String(s string) {
	h.evCollector.String(s)
	if len(h.sb) >= h.at {
		panic("handler abort")
	}
}

func tokenizerCall(r *Rng) rcall {
	in := genReuseInput(r)
	mode := genInMode(r, len(in))
	abort := r.Chance(10)
	return rcall{desc: fmt.Sprintf("Tokenizer %s abort=%v input=%q", mode, abort, in), tag: fmt.Sprintf("Tokenizer/%s/abort=%v", mode, abort), run: func(inst any, fresh bool) (out string, ret []any) {
		var h oj.TokenHandler
		ev := &evCollector{}
		h = ev
		if abort {
			ph := &panicHandler{at: 2}
			h = ph
			ev = &ph.evCollector
		}
		defer func() {
			if rec := recover(); rec != nil {
				out = "panic: " + fmt.Sprint(rec) + " events=" + strings.Join(ev.sb, " ")
			}
		}()
		buf := append([]byte(nil), in...)
		var err error
		switch t := inst.(type) {
		case *oj.Tokenizer:
			if mode.kind == 0 {
				err = t.Parse(buf, h)
			} else {
				err = t.Load(mode.reader(buf), h)
			}
		case *sen.Tokenizer:
			if mode.kind == 0 {
				err = t.Parse(buf, h)
			} else {
				err = t.Load(mode.reader(buf), h)
			}
		}
		return errText(err) + " events=" + strings.Join(ev.sb, " "), nil
	}}
}

var writerPresets = []func() ojg.Options{
	func() ojg.Options { o := ojg.DefaultOptions; o.Sort = true; return o },
	func() ojg.Options { o := ojg.DefaultOptions; o.Sort = true; o.Indent = 2; return o },
	func() ojg.Options { o := ojg.GoOptions; o.Sort = true; return o },
	func() ojg.Options { o := ojg.DefaultOptions; o.Sort = true; o.Tab = true; o.OmitNil = true; return o },
	func() ojg.Options {
		o := ojg.DefaultOptions
		o.Sort = true
		o.HTMLUnsafe = false
		o.OmitEmpty = true
		return o
	},
	func() ojg.Options { o := ojg.DefaultOptions; o.Sort = true; o.Color = true; o.Indent = 1; return o },
	func() ojg.Options { o := ojg.DefaultOptions; o.Sort = true; o.WriteLimit = 8; o.InitSize = 4; return o },
	func() ojg.Options {
		o := ojg.DefaultOptions
		o.Sort = true
		o.Indent = 3
		o.TimeFormat = "nano"
		o.BytesAs = ojg.BytesAsArray
		return o
	},
}

type unencodable struct {
	F func()
	C chan int
}

func genWriteValue(r *Rng) any {
	if r.Chance(12) {
		switch r.Intn(3) {
		case 0:
			return []any{int64(1), make(chan int)}
		case 1:
			return map[string]any{"a": func() {}, "b": []any{true}}
		}
		return []any{&unencodable{}, "x"}
	}
	return genWTree(r, 1+r.Intn(3))
}

// how: 0 JSON/SEN string, 1 Must bytes, 2 Write to a buffer, 3 Write to a failing writer, 4 oj.Marshal(v, writer)
func writerCall(r *Rng, who string) rcall {
	v := genWriteValue(r)
	preset := r.Intn(len(writerPresets))
	how := r.Intn(5)
	failAt := r.Intn(3)
	return rcall{desc: fmt.Sprintf("%s how=%d preset=%d value=%s", who, how, preset, Show(v)), tag: fmt.Sprintf("%s/how%d/preset%d", who, how, preset),
		run: func(inst any, fresh bool) (out string, ret []any) {
			defer func() {
				if rec := recover(); rec != nil {
					out = "panic: " + fmt.Sprint(rec)
				}
			}()
			switch w := inst.(type) {
			case *oj.Writer:
				w.Options = writerPresets[preset]()
				switch how {
				case 0:
					return "text=" + w.JSON(v), nil
				case 1:
					return "text=" + string(w.MustJSON(v)), nil
				case 2:
					var b bytes.Buffer
					err := w.Write(&b, v)
					return "text=" + b.String() + " " + errText(err), nil
				case 3:
					fw := &failWriter{left: failAt}
					err := w.Write(fw, v)
					return "text=" + fw.buf.String() + " " + errText(err), nil
				default:
					b, err := oj.Marshal(v, w)
					return "text=" + string(b) + " " + errText(err), snapAll([]any{b})
				}
			case *sen.Writer:
				w.Options = writerPresets[preset]()
				switch how {
				case 0, 4:
					return "text=" + w.SEN(v), nil
				case 1:
					return "text=" + string(w.MustSEN(v)), nil
				case 2:
					var b bytes.Buffer
					err := w.Write(&b, v)
					return "text=" + b.String() + " " + errText(err), nil
				default:
					fw := &failWriter{left: failAt}
					err := w.Write(fw, v)
					return "text=" + fw.buf.String() + " " + errText(err), nil
				}
			}
			return "?", nil
		}}
}

// package-level functions: run on the pooled instances when fresh is false, on explicit fresh
// instances (what the pool's New function builds) when fresh is true
func pooledCall(r *Rng) rcall {
	which := r.Intn(16)
	in := genReuseInput(r)
	v := singleKey(genWriteValue(r)) // the package-level writers do not sort: one member per object
	opt := r.Intn(6)
	names := []string{"oj.Parse", "oj.ParseString", "oj.Load", "oj.Validate", "oj.Tokenize", "oj.JSON", "oj.Marshal", "oj.Write", "sen.Parse", "sen.ParseReader", "sen.String", "sen.Bytes", "sen.Write", "oj.Unmarshal", "oj.MustParse", "sen.MustParse"}
	desc := fmt.Sprintf("%s opt=%d input=%q value=%s", names[which], opt, in, Show(v))
	return rcall{desc: desc, tag: "pooled/" + names[which], run: func(inst any, fresh bool) (out string, ret []any) {
		var docs []string
		defer func() {
			if rec := recover(); rec != nil {
				out = "panic: " + fmt.Sprint(rec) + " docs=" + strings.Join(docs, " ")
			}
		}()
		buf := append([]byte(nil), in...)
		defer func() {
			for i := range buf {
				buf[i] = 'X'
			}
		}()
		var args []any
		switch opt {
		case 1:
			args = append(args, func(x any) { docs = append(docs, Show(x)); ret = append(ret, x) })
		case 2:
			args = append(args, ojg.NumConvFloat64)
		case 3:
			args = append(args, ojg.NumConvString)
		case 4:
			args = append(args, func(x any) {
				docs = append(docs, Show(x))
				if len(docs) == 2 {
					panic("callback abort")
				}
			})
		}
		res := func(x any, err error) (string, []any) {
			if x != nil {
				ret = append(ret, x)
			}
			return "result=" + Show(x) + " " + errText(err) + " docs=" + strings.Join(docs, " "), snapAll(ret)
		}
		switch which {
		case 0:
			if fresh {
				return res((&oj.Parser{}).Parse(buf, args...))
			}
			return res(oj.Parse(buf, args...))
		case 1:
			if fresh {
				return res((&oj.Parser{}).Parse([]byte(string(in)), args...))
			}
			return res(oj.ParseString(string(in), args...))
		case 2:
			if fresh {
				return res((&oj.Parser{}).ParseReader(&chunkReader{data: buf, chunks: []int{3, 1, 7}}, args...))
			}
			return res(oj.Load(&chunkReader{data: buf, chunks: []int{3, 1, 7}}, args...))
		case 3:
			if fresh {
				return errText((&oj.Validator{}).Validate(buf)), nil
			}
			return errText(oj.Validate(buf)), nil
		case 4:
			ev := &evCollector{}
			var err error
			if fresh {
				err = (&oj.Tokenizer{}).Parse(buf, ev)
			} else {
				err = oj.Tokenize(buf, ev)
			}
			return errText(err) + " events=" + strings.Join(ev.sb, " "), nil
		case 5:
			if fresh {
				return "text=" + (&oj.Writer{Options: oj.DefaultOptions}).JSON(v), nil
			}
			return "text=" + oj.JSON(v), nil
		case 6:
			var b []byte
			var err error
			if fresh {
				b, err = oj.Marshal(v, &ojg.GoOptions) // a fresh strict writer with the Go options
			} else {
				b, err = oj.Marshal(v)
			}
			return "text=" + string(b) + " " + errText(err), snapAll([]any{b})
		case 7:
			var b bytes.Buffer
			var err error
			if fresh {
				err = (&oj.Writer{Options: oj.DefaultOptions}).Write(&b, v)
			} else {
				err = oj.Write(&b, v)
			}
			return "text=" + b.String() + " " + errText(err), nil
		case 8:
			if fresh {
				return res((&sen.Parser{}).Parse(buf, args...))
			}
			return res(sen.Parse(buf, args...))
		case 9:
			if fresh {
				return res((&sen.Parser{}).ParseReader(&chunkReader{data: buf, chunks: []int{2, 5}}, args...))
			}
			return res(sen.ParseReader(&chunkReader{data: buf, chunks: []int{2, 5}}, args...))
		case 10:
			if fresh {
				return "text=" + (&sen.Writer{Options: sen.DefaultOptions}).SEN(v), nil
			}
			return "text=" + sen.String(v), nil
		case 11:
			if fresh {
				return "text=" + string((&sen.Writer{Options: sen.DefaultOptions}).MustSEN(v)), nil
			}
			return "text=" + string(sen.Bytes(v)), nil // documented to return the writer's buffer
		case 12:
			var b bytes.Buffer
			var err error
			if fresh {
				err = (&sen.Writer{Options: sen.DefaultOptions}).Write(&b, v)
			} else {
				err = sen.Write(&b, v)
			}
			return "text=" + b.String() + " " + errText(err), nil
		case 13:
			var x any
			err := oj.Unmarshal(buf, &x)
			return res(x, err)
		case 14:
			if fresh {
				x, err := (&oj.Parser{}).Parse(buf, args...)
				if err != nil {
					x = nil // MustParse panics with the error: no value
				}
				return res(x, err)
			}
			var x any
			var err error
			func() {
				defer func() {
					if rec := recover(); rec != nil {
						if e, ok := rec.(error); ok && rec != "callback abort" {
							err = e
						} else {
							panic(rec)
						}
					}
				}()
				x = oj.MustParse(buf, args...)
			}()
			return res(x, err)
		default:
			if fresh {
				x, err := (&sen.Parser{}).Parse(buf, args...)
				if err != nil {
					x = nil
				}
				return res(x, err)
			}
			var x any
			var err error
			func() {
				defer func() {
					if rec := recover(); rec != nil {
						if e, ok := rec.(error); ok {
							err = e
						} else {
							panic(rec)
						}
					}
				}()
				x = sen.MustParse(buf, args...)
			}()
			return res(x, err)
		}
	}}
}

func suiteReuse(tier string, seed uint64, model string) *Report {
	rep := &Report{Property: "C07", Tier: tier, Seed: seed}
	r := NewRng(seed)
	nh := 1500
	if tier == "thorough" {
		nh = 20000
	}
	kinds := []rkind{
		{name: "oj.Parser", cfgs: 2, fresh: func(c int) any { return &oj.Parser{Reuse: c == 1} }, gen: func(r *Rng, c int) rcall { return parserCall(r, "oj.Parser") }, reuse: func(c int) bool { return c == 1 }},
		{name: "gen.Parser", cfgs: 2, fresh: func(c int) any { return &gen.Parser{Reuse: c == 1} }, gen: func(r *Rng, c int) rcall { return parserCall(r, "gen.Parser") }, reuse: func(c int) bool { return c == 1 }},
		{name: "sen.Parser", cfgs: 2, fresh: func(c int) any { return &sen.Parser{Reuse: c == 1} }, gen: func(r *Rng, c int) rcall { return parserCall(r, "sen.Parser") }, reuse: func(c int) bool { return c == 1 }},
		{name: "oj.Validator", cfgs: 2, fresh: func(c int) any { v := &oj.Validator{}; v.OnlyOne = c == 1; return v }, gen: func(r *Rng, c int) rcall { return validatorCall(r) }},
		{name: "oj.Tokenizer", cfgs: 2, fresh: func(c int) any { t := &oj.Tokenizer{}; t.OnlyOne = c == 1; return t }, gen: func(r *Rng, c int) rcall { return tokenizerCall(r) }},
		{name: "sen.Tokenizer", cfgs: 2, fresh: func(c int) any { t := &sen.Tokenizer{}; t.OnlyOne = c == 1; return t }, gen: func(r *Rng, c int) rcall { return tokenizerCall(r) }},
		{name: "oj.Writer", cfgs: 1, fresh: func(c int) any { return &oj.Writer{} }, gen: func(r *Rng, c int) rcall { return writerCall(r, "oj.Writer") }},
		{name: "sen.Writer", cfgs: 1, fresh: func(c int) any { return &sen.Writer{} }, gen: func(r *Rng, c int) rcall { return writerCall(r, "sen.Writer") }},
		{name: "pooled", cfgs: 1, fresh: func(c int) any { return nil }, gen: func(r *Rng, c int) rcall { return pooledCall(r) }},
	}
	distinct := map[string]bool{}
	for h := 0; h < nh; h++ {
		k := kinds[h%len(kinds)]
		cfg := r.Intn(k.cfgs)
		inst := k.fresh(cfg)
		n := 2 + r.Intn(7)
		type past struct {
			desc string
			v    any
			snap string
		}
		var returned []past
		var hist []string
		for i := 0; i < n; i++ {
			c := k.gen(r, cfg)
			hist = append(hist, c.desc)
			got, ret := c.run(inst, false)
			var want string
			if k.name == "pooled" {
				want, _ = c.run(nil, true)
			} else {
				want, _ = c.run(k.fresh(cfg), true)
			}
			rep.Evaluations++
			rep.Count("call:" + c.tag)
			switch {
			case strings.HasPrefix(want, "panic"):
				rep.Count("outcome:panic")
			case strings.Contains(want, "error:"):
				rep.Count("outcome:error")
			default:
				rep.Count("outcome:ok")
			}
			if i > 0 {
				distinct[c.desc] = true
			}
			if got != want {
				rep.Add(Disagreement{Case: strings.Join(hist, "\n"), Where: k.name, Kind: "impl-law:reused-differs-from-fresh", Impl: got, Model: want,
					Detail: fmt.Sprintf("call %d of the history on one instance (cfg %d) differs from the same call on a fresh instance", i+1, cfg)})
			}
			for _, x := range ret {
				rv := x.(retv)
				returned = append(returned, past{c.desc, rv.v, rv.snap})
			}
			// earlier values must be what they were (unless Reuse was requested)
			if k.reuse == nil || !k.reuse(cfg) {
				for _, p := range returned {
					now := ""
					if b, ok := p.v.([]byte); ok {
						now = string(b)
					} else {
						now = Show(p.v)
					}
					if now != p.snap {
						rep.Add(Disagreement{Case: strings.Join(hist, "\n"), Where: k.name, Kind: "impl-law:returned-value-altered", Impl: now, Model: p.snap,
							Detail: "value returned by: " + p.desc})
						returned = nil
						break
					}
				}
			}
		}
		if h%211 == 0 && len(rep.Samples) < 12 {
			rep.Samples = append(rep.Samples, strings.Join(hist, " ;; "))
		}
	}
	rep.Distinct = len(distinct)
	// directed: the arguments handed to a SEN token function are the caller's to keep
	for k := 0; k < 10; k++ {
		rep.Evaluations++
		out := safe(func() string {
			p := &sen.Parser{}
			p.AddTokenFunc("list", func(args ...any) any { return args })
			v1, err := p.Parse([]byte(fmt.Sprintf("list(%d 2 3)", k)))
			if err != nil || Show(v1) != fmt.Sprintf("[i%d i2 i3]", k) {
				return fmt.Sprintf("Parse gives %s %v", Show(v1), err)
			}
			v2, err := p.ParseReader(strings.NewReader(fmt.Sprintf("[list(%d 2 3) 4]", k)))
			snap := Show(v2)
			if err != nil || snap != fmt.Sprintf("[[i%d i2 i3] i4]", k) {
				return fmt.Sprintf("ParseReader gives %s %v", snap, err)
			}
			_, _ = p.ParseReader(strings.NewReader("[a b c d e f g]"))
			_, _ = p.Parse([]byte("[x y z u v w]"))
			if Show(v1) != fmt.Sprintf("[i%d i2 i3]", k) || Show(v2) != snap {
				return "a returned value was altered by later calls: " + Show(v1) + " / " + Show(v2)
			}
			return "ok"
		})
		if out != "ok" {
			rep.Add(Disagreement{Case: "sen.Parser with a token function that keeps its arguments", Where: "sen.Parser", Kind: "impl-law:returned-value-altered", Impl: out, Spec: "the arguments and the results stay as delivered"})
		}
	}
	// directed: a gen.Parser that has run with Reuse still delivers independent documents once a
	// channel turns the recycling off
	for k := 0; k < 5; k++ {
		rep.Evaluations++
		out := safe(func() string {
			p := &gen.Parser{Reuse: true}
			if _, err := p.Parse([]byte(fmt.Sprintf(`{"warm":%d,"x":{"y":1}}`, k))); err != nil {
				return "E " + err.Error()
			}
			ch := make(chan gen.Node, 8)
			if _, err := p.Parse([]byte(`{"id":1} {"id":2} {"id":3,"z":{"a":1}}`), ch); err != nil {
				return "E " + err.Error()
			}
			close(ch)
			var docs []string
			for n := range ch {
				docs = append(docs, Show(n))
			}
			last, err := p.Parse([]byte(`{"id":9}`))
			if err != nil {
				return "E " + err.Error()
			}
			_, _ = p.Parse([]byte(`{"other":true}`))
			return strings.Join(docs, " ") + " | " + Show(last)
		})
		if want := "{k6964 i1} {k6964 i2} {k6964 i3 k7a {k61 i1}} | {k6964 i9}"; out != want {
			rep.Add(Disagreement{Case: "gen.Parser{Reuse:true}: object, then three objects on a channel, then two plain parses", Where: "gen.Parser", Kind: "impl-law:returned-value-altered", Impl: out, Spec: want})
		}
	}
	rep.Rule = "directed: gen.Parser documents on a channel after a Reuse run; arguments of a SEN token function kept by the caller; histories of 2-8 calls on one oj.Parser / gen.Parser / sen.Parser (Reuse on and off), oj.Validator, oj/sen Tokenizer (OnlyOne on and off), oj/sen Writer, and through the pooled package-level functions; inputs: valid, multi-document, >4096 bytes, mutated, and 45 inputs that stop in every scratch state (partial literal, number, string, escape, \\u, surrogate, BOM, SEN '+'); buffer / reader / chunked reader / failing reader; options: callbacks of both signatures, a callback or handler that panics (aborted call), result channel, the three NumConvMethods, an invalid option; writers: 8 option presets switched between calls, string / bytes / io.Writer / failing io.Writer / Marshal with the writer, unencodable values; each call compared with the same call on a fresh instance; every returned value re-inspected after each later call with the input buffers overwritten; non-trivial = calls that are not first in their history"
	return rep
}

// singleKey trims every object to its first member (in key order)
func singleKey(v any) any {
	switch t := v.(type) {
	case []any:
		a := make([]any, len(t))
		for i, e := range t {
			a[i] = singleKey(e)
		}
		return a
	case map[string]any:
		ks := sortedKeys(t)
		if len(ks) == 0 {
			return t
		}
		return map[string]any{ks[0]: singleKey(t[ks[0]])}
	}
	return v
}
