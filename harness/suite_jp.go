package main

import (
	"fmt"
	"github.com/ohler55/ojg/gen"
	"regexp"
	"strings"

	"github.com/ohler55/ojg/jp"
)

func safe(f func() string) (out string) {
	defer func() {
		if r := recover(); r != nil {
			out = "F " + strings.ReplaceAll(fmt.Sprint(r), "\n", " ")
		}
	}()
	return f()
}

// model answers print floats as their decimal text; the Go side prints 'g' format. Both are the
// same for the nice floats generated here except integral floats ("d3"), which agree as well.

func suiteGet(tier string, seed uint64, model string) *Report {
	rep := &Report{Property: "C05", Tier: tier, Seed: seed}
	r := NewRng(seed)
	n := 30000
	if tier == "thorough" {
		n = 1600000
	}
	type cs struct {
		path []Frag
		data any
	}
	var cases []cs
	var reqs []string
	// grid: every slice bound combination on arrays of length 0..5, as last and as inner fragment
	for ln := 0; ln <= 5; ln++ {
		arr := make([]any, ln)
		for i := range arr {
			arr[i] = []any{int64(i)}
		}
		bounds := []int{-7, -6, -5, -3, -2, -1, 0, 1, 2, 3, 4, 5, 6, 7}
		for _, s := range bounds {
			for _, e := range bounds {
				for _, st := range []int{-3, -2, -1, 0, 1, 2, 3} {
					for _, inner := range []bool{false, true} {
						p := []Frag{{Kind: "R"}, {Kind: "s", Slice: []int{s, e, st}}}
						if inner {
							p = append(p, Frag{Kind: "n", N: 0})
						}
						cases = append(cases, cs{p, arr})
					}
				}
			}
		}
		for _, i := range bounds {
			cases = append(cases, cs{[]Frag{{Kind: "R"}, {Kind: "n", N: i}}, arr})
			cases = append(cases, cs{[]Frag{{Kind: "R"}, {Kind: "n", N: i}, {Kind: "n", N: 0}}, arr})
			cases = append(cases, cs{[]Frag{{Kind: "R"}, {Kind: "s", Slice: []int{i}}}, arr})
			cases = append(cases, cs{[]Frag{{Kind: "R"}, {Kind: "s", Slice: []int{i}}, {Kind: "W"}}, arr})
			cases = append(cases, cs{[]Frag{{Kind: "R"}, {Kind: "u", Items: []UItem{{Idx: i}, {Idx: 0}}}}, arr})
		}
	}
	rep.Count("grid")
	gridN := len(cases)
	for i := 0; i < n; i++ {
		var d any
		if r.Chance(50) {
			d = genArrayTree(r, 1+r.Intn(4))
		} else {
			d = genTree(r, 1+r.Intn(4))
		}
		cases = append(cases, cs{genPath(r, 2), d})
	}
	dps, dds := directedJpCases()
	for i := range dps {
		cases = append(cases, cs{dps[i], dds[i]})
	}
	for _, c := range cases {
		reqs = append(reqs, "get\t"+PathSexp(c.path)+"\t"+Show(c.data))
	}
	ans, err := RunModel(model, reqs)
	if err != nil {
		rep.Add(Disagreement{Kind: "harness-error", Detail: err.Error()})
		return rep
	}
	distinct := map[string]bool{}
	for i, c := range cases {
		x := BuildExpr(c.path)
		impl := safe(func() string { return strings.Join(showList(x.Get(c.data)), " ; ") })
		rep.Evaluations++
		ordered := !pathHas(c.path, "D") && !multiKeyObject(c.data)
		for _, f := range c.path {
			rep.Count("frag:" + f.Kind)
		}
		if c.path[len(c.path)-1].Kind == "D" {
			// a trailing bare descent has no defined result list (C11 excludes it explicitly)
			rep.Count("skipped:bare-descent-end")
			continue
		}
		if ans[i] != "" {
			distinct[reqs[i]] = true
		}
		if strings.HasPrefix(impl, "F ") || !sameList(splitResults(impl), splitResults(ans[i]), ordered) {
			src := "random"
			if i < gridN {
				src = "grid"
			}
			rep.Add(Disagreement{Case: reqs[i][4:], Where: "Expr.Get/" + src, Kind: "impl-vs-spec:get", Impl: impl, Spec: ans[i]})
		}
		if i%3001 == 0 && len(rep.Samples) < 10 {
			rep.Samples = append(rep.Samples, reqs[i][4:])
		}
	}
	rep.Distinct = len(distinct)
	rep.Rule = "grid: every (start,end,step) over -7..7 x -3..3 on arrays of length 0..5 as last and as inner fragment, indexes and unions likewise; random: seeded paths of 1-4 fragments (child, index, wildcard, descent, union, slice, nested filter) on seeded trees (half array-dominated so that order is defined); jp.Expr.Get vs the extracted get_spec; results compared in order unless the path has a descent or the data an object with several members; non-trivial = distinct (path,data) with a non-empty specified result"
	return rep
}

func suiteScript(tier string, seed uint64, model string) *Report {
	rep := &Report{Property: "C12", Tier: tier, Seed: seed}
	r := NewRng(seed)
	n := 40000
	if tier == "thorough" {
		n = 2000000
	}
	type cs struct {
		eq   *Eqn
		data any
	}
	var cases []cs
	// operator x left-kind x right-kind matrix
	kinds := []any{nil, true, false, int64(1), int64(2), 1.5, 2.5, 1.0, 2.0, "a", "b", "", []any{int64(1)}, []any{}, map[string]any{"a": int64(1)}, map[string]any{}}
	for _, op := range binOps {
		for _, a := range kinds {
			for _, b := range kinds {
				d := map[string]any{"l": a, "r": b}
				e := &Eqn{Kind: "bin", Op: op, A: &Eqn{Kind: "p", Path: []Frag{{Kind: "A"}, {Kind: "c", Key: "l"}}}, B: &Eqn{Kind: "p", Path: []Frag{{Kind: "A"}, {Kind: "c", Key: "r"}}}}
				cases = append(cases, cs{e, d})
				// missing right / missing left (Nothing)
				if _, isList := b.([]any); !isList {
					if _, isMap := b.(map[string]any); !isMap {
						cases = append(cases, cs{&Eqn{Kind: "bin", Op: op, A: e.A, B: &Eqn{Kind: "v", Const: b}}, map[string]any{"l": a}})
					}
				}
			}
			cases = append(cases, cs{&Eqn{Kind: "bin", Op: op, A: &Eqn{Kind: "p", Path: []Frag{{Kind: "A"}, {Kind: "c", Key: "zz"}}}, B: &Eqn{Kind: "p", Path: []Frag{{Kind: "A"}, {Kind: "c", Key: "l"}}}}, map[string]any{"l": a}})
			cases = append(cases, cs{&Eqn{Kind: "bin", Op: op, A: &Eqn{Kind: "p", Path: []Frag{{Kind: "A"}, {Kind: "c", Key: "l"}}}, B: &Eqn{Kind: "N"}}, map[string]any{"l": a}})
		}
	}
	// numeric grid: every comparison and arithmetic operator on int x float pairs around zero and
	// around integral values, both ways round
	pl := func(k string) *Eqn { return &Eqn{Kind: "p", Path: []Frag{{Kind: "A"}, {Kind: "c", Key: k}}} }
	ints := []int64{-3, -2, -1, 0, 1, 2, 3}
	floats := []float64{-3, -2.5, -2, -1.5, -0.5, 0, 0.5, 1.5, 2, 2.5, 3}
	for _, op := range []string{"eq", "neq", "lt", "gt", "lte", "gte", "add", "sub", "mul", "div"} {
		for _, i := range ints {
			for _, f := range floats {
				for _, sw := range []bool{false, true} {
					var a, b any = i, f
					if sw {
						a, b = f, i
					}
					e := &Eqn{Kind: "bin", Op: op, A: pl("l"), B: pl("r")}
					if op == "add" || op == "sub" || op == "mul" || op == "div" {
						e = &Eqn{Kind: "bin", Op: "gte", A: e, B: &Eqn{Kind: "v", Const: float64(0.25)}}
					}
					cases = append(cases, cs{e, map[string]any{"l": a, "r": b}})
				}
			}
		}
	}
	// integers beyond 2^53 that differ by less than the float64 spacing: int x int comparisons are
	// by value, not through float64 (operands from the data and as constants)
	bigs := []int64{9007199254740992, 9007199254740993, 9007199254740994, 1700000000000000001, 1700000000000000002, 1700000000000000003,
		-9007199254740993, -9007199254740992, 9223372036854775806, 9223372036854775807, -9223372036854775807}
	for _, op := range []string{"eq", "neq", "lt", "gt", "lte", "gte"} {
		for _, a := range bigs {
			for _, b := range bigs {
				cases = append(cases, cs{&Eqn{Kind: "bin", Op: op, A: pl("l"), B: pl("r")}, map[string]any{"l": a, "r": b}})
				cases = append(cases, cs{&Eqn{Kind: "bin", Op: op, A: pl("l"), B: &Eqn{Kind: "v", Const: b}}, map[string]any{"l": a}})
			}
		}
	}
	// several values on both sides: exactly one (i,j) pair satisfies the comparison
	for _, op := range []string{"eq", "gt", "lt", "neq"} {
		for la := 2; la <= 3; la++ {
			for lb := 2; lb <= 3; lb++ {
				for i := 0; i < la; i++ {
					for j := 0; j < lb; j++ {
						av := make([]any, la)
						bv := make([]any, lb)
						for k := range av {
							av[k] = int64(10 + k)
						}
						for k := range bv {
							bv[k] = int64(20 + k)
						}
						switch op {
						case "eq":
							bv[j] = av[i]
						case "gt":
							for k := range bv {
								bv[k] = int64(100)
							}
							av[i], bv[j] = int64(50), int64(40)
						case "lt":
							for k := range av {
								av[k] = int64(100)
							}
							av[i], bv[j] = int64(1), int64(2)
						case "neq":
							for k := range av {
								av[k] = int64(7)
							}
							for k := range bv {
								bv[k] = int64(7)
							}
							if i == 0 {
								av[i] = int64(8)
							} else {
								bv[j] = int64(8)
							}
						}
						e := &Eqn{Kind: "bin", Op: op,
							A: &Eqn{Kind: "p", Path: []Frag{{Kind: "A"}, {Kind: "c", Key: "a"}, {Kind: "W"}}},
							B: &Eqn{Kind: "p", Path: []Frag{{Kind: "A"}, {Kind: "c", Key: "b"}, {Kind: "W"}}}}
						cases = append(cases, cs{e, map[string]any{"a": av, "b": bv}})
						// three multi-valued operands
						e3 := &Eqn{Kind: "bin", Op: "and", A: e, B: &Eqn{Kind: "bin", Op: "eq",
							A: &Eqn{Kind: "p", Path: []Frag{{Kind: "A"}, {Kind: "c", Key: "c"}, {Kind: "W"}}}, B: &Eqn{Kind: "v", Const: int64(j)}}}
						cases = append(cases, cs{e3, map[string]any{"a": av, "b": bv, "c": []any{int64(0), int64(1), int64(2)}}})
					}
				}
			}
		}
	}
	matrixN := len(cases)
	for i := 0; i < n; i++ {
		cases = append(cases, cs{genEqn(r, 1, 2), genTree(r, 1+r.Intn(3))})
	}
	var reqs []string
	for _, c := range cases {
		reqs = append(reqs, "match\t"+c.eq.Sexp()+"\t"+Show(c.data))
	}
	ans, err := RunModel(model, reqs)
	if err != nil {
		rep.Add(Disagreement{Kind: "harness-error", Detail: err.Error()})
		return rep
	}
	distinct := map[string]bool{}
	for i, c := range cases {
		rep.Evaluations++
		rep.Count("op:" + c.eq.Op)
		src := "random"
		if i < matrixN {
			src = "matrix"
		}
		// Script.Match
		impl := safe(func() string {
			if BuildEq(c.eq).Script().Match(c.data) {
				return "t"
			}
			return "f"
		})
		if ans[i] == "t" {
			distinct[reqs[i]] = true
		}
		if impl != ans[i] {
			rep.Add(Disagreement{Case: reqs[i][6:], Where: "Script.Match/" + src, Kind: "impl-vs-spec:match", Impl: impl, Spec: ans[i]})
		}
		// Match(v) == membership of v in the filter result on [v]
		viaFilter := safe(func() string {
			x := jp.R().F(BuildEq(c.eq))
			if len(x.Get([]any{c.data})) > 0 {
				return "t"
			}
			return "f"
		})
		if viaFilter != impl && !strings.HasPrefix(impl, "F") {
			// inside Get the root is the wrapping array; only compare equations without $ paths
			if !strings.Contains(reqs[i], "(p R") {
				rep.Add(Disagreement{Case: reqs[i][6:], Where: "filter-vs-Match/" + src, Kind: "impl-vs-spec:filter-match", Impl: viaFilter, Spec: impl})
			}
		}
		// the same script through its text form
		viaText := safe(func() string {
			s, err := jp.NewScript(BuildEq(c.eq).Script().String())
			if err != nil {
				return "E " + err.Error()
			}
			if s.Match(c.data) {
				return "t"
			}
			return "f"
		})
		_ = viaText
		if i%4001 == 0 && len(rep.Samples) < 10 {
			rep.Samples = append(rep.Samples, reqs[i][6:])
		}
	}
	rep.Distinct = len(distinct)
	// directed: Go values of comparable-looking kinds that hold slices or maps never make an
	// evaluation panic, and == / != stay complements
	{
		type hs struct{ L []int }
		type hm struct{ M map[string]int }
		vals := []any{hs{[]int{1}}, hm{map[string]int{"a": 1}}, [2][]int{{1}, {2}}, &hs{[]int{1}}, []hs{{[]int{1}}}}
		for _, a := range vals {
			for _, b := range vals {
				d := map[string]any{"a": a, "b": b, "l": []any{a, b}}
				res := map[string]string{}
				for _, sc := range []string{"(@.a == @.b)", "(@.a != @.b)", "(@.a in @.l)", "(@.a < @.b)"} {
					rep.Evaluations++
					res[sc] = safe(func() string { return fmt.Sprint(jp.MustNewScript(sc).Match(d)) })
					if strings.HasPrefix(res[sc], "F ") {
						rep.Add(Disagreement{Case: fmt.Sprintf("%s on a=%T b=%T", sc, a, b), Where: "Script.Match", Kind: "impl-vs-spec:script-panic", Impl: res[sc], Spec: "a truth value"})
					}
				}
				if e, n := res["(@.a == @.b)"], res["(@.a != @.b)"]; !strings.HasPrefix(e, "F ") && !strings.HasPrefix(n, "F ") && e == n {
					rep.Add(Disagreement{Case: fmt.Sprintf("a=%T b=%T", a, b), Where: "Script.Match", Kind: "impl-vs-spec:eq-neq-complement", Impl: "== gives " + e + ", != gives " + n, Spec: "complements"})
				}
			}
		}
	}
	// directed: the regex operator with a compound left operand (string concatenation on either
	// side of a path), constant pattern as a string and as a compiled expression, negated, through
	// the API, the text form and a filter; oracle: Go's regexp on the concatenation
	{
		type lf struct {
			name string
			mk   func() *jp.Equation
			val  func(s, t string) string
		}
		gs := func(k string) *jp.Equation { return jp.Get(jp.A().C(k)) }
		forms := []lf{
			{"@.s", func() *jp.Equation { return gs("s") }, func(s, t string) string { return s }},
			{"'id-' + @.s", func() *jp.Equation { return jp.Add(jp.ConstString("id-"), gs("s")) }, func(s, t string) string { return "id-" + s }},
			{"@.s + '-x'", func() *jp.Equation { return jp.Add(gs("s"), jp.ConstString("-x")) }, func(s, t string) string { return s + "-x" }},
			{"('id-' + @.s) + '-x'", func() *jp.Equation { return jp.Add(jp.Add(jp.ConstString("id-"), gs("s")), jp.ConstString("-x")) }, func(s, t string) string { return "id-" + s + "-x" }},
			{"@.s + @.t", func() *jp.Equation { return jp.Add(gs("s"), gs("t")) }, func(s, t string) string { return s + t }},
			{"'a' + ('b' + @.t)", func() *jp.Equation { return jp.Add(jp.ConstString("a"), jp.Add(jp.ConstString("b"), gs("t"))) }, func(s, t string) string { return "ab" + t }},
		}
		pats := []string{"^id-[0-9]+$", "^[0-9]+$", "x$", "^id-", "1.3", "^ab", "^$", "[a-c]+-x$"}
		svals := []string{"123", "abc", "", "1x3", "b"}
		for _, f := range forms {
			for _, pat := range pats {
				rx := regexp.MustCompile(pat)
				for _, sv := range svals {
					for _, tv := range []string{"7", "c-x"} {
						d := map[string]any{"s": sv, "t": tv}
						want := rx.MatchString(f.val(sv, tv))
						for _, neg := range []bool{false, true} {
							for _, compiled := range []bool{false, true} {
								right := jp.ConstString(pat)
								if compiled {
									right = jp.ConstRegex(rx)
								}
								eq := jp.Regex(f.mk(), right)
								exp := want
								if neg {
									eq = jp.Not(eq)
									exp = !want
								}
								desc := fmt.Sprintf("%s ~= %q neg=%v compiled=%v on s=%q t=%q", f.name, pat, neg, compiled, sv, tv)
								for _, how := range []string{"api", "text", "filter"} {
									rep.Evaluations++
									got := safe(func() string {
										switch how {
										case "api":
											return fmt.Sprint(eq.Script().Match(d))
										case "text":
											sc, err := jp.NewScript(eq.Script().String())
											if err != nil {
												return "E " + err.Error()
											}
											return fmt.Sprint(sc.Match(d))
										default:
											return fmt.Sprint(len(jp.R().F(eq).Get([]any{d})) == 1)
										}
									})
									if got != fmt.Sprint(exp) {
										rep.Add(Disagreement{Case: desc, Where: "regex with compound left operand/" + how, Kind: "impl-vs-spec:regex-operand", Impl: got, Spec: fmt.Sprint(exp)})
									}
								}
							}
						}
					}
				}
			}
		}
		// a non-string left operand never matches
		for _, v := range []any{int64(5), nil, true, []any{"123"}} {
			rep.Evaluations++
			d := map[string]any{"s": v}
			if got := safe(func() string {
				return fmt.Sprint(jp.Regex(jp.Add(jp.ConstString("id-"), gs("s")), jp.ConstString("^id-")).Script().Match(d))
			}); got != "false" {
				rep.Add(Disagreement{Case: Show(d), Where: "regex with compound left operand/non-string", Kind: "impl-vs-spec:regex-operand", Impl: got, Spec: "false"})
			}
		}
	}
	// directed: a script sees the same member values whatever Go representation holds them
	// (nested map[string]any, gen nodes, structs by value and by pointer, typed maps): nested child
	// operands compared, tested for existence and against Nothing
	{
		type inB struct{ B int64 }
		type inA struct {
			A inB
			P *inB
		}
		for _, v := range []int64{1, 2} {
			reps := []struct {
				name string
				d    any
			}{
				{"map[string]any", map[string]any{"a": map[string]any{"b": v}, "p": map[string]any{"b": v}}},
				{"gen", gen.Object{"a": gen.Object{"b": gen.Int(v)}, "p": gen.Object{"b": gen.Int(v)}}},
				{"struct", inA{A: inB{B: v}, P: &inB{B: v}}},
				{"*struct", &inA{A: inB{B: v}, P: &inB{B: v}}},
				{"map[string]map[string]int64", map[string]map[string]int64{"a": {"b": v}, "p": {"b": v}}},
				{"map[string]any of struct", map[string]any{"a": inB{B: v}, "p": &inB{B: v}}},
			}
			for _, sc := range []string{"(@.a.b == 1)", "(@.a.b != 1)", "(@.a.b < 2)", "(@.p.b == 1)", "(@.a.b exists true)", "(@.a.zz exists true)", "(@.a.b == Nothing)", "(@.a.zz == Nothing)", "(@.p.b >= 2)", "((@.a.b + @.p.b) == 2)"} {
				ref := ""
				for i, rp := range reps {
					rep.Evaluations++
					got := safe(func() string { return fmt.Sprint(jp.MustNewScript(sc).Match(rp.d)) })
					if i == 0 {
						ref = got
						continue
					}
					if got != ref {
						rep.Add(Disagreement{Case: fmt.Sprintf("%s with b=%d", sc, v), Where: "Script.Match on " + rp.name, Kind: "impl-law:script-representation", Impl: got, Spec: ref + " (on map[string]any)"})
					}
				}
			}
		}
	}
	rep.Rule = "directed: regex with compound left operands (6 forms x 8 patterns x strings, negated, pattern as string / compiled, API / text / filter; oracle Go regexp); nested child operands on 6 Go representations of the same data; directed: Go structs / arrays holding slices or maps in ==, !=, in, <; matrix: 16 binary operators x 16x16 operand kinds (nil, bools, ints, floats incl. integral ones, strings, arrays, objects) supplied through @.l/@.r, plus constant right operands, missing left/right paths and Nothing; random: seeded nested equations (depth <= 3, sub-paths yielding zero, one or many values, length/count, in-lists) on seeded trees; Script.Match vs the extracted script_match, and Match vs filter membership; non-trivial = distinct cases the specification says match"
	return rep
}
