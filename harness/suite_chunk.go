package main

import (
	"fmt"
	"sort"
	"strconv"
	"strings"

	"github.com/ohler55/ojg/sen"
)

// eventsToTree folds tokenizer events (text form) into the canonical value text a Builder
// would produce (objects: last duplicate wins, keys sorted).
func eventsToTree(evs []string) (docs []string, ok bool) {
	type frame struct {
		obj  bool
		keys []string
		vals map[string]string
		arr  []string
		key  string
	}
	var st []*frame
	add := func(v string) {
		if len(st) == 0 {
			docs = append(docs, v)
			return
		}
		f := st[len(st)-1]
		if f.obj {
			if _, dup := f.vals[f.key]; !dup {
				f.keys = append(f.keys, f.key)
			}
			f.vals[f.key] = v
		} else {
			f.arr = append(f.arr, v)
		}
	}
	for _, e := range evs {
		switch {
		case e == "{":
			st = append(st, &frame{obj: true, vals: map[string]string{}})
		case e == "[":
			st = append(st, &frame{})
		case e == "}" || e == "]":
			if len(st) == 0 {
				return nil, false
			}
			f := st[len(st)-1]
			st = st[:len(st)-1]
			if f.obj {
				sort.Slice(f.keys, func(i, j int) bool { return hexLess(f.keys[i], f.keys[j]) })
				parts := make([]string, 0, len(f.keys))
				for _, k := range f.keys {
					parts = append(parts, k+" "+f.vals[k])
				}
				add("{" + strings.Join(parts, " ") + "}")
			} else {
				add("[" + strings.Join(f.arr, " ") + "]")
			}
		case strings.HasPrefix(e, "k"):
			if len(st) == 0 {
				return nil, false
			}
			st[len(st)-1].key = e
		default:
			add(e)
		}
	}
	return docs, len(st) == 0
}

func hexLess(a, b string) bool { return a < b } // hex of bytes preserves byte order (fixed width per byte)

// numeric normalisation for cross-front-end comparison "by value": a float that is an exact
// integer below 2^53 and an int of the same value are the same number.
func normNums(s string) string {
	toks := strings.Split(s, " ")
	for i, tk := range toks {
		p, c, q := splitDeco(tk)
		if len(c) > 1 && c[0] == 'b' && plainInt(c[1:]) { // an integer kept as text denotes that integer
			toks[i] = p + "i" + strings.TrimLeft(strings.TrimPrefix(c[1:], "+"), "") + q
			continue
		}
		if len(c) > 1 && c[0] == 'd' {
			if f, err := strconv.ParseFloat(c[1:], 64); err == nil && f == float64(int64(f)) && f > -9e15 && f < 9e15 {
				toks[i] = p + "i" + strconv.FormatInt(int64(f), 10) + q
			}
		}
	}
	return strings.Join(toks, " ")
}

// the value part of an outcome, as one tree text per document
func outcomeDocs(fe int, out string) (string, bool) {
	if !accepted(out) {
		return "", false
	}
	parts := strings.SplitN(strings.TrimPrefix(out, "O "), " | ", 2)
	if len(parts) != 2 {
		parts = strings.SplitN(strings.TrimPrefix(out, "O "), "| ", 2)
	}
	if fe%4 == feTokenizer {
		evs := strings.Fields(strings.TrimSpace(out[strings.Index(out, "|")+1:]))
		docs, ok := eventsToTree(evs)
		if !ok {
			return "!unbalanced", true
		}
		return normNums(strings.Join(docs, " ")), true
	}
	return normNums(strings.TrimSpace(out[2:strings.Index(out, "|")])), true
}

// onlyTopDecadeDiff: a and b differ only in number tokens where one side has b<digits> and the
// other i<digits> for the same digits in 9223372036854775800..807 (the recorded C02/C03 class).
func onlyTopDecadeDiff(a, b string) bool {
	at, bt := strings.Split(a, " "), strings.Split(b, " ")
	if len(at) != len(bt) {
		return false
	}
	found := false
	for i := range at {
		if at[i] == bt[i] {
			continue
		}
		p1, c1, q1 := splitDeco(at[i])
		p2, c2, q2 := splitDeco(bt[i])
		if p1 != p2 || q1 != q2 || len(c1) < 2 || len(c2) < 2 {
			return false
		}
		// one side is the text form whose integer part is a 19-digit non-negative number in the
		// top decade (the scan-ahead loop switched to text), the other denotes the same number
		big, other := c1, c2
		if big[0] != 'b' {
			big, other = c2, c1
		}
		if big[0] != 'b' || other[0] == 'b' {
			return false
		}
		ip := big[1:]
		if k := strings.IndexAny(ip, ".eE"); k >= 0 {
			ip = ip[:k]
		}
		if len(ip) != 19 || !strings.HasPrefix(ip, "922337203685477580") {
			return false
		}
		if why := numOK(big[1:], other); why != "" && !strings.HasPrefix(why, "KNOWN:") {
			return false
		}
		found = true
	}
	return found
}

func chunkingsFor(r *Rng, n int, tier string) [][]int {
	var out [][]int
	out = append(out, []int{}) // one piece (reader path, eof after data)
	ones := make([]int, n)
	for i := range ones {
		ones[i] = 1
	}
	out = append(out, ones)
	twos := make([]int, (n+1)/2)
	for i := range twos {
		twos[i] = 2
	}
	out = append(out, twos)
	limit := 24
	if tier == "thorough" {
		limit = 64
	}
	if n <= limit {
		for k := 1; k < n; k++ {
			out = append(out, []int{k})
		}
	} else {
		for j := 0; j < 6; j++ {
			out = append(out, []int{1 + r.Intn(n-1)})
		}
	}
	if n > 2 { // reads that deliver nothing (0, nil) in the middle of the input
		out = append(out, []int{1 + r.Intn(n-1), 0, 0, 1})
	}
	for j := 0; j < 3; j++ {
		var c []int
		left := n
		for left > 0 {
			k := 1 + r.Intn(7)
			c = append(c, k)
			left -= k
		}
		out = append(out, c)
	}
	return out
}

func splitBy(in []byte, chunks []int) []string {
	var out []string
	rest := in
	for _, k := range chunks {
		if len(rest) == 0 {
			break
		}
		if k > len(rest) {
			k = len(rest)
		}
		out = append(out, hx(rest[:k]))
		rest = rest[k:]
	}
	for len(rest) > 0 { // the remainder arrives in 4096-byte reads
		k := len(rest)
		if k > 4096 {
			k = 4096
		}
		out = append(out, hx(rest[:k]))
		rest = rest[k:]
	}
	return out
}

func runSen(input []byte) (out string) {
	defer func() {
		if r := recover(); r != nil {
			out = "F " + fmt.Sprint(r)
		}
	}()
	v, err := sen.Parse(append([]byte(nil), input...))
	if err != nil {
		return "E"
	}
	return "O " + Show(v) + " | "
}

// suiteChunk: [only] restricts what is reported: "" = everything (C03), "position" = chunked runs
// where implementation and model both reject but at different positions, or the reader rejects
// at another position than the []byte entry point (C09), "fault" = panics (C06).
func suiteChunk(prop, only, tier string, seed uint64, model string) *Report {
	rep := &Report{Property: prop, Tier: tier, Seed: seed}
	r := NewRng(seed)
	var inputs [][]byte
	seen := map[string]bool{}
	add := func(b []byte) {
		if !seen[string(b)] {
			seen[string(b)] = true
			inputs = append(inputs, append([]byte(nil), b...))
		}
	}
	for _, b := range loadCorpus("/verif/corpus/json") {
		add(b)
	}
	// malformed numbers cut at every byte: a read that ends right after the decimal point, the
	// exponent letter or a sign must not change the verdict
	for _, s := range []string{"[123.]", "{\"a\":4567.}", "[10., 2]", "[77.e3]", "[12.e]", "-12.", "123.", "[1.]", "[100e]", "[100e+]", "[25.5e-]", "[-]", "[-.5]", "[00]", "[01.5]", "[1.5.5]", "[12a]", "{\"n\":12.,\"m\":1}", "[123.,4]", "[12345678901234567890.]", "[0.]", "[-0.]", "[1e5.]"} {
		add([]byte(s))
	}
	nDocs, grid := 700, 6
	if tier == "thorough" {
		nDocs, grid = 2200, 12 // every job is held in memory together with its model answer: 9000 documents need more than 12 GB
	}
	n := 0
	gridNumbers(grid, func(s string) {
		n++
		if n%7 == 0 || len(s) > 17 {
			add([]byte(s))
		}
	})
	for i := 0; i < nDocs; i++ {
		d := genDoc(r)
		if len(d) > 160 {
			continue
		}
		add(d)
		if r.Chance(40) {
			add(mutate(r, d))
		}
		if r.Chance(25) { // several documents
			add(append(append(d, ' '), genDoc(r)...))
		}
	}
	// a byte order mark in front (skipped only when the first read has more than 3 bytes) and
	// U+FEFF inside strings (never to be skipped)
	for i, in := range append([][]byte(nil), inputs...) {
		if i%9 == 0 && len(in) > 0 && len(in) < 60 {
			add(append([]byte("\xef\xbb\xbf"), in...))
		}
	}
	add([]byte("[\"a\xef\xbb\xbfb\",\"\xef\xbb\xbf\"]"))
	add([]byte("{\"\xef\xbb\xbfk\":\"v\xef\xbb\xbf\"}"))
	add([]byte("\xef\xbb\xbf[1,\n 2,\n x]"))
	add([]byte("\xef\xbb\xbf{\"a\":tru }"))
	type job struct {
		in     []byte
		fe     int
		chunks []int
		whole  string
	}
	var jobs []job
	var reqs []string
	fes := []int{feParser, feValidator, feTokenizer, feGen, feParserMulti, feTokenizerMulti, feGenMulti}
	wholeCache := map[string]string{}
	for _, in := range inputs {
		cks := chunkingsFor(r, len(in), tier)
		for _, fe := range fes {
			key := fmt.Sprint(fe) + string(in)
			if _, ok := wholeCache[key]; !ok {
				wholeCache[key] = RunFE(fe, in, nil, false)
			}
			for _, ck := range cks {
				jobs = append(jobs, job{in, fe, ck, wholeCache[key]})
				reqs = append(reqs, fmt.Sprintf("chunks %d %s", fe, strings.Join(splitBy(in, ck), ",")))
			}
		}
	}
	// refill-boundary straddles: short documents placed so that the 4096-byte boundary falls at
	// every offset inside them
	nStraddle := 12
	if tier == "thorough" {
		nStraddle = 120
	}
	cnt := 0
	for _, in := range inputs {
		if len(in) < 4 || len(in) > 40 || cnt >= nStraddle {
			continue
		}
		cnt++
		for o := 0; o <= len(in); o++ {
			padded := append([]byte(strings.Repeat(" ", 4096-o)), in...)
			for _, fe := range []int{feParser, feTokenizer, feGen, feValidator} {
				jobs = append(jobs, job{padded, fe, []int{}, RunFE(fe, padded, nil, false)})
				reqs = append(reqs, fmt.Sprintf("chunks %d %s", fe, strings.Join(splitBy(padded, nil), ",")))
			}
		}
	}
	ans, err := RunModel(model, reqs)
	if err != nil {
		rep.Add(Disagreement{Kind: "harness-error", Detail: err.Error()})
		return rep
	}
	for i, j := range jobs {
		impl := RunFE(j.fe, j.in, j.chunks, true)
		mod := NormModel(j.fe, ans[i])
		rep.Evaluations++
		rep.Count(fmt.Sprintf("chunking:%s", chunkKind(j.chunks, len(j.in))))
		desc := fmt.Sprintf("%s chunks=%v", hx(j.in), j.chunks)
		if len(j.in) > 4000 {
			desc = fmt.Sprintf("pad%d+%s natural-reads", strings.Count(string(j.in[:4096]), " "), hx([]byte(strings.TrimLeft(string(j.in), " "))))
		}
		if only == "position" {
			if impl != mod && strings.HasPrefix(impl, "E") && strings.HasPrefix(mod, "E") {
				rep.Add(Disagreement{Case: desc, Where: feNames[j.fe], Kind: "impl-vs-model:position-chunked", Impl: impl, Model: mod})
			}
			if impl != j.whole && strings.HasPrefix(impl, "E") && strings.HasPrefix(j.whole, "E") {
				class := ""
				if strings.HasPrefix(string(j.in), "\xef\xbb\xbf") && len(j.chunks) > 0 && j.chunks[0] <= 3 && impl == mod && impl == "E 1 1" {
					// the recorded reader behaviour (C03): a BOM is looked for only in a first read of more
					// than 3 bytes; the unskipped BOM is then rejected at 1:1
					class = "bom-short-first-read"
				}
				rep.Add(Disagreement{Case: desc, Where: feNames[j.fe], Kind: "impl-vs-spec:position-chunked", Impl: impl, Spec: j.whole, Class: class})
			}
			continue
		}
		if only == "fault" {
			if strings.HasPrefix(impl, "F") {
				rep.Add(Disagreement{Case: desc, Where: feNames[j.fe], Kind: "impl-vs-spec:fault", Impl: impl, Model: mod})
			}
			continue
		}
		if impl != mod {
			rep.Add(Disagreement{Case: desc, Where: feNames[j.fe], Kind: "impl-vs-model:chunked", Impl: impl, Model: mod})
		}
		// the property itself: same outcome as the []byte entry point
		a, aok := outcomeDocs(j.fe, impl)
		b, bok := outcomeDocs(j.fe, j.whole)
		if aok != bok || (aok && a != b) {
			class := ""
			if aok && bok && onlyTopDecadeDiff(a, b) {
				class = "int64-top-decade"
			} else if strings.HasPrefix(string(j.in), "\xef\xbb\xbf") && len(j.chunks) > 0 && j.chunks[0] <= 3 {
				class = "bom-short-first-read"
			}
			rep.Add(Disagreement{Case: desc, Where: feNames[j.fe], Kind: "impl-vs-spec:chunking", Impl: impl, Spec: j.whole, Class: class})
		}
		if i%1999 == 0 && len(rep.Samples) < 10 {
			rep.Samples = append(rep.Samples, desc)
		}
	}
	// cross front-end agreement on whole buffers (values by number value)
	for _, in := range inputs {
		if only != "" {
			break
		}
		p := RunFE(feParser, in, nil, false)
		pd, pok := outcomeDocs(feParser, p)
		for _, fe := range []int{feTokenizer, feGen} {
			o := RunFE(fe, in, nil, false)
			od, ook := outcomeDocs(fe, o)
			rep.Evaluations++
			if pok != ook || (pok && pd != od && !(pd == "n" && od == "")) {
				rep.Add(Disagreement{Case: hx(in), Where: feNames[fe] + " vs oj.Parser", Kind: "impl-vs-spec:frontends", Impl: o, Spec: p})
			}
		}
		v := RunFE(feValidator, in, nil, false)
		if accepted(v) != pok {
			rep.Add(Disagreement{Case: hx(in), Where: "oj.Validator vs oj.Parser", Kind: "impl-vs-spec:frontends", Impl: v, Spec: p})
		}
		if pok { // strict JSON input through the SEN parser
			s := runSen(in)
			sd, sok := outcomeDocs(feParser, s)
			rep.Evaluations++
			if !sok || sd != pd {
				class := ""
				if sok && onlyTopDecadeDiff(sd, pd) {
					class = "int64-top-decade"
				}
				rep.Add(Disagreement{Case: hx(in), Where: "sen.Parse vs oj.Parser", Kind: "impl-vs-spec:frontends", Impl: s, Spec: p, Class: class})
			}
		}
	}
	rep.Distinct = len(inputs)
	rep.Rule = "corpus + number grid + seeded documents/mutations/multi-document texts (<=160 bytes); each under: one piece through the reader, 1-byte reads, 2-byte reads, every single split point (short inputs) or 6 random ones, 3 random multi-splits, and short documents padded so that the 4096-byte refill boundary falls at every offset inside them; compared with the model's run_chunks on the same chunking, with the []byte entry point, and across front-ends (Tokenizer rebuilt, gen, Validator, sen.Parse on accepted JSON)"
	return rep
}

func chunkKind(c []int, n int) string {
	switch {
	case len(c) == 0:
		return "whole-via-reader"
	case len(c) == 1:
		return "single-split"
	case len(c) == n:
		return "1-byte"
	case c[0] == 2 && len(c) == (n+1)/2:
		return "2-byte"
	}
	return "random"
}
