package main

import (
	"bytes"
	"fmt"
	"strings"
	"unicode/utf8"

	"github.com/ohler55/ojg"
	"github.com/ohler55/ojg/oj"
	"github.com/ohler55/ojg/pretty"
)

var wstrPieces = []string{"a", "b", "xyz", " ", "\"", "\\", "/", "\b", "\f", "\n", "\r", "\t", "\x00", "\x1f", "\x7f",
	"<", ">", "&", "é", "€", "😀", " ", " ", "�", "\x80", "\xff", "\xc3", "\xe2\x82", "\xf0\x9f\x98", "\xed\xa0\x80", "{", "}", ",", ":"}

func genWString(r *Rng) string {
	n := r.Intn(4)
	if r.Chance(4) {
		n = 30 + r.Intn(40)
	}
	var sb strings.Builder
	for i := 0; i < n; i++ {
		sb.WriteString(r.Pick(wstrPieces))
	}
	return sb.String()
}

var awkwardFloats = []float64{1e21, 1e-7, 5e-324, 1.7976931348623157e308, 0.1, -0.0, 123456789.125, 1e20, 2.5e-5, 100, 1e6}

func genWScalar(r *Rng) any {
	switch r.Intn(10) {
	case 0:
		return nil
	case 1:
		return r.Bool()
	case 2:
		return int64(r.Intn(2001) - 1000)
	case 3:
		return r.PickInt64()
	case 4:
		return niceFloat(r)
	case 5:
		return awkwardFloats[r.Intn(len(awkwardFloats))]
	case 6:
		return ""
	default:
		return genWString(r)
	}
}

func (r *Rng) PickInt64() int64 {
	v := []int64{0, -1, 9223372036854775807, -9223372036854775808, 9007199254740993, 4294967296, -4294967297}
	return v[r.Intn(len(v))]
}

func genWTree(r *Rng, depth int) any {
	k := r.Intn(10)
	if depth <= 0 || k < 4 {
		return genWScalar(r)
	}
	if k < 7 {
		n := r.Intn(5)
		a := make([]any, n)
		for i := range a {
			a[i] = genWTree(r, depth-1)
		}
		return a
	}
	n := r.Intn(5)
	m := map[string]any{}
	for i := 0; i < n; i++ {
		key := genWString(r)
		if !utf8.ValidString(key) {
			// two different invalid keys may be sanitized to the same text; keep them apart
			key += fmt.Sprintf("#%d", i)
		}
		if r.Chance(50) {
			key = jpKeys[r.Intn(len(jpKeys))]
		}
		m[key] = genWTree(r, depth-1)
	}
	return m
}

func deepDepth(n int) any {
	var v any = int64(1)
	for i := 0; i < n; i++ {
		if i%2 == 0 {
			v = []any{v}
		} else {
			v = map[string]any{"k": v}
		}
	}
	return v
}

// stripTrailingCommas removes, outside of strings, each comma that is followed only by spaces and a
// close brace
func stripTrailingCommas(s string) string {
	out := make([]byte, 0, len(s))
	inStr := false
	for i := 0; i < len(s); i++ {
		b := s[i]
		if inStr {
			out = append(out, b)
			if b == '\\' && i+1 < len(s) {
				i++
				out = append(out, s[i])
			} else if b == '"' {
				inStr = false
			}
			continue
		}
		if b == '"' {
			inStr = true
		}
		if b == ',' {
			j := i + 1
			for j < len(s) && s[j] == ' ' {
				j++
			}
			if j < len(s) && s[j] == '}' {
				continue
			}
		}
		out = append(out, b)
	}
	return string(out)
}

type chunkWriter struct {
	bytes.Buffer
	calls int
}

func (c *chunkWriter) Write(p []byte) (int, error) { c.calls++; return c.Buffer.Write(p) }

// keysNotAscending returns the first pair of adjacent member keys of one object that is not in
// ascending byte order in the JSON text, or "".
type keyOrder struct {
	stack [][]string
	bad   string
	enc   func(string) string
}

func keysValidUTF8(v any) bool {
	switch t := v.(type) {
	case []any:
		for _, e := range t {
			if !keysValidUTF8(e) {
				return false
			}
		}
	case map[string]any:
		for k, e := range t {
			if !utf8.ValidString(k) || !keysValidUTF8(e) {
				return false
			}
		}
	}
	return true
}

func (k *keyOrder) Null()         {}
func (k *keyOrder) Bool(bool)     {}
func (k *keyOrder) Int(int64)     {}
func (k *keyOrder) Float(float64) {}
func (k *keyOrder) Number(string) {}
func (k *keyOrder) String(string) {}
func (k *keyOrder) ArrayStart()   {}
func (k *keyOrder) ArrayEnd()     {}
func (k *keyOrder) ObjectStart()  { k.stack = append(k.stack, nil) }
func (k *keyOrder) ObjectEnd()    { k.stack = k.stack[:len(k.stack)-1] }
func (k *keyOrder) Key(key string) {
	top := &k.stack[len(k.stack)-1]
	if k.enc != nil {
		key = k.enc(key)
	}
	if n := len(*top); n > 0 && k.bad == "" && !((*top)[n-1] < key) {
		k.bad = fmt.Sprintf("%q before %q", (*top)[n-1], key)
	}
	*top = append(*top, key)
}

func keysNotAscending(text string, enc func(string) string) string {
	k := keyOrder{enc: enc}
	if err := oj.TokenizeString(text, &k); err != nil {
		return ""
	}
	return k.bad
}

func suiteWrite(tier string, seed uint64, model string) *Report {
	rep := &Report{Property: "C04", Tier: tier, Seed: seed}
	r := NewRng(seed)
	n := 2500
	if tier == "thorough" {
		n = 40000
	}
	type cs struct {
		tree   any
		indent int
		mask   int
		limit  int
	}
	var cases []cs
	// every option combination on a few small trees
	small := []any{
		map[string]any{"a": nil, "b": "", "c": []any{}, "d": map[string]any{}, "e": int64(1), "<": "x&"},
		[]any{map[string]any{"z": []any{int64(1), "s"}, "a": map[string]any{"n": nil}}, " ", 2.5},
		[]any{}, map[string]any{}, "plain", nil, int64(-5), deepDepth(40), deepDepth(140),
	}
	for ti, t := range small {
		for mask := 0; mask < 32; mask++ {
			for _, ind := range []int{0, 1, 2, 8, 200} {
				for _, lim := range []int{-1, 1, 7, 64} {
					if ti >= len(small)-2 && (mask&^3 != 0 || ind == 8 || (ind == 200 && lim != -1)) {
						continue // the deep trees: indentation clamping matters, the omit/html bits do not
					}
					cases = append(cases, cs{t, ind, mask, lim})
				}
			}
		}
	}
	// keys whose raw order differs from the order of their quoted / escaped forms
	oddKeys := map[string]any{"name": int64(1), "name 2": int64(2), "name!": int64(3), "a\"b": int64(4), "a": int64(5), "a\x01": int64(6), "<": int64(7), "\u00e9": int64(8), "a\\": int64(9), "Z": int64(10)}
	// strings longer than the 4096-byte pieces a streaming writer may cut them into, with multi-byte
	// characters lying across every multiple of 4096
	long1 := strings.Repeat("a", 4095) + "\u00e9\u00e9" + strings.Repeat("b", 4093) + "\u20ac\u20ac" + strings.Repeat("c", 4090) + "\U0001F600\U0001F600"
	long2 := strings.Repeat("\u20ac", 3000)
	// rows of an aligned table whose columns hold different kinds (a map in one row, an array, a
	// scalar or nothing in another): pretty's align must not lose members
	mixed := []any{
		[]any{[]any{map[string]any{"a": int64(1)}}, []any{[]any{map[string]any{"x": int64(1), "y": int64(2)}}}},
		[]any{[]any{map[string]any{"a": map[string]any{"b": false}}}, []any{[]any{map[string]any{}, false, map[string]any{"x": int64(1), "y": int64(2)}, []any{int64(-1), "s"}}, 3.5}},
		[]any{map[string]any{"k": []any{int64(1), int64(2)}}, map[string]any{"k": map[string]any{"x": int64(1), "y": int64(2)}}},
		[]any{map[string]any{"k": map[string]any{"p": int64(1)}}, map[string]any{"k": []any{map[string]any{"x": int64(1)}, int64(2)}}, map[string]any{"k": "s"}},
		[]any{[]any{int64(1), []any{int64(2)}}, []any{map[string]any{"x": int64(1)}, map[string]any{"y": []any{int64(3)}}}},
	}
	for _, t := range mixed {
		for _, mask := range []int{0, 2, 8} {
			cases = append(cases, cs{t, 0, mask, -1})
		}
	}
	for _, t := range []any{oddKeys, []any{oddKeys, map[string]any{"o": oddKeys}}} {
		for _, mask := range []int{0, 2, 16, 18} {
			for _, ind := range []int{0, 2} {
				for _, lim := range []int{-1, 64} {
					cases = append(cases, cs{t, ind, mask, lim})
				}
			}
		}
	}
	for _, t := range []any{[]any{long1}, map[string]any{"k": long1, long2[:300]: long2}} {
		for _, mask := range []int{2, 18} {
			cases = append(cases, cs{t, 0, mask, 1}, cs{t, 2, mask, 64}) // limit >= 0: the pretty grid is skipped for most of these
		}
	}
	for i := 0; i < n; i++ {
		c := cs{tree: genWTree(r, 1+r.Intn(4)), indent: []int{0, 0, 1, 2, 4, 8}[r.Intn(6)], mask: r.Intn(32), limit: -1}
		if r.Chance(50) {
			c.limit = 1 + r.Intn(64)
		}
		cases = append(cases, c)
	}
	var reqs []string
	for _, c := range cases {
		reqs = append(reqs, fmt.Sprintf("write\t%d\t%d\t%d\t%s", c.indent, c.mask, c.limit, Show(c.tree)))
	}
	ans, err := RunModel(model, reqs)
	if err != nil {
		rep.Add(Disagreement{Kind: "harness-error", Detail: err.Error()})
		return rep
	}
	distinct := map[string]bool{}
	for i, c := range cases {
		parts := strings.SplitN(ans[i], " ", 3)
		if len(parts) < 3 {
			rep.Add(Disagreement{Case: reqs[i], Kind: "harness-error", Detail: ans[i]})
			continue
		}
		modelHex, modelOK, expected := parts[0], parts[1], parts[2]
		opts := &ojg.Options{Indent: c.indent, Tab: c.mask&1 != 0, Sort: c.mask&2 != 0, OmitNil: c.mask&4 != 0,
			OmitEmpty: c.mask&8 != 0, HTMLUnsafe: c.mask&16 == 0, WriteLimit: c.limit}
		if c.limit < 0 {
			opts.WriteLimit = 0
		}
		desc := reqs[i][6:]
		rep.Evaluations++
		rep.Count(fmt.Sprintf("mask:%02d", c.mask))
		distinct[Show(c.tree)] = true
		if modelOK != "t" {
			rep.Add(Disagreement{Case: desc, Where: "model", Kind: "model-vs-spec:write-denotes", Model: modelHex, Spec: expected})
		}
		outs := map[string]string{}
		outs["oj.JSON"] = safe(func() string { return oj.JSON(c.tree, opts) })
		outs["oj.Marshal"] = safe(func() string {
			b, err := oj.Marshal(c.tree, opts)
			if err != nil {
				return "E " + err.Error()
			}
			return string(b)
		})
		outs["oj.Write"] = safe(func() string {
			var w chunkWriter
			if err := oj.Write(&w, c.tree, opts); err != nil {
				return "E " + err.Error()
			}
			return w.String()
		})
		gt := toGen(c.tree)
		outs["oj.JSON/gen"] = safe(func() string { return oj.JSON(gt, opts) })
		for where, out := range outs {
			if strings.HasPrefix(out, "F ") {
				rep.Add(Disagreement{Case: desc, Where: where, Kind: "impl-vs-spec:write-panic", Impl: out})
				continue
			}
			if opts.Sort {
				if hx([]byte(out)) != modelHex {
					rep.Add(Disagreement{Case: desc, Where: where, Kind: "impl-vs-model:write-bytes", Impl: out, Model: modelHex})
					continue
				}
			}
			// valid JSON whose parse equals the expected tree (member order is free without Sort)
			v, err := oj.Parse([]byte(out))
			if err != nil {
				rep.Add(Disagreement{Case: desc, Where: where, Kind: "impl-vs-spec:write-invalid", Impl: out, Spec: err.Error()})
			} else if got := normNums(Show(v)); got != normNums(expected) {
				rep.Add(Disagreement{Case: desc, Where: where, Kind: "impl-vs-spec:write-denotes", Impl: got, Spec: expected, Detail: out})
			}
		}
		if outs["oj.Write"] != outs["oj.JSON"] && !opts.Sort && !multiKeyObject(c.tree) {
			rep.Add(Disagreement{Case: desc, Where: "oj.Write vs oj.JSON", Kind: "impl-vs-spec:write-stream", Impl: outs["oj.Write"], Spec: outs["oj.JSON"]})
		}
		// pretty.JSON / WriteJSON: width x depth x align grid, judged by parsing the text back
		if c.limit < 0 || i%3 == 0 {
			for _, arg := range []any{80.3, 20.2, 1.1, 200.9, 40.1} {
				for _, align := range []bool{false, true} {
					po := *opts
					po.Indent = 0
					where := fmt.Sprintf("pretty.JSON(%v,%v)", arg, align)
					out := safe(func() string { return pretty.JSON(c.tree, arg, align, &po) })
					rep.Evaluations++
					if strings.HasPrefix(out, "F ") {
						rep.Add(Disagreement{Case: desc, Where: where, Kind: "impl-vs-spec:write-panic", Impl: out})
						continue
					}
					v, err := oj.Parse([]byte(out))
					if err != nil {
						class := ""
						if align && strings.Contains(out, ",  ") {
							// is the trailing comma of a ragged aligned row the only problem? remove the commas
							// that are followed only by spaces and a close brace and parse again
							fixed := stripTrailingCommas(out)
							if v2, err2 := oj.Parse([]byte(fixed)); err2 == nil && normNums(Show(v2)) == normNums(expected) {
								class = "pretty-align-trailing-comma"
							}
						}
						rep.Add(Disagreement{Case: desc, Where: where, Kind: "impl-vs-spec:write-invalid", Impl: out, Spec: err.Error(), Class: class})
					} else if got := normNums(Show(v)); got != normNums(expected) {
						rep.Add(Disagreement{Case: desc, Where: where, Kind: "impl-vs-spec:write-denotes", Impl: got, Spec: expected, Detail: out})
					} else if bad := keysNotAscending(out, nil); po.Sort && bad != "" && keysValidUTF8(c.tree) {
						// with Sort the members of every object come in ascending key order
						class := ""
						if align && keysNotAscending(out, func(k string) string { return string(ojg.AppendJSONString(nil, k, !po.HTMLUnsafe)) }) == "" {
							class = "pretty-align-encoded-key-order" // ascending in the written (quoted, escaped) form
						}
						rep.Add(Disagreement{Case: desc, Where: where, Kind: "impl-vs-spec:write-key-order", Impl: bad, Spec: "members in ascending key order", Detail: out, Class: class})
					}
					var w chunkWriter
					if err := pretty.WriteJSON(&w, c.tree, arg, align, &po); err != nil || (w.String() != out && (po.Sort || !multiKeyObject(c.tree))) {
						rep.Add(Disagreement{Case: desc, Where: where, Kind: "impl-vs-spec:write-stream", Impl: w.String(), Spec: out})
					}
				}
			}
		}
		if i%997 == 0 && len(rep.Samples) < 10 {
			rep.Samples = append(rep.Samples, desc)
		}
	}
	rep.Distinct = len(distinct)
	rep.Rule = "all 32 option masks x 5 indents x 4 WriteLimits on 9 fixed trees (incl. depth 40 and 140) + seeded trees (strings with control, quote, HTML, U+2028/9, invalid UTF-8; int64 extremes; awkward floats; empty containers; nulls) x random options; oj.JSON, oj.Marshal, oj.Write (counting writer) and oj.JSON on the gen form: byte equality with the extracted writer model when Sort is set, and always: the text parses (oj.Parse) to the expected tree computed by the model; pretty.JSON/WriteJSON on a width/depth/align grid judged by parsing back; non-trivial = distinct trees"
	return rep
}
