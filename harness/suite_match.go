package main

import (
	"strings"

	"github.com/ohler55/ojg"
	"github.com/ohler55/ojg/jp"
	"github.com/ohler55/ojg/oj"
	"github.com/ohler55/ojg/sen"
)

func genMatchTarget(r *Rng, allowNeg bool) []Frag {
	fs := []Frag{{Kind: "R"}}
	n := 1 + r.Intn(3)
	for i := 0; i < n; i++ {
		switch r.Intn(10) {
		case 0, 1, 2:
			fs = append(fs, Frag{Kind: "c", Key: jpKeys[r.Intn(4)]})
		case 3, 4:
			k := r.Intn(4)
			if allowNeg && r.Chance(30) {
				k = -1 - r.Intn(2)
			}
			fs = append(fs, Frag{Kind: "n", N: k})
		case 5, 6:
			fs = append(fs, Frag{Kind: "W"})
		case 7:
			f := Frag{Kind: "u"}
			for j := 0; j < 2; j++ {
				if r.Bool() {
					f.Items = append(f.Items, UItem{IsKey: true, Key: jpKeys[r.Intn(4)]})
				} else {
					f.Items = append(f.Items, UItem{Idx: r.Intn(3)})
				}
			}
			fs = append(fs, f)
		case 8:
			if i < n-1 {
				fs = append(fs, Frag{Kind: "D"})
			} else {
				fs = append(fs, Frag{Kind: "W"})
			}
		default:
			if allowNeg {
				fs = append(fs, Frag{Kind: "s", Slice: []int{r.Intn(3), 1 + r.Intn(3)}})
			} else {
				fs = append(fs, Frag{Kind: "W"})
			}
		}
	}
	if fs[len(fs)-1].Kind == "D" {
		fs = append(fs, Frag{Kind: "W"})
	}
	if !allowNeg && r.Chance(15) { // trailing filter
		fs = append(fs, Frag{Kind: "f", Eq: &Eqn{Kind: "bin", Op: r.Pick([]string{"gt", "lt", "eq", "exists"}),
			A: &Eqn{Kind: "p", Path: []Frag{{Kind: "A"}}}, B: &Eqn{Kind: "v", Const: int64(1)}}})
		if fs[len(fs)-1].Eq.Op == "exists" {
			fs[len(fs)-1].Eq.B = &Eqn{Kind: "v", Const: true}
		}
	}
	return fs
}

// diffsUnderCaptured: the callbacks present in exactly one of got / want all have a path at or below
// a container that the part of a filter target in front of its filter selects.
func diffsUnderCaptured(targets [][]Frag, doc any, got, want string) bool {
	var captured []string
	for _, t := range targets {
		for i, f := range t {
			if f.Kind != "f" {
				continue
			}
			for _, loc := range BuildExpr(t[:i]).Locate(doc, 0) {
				vs := loc.Get(doc)
				if len(vs) == 1 {
					switch vs[0].(type) {
					case []any, map[string]any:
						captured = append(captured, strings.TrimSuffix(npathSexp(loc), ")"))
					}
				}
			}
			break
		}
	}
	set := func(s string) map[string]bool {
		m := map[string]bool{}
		for _, e := range strings.Split(s, " ; ") {
			if e != "" {
				m[e] = true
			}
		}
		return m
	}
	g, w := set(got), set(want)
	under := func(entry string) bool {
		path := strings.TrimSuffix(strings.SplitN(entry, " | ", 2)[0], ")")
		for _, c := range captured {
			if path == c || strings.HasPrefix(path, c+" ") {
				return true
			}
		}
		return false
	}
	for e := range g {
		if !w[e] && !under(e) {
			return false
		}
	}
	for e := range w {
		if !g[e] && !under(e) {
			return false
		}
	}
	return true
}

func suiteMatchDoc(tier string, seed uint64, model string) *Report {
	rep := &Report{Property: "C17", Tier: tier, Seed: seed}
	r := NewRng(seed)
	n := 8000
	if tier == "thorough" {
		n = 400000
	}
	type cs struct {
		targets [][]Frag
		doc     any
		known   bool // targets with slices / negative indexes: the recorded class
	}
	var cases []cs
	for i := 0; i < n; i++ {
		known := r.Chance(12)
		nt := 1 + r.Intn(2)
		var ts [][]Frag
		for j := 0; j < nt; j++ {
			ts = append(ts, genMatchTarget(r, known))
		}
		var d any
		if r.Chance(50) {
			d = genArrayTree(r, 1+r.Intn(3))
		} else {
			d = genTree(r, 1+r.Intn(3))
		}
		cases = append(cases, cs{ts, d, known})
	}
	// long arrays under a trailing filter: more than ten selected locations, so that any ordering
	// by text ([10] before [2]) differs from document order
	for i := 0; i < n/40; i++ {
		m := 11 + r.Intn(5)
		arr := make([]any, m)
		for j := range arr {
			if r.Chance(50) {
				arr[j] = int64(r.Intn(5))
			} else {
				arr[j] = map[string]any{"a": int64(r.Intn(4))}
			}
		}
		flt := Frag{Kind: "f", Eq: &Eqn{Kind: "bin", Op: "exists", A: &Eqn{Kind: "p", Path: []Frag{{Kind: "A"}}}, B: &Eqn{Kind: "v", Const: true}}}
		if r.Chance(50) {
			flt = Frag{Kind: "f", Eq: &Eqn{Kind: "bin", Op: "gt", A: &Eqn{Kind: "p", Path: []Frag{{Kind: "A"}}}, B: &Eqn{Kind: "v", Const: int64(0)}}}
		}
		if r.Chance(50) {
			cases = append(cases, cs{[][]Frag{{{Kind: "R"}, flt}}, arr, false})
		} else {
			cases = append(cases, cs{[][]Frag{{{Kind: "R"}, {Kind: "c", Key: "a"}, flt}}, map[string]any{"a": arr, "b": int64(1)}, false})
		}
	}
	// strings spelled like the literals (sen.Match / MatchLoad must keep them strings on the
	// byte-at-a-time path as well)
	for i := 0; i < n/40; i++ {
		words := []any{"true", "false", "null", true, false, nil, "x", "1", int64(1)}
		m := 2 + r.Intn(4)
		arr := make([]any, m)
		for j := range arr {
			arr[j] = words[r.Intn(len(words))]
		}
		if r.Bool() {
			cases = append(cases, cs{[][]Frag{{{Kind: "R"}, {Kind: "W"}}}, arr, false})
		} else {
			cases = append(cases, cs{[][]Frag{{{Kind: "R"}, {Kind: "c", Key: "a"}, {Kind: "n", N: r.Intn(m)}}}, map[string]any{"a": arr, "true": "null"}, false})
		}
	}
	// two targets with one prefix, one continuing with a filter, on documents where the prefix leads
	// to a scalar, an empty container or a container
	for i := 0; i < n/40; i++ {
		flt := Frag{Kind: "f", Eq: &Eqn{Kind: "bin", Op: "eq", A: &Eqn{Kind: "p", Path: []Frag{{Kind: "A"}, {Kind: "c", Key: "a"}}}, B: &Eqn{Kind: "v", Const: int64(2)}}}
		vals := []any{int64(7), "x", nil, []any{}, map[string]any{}, []any{map[string]any{"a": int64(2)}, map[string]any{"a": int64(1)}}, true}
		pre := [][]Frag{{{Kind: "R"}, {Kind: "c", Key: "a"}}, {{Kind: "R"}, {Kind: "W"}}, {{Kind: "R"}, {Kind: "n", N: 0}}}[r.Intn(3)]
		withF := append(append([]Frag(nil), pre...), flt)
		ts := [][]Frag{withF, pre}
		if r.Bool() {
			ts = [][]Frag{pre, withF}
		}
		var d any
		if pre[1].Kind == "c" {
			d = map[string]any{"a": vals[r.Intn(len(vals))], "b": int64(3)}
		} else {
			d = []any{vals[r.Intn(len(vals))], vals[r.Intn(len(vals))], int64(1)}
		}
		cases = append(cases, cs{ts, d, false})
	}
	var reqs []string
	for _, c := range cases {
		tt := make([]string, len(c.targets))
		for i, t := range c.targets {
			tt[i] = PathSexp(t)
		}
		reqs = append(reqs, "matchdoc\t"+strings.Join(tt, ";")+"\t"+Show(c.doc))
	}
	// single-target answers for the cases that mix a filter target with another target
	singleAt := map[int]int{}
	for i, c := range cases {
		hasFilter := false
		for _, t := range c.targets {
			if pathHas(t, "f") {
				hasFilter = true
			}
		}
		if hasFilter && len(c.targets) > 1 {
			singleAt[i] = len(reqs)
			for _, t := range c.targets {
				reqs = append(reqs, "matchdoc\t"+PathSexp(t)+"\t"+Show(c.doc))
			}
		}
	}
	ans, err := RunModel(model, reqs)
	if err != nil {
		rep.Add(Disagreement{Kind: "harness-error", Detail: err.Error()})
		return rep
	}
	distinct := map[string]bool{}
	for i, c := range cases {
		desc := reqs[i][9:]
		text := oj.JSON(c.doc, &ojg.Options{Sort: true, Indent: []int{0, 2}[i%2]}) // sorted: text order = canonical order
		var xs []jp.Expr
		for _, t := range c.targets {
			xs = append(xs, BuildExpr(t))
		}
		run := func(which string, chunks []int) string {
			return safe(func() string {
				var out []string
				cb := func(p jp.Expr, v any) { out = append(out, npathSexp(p)+" | "+normNums(Show(v))) }
				var err error
				switch which {
				case "oj.Match":
					err = oj.Match([]byte(text), cb, xs...)
				case "oj.MatchString":
					err = oj.MatchString(text, cb, xs...)
				case "oj.MatchLoad":
					err = oj.MatchLoad(&chunkReader{data: []byte(text), chunks: chunks}, cb, xs...)
				case "sen.Match":
					err = sen.Match([]byte(text), cb, xs...)
				case "sen.MatchLoad":
					err = sen.MatchLoad(&chunkReader{data: []byte(text), chunks: chunks}, cb, xs...)
				}
				if err != nil {
					return "E " + err.Error()
				}
				return strings.Join(out, " ; ")
			})
		}
		if ans[i] != "" {
			distinct[desc] = true
		}
		want := normNums(ans[i])
		ones := make([]int, len(text))
		for k := range ones {
			ones[k] = 1
		}
		variants := []struct {
			name   string
			chunks []int
		}{{"oj.Match", nil}, {"oj.MatchString", nil}, {"oj.MatchLoad", []int{}}, {"oj.MatchLoad", ones},
			{"oj.MatchLoad", []int{1 + r.Intn(len(text))}}, {"sen.Match", nil}, {"sen.MatchLoad", ones}, {"sen.MatchLoad", []int{1 + r.Intn(len(text))}}}
		for _, v := range variants {
			rep.Evaluations++
			got := run(v.name, v.chunks)
			if got != want {
				class := ""
				if c.known {
					class = "slice-or-negative-target"
				} else if func() bool {
					for _, t := range c.targets {
						if pathHas(t, "D") && pathHas(t, "f") {
							return true
						}
					}
					return false
				}() {
					// a descent in front of a trailing filter: the first container the prefix matches is
					// captured as a whole and the filter is applied to it only
					class = "descent-before-filter-target"
				} else if at, ok := singleAt[i]; ok {
					// each target alone behaves as specified: the failure is the interplay
					alone := true
					for j, t := range c.targets {
						saved := xs
						xs = []jp.Expr{BuildExpr(t)}
						if run(v.name, v.chunks) != normNums(ans[at+j]) {
							alone = false
						}
						xs = saved
					}
					// and every callback that differs lies at or below a container captured for a filter
					// target (the recorded behaviour concerns locations inside such a container only)
					if alone && diffsUnderCaptured(c.targets, c.doc, got, want) {
						class = "filter-target-with-other-target"
					}
				}
				where := v.name
				if v.chunks != nil {
					where += "/" + chunkKind(v.chunks, len(text))
				}
				rep.Add(Disagreement{Case: desc, Where: where, Kind: "impl-vs-spec:match-stream", Impl: got, Spec: want, Class: class})
			}
		}
		if i%999 == 0 && len(rep.Samples) < 10 {
			rep.Samples = append(rep.Samples, desc)
		}
	}
	rep.Distinct = len(distinct)
	rep.Rule = "seeded documents (written with sorted keys, tight and indented) x 1-2 seeded targets (child, non-negative index, wildcard, union, descent, trailing filter; 12% of the cases use slices and negative indexes = the recorded class); oj.Match, oj.MatchString, oj.MatchLoad (one piece, 1-byte reads, one random split), sen.Match and sen.MatchLoad (1-byte reads, one random split); directed groups: arrays of 11-15 elements under trailing filters, strings spelled like the literals; the callback sequence (normalized path, value) must equal the extracted match_spec (outermost selected locations in document order); non-trivial = cases with at least one specified callback"
	return rep
}
