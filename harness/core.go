package main

import (
	"bytes"
	"encoding/hex"
	"encoding/json"
	"fmt"
	"os"
	"os/exec"
	"sort"
	"strconv"
	"strings"

	"github.com/ohler55/ojg/gen"
)

// ---------------------------------------------------------------- PRNG (splitmix64)

type Rng struct{ s uint64 }

func NewRng(seed uint64) *Rng { return &Rng{s: seed*0x9E3779B97F4A7C15 + 0x1234567} }
func (r *Rng) Next() uint64 {
	r.s += 0x9E3779B97F4A7C15
	z := r.s
	z = (z ^ (z >> 30)) * 0xBF58476D1CE4E5B9
	z = (z ^ (z >> 27)) * 0x94D049BB133111EB
	return z ^ (z >> 31)
}
func (r *Rng) Intn(n int) int {
	if n <= 0 {
		return 0
	}
	return int(r.Next() % uint64(n))
}
func (r *Rng) Bool() bool             { return r.Next()&1 == 1 }
func (r *Rng) Chance(p int) bool      { return r.Intn(100) < p }
func (r *Rng) Pick(s []string) string { return s[r.Intn(len(s))] }
func (r *Rng) Fork() *Rng             { return NewRng(r.Next()) }

// ---------------------------------------------------------------- model process

// RunModel sends all request lines to the extracted model and returns one answer per line.
func RunModel(modelPath string, reqs []string) ([]string, error) {
	if len(reqs) == 0 {
		return nil, nil
	}
	var in bytes.Buffer
	for _, r := range reqs {
		in.WriteString(r)
		in.WriteByte('\n')
	}
	cmd := exec.Command(modelPath)
	cmd.Stdin = &in
	var out bytes.Buffer
	cmd.Stdout = &out
	cmd.Stderr = os.Stderr
	if err := cmd.Run(); err != nil {
		return nil, fmt.Errorf("model: %v", err)
	}
	lines := strings.Split(strings.TrimSuffix(out.String(), "\n"), "\n")
	if len(lines) != len(reqs) {
		return nil, fmt.Errorf("model answered %d lines for %d requests", len(lines), len(reqs))
	}
	return lines, nil
}

func hx(b []byte) string { return hex.EncodeToString(b) }

// ---------------------------------------------------------------- canonical value text

// Show prints a simple or gen value in the canonical text of Coq's Jv.show (canon v).
func Show(v any) string {
	var sb strings.Builder
	show(&sb, v)
	return sb.String()
}

func fmtFloat(f float64) string { return "d" + strconv.FormatFloat(f, 'g', -1, 64) }

func show(sb *strings.Builder, v any) {
	switch t := v.(type) {
	case nil:
		sb.WriteByte('n')
	case bool:
		if t {
			sb.WriteByte('t')
		} else {
			sb.WriteByte('f')
		}
	case gen.Bool:
		if t {
			sb.WriteByte('t')
		} else {
			sb.WriteByte('f')
		}
	case int64:
		sb.WriteString("i" + strconv.FormatInt(t, 10))
	case int:
		sb.WriteString("i" + strconv.FormatInt(int64(t), 10))
	case gen.Int:
		sb.WriteString("i" + strconv.FormatInt(int64(t), 10))
	case float32:
		sb.WriteString("d" + strconv.FormatFloat(float64(t), 'g', -1, 32))
	case float64:
		sb.WriteString(fmtFloat(t))
	case gen.Float:
		sb.WriteString(fmtFloat(float64(t)))
	case int8:
		sb.WriteString("i" + strconv.FormatInt(int64(t), 10))
	case int16:
		sb.WriteString("i" + strconv.FormatInt(int64(t), 10))
	case int32:
		sb.WriteString("i" + strconv.FormatInt(int64(t), 10))
	case uint:
		sb.WriteString("i" + strconv.FormatUint(uint64(t), 10))
	case uint8:
		sb.WriteString("i" + strconv.FormatUint(uint64(t), 10))
	case uint16:
		sb.WriteString("i" + strconv.FormatUint(uint64(t), 10))
	case uint32:
		sb.WriteString("i" + strconv.FormatUint(uint64(t), 10))
	case uint64:
		sb.WriteString("i" + strconv.FormatUint(t, 10))
	case json.Number:
		sb.WriteString("b" + string(t))
	case gen.Big:
		sb.WriteString("b" + string(t))
	case string:
		sb.WriteString("s" + hx([]byte(t)))
	case gen.String:
		sb.WriteString("s" + hx([]byte(t)))
	case []any:
		sb.WriteByte('[')
		for i, e := range t {
			if i > 0 {
				sb.WriteByte(' ')
			}
			show(sb, e)
		}
		sb.WriteByte(']')
	case gen.Array:
		sb.WriteByte('[')
		for i, e := range t {
			if i > 0 {
				sb.WriteByte(' ')
			}
			show(sb, e)
		}
		sb.WriteByte(']')
	case map[string]any:
		keys := make([]string, 0, len(t))
		for k := range t {
			keys = append(keys, k)
		}
		sort.Strings(keys)
		sb.WriteByte('{')
		for i, k := range keys {
			if i > 0 {
				sb.WriteByte(' ')
			}
			sb.WriteString("k" + hx([]byte(k)) + " ")
			show(sb, t[k])
		}
		sb.WriteByte('}')
	case gen.Object:
		keys := make([]string, 0, len(t))
		for k := range t {
			keys = append(keys, k)
		}
		sort.Strings(keys)
		sb.WriteByte('{')
		for i, k := range keys {
			if i > 0 {
				sb.WriteByte(' ')
			}
			sb.WriteString("k" + hx([]byte(k)) + " ")
			show(sb, t[k])
		}
		sb.WriteByte('}')
	default:
		sb.WriteString(fmt.Sprintf("?%T", v))
	}
}

// NormFloats rewrites every d<text> token of a model answer into the canonical text of the
// float64 nearest to it (the strconv.ParseFloat oracle step).
func NormFloats(s string) string {
	if !strings.Contains(s, "d") {
		return s
	}
	toks := strings.Split(s, " ")
	for i, tk := range toks {
		j := 0
		for j < len(tk) && (tk[j] == '[' || tk[j] == '{') {
			j++
		}
		if j < len(tk) && tk[j] == 'd' {
			k := len(tk)
			for k > j && (tk[k-1] == ']' || tk[k-1] == '}') {
				k--
			}
			f, err := strconv.ParseFloat(tk[j+1:k], 64)
			if err != nil && !strings.Contains(err.Error(), "range") {
				continue
			}
			toks[i] = tk[:j] + fmtFloat(f) + tk[k:]
		}
	}
	return strings.Join(toks, " ")
}

// ---------------------------------------------------------------- report

type Disagreement struct {
	Case   string `json:"case"`  // hex or text of the input
	Where  string `json:"where"` // front-end / variant
	Kind   string `json:"kind"`  // impl-vs-spec | impl-vs-model | model-vs-spec
	Impl   string `json:"impl"`
	Model  string `json:"model,omitempty"`
	Spec   string `json:"spec,omitempty"`
	Detail string `json:"detail,omitempty"`
	Class  string `json:"class,omitempty"` // known-finding class decided by the extracted classifier / exact rule
}

type Report struct {
	Property      string            `json:"property"`
	Tier          string            `json:"tier"`
	Seed          uint64            `json:"seed"`
	Evaluations   int               `json:"evaluations"`
	Distinct      int               `json:"distinct_nontrivial"`
	Rule          string            `json:"rule"`
	Samples       []string          `json:"samples"`
	Exhaustive    bool              `json:"exhaustive"`
	Distribution  map[string]int    `json:"distribution"`
	Disagreements []Disagreement    `json:"disagreements"`
	Notes         map[string]string `json:"notes,omitempty"`
}

func (r *Report) Count(k string) {
	if r.Distribution == nil {
		r.Distribution = map[string]int{}
	}
	r.Distribution[k]++
}

func (r *Report) Add(d Disagreement) {
	key := "disagreement:" + d.Kind + ":" + d.Class + ":" + d.Where
	if r.Distribution[key] < 12 && len(r.Disagreements) < 400 {
		r.Disagreements = append(r.Disagreements, d)
	}
	r.Count(key)
}

// Merge adds another suite's results to this report.
func (r *Report) Merge(o *Report) {
	r.Evaluations += o.Evaluations
	r.Distinct += o.Distinct
	r.Rule += " || " + o.Rule
	r.Samples = append(r.Samples, o.Samples...)
	for k, v := range o.Distribution {
		if r.Distribution == nil {
			r.Distribution = map[string]int{}
		}
		r.Distribution[k] += v
	}
	r.Disagreements = append(r.Disagreements, o.Disagreements...)
}

func (r *Report) Write(path string) error {
	b, err := json.MarshalIndent(r, "", " ")
	if err != nil {
		return err
	}
	return os.WriteFile(path, b, 0o644)
}
