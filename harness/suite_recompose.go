package main

import (
	"encoding/json"
	"fmt"
	"reflect"
	"strings"

	"verif/harness/other"

	"github.com/ohler55/ojg"
	"github.com/ohler55/ojg/alt"
	"github.com/ohler55/ojg/oj"
	"github.com/ohler55/ojg/sen"
)

// C16: Decompose/Recompose and Marshal/Unmarshal on generated struct types; the same recomposition
// repeated on recomposers with different histories (other named types, same-named types from
// another package, anonymous types).

var canonOpts = ojg.Options{Sort: true, KeyExact: true, NestEmbed: true}

// canonical text of a Go value: nil and empty containers are not distinguished
func canonGo(v any) string {
	return safe(func() string {
		o := canonOpts
		return nilAsEmpty(parsedShow(oj.JSON(v, &o), false))
	})
}

// values for recomposition: no interface fields holding structs unless named (create key), no ,string tags
func recompType(r *Rng) *GTy {
	for {
		t := genStructTy(r, 2, true)
		ok := true
		var walk func(t *GTy)
		walk = func(t *GTy) {
			switch t.Kind {
			case "P", "L", "M":
				walk(t.Elem)
			case "S":
				for _, f := range t.Fields {
					if f.Str || (f.TagHas && (f.Dash || f.TagName == "-")) { // a member named "-" is written bare by sen (recorded C10 finding)
						ok = false
					}
					walk(f.T)
				}
			}
		}
		walk(t)
		if ok {
			return t
		}
	}
}

// HolderOther nests types from package other whose short names clash with registered ones.
type HolderOther struct {
	In other.Inner
	E  []other.EmbA
	P  *other.Inner
}

type histStep struct {
	name string
	run  func(rc *alt.Recomposer)
}

func suiteRecompose(tier string, seed uint64, model string) *Report {
	rep := &Report{Property: "C16", Tier: tier, Seed: seed}
	r := NewRng(seed)
	n := 1500
	if tier == "thorough" {
		n = 80000
	}
	// steps that give a recomposer a history
	mkHistory := func(r *Rng) []histStep {
		var hs []histStep
		k := r.Intn(5)
		for i := 0; i < k; i++ {
			switch r.Intn(7) {
			case 0:
				hs = append(hs, histStep{"other.Inner", func(rc *alt.Recomposer) {
					_, _ = rc.Recompose(map[string]any{"Q": "q", "A": 1.5}, &other.Inner{})
				}})
			case 1:
				hs = append(hs, histStep{"main.Inner", func(rc *alt.Recomposer) {
					_, _ = rc.Recompose(map[string]any{"A": int64(1), "b": "x"}, &Inner{})
				}})
			case 2:
				hs = append(hs, histStep{"other.EmbA", func(rc *alt.Recomposer) {
					_, _ = rc.Recompose(map[string]any{"P": []any{int64(1)}, "X": "s"}, &other.EmbA{})
				}})
			case 3:
				t := recompType(r)
				v, _ := genGVal(r, t, 2)
				hs = append(hs, histStep{"anonymous " + t.Sexp(), func(rc *alt.Recomposer) {
					p := reflect.New(t.rt)
					p.Elem().Set(v)
					dec := alt.Decompose(p.Interface(), &ojg.Options{KeyExact: true, NestEmbed: false})
					_, _ = rc.Recompose(dec, reflect.New(t.rt).Interface())
				}})
			case 4:
				hs = append(hs, histStep{"struct{A string}", func(rc *alt.Recomposer) {
					var x struct{ A string }
					_, _ = rc.Recompose(map[string]any{"A": "a"}, &x)
				}})
			case 5:
				// registering a type whose FIELD has a type that shares its short name with a registered one
				hs = append(hs, histStep{"register HolderOther{In other.Inner; E []other.EmbA}", func(rc *alt.Recomposer) {
					_ = rc.RegisterComposer(&HolderOther{}, nil)
				}})
			default:
				hs = append(hs, histStep{"EmbB", func(rc *alt.Recomposer) {
					_, _ = rc.Recompose(map[string]any{"Z": int64(3), "L": []any{int64(1)}}, &EmbB{})
				}})
			}
		}
		return hs
	}
	distinct := map[string]bool{}
	for i := 0; i < n; i++ {
		t := recompType(r)
		val, vdesc := genGVal(r, t, 2)
		orig := reflect.New(t.rt)
		orig.Elem().Set(val)
		desc := "type=" + t.Sexp() + " value=" + vdesc
		want := canonGo(orig.Interface())
		distinct[t.Sexp()] = true
		hist := mkHistory(r)
		hnames := make([]string, len(hist))
		for j, h := range hist {
			hnames[j] = h.name
		}
		full := desc + " history=[" + strings.Join(hnames, "; ") + "]"
		check := func(where, got string) {
			rep.Evaluations++
			rep.Count("path:" + where)
			if got != want {
				rep.Add(Disagreement{Case: full, Where: where, Kind: "impl-law:roundtrip", Impl: got, Model: want})
			}
		}
		// Decompose -> Recompose on a fresh recomposer, with three decompositions
		for _, o := range []ojg.Options{{KeyExact: true}, {}, {UseTags: true, KeyExact: true}} {
			oo := o
			oo.CreateKey = "^"
			dec := alt.Decompose(orig.Interface(), &oo)
			where := fmt.Sprintf("Decompose{exact=%v,tags=%v}/Recompose", o.KeyExact, o.UseTags)
			fresh := safe(func() string {
				rc := alt.MustNewRecomposer("^", map[any]alt.RecomposeFunc{&Inner{}: nil})
				out, err := rc.Recompose(copyTyped(dec), reflect.New(t.rt).Interface())
				if err != nil {
					return "error: " + err.Error()
				}
				return canonGo(out)
			})
			check(where+"/fresh", fresh)
			used := safe(func() string {
				rc := alt.MustNewRecomposer("^", map[any]alt.RecomposeFunc{&Inner{}: nil})
				for _, h := range hist {
					func() {
						defer func() { _ = recover() }()
						h.run(rc)
					}()
				}
				out, err := rc.Recompose(copyTyped(dec), reflect.New(t.rt).Interface())
				if err != nil {
					return "error: " + err.Error()
				}
				return canonGo(out)
			})
			rep.Evaluations++
			rep.Count("path:history")
			if used != fresh {
				rep.Add(Disagreement{Case: full, Where: where, Kind: "impl-law:history-dependent", Impl: used, Model: fresh,
					Detail: "the same recomposition on a recomposer that had recomposed other types first"})
			}
		}
		// Marshal -> Unmarshal (default recomposer: its history is everything this process did so far).
		// Without a create key an interface-typed field cannot get its struct back: such values are left out.
		if strings.Contains(vdesc, "(A (S ") || strings.Contains(vdesc, "(A (P (S ") {
			rep.Count("skipped:struct-in-interface-without-create-key")
			continue
		}
		check("oj.Marshal/oj.Unmarshal", safe(func() string {
			b, err := oj.Marshal(orig.Interface())
			if err != nil {
				return "marshal error: " + err.Error()
			}
			p := reflect.New(t.rt).Interface()
			if err := oj.Unmarshal(b, p); err != nil {
				return "error: " + err.Error() + " for " + string(b)
			}
			return canonGo(p)
		}))
		check("sen.String/sen.Unmarshal", safe(func() string {
			o := ojg.GoOptions
			text := sen.String(orig.Interface(), &o)
			p := reflect.New(t.rt).Interface()
			if err := sen.Unmarshal([]byte(text), p); err != nil {
				return "error: " + err.Error() + " for " + text
			}
			return canonGo(p)
		}))
		if i%311 == 0 && len(rep.Samples) < 10 {
			rep.Samples = append(rep.Samples, full)
		}
	}
	rep.Distinct = len(distinct)
	rep.Rule = "struct types generated with reflect.StructOf (anonymous types; field kinds bool, ten integer kinds, float64, string, any, pointers, slices, maps, nested generated and named structs, embedded named structs and pointers to them, name and omitempty tags) and seeded values; Decompose (exact, lower-case and tag keys, create key ^) -> Recompose into a new value of the type on a fresh Recomposer and on one with a seeded history of 0-4 other recompositions (same-named types from another package, named and anonymous struct types); oj.Marshal -> oj.Unmarshal and sen.String -> sen.Unmarshal through the default recomposer; results compared as canonical JSON (exact keys, nil and empty containers not distinguished); non-trivial = distinct struct types"
	return rep
}

// directed round trips on hand-written types: embedded structs whose tag gives a name, unsigned
// values beyond int64 in containers, whole floats held in interfaces; through every unmarshal
// entry point; compared with reflect.DeepEqual (types included)
type dAudit struct {
	By string
	At int
}
type dGeo struct{ Lat, Lon float64 }
type dDoc struct {
	dAudit `json:"audit"`
	*dGeo  `json:"geo,omitempty"`
	Title  string
}
type DAudit struct {
	By string
	At int
}
type DGeo struct{ Lat, Lon float64 }
type DDoc struct {
	DAudit `json:"audit"`
	*DGeo  `json:"geo,omitempty"`
	Title  string
}
type DUns struct {
	U uint64
	L []uint64
	M map[string]uint64
	P *uint64
	A [2]uint
}
type DAny struct {
	F any
	M map[string]any
	L []any
}

type DCellV struct {
	N *int
	S string
	M map[string]int
}
type DGrid struct{ Cells map[string]DCellV }
type DC3 struct {
	F float64
	I int
	B bool
}
type DB2 struct {
	P string
	DC3
	Q int
}
type DA1 struct {
	DB2
	X int
}
type DPart struct{ N int }
type DHold struct{ V any }

// DCode marshals itself as a JSON string
type DCode struct{ s string }

func (c DCode) MarshalJSON() ([]byte, error)  { return json.Marshal(c.s) }
func (c *DCode) UnmarshalJSON(b []byte) error { return json.Unmarshal(b, &c.s) }

type DCoded struct {
	C DCode
	T string
}

func suiteRecomposeDirected(tier string, seed uint64) *Report {
	rep := &Report{Property: "C16", Tier: tier, Seed: seed}
	r := NewRng(seed + 1616)
	big := []uint64{0, 1, 1 << 62, 1<<63 - 1, 1 << 63, 1<<63 + 1, 0xcbf29ce484222325, 1<<64 - 2, 1<<64 - 1}
	pick := func() uint64 { return big[r.Intn(len(big))] }
	whole := []float64{20, 0, -3, 1e6, 2.5, 1e15}
	var vals []any
	for i := 0; i < 40; i++ {
		d := &DDoc{DAudit: DAudit{By: r.Pick([]string{"", "me"}), At: r.Intn(3)}, Title: r.Pick([]string{"t", ""})}
		if r.Bool() {
			d.DGeo = &DGeo{Lat: float64(r.Intn(5)) + 0.5, Lon: float64(r.Intn(5))}
		}
		vals = append(vals, d)
		p := pick()
		vals = append(vals, &DUns{U: pick(), L: []uint64{pick(), pick()}, M: map[string]uint64{"k": pick()}, P: &p, A: [2]uint{uint(pick()), uint(pick())}})
		vals = append(vals, &DAny{F: whole[r.Intn(len(whole))], M: map[string]any{"k": whole[r.Intn(len(whole))], "s": "x"}, L: []any{whole[r.Intn(len(whole))], true}})
	}
	for i := 0; i < 12; i++ {
		g := &DGrid{Cells: map[string]DCellV{}}
		for j := 0; j < 12; j++ {
			c := DCellV{S: r.Pick([]string{"", "s", "t"})}
			if r.Bool() {
				n := r.Intn(9)
				c.N = &n
			}
			if r.Chance(40) {
				c.M = map[string]int{r.Pick([]string{"a", "b", "c"}): r.Intn(5)}
			}
			g.Cells[fmt.Sprintf("k%02d", j)] = c
		}
		vals = append(vals, g)
		vals = append(vals, &DA1{DB2: DB2{P: r.Pick([]string{"p", ""}), DC3: DC3{F: float64(r.Intn(9)) + 0.25, I: 1 + r.Intn(9), B: r.Bool()}, Q: 10 + r.Intn(9)}, X: 100 + r.Intn(9)})
		vals = append(vals, &DCoded{C: DCode{r.Pick([]string{"plain", "a\"b", "back\\slash", "line\nbreak", "tab\there", "\u00e9"})}, T: "t"})
	}
	// a type met lazily as a target does not become known by its short name to create keys
	for k := 0; k < 3; k++ {
		rep.Evaluations++
		in := map[string]any{"V": map[string]any{"^": "DPart", "N": int64(k)}}
		fresh := safe(func() string {
			rc := alt.MustNewRecomposer("^", nil)
			out, err := rc.Recompose(copyTyped(in), &DHold{})
			return fmt.Sprintf("%#v %v", out, err)
		})
		used := safe(func() string {
			rc := alt.MustNewRecomposer("^", nil)
			_, _ = rc.Recompose(map[string]any{"N": int64(5)}, &DPart{})
			_, _ = rc.Recompose(map[string]any{"Cells": map[string]any{}}, &DGrid{})
			out, err := rc.Recompose(copyTyped(in), &DHold{})
			return fmt.Sprintf("%#v %v", out, err)
		})
		if used != fresh {
			rep.Add(Disagreement{Case: Show(in), Where: "Recompose with a create key for an unregistered type", Kind: "impl-law:history-dependent", Impl: used, Model: fresh,
				Detail: "the recomposer had recomposed a DPart target before"})
		}
	}
	for _, v := range vals {
		desc := fmt.Sprintf("%T %s", v, oj.JSON(v, &ojg.Options{Sort: true}))
		fresh := func() any { return reflect.New(reflect.TypeOf(v).Elem()).Interface() }
		check := func(where string, run func(p any) error) {
			rep.Evaluations++
			out := safe(func() string {
				p := fresh()
				if err := run(p); err != nil {
					return "error: " + err.Error()
				}
				if _, grid := v.(*DGrid); grid { // nil and empty maps are not distinguished
					if a, b := canonGo(v), canonGo(p); a != b {
						return "differs: " + b
					}
				} else if !reflect.DeepEqual(v, p) {
					return "differs: " + fmt.Sprintf("%#v", reflect.ValueOf(p).Elem().Interface())
				}
				return "ok"
			})
			if out != "ok" {
				rep.Add(Disagreement{Case: desc, Where: where, Kind: "impl-law:roundtrip-directed", Impl: out, Spec: fmt.Sprintf("%#v", reflect.ValueOf(v).Elem().Interface())})
			}
		}
		for _, o := range []ojg.Options{{KeyExact: true}, {}, {UseTags: true}} {
			oo := o
			oo.Sort = true
			if _, emb := v.(*DA1); emb { // promoted members of a struct embedded twice
				rep.Evaluations++
				a, b := parsedShow(safe(func() string { return oj.JSON(v, &oo) }), false), parsedShow(safe(func() string { return oj.JSON(alt.Decompose(v, &oo), &oo) }), false)
				if a != b {
					rep.Add(Disagreement{Case: desc, Where: fmt.Sprintf("alt.Decompose vs oj.JSON {exact=%v,tags=%v}", o.KeyExact, o.UseTags), Kind: "impl-law:encoders-agree", Impl: b, Spec: a})
				}
			}
			if _, coded := v.(*DCoded); coded {
				continue // alt.Decompose does not consult json.Marshaler: only the Marshal / Unmarshal trips below
			}
			check(fmt.Sprintf("Decompose{exact=%v,tags=%v}/Recompose", o.KeyExact, o.UseTags), func(p any) error {
				_, err := alt.Recompose(alt.Decompose(v, &oo), p)
				return err
			})
		}
		if _, isUns := v.(*DUns); isUns {
			continue // numbers beyond int64 are read as big numbers by the parsers (recorded under C02)
		}
		check("oj.Marshal/oj.Unmarshal", func(p any) error {
			b, err := oj.Marshal(v)
			if err != nil {
				return err
			}
			return oj.Unmarshal(b, p)
		})
		check("oj.Marshal/oj.Parser.Unmarshal", func(p any) error {
			b, err := oj.Marshal(v)
			if err != nil {
				return err
			}
			var ps oj.Parser
			return ps.Unmarshal(b, p)
		})
		check("sen.String/sen.Unmarshal", func(p any) error {
			o := ojg.GoOptions
			return sen.Unmarshal([]byte(sen.String(v, &o)), p)
		})
		check("sen.String/sen.Parser.Unmarshal", func(p any) error {
			o := ojg.GoOptions
			var ps sen.Parser
			return ps.Unmarshal([]byte(sen.String(v, &o)), p)
		})
	}
	// two distinct types with the same package path and name (declared inside functions), one after
	// the other through the default recomposer: each round trip gives back its own value
	for k := 0; k < 3; k++ {
		for _, f := range []func(int) string{localTypeA, localTypeB, localTypeB, localTypeA} {
			rep.Evaluations++
			if out := safe(func() string { return f(k) }); out != "ok" {
				rep.Add(Disagreement{Case: fmt.Sprintf("function-local types named DLocal, round %d", k), Where: "alt.Recompose / oj.Unmarshal (default recomposer)", Kind: "impl-law:same-name-local-types", Impl: out, Spec: "the value that was decomposed"})
			}
		}
	}
	// a type reachable from a registered type only through pointer elements ([]*T, map[string]*T, **T)
	// is known to a create-key recomposer exactly as if it had been registered itself
	for k := 0; k < 3; k++ {
		rep.Evaluations++
		src := &DReach{Ps: []*DLeafP{{N: k}}, Mp: map[string]*DLeafP{"m": {N: k + 1}}, Any: &DLeafP{N: k + 2}, List: []any{&DLeafP{N: k + 3}, "s"}}
		run := func(regLeaf bool) string {
			return safe(func() string {
				reg := map[any]alt.RecomposeFunc{&DReach{}: nil}
				if regLeaf {
					reg[&DLeafP{}] = nil
				}
				rc := alt.MustNewRecomposer("^", reg)
				d := alt.Decompose(src, &ojg.Options{CreateKey: "^"})
				var out DReach
				if _, err := rc.Recompose(d, &out); err != nil {
					return "E " + err.Error()
				}
				return fmt.Sprintf("%s | Any:%T List0:%T", canonGo(out), out.Any, out.List[0])
			})
		}
		if a, b := run(false), run(true); a != b {
			rep.Add(Disagreement{Case: fmt.Sprintf("DReach round %d", k), Where: "Recomposer with only the outer type registered", Kind: "impl-law:registration-closure", Impl: a, Spec: b})
		}
	}
	rep.Rule = "directed round trips (reflect.DeepEqual): embedded structs whose tag names them, unsigned values beyond int64 in fields / slices / maps / pointers / arrays, whole floats held in any / map[string]any / []any; Decompose/Recompose under three naming plans and Marshal/Unmarshal through oj.Unmarshal, oj.Parser.Unmarshal, sen.Unmarshal, sen.Parser.Unmarshal; two function-local types of one name through the default recomposer one after the other; a type reachable from a registered type only through pointer elements is recomposed under a create key as if it had been registered"
	return rep
}

// DReach / DLeafP: DLeafP is reachable from DReach only through pointer elements
type DLeafP struct{ N int }
type DReach struct {
	Ps   []*DLeafP
	Mp   map[string]*DLeafP
	Any  any
	List []any
}

func localTypeA(k int) string {
	type DLocal struct {
		Sensor string
		Value  int
		Tags   []string
	}
	src := DLocal{Sensor: "s1", Value: 40 + k, Tags: []string{"a", "b"}}
	var out DLocal
	if _, err := alt.Recompose(alt.Decompose(&src), &out); err != nil {
		return "recompose: " + err.Error()
	}
	if !reflect.DeepEqual(src, out) {
		return fmt.Sprintf("recompose: %+v", out)
	}
	b, err := oj.Marshal(&src)
	if err != nil {
		return err.Error()
	}
	var out2 DLocal
	if err = oj.Unmarshal(b, &out2); err != nil {
		return "unmarshal: " + err.Error()
	}
	if !reflect.DeepEqual(src, out2) {
		return fmt.Sprintf("unmarshal: %+v", out2)
	}
	return "ok"
}

func localTypeB(k int) string {
	type DLocal struct {
		Value  float64
		Unit   string
		Sensor string
	}
	src := DLocal{Value: 1.5 + float64(k), Unit: "mm", Sensor: "s2"}
	var out DLocal
	if _, err := alt.Recompose(alt.Decompose(&src), &out); err != nil {
		return "recompose: " + err.Error()
	}
	if !reflect.DeepEqual(src, out) {
		return fmt.Sprintf("recompose: %+v", out)
	}
	b, err := oj.Marshal(&src)
	if err != nil {
		return err.Error()
	}
	var out2 DLocal
	if err = oj.Unmarshal(b, &out2); err != nil {
		return "unmarshal: " + err.Error()
	}
	if !reflect.DeepEqual(src, out2) {
		return fmt.Sprintf("unmarshal: %+v", out2)
	}
	return "ok"
}
