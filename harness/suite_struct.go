package main

import (
	"bytes"
	"encoding/json"
	"fmt"
	"reflect"
	"strconv"
	"strings"

	"github.com/ohler55/ojg"
	"github.com/ohler55/ojg/alt"
	"github.com/ohler55/ojg/oj"
	"github.com/ohler55/ojg/pretty"
	"github.com/ohler55/ojg/sen"
)

// C15: struct types are generated at run time (reflect.StructOf, with a few named types for
// embedding and for interface values), values of them are encoded by every encoder under every
// option combination and compared with the extracted specification (Enc/Struct.v), with each
// other and, under the Go-compatible options, with encoding/json.

type EmbA struct {
	X int
	Y string `json:"y,omitempty"`
}

type EmbB struct {
	Z *int
	L []int
}

type Inner struct {
	A int
	B string `json:"b,omitempty"`
	C []string
}

type GField struct {
	Name            string
	Exported        bool
	TagHas          bool
	TagName         string
	Dash, Omit, Str bool
	Emb             bool
	T               *GTy
}

type GTy struct {
	Kind   string // b i f s P L M A S
	Elem   *GTy
	Name   string
	Fields []GField
	rt     reflect.Type
}

func hexOrDash(s string) string {
	if s == "" {
		return "-"
	}
	return hx([]byte(s))
}

func b01(b bool) string {
	if b {
		return "1"
	}
	return "0"
}

func (t *GTy) Sexp() string {
	switch t.Kind {
	case "i":
		if t.rt != nil && t.rt.Kind() >= reflect.Int && t.rt.Kind() <= reflect.Int64 { // signed kinds
			return "I"
		}
		return "i"
	case "b", "f", "s", "A":
		return t.Kind
	case "P", "L", "M":
		return "(" + t.Kind + " " + t.Elem.Sexp() + ")"
	}
	parts := []string{"(S", hexOrDash(t.Name)}
	for _, f := range t.Fields {
		parts = append(parts, "(F "+hexOrDash(f.Name)+" "+b01(f.Exported)+" "+b01(f.TagHas)+" "+hexOrDash(f.TagName)+" "+b01(f.Dash)+" "+b01(f.Omit)+" "+b01(f.Str)+" "+b01(f.Emb)+" "+f.T.Sexp()+")")
	}
	return strings.Join(parts, " ") + ")"
}

func (f GField) tag() reflect.StructTag {
	if !f.TagHas {
		return ""
	}
	t := f.TagName
	if f.Dash {
		t = "-"
	} else if t == "-" && !f.Omit && !f.Str {
		t = "-," // a bare "-" would mean: skip the field
	}
	if f.Omit {
		t += ",omitempty"
	}
	if f.Str {
		t += ",string"
	}
	return reflect.StructTag(`json:"` + t + `"`)
}

var (
	tyEmbA  = &GTy{Kind: "S", Name: "EmbA", rt: reflect.TypeOf(EmbA{}), Fields: []GField{{Name: "X", Exported: true, T: &GTy{Kind: "i", rt: reflect.TypeOf(int(0))}}, {Name: "Y", Exported: true, TagHas: true, TagName: "y", Omit: true, T: &GTy{Kind: "s", rt: reflect.TypeOf("")}}}}
	tyEmbB  = &GTy{Kind: "S", Name: "EmbB", rt: reflect.TypeOf(EmbB{}), Fields: []GField{{Name: "Z", Exported: true, T: &GTy{Kind: "P", Elem: &GTy{Kind: "i", rt: reflect.TypeOf(int(0))}, rt: reflect.TypeOf((*int)(nil))}}, {Name: "L", Exported: true, T: &GTy{Kind: "L", Elem: &GTy{Kind: "i", rt: reflect.TypeOf(int(0))}, rt: reflect.TypeOf([]int(nil))}}}}
	tyInner = &GTy{Kind: "S", Name: "Inner", rt: reflect.TypeOf(Inner{}), Fields: []GField{{Name: "A", Exported: true, T: &GTy{Kind: "i", rt: reflect.TypeOf(int(0))}}, {Name: "B", Exported: true, TagHas: true, TagName: "b", Omit: true, T: &GTy{Kind: "s", rt: reflect.TypeOf("")}}, {Name: "C", Exported: true, T: &GTy{Kind: "L", Elem: &GTy{Kind: "s", rt: reflect.TypeOf("")}, rt: reflect.TypeOf([]string(nil))}}}}
	anyType = reflect.TypeOf((*any)(nil)).Elem()
)

var intTypes = []reflect.Type{reflect.TypeOf(int(0)), reflect.TypeOf(int8(0)), reflect.TypeOf(int16(0)), reflect.TypeOf(int32(0)), reflect.TypeOf(int64(0)),
	reflect.TypeOf(uint(0)), reflect.TypeOf(uint8(0)), reflect.TypeOf(uint16(0)), reflect.TypeOf(uint32(0)), reflect.TypeOf(uint64(0))}

func genGTy(r *Rng, depth int, allowStruct bool) *GTy {
	k := r.Intn(14)
	switch {
	case k < 2:
		return &GTy{Kind: "b", rt: reflect.TypeOf(false)}
	case k < 5:
		return &GTy{Kind: "i", rt: intTypes[r.Intn(len(intTypes))]}
	case k < 6:
		if r.Chance(35) {
			return &GTy{Kind: "f", rt: reflect.TypeOf(float32(0))}
		}
		return &GTy{Kind: "f", rt: reflect.TypeOf(float64(0))}
	case k < 8:
		return &GTy{Kind: "s", rt: reflect.TypeOf("")}
	case k < 9:
		return &GTy{Kind: "A", rt: anyType}
	}
	if depth <= 0 {
		return &GTy{Kind: "s", rt: reflect.TypeOf("")}
	}
	switch k {
	case 9:
		e := genGTy(r, depth-1, allowStruct)
		if e.Kind == "P" || e.Kind == "A" {
			e = &GTy{Kind: "i", rt: reflect.TypeOf(int(0))}
		}
		return &GTy{Kind: "P", Elem: e, rt: reflect.PointerTo(e.rt)}
	case 10:
		e := genGTy(r, depth-1, allowStruct)
		if e.rt.Kind() == reflect.Uint8 { // []uint8 is []byte: encoded per BytesAs, not as a list
			e = &GTy{Kind: "i", rt: reflect.TypeOf(int(0))}
		}
		return &GTy{Kind: "L", Elem: e, rt: reflect.SliceOf(e.rt)}
	case 11:
		e := genGTy(r, depth-1, allowStruct)
		return &GTy{Kind: "M", Elem: e, rt: reflect.MapOf(reflect.TypeOf(""), e.rt)}
	case 12:
		return tyInner
	}
	if !allowStruct {
		return tyInner
	}
	return genStructTy(r, depth-1, false)
}

var fieldNames = []string{"A", "Bb", "Ccc", "Dddd", "Name", "ID", "URL", "Value", "X2", "Zed", "Kind", "Qty"}

func genStructTy(r *Rng, depth int, allowEmbed bool) *GTy {
	n := 1 + r.Intn(5)
	t := &GTy{Kind: "S"}
	used := map[string]bool{}
	keys := map[string]bool{}
	var sf []reflect.StructField
	if allowEmbed && r.Chance(40) {
		e := tyEmbA
		if r.Bool() {
			e = tyEmbB
		}
		ft := e
		rt := e.rt
		if r.Chance(40) {
			ft = &GTy{Kind: "P", Elem: e, rt: reflect.PointerTo(e.rt)}
			rt = ft.rt
		}
		t.Fields = append(t.Fields, GField{Name: e.Name, Exported: true, Emb: true, T: ft})
		sf = append(sf, reflect.StructField{Name: e.Name, Type: rt, Anonymous: true})
		for _, f := range e.Fields {
			keys[strings.ToLower(f.Name)] = true
		}
		keys[strings.ToLower(e.Name)] = true
		used[e.Name] = true
	}
	for i := 0; i < n; i++ {
		name := fieldNames[r.Intn(len(fieldNames))]
		if used[name] || keys[strings.ToLower(name)] {
			continue
		}
		used[name] = true
		f := GField{Name: name, Exported: true, T: genGTy(r, depth, depth > 0)}
		if r.Chance(6) {
			f.Name = "low" + name
			f.Exported = false
		}
		switch r.Intn(9) {
		case 0, 1:
			// tag names may carry punctuation and spaces (encoding/json accepts them too)
			f.TagHas, f.TagName = true, r.Pick([]string{"t_", "t_", "t_", "@", "$", "a.", "x:", "full "})+strings.ToLower(name)
		case 2:
			f.TagHas, f.TagName, f.Omit = true, "o_"+strings.ToLower(name), true
		case 3:
			f.TagHas, f.Omit = true, true
		case 4:
			if r.Chance(40) {
				f.TagHas, f.Dash = true, true
			} else if r.Chance(30) && !keys["-"] {
				f.TagHas, f.TagName = true, "-" // the tag "-," : a member named "-"
			}
		case 5:
			if f.T.Kind == "i" || f.T.Kind == "b" || f.T.Kind == "f" {
				f.TagHas, f.TagName, f.Str = true, "s_"+strings.ToLower(name), true
			}
		}
		key := strings.ToLower(name)
		if f.TagHas && f.TagName != "" {
			key = f.TagName
		}
		if keys[key] {
			continue
		}
		keys[key] = true
		keys[strings.ToLower(name)] = true
		t.Fields = append(t.Fields, f)
		s := reflect.StructField{Name: f.Name, Type: f.T.rt, Tag: f.tag()}
		if !f.Exported {
			s.PkgPath = "main"
		}
		sf = append(sf, s)
	}
	t.rt = reflect.StructOf(sf)
	return t
}

// a value of type t: the reflect.Value and its description for the model
func genGVal(r *Rng, t *GTy, depth int) (reflect.Value, string) {
	return genGValIn(r, t, depth, false)
}

// inMap: the value is a member of a map; such members are never nil or empty here (how the omit
// options treat map members is a recorded finding, exercised by directed witnesses only)
func genGValIn(r *Rng, t *GTy, depth int, inMap bool) (reflect.Value, string) {
	v := reflect.New(t.rt).Elem()
	switch t.Kind {
	case "b":
		b := r.Bool() || inMap
		v.SetBool(b)
		if b {
			return v, "t"
		}
		return v, "f"
	case "i":
		n := int64(r.Intn(7) - 1)
		if r.Chance(45) {
			n = 0
		}
		if inMap && n == 0 {
			n = 2
		}
		if n < 0 && t.rt.Kind() >= reflect.Uint && t.rt.Kind() <= reflect.Uint64 {
			n = 3
		}
		if t.rt.Kind() >= reflect.Uint && t.rt.Kind() <= reflect.Uint64 {
			v.SetUint(uint64(n))
		} else {
			v.SetInt(n)
		}
		return v, "i" + strconv.FormatInt(n, 10)
	case "f":
		f := []float64{0, 1.5, -2.25, 3, 0.1, 2.7}[r.Intn(6)]
		if inMap && f == 0 {
			f = 1.5
		}
		v.SetFloat(f)
		if t.rt.Kind() == reflect.Float32 {
			// the shortest text that reads back as this float32 is what every encoder must write
			return v, "d" + strconv.FormatFloat(float64(float32(f)), 'g', -1, 32)
		}
		return v, fmtFloat(f)
	case "s":
		s := r.Pick([]string{"", "", "a", "xy", "<&>"})
		if inMap && s == "" {
			s = "m"
		}
		v.SetString(s)
		return v, "s" + hx([]byte(s))
	case "P":
		if r.Chance(35) && !inMap {
			return v, "n"
		}
		e, d := genGValIn(r, t.Elem, depth, inMap)
		p := reflect.New(t.Elem.rt)
		p.Elem().Set(e)
		v.Set(p)
		return v, "(P " + d + ")"
	case "L":
		switch r.Intn(4) {
		case 0:
			if !inMap {
				return v, "n"
			}
		case 1:
			if !inMap {
				v.Set(reflect.MakeSlice(t.rt, 0, 0))
				return v, "(L)"
			}
		}
		n := 1 + r.Intn(2)
		s := reflect.MakeSlice(t.rt, n, n)
		ds := make([]string, n)
		for i := 0; i < n; i++ {
			e, d := genGValIn(r, t.Elem, depth, false)
			s.Index(i).Set(e)
			ds[i] = d
		}
		v.Set(s)
		return v, "(L " + strings.Join(ds, " ") + ")"
	case "M":
		switch r.Intn(4) {
		case 0:
			if !inMap {
				return v, "n"
			}
		case 1:
			if !inMap {
				v.Set(reflect.MakeMap(t.rt))
				return v, "(M)"
			}
		}
		m := reflect.MakeMap(t.rt)
		var ds []string
		for _, k := range []string{"k", "m"}[:1+r.Intn(2)] {
			e, d := genGValIn(r, t.Elem, depth, true)
			m.SetMapIndex(reflect.ValueOf(k), e)
			ds = append(ds, "(k"+hx([]byte(k))+" "+d+")")
		}
		v.Set(m)
		return v, "(M " + strings.Join(ds, " ") + ")"
	case "A":
		var dt *GTy
		k := r.Intn(8)
		if inMap && k < 2 {
			k = 3
		}
		switch k {
		case 0, 1:
			return v, "n"
		case 2:
			dt = &GTy{Kind: "b", rt: reflect.TypeOf(false)}
		case 3:
			dt = &GTy{Kind: "i", rt: reflect.TypeOf(int64(0))}
		case 4:
			dt = &GTy{Kind: "s", rt: reflect.TypeOf("")}
		case 5:
			dt = tyInner
		case 6:
			dt = &GTy{Kind: "P", Elem: tyInner, rt: reflect.PointerTo(tyInner.rt)}
		default:
			dt = &GTy{Kind: "L", Elem: &GTy{Kind: "i", rt: reflect.TypeOf(int(0))}, rt: reflect.TypeOf([]int(nil))}
		}
		e, d := genGValIn(r, dt, depth, inMap)
		if d == "n" { // a typed nil in an interface is not nil for Go: keep to real values
			return v, "n"
		}
		v.Set(e)
		return v, "(A " + dt.Sexp() + " " + d + ")"
	}
	// struct
	ds := make([]string, len(t.Fields))
	for i, f := range t.Fields {
		if !f.Exported {
			ds[i] = "n"
			continue
		}
		e, d := genGVal(r, f.T, depth-1)
		v.Field(i).Set(e)
		ds[i] = d
	}
	return v, "(S " + strings.Join(ds, " ") + ")"
}

type encCase struct {
	ty   *GTy
	val  reflect.Value
	desc string
	flag [5]bool // tags exact nest omitnil omitempty
	ck   string
	addr bool // pass a pointer (addressable fields) or the struct value
}

func (c *encCase) opts() ojg.Options {
	o := ojg.Options{Sort: true, UseTags: c.flag[0], KeyExact: c.flag[1], NestEmbed: c.flag[2], OmitNil: c.flag[3], OmitEmpty: c.flag[4], CreateKey: c.ck}
	return o
}

func (c *encCase) arg() any {
	if c.addr {
		p := reflect.New(c.ty.rt)
		p.Elem().Set(c.val)
		return p.Interface()
	}
	return c.val.Interface()
}

func parsedShow(text string, useSen bool) string {
	if useSen {
		v, err := sen.Parse([]byte(text))
		if err != nil {
			return "unparsable: " + err.Error() + ": " + text
		}
		return normNums(Show(v))
	}
	v, err := oj.ParseString(text)
	if err != nil {
		return "unparsable: " + err.Error() + ": " + text
	}
	return normNums(Show(v))
}

func suiteStruct(tier string, seed uint64, model string) *Report {
	rep := &Report{Property: "C15", Tier: tier, Seed: seed}
	r := NewRng(seed)
	nTypes := 2000
	if tier == "thorough" {
		nTypes = 25000
	}
	var cases []*encCase
	for i := 0; i < nTypes; i++ {
		t := genStructTy(r, 2, true)
		for j := 0; j < 3; j++ {
			v, d := genGVal(r, t, 2)
			for k := 0; k < 4; k++ {
				c := &encCase{ty: t, val: v, desc: d, addr: r.Bool()}
				mask := r.Intn(32)
				if k == 0 {
					mask = []int{0, 1, 2, 3, 4, 8, 16, 17}[(i+j)%8]
				}
				for b := 0; b < 5; b++ {
					c.flag[b] = mask&(1<<b) != 0
				}
				if r.Chance(15) && !c.flag[4] { // the generated types have no name: an empty create value would itself be "empty"
					c.ck = "^"
				}
				cases = append(cases, c)
			}
		}
	}
	reqs := make([]string, 0, 6*len(cases))
	for _, c := range cases {
		fl := ""
		for b := 0; b < 5; b++ {
			fl += b01(c.flag[b])
		}
		ck := "-"
		if c.ck != "" {
			ck = hx([]byte(c.ck))
		}
		// writer spec, decompose spec, then the recorded-finding variants: tag-exact (both), deref-empty (decompose), both
		for _, v := range []string{"000", "100", "010", "110", "101", "111"} {
			reqs = append(reqs, "enc\t"+fl+v+"\t"+ck+"\t"+c.ty.Sexp()+"\t"+c.desc)
		}
	}
	ans, err := RunModel(model, reqs)
	if err != nil {
		rep.Add(Disagreement{Kind: "harness-error", Detail: err.Error()})
		return rep
	}
	distinct := map[string]bool{}
	for i, c := range cases {
		specW, specD := normNums(ans[6*i]), normNums(ans[6*i+1])
		varW, varD := normNums(ans[6*i+2]), normNums(ans[6*i+3])
		derefD, derefTagD := normNums(ans[6*i+4]), normNums(ans[6*i+5])
		o := c.opts()
		desc := fmt.Sprintf("opts{tags=%v exact=%v nest=%v omitnil=%v omitempty=%v ck=%q addr=%v} type=%s value=%s", c.flag[0], c.flag[1], c.flag[2], c.flag[3], c.flag[4], c.ck, c.addr, c.ty.Sexp(), c.desc)
		rep.Evaluations++
		distinct[c.ty.Sexp()] = true
		rep.Count(fmt.Sprintf("opts:tags=%v,exact=%v,nest=%v", c.flag[0], c.flag[1], c.flag[2]))
		rep.Count(fmt.Sprintf("opts:omitnil=%v,omitempty=%v,ck=%v", c.flag[3], c.flag[4], c.ck != ""))
		check := func(where, got, want string) {
			if got != want {
				cl := ""
				switch {
				case (want == specW && got == varW) || (want == specD && got == varD):
					cl = "usetags-untagged-exact"
				case want == specD && got == derefD:
					cl = "decompose-empty-through-pointer"
				case want == specD && got == derefTagD:
					cl = "decompose-empty-through-pointer+usetags-untagged-exact"
				}
				rep.Add(Disagreement{Case: desc, Where: where, Kind: "impl-vs-spec:encoding", Impl: got, Spec: want, Class: cl})
			}
		}
		check("oj.JSON", safe(func() string { oo := o; return parsedShow(oj.JSON(c.arg(), &oo), false) }), specW)
		check("oj.JSON/indent", safe(func() string { oo := o; oo.Indent = 2; return parsedShow(oj.JSON(c.arg(), &oo), false) }), specW)
		check("oj.Marshal", safe(func() string {
			oo := o
			b, err := oj.Marshal(c.arg(), &oo)
			if err != nil {
				return "error: " + err.Error()
			}
			return parsedShow(string(b), false)
		}), specW)
		check("oj.Write", safe(func() string {
			oo := o
			var b bytes.Buffer
			if err := oj.Write(&b, c.arg(), &oo); err != nil {
				return "error: " + err.Error()
			}
			return parsedShow(b.String(), false)
		}), specW)
		if !(c.flag[0] && strings.Contains(c.ty.Sexp(), " 1 2d ")) { // a member named "-" is written bare by sen (recorded C10 finding)
			check("sen.String", safe(func() string { oo := o; return parsedShow(sen.String(c.arg(), &oo), true) }), specW)
			check("sen.String/indent", safe(func() string { oo := o; oo.Indent = 2; return parsedShow(sen.String(c.arg(), &oo), true) }), specW)
		}
		check("pretty.JSON", safe(func() string {
			oo := o
			return parsedShow(pretty.JSON(c.arg(), &oo, 60.2), false)
		}), specD)
		check("alt.Decompose", safe(func() string { oo := o; return normNums(Show(alt.Decompose(c.arg(), &oo))) }), specD)
		// Go-compatible options: oj.Marshal without options against encoding/json
		if i%4 == 0 {
			gj, gerr := json.Marshal(c.arg())
			ob, oerr := oj.Marshal(c.arg())
			rep.Count("gocompat")
			switch {
			case gerr != nil || oerr != nil:
				if (gerr == nil) != (oerr == nil) {
					rep.Add(Disagreement{Case: desc, Where: "oj.Marshal vs encoding/json", Kind: "impl-law:go-compat", Impl: fmt.Sprint(oerr), Spec: fmt.Sprint(gerr)})
				}
			default:
				a, b := nilAsEmpty(parsedShow(string(ob), false)), nilAsEmpty(parsedShow(string(gj), false))
				if a != b {
					rep.Add(Disagreement{Case: desc, Where: "oj.Marshal vs encoding/json", Kind: "impl-law:go-compat", Impl: a, Spec: b})
				}
			}
		}
		if i%977 == 0 && len(rep.Samples) < 10 {
			rep.Samples = append(rep.Samples, desc)
		}
	}
	// directed witnesses of the recorded finding: how the omit options treat the members of maps held
	// in struct fields. Attributed to the finding only if the same type with non-empty members agrees.
	witnessMapOmission(rep, model)
	rep.Distinct = len(distinct)
	rep.Rule = "struct types generated at run time with reflect.StructOf: 1-5 fields of kinds bool, ten integer kinds, float64, string, any, pointers, slices, maps, nested generated and named structs; tags none / name / name,omitempty / ,omitempty / - / name,string; unexported fields; an embedded named struct or pointer to it (nil too); 3 values per type (zero values, nil and empty containers, interface values holding scalars, structs, pointers to structs, slices); every one of the 32 combinations of UseTags, KeyExact, NestEmbed, OmitNil, OmitEmpty with and without CreateKey; value passed by pointer and by value; oj.JSON (tight and indented), oj.Marshal, oj.Write, sen.String (tight and indented), pretty.JSON and alt.Decompose parsed back and compared with the extracted specification; oj.Marshal with the Go options against encoding/json (null vs empty container not distinguished); non-trivial = distinct struct types"
	return rep
}

// nil slices and maps may appear as empty ones: compare null, [] and {} as one
func nilAsEmpty(s string) string {
	s = strings.ReplaceAll(s, "[]", "n")
	s = strings.ReplaceAll(s, "{}", "n")
	return s
}

type WitMaps struct {
	MS map[string]string
	MI map[string]int
	MA map[string]any
}

func witnessMapOmission(rep *Report, model string) {
	ts := &GTy{Kind: "S", Name: "WitMaps", rt: reflect.TypeOf(WitMaps{}), Fields: []GField{
		{Name: "MS", Exported: true, T: &GTy{Kind: "M", Elem: &GTy{Kind: "s"}}},
		{Name: "MI", Exported: true, T: &GTy{Kind: "M", Elem: &GTy{Kind: "i"}}},
		{Name: "MA", Exported: true, T: &GTy{Kind: "M", Elem: &GTy{Kind: "A"}}}}}
	empties := &WitMaps{MS: map[string]string{"e": "", "x": "y"}, MI: map[string]int{"z": 0, "o": 1}, MA: map[string]any{"n": nil, "v": int64(1)}}
	emptiesD := "(S (M (k65 s) (k78 s79)) (M (k6f i1) (k7a i0)) (M (k6e n) (k76 (A i i1))))"
	full := &WitMaps{MS: map[string]string{"e": "q", "x": "y"}, MI: map[string]int{"z": 2, "o": 1}, MA: map[string]any{"n": int64(3), "v": int64(1)}}
	fullD := "(S (M (k65 s71) (k78 s79)) (M (k6f i1) (k7a i2)) (M (k6e (A i i3)) (k76 (A i i1))))"
	for _, fl := range []string{"00010", "00001", "00011"} {
		o := ojg.Options{Sort: true, OmitNil: fl[3] == '1', OmitEmpty: fl[4] == '1'}
		reqs := []string{"enc\t" + fl + "000\t-\t" + ts.Sexp() + "\t" + emptiesD, "enc\t" + fl + "100\t-\t" + ts.Sexp() + "\t" + emptiesD,
			"enc\t" + fl + "000\t-\t" + ts.Sexp() + "\t" + fullD, "enc\t" + fl + "100\t-\t" + ts.Sexp() + "\t" + fullD}
		ans, err := RunModel(model, reqs)
		if err != nil {
			rep.Add(Disagreement{Kind: "harness-error", Detail: err.Error()})
			return
		}
		encs := []struct {
			name string
			dec  int
			f    func(v any) string
		}{
			{"oj.JSON", 0, func(v any) string { oo := o; return parsedShow(oj.JSON(v, &oo), false) }},
			{"sen.String", 0, func(v any) string { oo := o; return parsedShow(sen.String(v, &oo), true) }},
			{"alt.Decompose", 1, func(v any) string { oo := o; return normNums(Show(alt.Decompose(v, &oo))) }},
		}
		for _, e := range encs {
			rep.Evaluations++
			rep.Count("witness:map-member-omission")
			got := safe(func() string { return e.f(empties) })
			want := normNums(ans[e.dec])
			if got == want {
				continue
			}
			cl := ""
			if safe(func() string { return e.f(full) }) == normNums(ans[2+e.dec]) {
				cl = "omit-options-inside-map-members"
			}
			rep.Add(Disagreement{Case: fmt.Sprintf("witness:map-member-omission omitnil=%v omitempty=%v value=%s", o.OmitNil, o.OmitEmpty, emptiesD), Where: e.name,
				Kind: "impl-vs-spec:encoding", Impl: got, Spec: want, Class: cl})
		}
	}
}

// members held in interfaces ([]any and map[string]any values): pointers to scalars, named scalar
// types, typed nil pointers, mixed with plain members: all encoders must describe the tree that
// encoding/json describes
type dLevel int
type dLabel string
type dFlag bool
type dRatio float64
type dReading struct {
	Name   string
	Values []any
	Extra  map[string]any
	Any    any
}

// untypeNilMapMembers returns a copy of v in which every member of a map[string]any that is a nil
// pointer of some type is replaced by an untyped nil.
func untypeNilMapMembers(v any) (any, bool) {
	changed := false
	var walk func(v any, inMap bool) any
	walk = func(v any, inMap bool) any {
		switch t := v.(type) {
		case []any:
			o := make([]any, len(t))
			for i, e := range t {
				o[i] = walk(e, false)
			}
			return o
		case map[string]any:
			o := map[string]any{}
			for k, e := range t {
				o[k] = walk(e, true)
			}
			return o
		case *dReading:
			c := *t
			c.Values, _ = walk(t.Values, false).([]any)
			c.Extra, _ = walk(t.Extra, false).(map[string]any)
			return &c
		}
		if inMap && v != nil {
			if rv := reflect.ValueOf(v); rv.Kind() == reflect.Ptr && rv.IsNil() {
				changed = true
				return nil
			}
		}
		return v
	}
	out := walk(v, false)
	return out, changed
}

func suiteIfaceMembers(tier string, seed uint64) *Report {
	rep := &Report{Property: "C15", Tier: tier, Seed: seed}
	r := NewRng(seed + 1515)
	n := 120
	if tier == "thorough" {
		n = 3000
	}
	pool := func() any {
		i, f, s, b := r.Intn(9), float64(r.Intn(9))+0.5, r.Pick([]string{"ab", "", "x y"}), r.Bool()
		var np *int
		var nl *dLabel
		switch r.Intn(14) {
		case 0:
			return &i
		case 1:
			return &f
		case 2:
			return &s
		case 3:
			return &b
		case 4:
			return dLevel(i)
		case 5:
			return dLabel(s)
		case 6:
			return dFlag(b)
		case 7:
			return dRatio(f)
		case 8:
			return np
		case 9:
			return nl
		case 10:
			return int64(i)
		case 11:
			return s
		case 12:
			return nil
		default:
			return []any{&i, dLevel(i)}
		}
	}
	for c := 0; c < n; c++ {
		m := 1 + r.Intn(5)
		vals := make([]any, m)
		for j := range vals {
			vals[j] = pool()
		}
		var v any = vals
		switch r.Intn(4) {
		case 1:
			v = map[string]any{"k": vals, "z": pool()}
		case 2:
			v = &dReading{Name: "n", Values: vals, Extra: map[string]any{"k": []any{pool(), pool()}}, Any: pool()}
		case 3:
			v = []any{vals, map[string]any{"a": pool()}}
		}
		wantB, err := json.Marshal(v)
		if err != nil {
			continue
		}
		want := parsedShow(string(wantB), false)
		rep.Evaluations++
		for _, indent := range []int{0, 2} {
			o := ojg.Options{Sort: true, Indent: indent, KeyExact: true}
			encs := []struct {
				name string
				sen  bool
				run  func() string
			}{
				{"oj.JSON", false, func() string { return oj.JSON(v, &o) }},
				{"sen.String", true, func() string { return sen.String(v, &o) }},
				{"pretty.JSON", false, func() string { return pretty.JSON(v, &o) }},
				{"pretty.SEN", true, func() string { return pretty.SEN(v, &o) }},
				{"alt.Decompose+oj.JSON", false, func() string { return oj.JSON(alt.Decompose(v, &o), &o) }},
			}
			for _, e := range encs {
				text := safe(e.run)
				got := text
				if !strings.HasPrefix(text, "F ") {
					got = parsedShow(text, e.sen)
				}
				if got != want {
					rep.Add(Disagreement{Case: string(wantB), Where: fmt.Sprintf("%s indent=%d", e.name, indent), Kind: "impl-vs-spec:iface-members", Impl: got, Spec: want, Detail: text})
				}
			}
			// OmitNil: no reference encoder; every encoder must describe the tree oj.JSON describes
			on := o
			on.OmitNil = true
			o = on
			ref := parsedShow(safe(encs[0].run), false)
			for _, e := range encs[1:] {
				text := safe(e.run)
				got := text
				if !strings.HasPrefix(text, "F ") {
					got = parsedShow(text, e.sen)
				}
				if got != ref {
					// exact attribution of the recorded behaviour: with the typed nil pointers that are
					// members of a map[string]any replaced by untyped nils, this encoder agrees with oj.JSON
					class := ""
					if dv, changed := untypeNilMapMembers(v); changed {
						saved := v
						v = dv
						t2 := safe(e.run)
						r2 := parsedShow(safe(encs[0].run), false)
						v = saved
						if !strings.HasPrefix(t2, "F ") && parsedShow(t2, e.sen) == r2 {
							class = "typed-nil-pointer-map-member-omitnil"
						}
					}
					rep.Add(Disagreement{Case: string(wantB), Where: fmt.Sprintf("%s indent=%d OmitNil", e.name, indent), Kind: "impl-law:iface-members-omitnil", Impl: got, Spec: ref, Detail: text, Class: class})
				}
			}
		}
	}
	_ = 0
	rep.Rule = "interface-held members (also under OmitNil: all encoders must agree with oj.JSON): []any / map[string]any values (top level, in a map, in a struct field) holding pointers to scalars, named scalar types, typed nil pointers and plain values; oj.JSON, sen.String, pretty.JSON, pretty.SEN (tight and indented) and alt.Decompose must describe the tree encoding/json describes"
	return rep
}
