package main

import (
	"math/big"
	"strconv"
	"strings"
)

// normalised decimal denotation of a JSON-number-like text: sign, mantissa digits without
// leading/trailing zeros, decimal exponent. ok=false if the text is not a decimal literal.
func normDec(s string) (neg bool, mant string, exp *big.Int, ok bool) {
	i := 0
	if i < len(s) && (s[i] == '-' || s[i] == '+') {
		neg = s[i] == '-'
		i++
	}
	j := i
	for j < len(s) && s[j] >= '0' && s[j] <= '9' {
		j++
	}
	ip := s[i:j]
	fp := ""
	if j < len(s) && s[j] == '.' {
		k := j + 1
		for k < len(s) && s[k] >= '0' && s[k] <= '9' {
			k++
		}
		fp = s[j+1 : k]
		j = k
	}
	exp = new(big.Int)
	if j < len(s) && (s[j] == 'e' || s[j] == 'E') {
		if _, good := exp.SetString(strings.TrimPrefix(s[j+1:], "+"), 10); !good {
			return false, "", nil, false
		}
		j = len(s)
	}
	if j != len(s) || len(ip)+len(fp) == 0 {
		return false, "", nil, false
	}
	m := strings.TrimLeft(ip+fp, "0")
	exp.Sub(exp, big.NewInt(int64(len(fp))))
	t := strings.TrimRight(m, "0")
	exp.Add(exp, big.NewInt(int64(len(m)-len(t))))
	if t == "" {
		return false, "0", new(big.Int), true
	}
	return neg, t, exp, true
}

func sameDec(a, b string) bool {
	n1, m1, e1, ok1 := normDec(a)
	n2, m2, e2, ok2 := normDec(b)
	return ok1 && ok2 && n1 == n2 && m1 == m2 && e1.Cmp(e2) == 0
}

func plainInt(lit string) bool {
	s := strings.TrimPrefix(lit, "-")
	if s == "" {
		return false
	}
	for _, c := range s {
		if c < '0' || c > '9' {
			return false
		}
	}
	return true
}

// numOK: does the implementation's number token denote the literal, in one of the ways
// property C02 allows?  Returns "" or the reason it does not.
func numOK(lit, tok string) string {
	if len(tok) < 2 {
		return "not a number token"
	}
	if plainInt(lit) {
		if v, ok := new(big.Int).SetString(lit, 10); ok && new(big.Int).Abs(v).IsInt64() && tok[0] != 'i' { // magnitude fits int64
			if v.Cmp(big.NewInt(9223372036854775800)) >= 0 && tok[0] == 'b' && sameDec(lit, tok[1:]) {
				// exactly the recorded class: non-negative literal whose first 18 digits reach
				// BigLimit, delivered as json.Number/gen.Big with the same digits
				return "KNOWN:int64-top-decade"
			}
			return "plain integer literal that fits int64 is not delivered as int64"
		}
	}
	switch tok[0] {
	case 'i':
		if !sameDec(lit, tok[1:]) {
			return "int64 differs from the literal"
		}
	case 'd':
		f, _ := strconv.ParseFloat(lit, 64)
		if fmtFloat(f) != tok {
			return "float64 is not the nearest to the literal (" + fmtFloat(f) + ")"
		}
	case 'b':
		if !sameDec(lit, tok[1:]) {
			return "big number text denotes another number"
		}
	default:
		return "not a number token"
	}
	return ""
}

func splitDeco(tk string) (pre, core, post string) {
	j := 0
	for j < len(tk) && (tk[j] == '[' || tk[j] == '{') {
		j++
	}
	k := len(tk)
	for k > j && (tk[k-1] == ']' || tk[k-1] == '}') {
		k--
	}
	return tk[:j], tk[j:k], tk[k:]
}

// specMatch compares an implementation value text with the specification's value text
// (numbers in the spec are b<literal>).
func specMatch(spec, impl string) (res string) {
	known := ""
	defer func() {
		if res == "" {
			res = known
		}
	}()
	st := strings.Split(spec, " ")
	it := strings.Split(impl, " ")
	if len(st) != len(it) {
		return "different structure"
	}
	for i := range st {
		p1, c1, q1 := splitDeco(st[i])
		if st[i] == it[i] && !(len(c1) > 0 && c1[0] == 'b') {
			continue
		}
		p2, c2, q2 := splitDeco(it[i])
		if p1 != p2 || q1 != q2 {
			return "different structure"
		}
		if len(c1) > 0 && c1[0] == 'b' {
			if why := numOK(c1[1:], c2); why != "" {
				if strings.HasPrefix(why, "KNOWN:") {
					known = why
					continue
				}
				return why + ": literal " + c1[1:] + " delivered as " + c2
			}
			continue
		}
		return "different value: " + c1 + " vs " + c2
	}
	return ""
}
