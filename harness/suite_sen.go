package main

import (
	"encoding/hex"
	"fmt"
	"sort"
	"strings"
	"unicode/utf8"

	"github.com/ohler55/ojg"
	"github.com/ohler55/ojg/pretty"
	"github.com/ohler55/ojg/sen"
)

var senStrPieces = []string{"a", "b", "xyz", " ", "\"", "'", "\\", "/", "//", "/*", "*/", "#", "\n", "\t", "\x01", "\x7f",
	"<", ">", "&", "|", "`", "~", "!", "@", "$", "%", "^", "*", "(", ")", "=", "?", ";", "é", "€", "😀", " ", "\xff", "\xc3",
	"{", "}", "[", "]", ",", ":", ".", "-", "+", "0", "1", "9", "e", "E", "_", "\ufefb", "\uff45", "\ufeff"}

var senSpecial = []string{"true", "false", "null", "True", "nul", "truex", "-", "+", "-1", "+1", "1", "0", "1.5", "1e5", "-a", "+a", ".5",
	"0x1", "NaN", "Infinity", "\ufefbz", "\uff45\uff45", "\ufeffa", "a b", "a:b", "a,b", "", " ", "//", "/**/", "()", "f(1)", strings.Repeat("k", 64), strings.Repeat("k", 65)}

func genSenString(r *Rng) string {
	if r.Chance(25) {
		return r.Pick(senSpecial)
	}
	n := 1 + r.Intn(3)
	var sb strings.Builder
	for i := 0; i < n; i++ {
		sb.WriteString(r.Pick(senStrPieces))
	}
	return sb.String()
}

func genSenTree(r *Rng, depth int) any {
	k := r.Intn(10)
	if depth <= 0 || k < 4 {
		switch r.Intn(8) {
		case 0:
			return nil
		case 1:
			return r.Bool()
		case 2:
			return int64(r.Intn(2001) - 1000)
		case 3:
			return niceFloat(r)
		case 4:
			return awkwardFloats[r.Intn(len(awkwardFloats))]
		default:
			return genSenString(r)
		}
	}
	if k < 7 {
		n := r.Intn(5)
		a := make([]any, n)
		for i := range a {
			a[i] = genSenTree(r, depth-1)
		}
		return a
	}
	n := r.Intn(5)
	m := map[string]any{}
	for i := 0; i < n; i++ {
		key := genSenString(r)
		if !utf8.ValidString(key) {
			key += fmt.Sprintf("#%d", i)
		}
		m[key] = genSenTree(r, depth-1)
	}
	return m
}

func sanitizeGo(s string) string {
	var sb strings.Builder
	for i := 0; i < len(s); {
		rn, w := utf8.DecodeRuneInString(s[i:])
		if rn == utf8.RuneError && w <= 1 {
			sb.WriteString("�")
			i++
			continue
		}
		sb.WriteString(s[i : i+w])
		i += w
	}
	return sb.String()
}

func isOmitted(v any, o *ojg.Options) bool {
	switch t := v.(type) {
	case nil:
		return o.OmitNil
	case string:
		return o.OmitEmpty && t == ""
	case []any:
		return o.OmitEmpty && len(t) == 0
	case map[string]any:
		return o.OmitEmpty && len(t) == 0
	}
	return false
}

func expectedTree(v any, o *ojg.Options) any {
	switch t := v.(type) {
	case string:
		return sanitizeGo(t)
	case []any:
		a := make([]any, len(t))
		for i, e := range t {
			a[i] = expectedTree(e, o)
		}
		return a
	case map[string]any:
		m := map[string]any{}
		for k, e := range t {
			if !isOmitted(e, o) {
				m[sanitizeGo(k)] = expectedTree(e, o)
			}
		}
		return m
	}
	return v
}

func reservedWord(s string) bool { return s == "true" || s == "false" || s == "null" }
func signLeading(s string) bool  { return len(s) > 0 && (s[0] == '-' || s[0] == '+') }

// defuse replaces the strings of the recorded class (reserved-word values, sign-leading strings
// and keys) by harmless ones; changed reports whether there were any
func defuse(v any) (out any, changed bool) {
	switch t := v.(type) {
	case string:
		if reservedWord(t) || signLeading(t) {
			return "R" + t, true
		}
	case []any:
		a := make([]any, len(t))
		for i, e := range t {
			var c bool
			a[i], c = defuse(e)
			changed = changed || c
		}
		return a, changed
	case map[string]any:
		m := map[string]any{}
		for k, e := range t {
			nk := k
			if signLeading(k) {
				nk = "R" + k
				changed = true
			}
			var c bool
			m[nk], c = defuse(e)
			changed = changed || c
		}
		return m, changed
	}
	return v, false
}

func suiteSen(tier string, seed uint64, model string) *Report {
	rep := &Report{Property: "C10", Tier: tier, Seed: seed}
	r := NewRng(seed)
	n := 6000
	if tier == "thorough" {
		n = 80000
	}
	var trees []any
	// every special spelling as a value, as a key, and in an array
	for _, s := range senSpecial {
		trees = append(trees, s, []any{s, s}, map[string]any{s: s}, map[string]any{"k": s}, map[string]any{s: int64(1)})
	}
	// all strings of length <= 2 over the piece alphabet
	for _, a := range senStrPieces {
		trees = append(trees, []any{a})
		for _, b := range senStrPieces {
			trees = append(trees, []any{a + b}, map[string]any{a + b: int64(1)})
		}
	}
	// lists of small maps (the table layout of pretty's align option) whose keys mix bare and
	// quoted spellings
	tkeys := []string{"age", "full name", "a", "b c", "z", "0k", "k:", "-x", "id", "\u00e9"}
	for i := 0; i < 60; i++ {
		rows := make([]any, 2+r.Intn(3))
		ks := []string{tkeys[r.Intn(len(tkeys))], tkeys[r.Intn(len(tkeys))], tkeys[r.Intn(len(tkeys))]}
		for j := range rows {
			m := map[string]any{}
			for _, k := range ks {
				if r.Chance(80) {
					m[k] = int64(r.Intn(100))
				}
			}
			rows[j] = m
		}
		trees = append(trees, rows, map[string]any{"t": rows})
	}
	fixedN := len(trees)
	for i := 0; i < n; i++ {
		trees = append(trees, genSenTree(r, 1+r.Intn(4)))
	}
	distinct := map[string]bool{}
	roundTrip := func(t any, o *ojg.Options, writer string, arg any, align bool) (string, string) {
		var out string
		res := safe(func() string {
			switch writer {
			case "sen.String":
				out = sen.String(t, o)
			case "sen.Bytes":
				out = string(sen.Bytes(t, o))
			case "sen.Write":
				var w chunkWriter
				if err := sen.Write(&w, t, o); err != nil {
					return "E " + err.Error()
				}
				out = w.String()
			case "pretty.SEN":
				out = pretty.SEN(t, arg, align, o)
			case "pretty.WriteSEN":
				var w chunkWriter
				if err := pretty.WriteSEN(&w, t, arg, align, o); err != nil {
					return "E " + err.Error()
				}
				out = w.String()
			}
			v, err := sen.Parse([]byte(out))
			if err != nil {
				return "E " + err.Error()
			}
			return normNums(Show(v))
		})
		return res, out
	}
	for i, t := range trees {
		mask := r.Intn(32)
		if i < fixedN {
			mask = (i % 4) * 16 / 2 // html bit and sort vary on the fixed part
		}
		o := &ojg.Options{Indent: []int{0, 0, 2, 4}[r.Intn(4)], Tab: mask&1 != 0, Sort: mask&2 != 0, OmitNil: mask&4 != 0,
			OmitEmpty: mask&8 != 0, HTMLUnsafe: mask&16 == 0, WriteLimit: []int{0, 3, 50}[r.Intn(3)]}
		want := normNums(Show(expectedTree(t, o)))
		desc := fmt.Sprintf("%s opts{indent:%d mask:%d}", Show(t), o.Indent, mask)
		distinct[Show(t)] = true
		type wv struct {
			name  string
			arg   any
			align bool
		}
		writers := []wv{{"sen.String", nil, false}, {"sen.Bytes", nil, false}, {"sen.Write", nil, false}}
		if i%3 == 0 || i < fixedN {
			writers = append(writers, wv{"pretty.SEN", 80.3, false}, wv{"pretty.SEN", 20.2, true}, wv{"pretty.SEN", 80.3, true}, wv{"pretty.WriteSEN", 40.1, i%2 == 0})
		}
		for _, w := range writers {
			rep.Evaluations++
			got, out := roundTrip(t, o, w.name, w.arg, w.align)
			if got == want {
				continue
			}
			class := ""
			if dt, changed := defuse(t); changed {
				if g2, _ := roundTrip(dt, o, w.name, w.arg, w.align); g2 == normNums(Show(expectedTree(dt, o))) {
					class = "bare-reserved-or-sign-string"
				}
			}
			kind := "impl-vs-spec:sen-roundtrip"
			if strings.HasPrefix(got, "F ") {
				kind = "impl-vs-spec:sen-roundtrip-panic"
			}
			rep.Add(Disagreement{Case: desc, Where: w.name, Kind: kind, Impl: got, Spec: want, Detail: out, Class: class})
		}
		if i%1499 == 0 && len(rep.Samples) < 10 {
			rep.Samples = append(rep.Samples, desc)
		}
	}
	if model != "" {
		senModelTie(rep, r, tier, model)
	}
	rep.Distinct = len(distinct)
	rep.Rule = "every special spelling (reserved words, number/sign-like, operators, comments, 64/65-byte tokens) as value, key and array element; all strings of length <= 2 over a 54-piece alphabet (delimiters, quotes, comment markers, control, non-ASCII, invalid UTF-8) as value and as key; lists of small maps with mixed bare/quoted keys (align tables); seeded trees x random options; sen.String/Bytes/Write and pretty.SEN/WriteSEN, each text parsed back with sen.Parse and compared with the expected tree (omitted members removed, invalid UTF-8 replaced); a failure is attributed to the recorded class only if the same tree with exactly those strings defused round-trips; non-trivial = distinct trees"
	return rep
}

// senModelTie ties the executable Coq model of the string clause (Sen/SenStr.v) to the code:
// sen_string against ojg.AppendSENString byte for byte, and the string-value reader rrun against
// sen.Parse with the text placed in an array, as a member value and as a key.
func senModelTie(rep *Report, r *Rng, tier, model string) {
	seen := map[string]bool{}
	var strs []string
	add := func(s string) {
		if !seen[s] {
			seen[s] = true
			strs = append(strs, s)
		}
	}
	for _, s := range senSpecial {
		add(s)
	}
	for b := 0; b < 256; b++ {
		add(string([]byte{byte(b)}))
		add("a" + string([]byte{byte(b)}))
		add(string([]byte{byte(b)}) + "a")
		add("\xe2\x80" + string([]byte{byte(b)}))
		add("\xef\xbb" + string([]byte{byte(b)}) + "z")
		add("\xef\xbf" + string([]byte{byte(b)}))
	}
	for _, a := range senStrPieces {
		for _, b := range senStrPieces {
			add(a + b)
			add("k" + a + b)
		}
	}
	add(strings.Repeat("k", 63) + "é")
	add(strings.Repeat("é", 32))
	add(strings.Repeat("é", 33))
	n := 3000
	if tier == "thorough" {
		n = 60000
	}
	for i := 0; i < n; i++ {
		if r.Chance(50) {
			add(genSenString(r) + genSenString(r))
		} else {
			k := 1 + r.Intn(6)
			b := make([]byte, k)
			for j := range b {
				switch r.Intn(4) {
				case 0:
					b[j] = byte(r.Intn(256))
				case 1:
					b[j] = byte(0x80 + r.Intn(0x80))
				default:
					const cs = "abz019 \"'\\/&<>\n\t\x00\x7f-+:,[]{}()"
					b[j] = cs[r.Intn(len(cs))]
				}
			}
			add(string(b))
		}
	}
	var reqs []string
	for _, s := range strs {
		reqs = append(reqs, "senstr\t0\t"+hx([]byte(s)), "senstr\t1\t"+hx([]byte(s)))
	}
	ans, err := RunModel(model, reqs)
	if err != nil {
		rep.Add(Disagreement{Case: "model", Kind: "harness-error", Detail: err.Error()})
		return
	}
	// texts for the reader: what the writer produced, and hand-made quoted and bare spellings
	texts := map[string]bool{}
	for i, s := range strs {
		for h := 0; h < 2; h++ {
			rep.Evaluations++
			got := hx(ojg.AppendSENString(nil, s, h == 1))
			if got != ans[2*i+h] {
				rep.Add(Disagreement{Case: fmt.Sprintf("%q html=%d", s, h), Where: "ojg.AppendSENString", Kind: "impl-vs-model:sen-string", Impl: got, Model: ans[2*i+h]})
			}
			texts[string(ojg.AppendSENString(nil, s, h == 1))] = true
		}
	}
	rep.Count(fmt.Sprintf("sen-model:strings=%d", len(strs)))
	escs := []string{`\n`, `\t`, `\"`, `\'`, `\/`, `\\`, `\b`, `\f`, `\r`, `A`, `é`, `é`, `\uD83D`, `😀`, `￿`, `\u0000`, `\x`, `\u12`, `\u12g4`, `\`}
	mid := []string{"a", " ", "'", `"`, "é", "\t", "\n", "\r", "\x01", "\x7f", "/", "//", "/*", ":", ",", "]", "}"}
	for _, q := range []string{`"`, `'`} {
		for _, e := range escs {
			for _, m := range mid {
				if m != q {
					for _, t := range []string{q + m + e + m + q, q + e + e + q} {
						if !texts[t] {
							texts[t] = false // hand-made: may be more or less than one value
						}
					}
				}
			}
		}
	}
	for _, m := range mid {
		if !texts["a"+m+"b"] {
			texts["a"+m+"b"] = false
		}
	}
	var tl []string
	for t := range texts {
		tl = append(tl, t)
	}
	sort.Strings(tl)
	// pre: what stands before the value in the document; mpre: the part of it the reader model
	// sees (it starts at the value position)
	type ctx struct{ pre, mpre, term, post, kind string }
	ctxs := []ctx{{"[", "", "]", "", "elem"}, {"[", "", " ", "]", "elem"}, {"[", "", ",", "]", "elem"}, {"[", "", "\n", "]", "elem"}, {"[ ", " ", "\t", "]", "elem"},
		{"{k:", "", "}", "", "val"}, {"{k: ", " ", "\r", "}", "val"}, {"{", "", ":", "1}", "key"}}
	reqs = reqs[:0]
	for _, t := range tl {
		for _, c := range ctxs {
			reqs = append(reqs, "senread\t"+hx([]byte(c.mpre+t+c.term+c.post)))
		}
	}
	ans, err = RunModel(model, reqs)
	if err != nil {
		rep.Add(Disagreement{Case: "model", Kind: "harness-error", Detail: err.Error()})
		return
	}
	inDomain, outDomain, partial := 0, 0, 0
	for i, t := range tl {
		for j, c := range ctxs {
			a := ans[i*len(ctxs)+j]
			rep.Evaluations++
			if a == "-" {
				outDomain++
				continue
			}
			inDomain++
			// model: kind, string, rest
			sp := strings.SplitN(a[1:], " ", 2)
			ms, _ := hex.DecodeString(sp[0])
			rest, _ := hex.DecodeString(sp[1])
			var want any = string(ms)
			if a[0] == 'T' && c.kind != "key" {
				switch string(ms) {
				case "null":
					want = nil
				case "true":
					want = true
				case "false":
					want = false
				}
			}
			wantRest := c.term + c.post
			if a[0] == 'S' {
				wantRest = c.term + c.post // the closing quote is consumed, the terminator is not
			}
			doc := c.pre + t + c.term + c.post
			got := safe(func() string {
				v, err := sen.Parse([]byte(doc))
				if err != nil {
					return "E " + err.Error()
				}
				switch c.kind {
				case "elem":
					if l, ok := v.([]any); ok && len(l) == 1 {
						return "O " + Show(l[0])
					}
				case "val":
					if m, ok := v.(map[string]any); ok && len(m) == 1 {
						if x, has := m["k"]; has {
							return "O " + Show(x)
						}
					}
				case "key":
					if m, ok := v.(map[string]any); ok && len(m) == 1 {
						for k := range m {
							return "O " + Show(k)
						}
					}
				}
				return "O? " + Show(v)
			})
			exp := "O " + Show(want)
			if string(rest) != wantRest && !texts[t] {
				partial++
				continue
			}
			if string(rest) != wantRest {
				exp = "model stopped at " + hx(rest) + " instead of " + hx([]byte(wantRest))
			}
			if got != exp {
				rep.Add(Disagreement{Case: fmt.Sprintf("%q", doc), Where: "sen.Parse vs rrun (" + c.kind + ")", Kind: "impl-vs-model:sen-read", Impl: got, Model: exp})
			}
			// the same text through the byte-at-a-time paths (one-byte reads) and through the tokenizer
			if string(rest) == wantRest {
				var tree any
				switch c.kind {
				case "elem":
					tree = []any{want}
				case "val":
					tree = map[string]any{"k": want}
				default:
					tree = map[string]any{string(ms): int64(1)}
				}
				expDoc := "O " + Show(tree)
				ones := make([]int, len(doc))
				for k := range ones {
					ones[k] = 1
				}
				for _, alt := range []struct{ where, got string }{
					{"sen.Parser.ParseReader 1-byte reads vs rrun", senParseOutcome([]byte(doc), ones, true, false)},
					{"sen.Tokenizer.Parse vs rrun", senTokenOutcome([]byte(doc), nil, false, false)},
					{"sen.Tokenizer.Load 1-byte reads vs rrun", senTokenOutcome([]byte(doc), ones, true, false)},
				} {
					rep.Evaluations++
					if alt.got != expDoc {
						rep.Add(Disagreement{Case: fmt.Sprintf("%q", doc), Where: alt.where + " (" + c.kind + ")", Kind: "impl-vs-model:sen-read", Impl: alt.got, Model: expDoc})
					}
				}
			}
		}
	}
	// arrays of strings: sen_array against sen.String in tight mode, read_array against sen.Parse
	{
		var arrs [][]string
		arrs = append(arrs, []string{}, []string{""}, []string{"a"}, []string{"a", "b"}, []string{"a b", "c"}, []string{"true", "x"}, []string{"", ""}, []string{"é", "\xff", "a\"b", "]", "[", " "})
		na := 400
		if tier == "thorough" {
			na = 8000
		}
		for i := 0; i < na; i++ {
			k := r.Intn(5)
			a := make([]string, k)
			for j := range a {
				a[j] = strs[r.Intn(len(strs))]
			}
			arrs = append(arrs, a)
		}
		reqs = reqs[:0]
		for _, a := range arrs {
			for h := 0; h < 2; h++ {
				q := fmt.Sprintf("senarr\t%d\t", h)
				for _, x := range a {
					q += "," + hx([]byte(x))
				}
				reqs = append(reqs, q)
			}
		}
		ans, err = RunModel(model, reqs)
		if err != nil {
			rep.Add(Disagreement{Case: "model", Kind: "harness-error", Detail: err.Error()})
			return
		}
		var rtexts []string
		for i, a := range arrs {
			l := make([]any, len(a))
			for j, x := range a {
				l[j] = x
			}
			for h := 0; h < 2; h++ {
				rep.Evaluations++
				got := sen.String(l, &ojg.Options{Sort: true, HTMLUnsafe: h == 0})
				if hx([]byte(got)) != ans[2*i+h] {
					rep.Add(Disagreement{Case: fmt.Sprintf("%q html=%d", a, h), Where: "sen.String (array of strings, tight)", Kind: "impl-vs-model:sen-string", Impl: hx([]byte(got)), Model: ans[2*i+h]})
				}
				rtexts = append(rtexts, got)
			}
		}
		rtexts = append(rtexts, "[a b]", "[ a  b ]", "[a,b]", "[\"a\" 'b']", "[a\tb]", "[a\"b\"]", "[]", "[ ]", "[a", "[a]]", "[a [b]]", "[a:b]", "[-a]", "[a\rb]")
		reqs = reqs[:0]
		for _, t := range rtexts {
			reqs = append(reqs, "senreadarr\t"+hx([]byte(t)))
		}
		ans, err = RunModel(model, reqs)
		if err != nil {
			rep.Add(Disagreement{Case: "model", Kind: "harness-error", Detail: err.Error()})
			return
		}
		ain := 0
		for i, t := range rtexts {
			rep.Evaluations++
			if ans[i] == "-" || !strings.HasSuffix(ans[i], "|") {
				continue // outside the model, or text after the array
			}
			ain++
			var want []any
			for _, f := range strings.Fields(strings.TrimSuffix(ans[i], "|")) {
				b, _ := hex.DecodeString(f[1:])
				var v any = string(b)
				if f[0] == 'T' {
					switch string(b) {
					case "null":
						v = nil
					case "true":
						v = true
					case "false":
						v = false
					}
				}
				want = append(want, v)
			}
			if want == nil {
				want = []any{}
			}
			exp := "O " + Show(want)
			ones := make([]int, len(t))
			for k := range ones {
				ones[k] = 1
			}
			for _, alt := range []struct{ where, got string }{
				{"sen.Parse vs read_array", senParseOutcome([]byte(t), nil, false, false)},
				{"sen.Parser.ParseReader 1-byte reads vs read_array", senParseOutcome([]byte(t), ones, true, false)},
				{"sen.Tokenizer.Parse vs read_array", senTokenOutcome([]byte(t), nil, false, false)},
			} {
				if alt.got != exp {
					rep.Add(Disagreement{Case: fmt.Sprintf("%q", t), Where: alt.where, Kind: "impl-vs-model:sen-read", Impl: alt.got, Model: exp})
				}
			}
		}
		rep.Count(fmt.Sprintf("sen-model:arrays=%d read-in-domain=%d", len(arrs), ain))
	}
	// objects of strings: sen_object against sen.String (tight, sorted), read_object against sen.Parse
	{
		var objs []map[string]string
		objs = append(objs, map[string]string{}, map[string]string{"": ""}, map[string]string{"a": "b"}, map[string]string{"a b": "c", "d": "e f"}, map[string]string{"true": "true", "k": "null"},
			map[string]string{"é": "\xff", "a\"b": "]", "}": "{", ":": ","})
		no := 400
		if tier == "thorough" {
			no = 8000
		}
		for i := 0; i < no; i++ {
			m := map[string]string{}
			for j := r.Intn(4); j > 0; j-- {
				k := strs[r.Intn(len(strs))]
				if !utf8.ValidString(k) {
					continue // keys that sanitize to the same text would collide
				}
				m[k] = strs[r.Intn(len(strs))]
			}
			objs = append(objs, m)
		}
		reqs = reqs[:0]
		for _, m := range objs {
			keys := make([]string, 0, len(m))
			for k := range m {
				keys = append(keys, k)
			}
			sort.Strings(keys)
			for h := 0; h < 2; h++ {
				q := fmt.Sprintf("senobj\t%d\t", h)
				for _, k := range keys {
					q += "," + hx([]byte(k)) + "," + hx([]byte(m[k]))
				}
				reqs = append(reqs, q)
			}
		}
		ans, err = RunModel(model, reqs)
		if err != nil {
			rep.Add(Disagreement{Case: "model", Kind: "harness-error", Detail: err.Error()})
			return
		}
		var otexts []string
		for i, m := range objs {
			l := map[string]any{}
			for k, v := range m {
				l[k] = v
			}
			for h := 0; h < 2; h++ {
				rep.Evaluations++
				got := sen.String(l, &ojg.Options{Sort: true, HTMLUnsafe: h == 0})
				if hx([]byte(got)) != ans[2*i+h] {
					rep.Add(Disagreement{Case: fmt.Sprintf("%q html=%d", m, h), Where: "sen.String (object of strings, tight, sorted)", Kind: "impl-vs-model:sen-string", Impl: hx([]byte(got)), Model: ans[2*i+h]})
				}
				otexts = append(otexts, got)
			}
		}
		otexts = append(otexts, "{a:b}", "{a: b}", "{ a:b  c:d }", "{\"a\":b}", "{\"a\" : b}", "{a:b,c:d}", "{}", "{ }", "{a:b", "{a b}", "{a:}", "{a:b c}", "{a :b}", "{'a':'b'}", "{a:[b]}")
		reqs = reqs[:0]
		for _, t := range otexts {
			reqs = append(reqs, "senreadobj\t"+hx([]byte(t)))
		}
		ans, err = RunModel(model, reqs)
		if err != nil {
			rep.Add(Disagreement{Case: "model", Kind: "harness-error", Detail: err.Error()})
			return
		}
		oin := 0
		for i, t := range otexts {
			rep.Evaluations++
			if ans[i] == "-" || !strings.HasSuffix(ans[i], "|") {
				continue
			}
			oin++
			want := map[string]any{}
			fs := strings.Fields(strings.TrimSuffix(ans[i], "|"))
			dup := false
			for j := 0; j+1 < len(fs); j += 2 {
				kb, _ := hex.DecodeString(fs[j][1:])
				vb, _ := hex.DecodeString(fs[j+1][1:])
				var v any = string(vb)
				if fs[j+1][0] == 'T' {
					switch string(vb) {
					case "null":
						v = nil
					case "true":
						v = true
					case "false":
						v = false
					}
				}
				if _, has := want[string(kb)]; has {
					dup = true
				}
				want[string(kb)] = v
			}
			if dup {
				continue
			}
			exp := "O " + Show(want)
			ones := make([]int, len(t))
			for k := range ones {
				ones[k] = 1
			}
			for _, alt := range []struct{ where, got string }{
				{"sen.Parse vs read_object", senParseOutcome([]byte(t), nil, false, false)},
				{"sen.Parser.ParseReader 1-byte reads vs read_object", senParseOutcome([]byte(t), ones, true, false)},
				{"sen.Tokenizer.Parse vs read_object", senTokenOutcome([]byte(t), nil, false, false)},
			} {
				if alt.got != exp {
					rep.Add(Disagreement{Case: fmt.Sprintf("%q", t), Where: alt.where, Kind: "impl-vs-model:sen-read", Impl: alt.got, Model: exp})
				}
			}
		}
		rep.Count(fmt.Sprintf("sen-model:objects=%d read-in-domain=%d", len(objs), oin))
	}
	rep.Count(fmt.Sprintf("sen-model:read-in-domain=%d", inDomain))
	rep.Count(fmt.Sprintf("sen-model:read-outside=%d", outDomain))
	rep.Count(fmt.Sprintf("sen-model:read-hand-made-not-one-value=%d", partial))
}
