package main

import (
	"fmt"
	"strings"

	"github.com/ohler55/ojg"
	"github.com/ohler55/ojg/gen"
	"github.com/ohler55/ojg/oj"
	"github.com/ohler55/ojg/sen"
)

// C03, SEN clause: sen.Parse, sen.ParseReader under any chunking and sen.Tokenize /
// TokenizeLoad (rebuilt) give the same outcome on SEN input, single- and multi-document.

func senOutcome(f func() ([]string, error)) (out string) {
	defer func() {
		if r := recover(); r != nil {
			out = "F " + strings.ReplaceAll(fmt.Sprint(r), "\n", " ")
		}
	}()
	docs, err := f()
	if err != nil {
		return "E"
	}
	return "O " + strings.Join(docs, " ")
}

func senParseOutcome(in []byte, chunks []int, reader, multi bool) string {
	return senOutcome(func() ([]string, error) {
		buf := append([]byte(nil), in...)
		var docs []string
		var args []any
		if multi {
			args = append(args, func(v any) bool { docs = append(docs, Show(v)); return false })
		}
		var v any
		var err error
		p := sen.Parser{}
		if reader {
			v, err = p.ParseReader(&chunkReader{data: buf, chunks: append([]int(nil), chunks...)}, args...)
		} else {
			v, err = p.Parse(buf, args...)
		}
		if err != nil {
			return nil, err
		}
		if !multi {
			docs = []string{Show(v)}
		}
		return docs, nil
	})
}

func senTokenOutcome(in []byte, chunks []int, reader, multi bool) string {
	return senOutcome(func() ([]string, error) {
		buf := append([]byte(nil), in...)
		ec := &evCollector{}
		t := sen.Tokenizer{OnlyOne: !multi}
		var err error
		if reader {
			err = t.Load(&chunkReader{data: buf, chunks: append([]int(nil), chunks...)}, ec)
		} else {
			err = t.Parse(buf, ec)
		}
		if err != nil {
			return nil, err
		}
		docs, ok := eventsToTree(ec.sb)
		if !ok {
			return nil, fmt.Errorf("unbalanced events")
		}
		if !multi && len(docs) == 0 {
			docs = []string{"n"} // sen.Parse of an empty text returns nil
		}
		return docs, nil
	})
}

// blankPlus replaces by a space every + that stands at a value position (outside quotes and not
// inside a bare token).
func blankPlus(in []byte) ([]byte, bool) {
	out := append([]byte(nil), in...)
	changed := false
	var quote byte
	prev := byte(' ')
	i0 := 0
	if len(out) >= 3 && out[0] == 0xef && out[1] == 0xbb && out[2] == 0xbf {
		i0 = 3 // a byte order mark that is skipped leaves the next byte at a value position
	}
	for i := i0; i < len(out); i++ {
		b := out[i]
		if quote != 0 {
			if b == '\\' {
				i++
			} else if b == quote {
				quote = 0
				prev = b
			}
			continue
		}
		if b == '/' && i+1 < len(out) && (out[i+1] == '/' || out[i+1] == '*') {
			// a comment ends a token and reads as white space (maps.go: after a * the next byte either
			// ends the comment or is consumed with it, so **/ does not end one)
			if out[i+1] == '/' {
				for i += 2; i < len(out) && out[i] != '\n'; i++ {
				}
			} else {
				for i += 2; i < len(out); i++ {
					if out[i] == '*' {
						i++
						if i < len(out) && out[i] == '/' {
							break
						}
					}
				}
			}
			prev = ' '
			continue
		}
		switch {
		case b == '"' || b == '\'':
			quote = b
		case b == '+' && strings.IndexByte(" \t\r\n,[{:\"']}", prev) >= 0:
			out[i] = ' '
			changed = true
			prev = ' '
			continue
		}
		prev = b
	}
	return out, changed
}

func suiteSenAgree(tier string, seed uint64) *Report {
	rep := &Report{Property: "C03", Tier: tier, Seed: seed}
	r := NewRng(seed + 303)
	deep := tier == "thorough"
	seen := map[string]bool{}
	var inputs []string
	add := func(s string) {
		if !seen[s] && len(s) <= 200 {
			seen[s] = true
			inputs = append(inputs, s)
		}
	}
	// values as SEN spells them: bare tokens, quoted strings (with escapes that spell the
	// reserved words), numbers, comments, both quote kinds
	vals := []string{"abc", "true", "false", "null", `"true"`, `"null"`, `"false"`, `"true"`, `"null"`, `"false"`, `'true'`,
		`"a b"`, `"a\tb"`, `"é"`, `"😀"`, "\"\xc3\xa9\"", `""`, `''`, "1", "-1", "0.5", "1e3", "-1.25e-2", "12345678901234567890", "1.0e400",
		"a1", "x-y", "$r", "@t", "\"a\xef\xbb\xbfb\"", "\"\xef\xbb\xbf\"", "x\xef\xbb\xbfy", "\xef\xbb\xbfz", "[]", "{}", "[1 2]", "{a:1}", `{"a b":true}`, "[[]]", `"12"`, `"-"`, "tru", "nul", "truex", "nullx", "a.b", "9a"}
	seps := []string{" ", ",", "\n", "  ", ", ", "\t", " // c\n", "\r\n", " /***/ ", " /* x **/ ", "/**/"}
	for _, v := range vals {
		add(v)
		add(" " + v + " ")
		add("[" + v + "]")
		add("{k:" + v + "}")
		add("{" + v + ":1}")
		for _, w := range vals {
			for _, s := range seps[:3] {
				add("[" + v + s + w + "]")
				add("{a:" + v + s + "b:" + w + "}")
				add(v + s + w) // two documents
			}
		}
	}
	// a + straight after a byte order mark (both recorded behaviours meet here)
	for _, v := range []string{"+\n\"é\"", "+1", "+ abc", "[+1]", "\"a\"+\"b\""} {
		add("\xef\xbb\xbf" + v)
	}
	// a + after a comment
	for _, v := range []string{"[a/**/+b]", "[1 /* x **/ +2]", "[\"a\"/**/+\"b\"]", "{a:1// c\n+b:2}", "a1/**/+x"} {
		add(v)
	}
	for i := 0; i < 400; i++ {
		n := 1 + r.Intn(5)
		var sb strings.Builder
		open := ""
		if r.Intn(3) > 0 {
			if r.Bool() {
				sb.WriteString("[")
				open = "]"
			} else {
				sb.WriteString("{")
				open = "}"
			}
		}
		for j := 0; j < n; j++ {
			if j > 0 {
				sb.WriteString(seps[r.Intn(len(seps))])
			}
			if open == "}" {
				sb.WriteString(vals[r.Intn(len(vals))] + ":")
				if r.Intn(4) == 0 {
					sb.WriteString(" ")
				}
			}
			sb.WriteString(vals[r.Intn(len(vals))])
		}
		sb.WriteString(open)
		add(sb.String())
	}
	// what the SEN writers produce for seeded trees
	nTrees := 150
	if deep {
		nTrees = 1500
	}
	for i := 0; i < nTrees; i++ {
		tree := genSenTree(r, 3)
		o := ojg.Options{Sort: true, Indent: r.Intn(3)}
		add(sen.String(tree, &o))
	}
	// mutations: drop / duplicate / replace one byte
	base := append([]string(nil), inputs...)
	nm := 1
	if deep {
		nm = 6
	}
	for _, s := range base {
		for k := 0; k < nm && len(s) > 0; k++ {
			b := []byte(s)
			p := r.Intn(len(b))
			switch r.Intn(3) {
			case 0:
				b = append(b[:p], b[p+1:]...)
			case 1:
				b = append(b[:p+1], b[p:]...)
			default:
				const repl = "{}[]:,\"' \n\\tn1-+/"
				b[p] = repl[r.Intn(len(repl))]
			}
			add(string(b))
		}
	}
	for _, s := range inputs {
		in := []byte(s)
		for _, multi := range []bool{false, true} {
			ref := senParseOutcome(in, nil, false, multi)
			rep.Evaluations++
			rep.Count("sen-agree:" + ref[:1])
			check := func(where, got string, rerun func(in []byte) string, firstShort bool, rerunWhole func(in []byte) string, parserSame func() string) {
				rep.Evaluations++
				if got != ref {
					class := ""
					// exact attribution: the tokenizer treats a + at a value position as white space
					// (no concatenation, no error): same tokenizer outcome with the + blanked, and
					// parser and tokenizer agree on the blanked text
					if strings.HasPrefix(where, "sen.Tokenizer") {
						if d, changed := blankPlus(in); changed && rerun(d) == got {
							if dref := senParseOutcome(d, nil, false, multi); dref == got {
								class = "sen-tokenizer-ignores-plus"
							} else if firstShort && d[0] == 0xef && rerunWhole != nil && rerunWhole(d) == dref {
								// both recorded behaviours in one input
								class = "sen-tokenizer-ignores-plus+bom-short-first-read"
							}
						}
					}
					// the recorded reader behaviour (see C03-bom-short-first-read): a byte order mark is looked
					// for (and a first byte 0xEF examined) only in a first read of more than 3 bytes; exact when
					// the same entry point gives the reference outcome once the first read is the whole text
					if class == "" && firstShort && len(in) > 0 && in[0] == 0xef && rerunWhole != nil && rerunWhole(in) == ref {
						class = "bom-short-first-read"
					}
					// the same reader behaviour seen through the tokenizer when its whole-read outcome is itself
					// off (a + after the mark): exact when sen.Parser.ParseReader under the same reads gives the
					// same outcome and ParseReader with one whole read gives the reference outcome
					if class == "" && firstShort && len(in) > 0 && in[0] == 0xef && parserSame != nil && parserSame() == got &&
						senParseOutcome(in, []int{}, true, multi) == ref {
						class = "bom-short-first-read"
					}
					rep.Add(Disagreement{Case: hx(in), Where: where, Kind: "impl-law:sen-frontends", Impl: got, Spec: ref, Class: class,
						Detail: fmt.Sprintf("%q multi=%v", s, multi)})
				}
			}
			tag := "/single"
			if multi {
				tag = "/multi"
			}
			multi := multi
			check("sen.Tokenizer.Parse vs sen.Parser.Parse"+tag, senTokenOutcome(in, nil, false, multi),
				func(d []byte) string { return senTokenOutcome(d, nil, false, multi) }, false, nil, nil)
			for _, c := range chunkingsFor(r, len(in), tier) {
				c := c
				check("sen.Parser.ParseReader"+tag+" "+chunkKind(c, len(in)), senParseOutcome(in, c, true, multi),
					func(d []byte) string { return senParseOutcome(d, c, true, multi) }, len(c) > 0 && c[0] <= 3,
					func(d []byte) string { return senParseOutcome(d, []int{}, true, multi) }, nil)
				check("sen.Tokenizer.Load"+tag+" "+chunkKind(c, len(in)), senTokenOutcome(in, c, true, multi),
					func(d []byte) string { return senTokenOutcome(d, c, true, multi) }, len(c) > 0 && c[0] <= 3,
					func(d []byte) string { return senTokenOutcome(d, []int{}, true, multi) },
					func() string { return senParseOutcome(in, c, true, multi) })
			}
		}
	}
	rep.Rule = "SEN clause: values as SEN spells them (bare tokens, quoted and escaped spellings of true/false/null, both quote kinds, numbers incl. big and overflowing, comments, CRLF) alone, in arrays, as members, as keys, in pairs with every separator, random sequences, sen.String output of seeded trees, and one-byte mutations; each through sen.Parser.Parse, sen.Parser.ParseReader and sen.Tokenizer.Load under every single split (short inputs), 1- and 2-byte reads and random multi-splits, sen.Tokenizer.Parse; single- and multi-document (callback) mode; all outcomes must equal that of sen.Parser.Parse (value trees with tokenizer events folded as a Builder would; an error in every case)"
	return rep
}

// C03, channel clause: the documents delivered on a channel (drained after the call) equal the
// ones delivered to a callback, for oj.Parser, gen.Parser and sen.Parser, with and without the
// Reuse option, []byte and reader entry points.
func suiteChannel(tier string, seed uint64) *Report {
	rep := &Report{Property: "C03", Tier: tier, Seed: seed}
	r := NewRng(seed + 909)
	n := 150
	if tier == "thorough" {
		n = 3000
	}
	for i := 0; i < n; i++ {
		var parts []string
		for k := 0; k < 2+r.Intn(4); k++ {
			d := genDoc(r)
			if len(d) > 80 {
				d = []byte(fmt.Sprintf(`{"id":%d,"l":[%d,{"k":%d}]}`, k, k, i))
			}
			parts = append(parts, string(d))
		}
		in := []byte(strings.Join(parts, "\n"))
		for _, reuse := range []bool{false, true} {
			for _, reader := range []bool{false, true} {
				run := func(which string, useChan bool) string {
					return senOutcome(func() ([]string, error) {
						buf := append([]byte(nil), in...)
						var docs []string
						var err error
						rd := &chunkReader{data: buf, chunks: []int{7, 5, 3}}
						switch which {
						case "oj.Parser":
							p := oj.Parser{Reuse: reuse}
							ch := make(chan any, 4096)
							var arg any = func(v any) bool { docs = append(docs, Show(v)); return false }
							if useChan {
								arg = ch
							}
							if reader {
								_, err = p.ParseReader(rd, arg)
							} else {
								_, err = p.Parse(buf, arg)
							}
							close(ch)
							for v := range ch {
								docs = append(docs, Show(v))
							}
						case "gen.Parser":
							p := gen.Parser{Reuse: reuse}
							ch := make(chan gen.Node, 4096)
							var arg any = func(v gen.Node) bool { docs = append(docs, Show(v)); return false }
							if useChan {
								arg = ch
							}
							if reader {
								_, err = p.ParseReader(rd, arg)
							} else {
								_, err = p.Parse(buf, arg)
							}
							close(ch)
							for v := range ch {
								docs = append(docs, Show(v))
							}
						case "sen.Parser":
							p := sen.Parser{Reuse: reuse}
							ch := make(chan any, 4096)
							var arg any = func(v any) bool { docs = append(docs, Show(v)); return false }
							if useChan {
								arg = ch
							}
							if reader {
								_, err = p.ParseReader(rd, arg)
							} else {
								_, err = p.Parse(buf, arg)
							}
							close(ch)
							for v := range ch {
								docs = append(docs, Show(v))
							}
						}
						if err != nil {
							return append(docs, "E"), nil
						}
						return docs, nil
					})
				}
				for _, which := range []string{"oj.Parser", "gen.Parser", "sen.Parser"} {
					rep.Evaluations++
					cb, ch := run(which, false), run(which, true)
					if cb != ch {
						rep.Add(Disagreement{Case: hx(in), Where: fmt.Sprintf("%s channel vs callback reuse=%v reader=%v", which, reuse, reader),
							Kind: "impl-law:channel-mode", Impl: ch, Spec: cb, Detail: fmt.Sprintf("%q", in)})
					}
				}
			}
		}
	}
	rep.Rule = "channel clause: 2-5 seeded documents per text; oj.Parser, gen.Parser, sen.Parser x Reuse false/true x []byte/reader: the documents read from a buffered channel after the call must equal the ones seen by a callback during the call"
	return rep
}
