package main

import (
	"fmt"
	"strings"
	"time"

	"github.com/ohler55/ojg/jp"
)

// C11, reflection clause: on typed Go data (slices, arrays, maps, structs, pointers reached by
// reflection) the evaluators must agree with each other as they do on simple data:
//   Has <=> Get non-empty; First found <=> Get non-empty and the value is one of Get's;
//   every Locate path re-evaluated with Get gives one result, and those are Get's results;
//   Walk reports what Locate reports; typed slices / maps select what their []any /
//   map[string]any equivalents select.

type RIn struct {
	X int
	Y []any
	A int
}

type REmb struct {
	C int
}

type RS struct {
	A      int
	B      []int
	M      map[string]int
	In     *RIn
	Token  string `json:"-"`
	Tagged int    `json:"x"`
	REmb
}

// RSeqA / RSeqB: two types of one shape; only RSeqA is evaluated with a nil embedded pointer first
type RSeqA struct {
	*REmb
	A int
}
type RSeqB struct {
	*REmb
	A int
}

type RPtrEmb struct {
	*REmb
	A int
}

func reflectData(r *Rng) (typed any, simple any) {
	ints := func(n int) ([]int, []any) {
		a, s := make([]int, n), make([]any, n)
		for i := range a {
			a[i] = r.Intn(5)
			s[i] = a[i]
		}
		return a, s
	}
	switch r.Intn(9) {
	case 0:
		a, s := ints(r.Intn(6))
		return a, s
	case 1:
		a, s := ints(3)
		return [3]int{a[0], a[1], a[2]}, s
	case 2:
		n := 1 + r.Intn(4)
		t := make([]map[string]any, n)
		s := make([]any, n)
		for i := range t {
			m := map[string]any{}
			for _, k := range []string{"a", "b", "c"} {
				if r.Chance(60) {
					m[k] = r.Intn(4)
				}
			}
			t[i] = m
			s[i] = m
		}
		return t, s
	case 3:
		t := map[string]int{}
		s := map[string]any{}
		for _, k := range []string{"a", "b", "c", "x"} {
			if r.Chance(60) {
				v := r.Intn(4)
				t[k] = v
				s[k] = v
			}
		}
		return t, s
	case 4:
		t := map[string][]int{}
		s := map[string]any{}
		for _, k := range []string{"a", "b"} {
			a, sa := ints(r.Intn(4))
			t[k] = a
			s[k] = sa
		}
		return map[string]any{"a": t, "b": int(1)}, map[string]any{"a": s, "b": int(1)}
	case 5:
		b, _ := ints(r.Intn(4))
		v := &RS{A: r.Intn(4), B: b, M: map[string]int{"a": r.Intn(3)}, Token: "tok", Tagged: r.Intn(4), REmb: REmb{C: r.Intn(4)}}
		if r.Bool() {
			v.In = &RIn{X: r.Intn(4), Y: []any{r.Intn(3), "s"}, A: r.Intn(4)}
		}
		return v, nil
	case 6:
		n := 1 + r.Intn(3)
		t := make([]*RIn, n)
		for i := range t {
			t[i] = &RIn{X: r.Intn(4), A: r.Intn(4)}
		}
		return t, nil
	case 7:
		v := &RPtrEmb{A: r.Intn(4)}
		if r.Bool() {
			v.REmb = &REmb{C: r.Intn(4)}
		}
		return v, nil
	default:
		b, _ := ints(2)
		return map[string]any{"a": &RS{A: 1, B: b}, "b": []RIn{{X: 1, A: 2}, {X: 3, A: 4}}}, nil
	}
}

// safeT: like safe, with a time limit (a call on reflected data may not return)
func safeT(f func() string) string {
	done := make(chan string, 1)
	go func() { done <- safe(f) }()
	select {
	case s := <-done:
		return s
	case <-time.After(3 * time.Second):
		return "F TIMEOUT"
	}
}

func suiteReflect(tier string, seed uint64) *Report {
	rep := &Report{Property: "C11", Tier: tier, Seed: seed}
	r := NewRng(seed + 1111)
	n := 3000
	if tier == "thorough" {
		n = 60000
	}
	timeouts := 0
	for i := 0; i < n; i++ {
		typed, simple := reflectData(r)
		p := genPath(r, 1)
		if p[len(p)-1].Kind == "D" {
			p = append(p, Frag{Kind: "W"})
		}
		if ps := PathSexp(p); strings.Contains(ps, "length") || strings.Contains(ps, "count") || strings.Contains(ps, "empty") || strings.Contains(ps, "bin in") {
			continue // defined on built-in containers only
		}
		x := BuildExpr(p)
		desc := fmt.Sprintf("%s on %T %+v", x.String(), typed, typed)
		rep.Evaluations++
		// claimed: no evaluator panics or hangs on reflected data; Get on typed slices, arrays and slices
		// of maps selects what Get selects on the []any equivalent. The agreement of Has / FirstFound /
		// Locate / Walk with Get on reflected data does not hold on the unchanged tree in many ways
		// (see DESIGN.md 11.8): those laws are evaluated and counted, not judged.
		bad := func(where, impl, spec string) {
			if strings.HasPrefix(impl, "F ") {
				rep.Add(Disagreement{Case: desc, Where: where, Kind: "impl-law:reflect-panic", Impl: impl, Spec: "returns"})
				return
			}
			if where == "Expr.Get typed vs simple" {
				switch typed.(type) {
				case []int, [3]int, []map[string]any:
					rep.Add(Disagreement{Case: desc, Where: where, Kind: "impl-law:reflect-representation", Impl: impl, Spec: spec})
					return
				}
			}
			rep.Count("unclaimed-law-fails:" + where)
		}
		get := safeT(func() string { return strings.Join(showListSorted(x.Get(typed)), " ; ") })
		if strings.HasPrefix(get, "F ") {
			bad("Expr.Get", get, "no panic")
			if get == "F TIMEOUT" {
				timeouts++
				if timeouts >= 3 {
					rep.Notes = map[string]string{"stopped": "three calls did not return within 3 s"}
					break
				}
			}
			continue
		}
		nGet := len(splitResults(get))
		has := safeT(func() string { return fmt.Sprint(x.Has(typed)) })
		if has != fmt.Sprint(nGet > 0) {
			bad("Expr.Has", has, "Get: "+get)
		}
		first := safeT(func() string {
			v, ok := x.FirstFound(typed)
			if !ok {
				return "N"
			}
			return "S " + Show(v)
		})
		if strings.HasPrefix(first, "F ") || (first == "N") != (nGet == 0) || (first != "N" && !strings.Contains(" ; "+get+" ; ", " ; "+first[2:]+" ; ")) {
			bad("Expr.FirstFound", first, "Get: "+get)
		}
		loc := safeT(func() string {
			var out []string
			for _, lp := range x.Locate(typed, 0) {
				vs := lp.Get(typed)
				if len(vs) != 1 {
					return fmt.Sprintf("F path %s yields %d results", lp.String(), len(vs))
				}
				out = append(out, Show(vs[0]))
			}
			return strings.Join(sortedStrings(out), " ; ")
		})
		if loc != get {
			bad("Expr.Locate", loc, "Get: "+get)
		}
		walk := safeT(func() string {
			var out []string
			x.Walk(typed, func(path jp.Expr, nodes []any) { out = append(out, Show(nodes[len(nodes)-1])) })
			return strings.Join(sortedStrings(out), " ; ")
		})
		if walk != get {
			bad("Expr.Walk", walk, "Get: "+get)
		}
		if simple != nil {
			sg := safeT(func() string { return strings.Join(showListSorted(x.Get(simple)), " ; ") })
			if sg != get {
				bad("Expr.Get typed vs simple", get, sg)
			}
		}
	}
	// directed, judged: every field path that Locate reports for $.* on a struct is resolved by Get
	// (fields tagged json:"-" included: the path evaluators match fields by name)
	for k := 0; k < 20; k++ {
		v := &RS{A: k, B: []int{k}, M: map[string]int{"a": k}, In: &RIn{X: k}, Token: "tok", Tagged: k, REmb: REmb{C: k}}
		rep.Evaluations++
		out := safeT(func() string {
			for _, lp := range jp.MustParseString("$.*").Locate(v, 0) {
				if vs := lp.Get(v); len(vs) != 1 {
					return fmt.Sprintf("path %s reported by Locate yields %d results from Get", lp.String(), len(vs))
				}
				if !lp.Has(v) {
					return fmt.Sprintf("path %s reported by Locate: Has is false", lp.String())
				}
			}
			return "ok"
		})
		if out != "ok" {
			rep.Add(Disagreement{Case: fmt.Sprintf("$.* on %+v", *v), Where: "Expr.Locate / Get on a struct", Kind: "impl-law:reflect-struct-fields", Impl: out, Spec: "every located field path selects one value"})
		}
	}
	// directed, judged: what a path selects on a struct does not depend on which other values of the
	// same type were evaluated before (RSeqA sees a nil embedded pointer first, RSeqB does not)
	for k := 0; k < 10; k++ {
		for _, ps := range []string{"$.C", "$.c", "$.A", "$.*", "$..C", "$['C','A']"} {
			x := jp.MustParseString(ps)
			rep.Evaluations++
			out := safeT(func() string {
				_ = x.Get(&RSeqA{A: k})
				_ = x.Has(&RSeqA{A: k})
				_, _ = x.FirstFound(&RSeqA{A: k})
				_ = x.Locate(&RSeqA{A: k}, 0)
				a := &RSeqA{REmb: &REmb{C: 7 + k}, A: k}
				b := &RSeqB{REmb: &REmb{C: 7 + k}, A: k}
				ga, gb := strings.Join(showListSorted(x.Get(a)), " ; "), strings.Join(showListSorted(x.Get(b)), " ; ")
				if ga != gb {
					return fmt.Sprintf("Get after a nil-embedded value of the type: %s, on a type without that history: %s", ga, gb)
				}
				if x.Has(a) != x.Has(b) {
					return fmt.Sprintf("Has after a nil-embedded value: %v, without: %v", x.Has(a), x.Has(b))
				}
				fa, oka := x.FirstFound(a)
				fb, okb := x.FirstFound(b)
				if oka != okb || (oka && Show(fa) != Show(fb) && !strings.Contains(ps, "*")) {
					return fmt.Sprintf("FirstFound after a nil-embedded value: %v %v, without: %v %v", fa, oka, fb, okb)
				}
				if la, lb := len(x.Locate(a, 0)), len(x.Locate(b, 0)); la != lb {
					return fmt.Sprintf("Locate after a nil-embedded value: %d paths, without: %d", la, lb)
				}
				return "ok"
			})
			if out != "ok" {
				rep.Add(Disagreement{Case: ps + " on a struct with an embedded pointer", Where: "evaluators on struct values of one type in sequence", Kind: "impl-law:reflect-history", Impl: out, Spec: "independent of earlier values"})
			}
		}
	}
	// directed, judged: on a Keyed collection whose Keys() are not sorted, First is the head of Get
	for k := 0; k < 20; k++ {
		ko := &orderedKeyed{keys: []string{"z", "m", "a", "q"}, vals: map[string]any{"z": map[string]any{"id": 1 + k}, "m": map[string]any{"id": 2 + k}, "a": map[string]any{"id": 3 + k}, "q": 4 + k}}
		for _, ps := range []string{"$.*", "$.*.id", "$['m','a']", "$..id"} {
			x := jp.MustParseString(ps)
			rep.Evaluations++
			out := safeT(func() string {
				all := x.Get(ko)
				first, ok := x.FirstFound(ko)
				if ok != (len(all) > 0) {
					return fmt.Sprintf("found=%v but Get has %d results", ok, len(all))
				}
				if ok && Show(first) != Show(all[0]) {
					return fmt.Sprintf("First=%s, Get[0]=%s", Show(first), Show(all[0]))
				}
				return "ok"
			})
			if out != "ok" {
				rep.Add(Disagreement{Case: ps + " on a Keyed with keys z,m,a,q", Where: "Expr.FirstFound vs Get on Keyed", Kind: "impl-law:keyed-first", Impl: out, Spec: "First is Get's first result"})
			}
		}
	}
	rep.Rule = "reflection clause: typed slices, arrays, slices of maps, typed maps, maps of typed slices, structs (json:\"-\" and tagged fields, embedded struct, nil and non-nil pointers, embedded pointer), slices of struct pointers x seeded paths; judged: no evaluator (Get, Has, FirstFound, Locate, Walk) panics or hangs; Get on []int, [3]int and []map[string]any equals Get on the []any equivalent. Evaluated and counted only (they fail on the unchanged tree in many ways): Has <=> Get non-empty, FirstFound in Get, Locate / Walk = Get on reflected data"
	return rep
}

func showListSorted(vs []any) []string {
	out := showList(vs)
	return sortedStrings(out)
}

func sortedStrings(s []string) []string {
	o := append([]string(nil), s...)
	for i := 1; i < len(o); i++ {
		for j := i; j > 0 && o[j] < o[j-1]; j-- {
			o[j], o[j-1] = o[j-1], o[j]
		}
	}
	return o
}

// orderedKeyed: a Keyed user collection whose Keys() come in insertion order
type orderedKeyed struct {
	keys []string
	vals map[string]any
}

func (o *orderedKeyed) ValueForKey(k string) (any, bool) { v, ok := o.vals[k]; return v, ok }
func (o *orderedKeyed) SetValueForKey(k string, v any) {
	if _, ok := o.vals[k]; !ok {
		o.keys = append(o.keys, k)
	}
	o.vals[k] = v
}
func (o *orderedKeyed) RemoveValueForKey(k string) { delete(o.vals, k) }
func (o *orderedKeyed) Keys() []string             { return append([]string(nil), o.keys...) }
