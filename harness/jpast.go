package main

import (
	"fmt"
	"sort"
	"strconv"
	"strings"

	"github.com/ohler55/ojg/jp"
)

// neutral description of JSONPath expressions and filter equations: serialised for the model
// (S-expression) and built into jp.Expr / *jp.Equation through the public constructors.

type UItem struct {
	IsKey bool
	Key   string
	Idx   int
}

type Frag struct {
	Kind  string // R A c n W D u s f
	Key   string
	N     int
	Items []UItem
	Slice []int
	Eq    *Eqn
}

type Eqn struct {
	Kind  string // v N p un bin
	Op    string
	Const any
	Path  []Frag
	A, B  *Eqn
}

func fragsSexp(fs []Frag) string {
	parts := make([]string, len(fs))
	for i, f := range fs {
		switch f.Kind {
		case "R", "A", "W", "D":
			parts[i] = f.Kind
		case "c":
			parts[i] = "(c " + hx([]byte(f.Key)) + ")"
		case "n":
			parts[i] = "(n " + strconv.Itoa(f.N) + ")"
		case "u":
			it := make([]string, len(f.Items))
			for j, u := range f.Items {
				if u.IsKey {
					it[j] = "(k " + hx([]byte(u.Key)) + ")"
				} else {
					it[j] = "(i " + strconv.Itoa(u.Idx) + ")"
				}
			}
			parts[i] = "(u " + strings.Join(it, " ") + ")"
		case "s":
			it := make([]string, len(f.Slice))
			for j, n := range f.Slice {
				it[j] = strconv.Itoa(n)
			}
			parts[i] = "(s " + strings.Join(it, " ") + ")"
		case "f":
			parts[i] = "(f " + f.Eq.Sexp() + ")"
		}
	}
	return strings.Join(parts, " ")
}

func PathSexp(fs []Frag) string { return "(p " + fragsSexp(fs) + ")" }

func (e *Eqn) Sexp() string {
	switch e.Kind {
	case "N":
		return "N"
	case "v":
		return "(v " + Show(e.Const) + ")"
	case "p":
		return "(p " + fragsSexp(e.Path) + ")"
	case "un":
		return "(un " + e.Op + " " + e.A.Sexp() + ")"
	default:
		return "(bin " + e.Op + " " + e.A.Sexp() + " " + e.B.Sexp() + ")"
	}
}

func BuildExpr(fs []Frag) jp.Expr {
	x := jp.Expr{}
	for _, f := range fs {
		switch f.Kind {
		case "R":
			x = x.R()
		case "A":
			x = x.A()
		case "c":
			x = x.C(f.Key)
		case "n":
			x = x.N(f.N)
		case "W":
			x = x.W()
		case "D":
			x = x.D()
		case "u":
			args := make([]any, len(f.Items))
			for i, u := range f.Items {
				if u.IsKey {
					args[i] = u.Key
				} else {
					args[i] = u.Idx
				}
			}
			x = x.U(args...)
		case "s":
			if len(f.Slice) == 0 {
				x = append(x, jp.Slice{})
			} else {
				x = x.S(f.Slice[0], f.Slice[1:]...)
			}
		case "f":
			x = x.F(BuildEq(f.Eq))
		}
	}
	return x
}

func BuildEq(e *Eqn) *jp.Equation {
	switch e.Kind {
	case "N":
		return jp.ConstNothing()
	case "v":
		switch c := e.Const.(type) {
		case nil:
			return jp.ConstNil()
		case bool:
			return jp.ConstBool(c)
		case int64:
			return jp.ConstInt(c)
		case float64:
			return jp.ConstFloat(c)
		case string:
			return jp.ConstString(c)
		case []any:
			return jp.ConstList(c)
		}
		panic(fmt.Sprintf("bad const %T", e.Const))
	case "p":
		return jp.Get(BuildExpr(e.Path))
	case "un":
		switch e.Op {
		case "not":
			return jp.Not(BuildEq(e.A))
		case "length":
			return jp.Length(BuildExpr(e.A.Path))
		case "count":
			return jp.Count(BuildExpr(e.A.Path))
		}
	case "bin":
		a, b := BuildEq(e.A), BuildEq(e.B)
		switch e.Op {
		case "eq":
			return jp.Eq(a, b)
		case "neq":
			return jp.Neq(a, b)
		case "lt":
			return jp.Lt(a, b)
		case "gt":
			return jp.Gt(a, b)
		case "lte":
			return jp.Lte(a, b)
		case "gte":
			return jp.Gte(a, b)
		case "or":
			return jp.Or(a, b)
		case "and":
			return jp.And(a, b)
		case "add":
			return jp.Add(a, b)
		case "sub":
			return jp.Sub(a, b)
		case "mul":
			return jp.Multiply(a, b)
		case "div":
			return jp.Divide(a, b)
		case "in":
			return jp.In(a, b)
		case "empty":
			return jp.Empty(a, b)
		case "has":
			return jp.Has(a, b)
		case "exists":
			return jp.Exists(a, b)
		}
	}
	panic("bad equation " + e.Kind + " " + e.Op)
}

// ---------------------------------------------------------------- generators

var jpKeys = []string{"a", "b", "c", "x", ""}

func niceFloat(r *Rng) float64 { return float64(r.Intn(81)-40) / 8 }

func genScalar(r *Rng) any {
	switch r.Intn(9) {
	case 0:
		return nil
	case 1:
		return r.Bool()
	case 2, 3:
		return int64(r.Intn(9) - 3)
	case 4:
		return niceFloat(r)
	case 5:
		return float64(r.Intn(7) - 3) // float with an integral value
	case 6:
		return r.Pick([]string{"", "a", "b", "ab", "1", "true"})
	default:
		return int64(r.Intn(4))
	}
}

func genTree(r *Rng, depth int) any {
	k := r.Intn(10)
	if depth <= 0 || k < 4 {
		return genScalar(r)
	}
	if k < 7 {
		n := r.Intn(6)
		a := make([]any, n)
		for i := range a {
			a[i] = genTree(r, depth-1)
		}
		return a
	}
	n := r.Intn(4)
	m := map[string]any{}
	for i := 0; i < n; i++ {
		m[jpKeys[r.Intn(len(jpKeys))]] = genTree(r, depth-1)
	}
	return m
}

// array-only trees give a defined result order
func genArrayTree(r *Rng, depth int) any {
	if depth <= 0 || r.Intn(10) < 3 {
		return genScalar(r)
	}
	if r.Intn(4) == 0 {
		return map[string]any{jpKeys[r.Intn(3)]: genArrayTree(r, depth-1)}
	}
	n := r.Intn(6)
	a := make([]any, n)
	for i := range a {
		a[i] = genArrayTree(r, depth-1)
	}
	return a
}

func multiKeyObject(v any) bool {
	switch t := v.(type) {
	case []any:
		for _, e := range t {
			if multiKeyObject(e) {
				return true
			}
		}
	case map[string]any:
		if len(t) > 1 {
			return true
		}
		for _, e := range t {
			if multiKeyObject(e) {
				return true
			}
		}
	}
	return false
}

func genBound(r *Rng) int {
	switch r.Intn(12) {
	case 0:
		return 2147483647
	case 1:
		return -100
	case 2:
		return 100
	default:
		return r.Intn(15) - 7
	}
}

func genFrag(r *Rng, depth int, inFilter bool) Frag {
	switch r.Intn(16) {
	case 0, 1, 2, 3:
		return Frag{Kind: "c", Key: jpKeys[r.Intn(len(jpKeys))]}
	case 4, 5, 6:
		return Frag{Kind: "n", N: r.Intn(13) - 6}
	case 7, 8:
		return Frag{Kind: "W"}
	case 9:
		return Frag{Kind: "D"}
	case 10:
		n := 1 + r.Intn(3)
		f := Frag{Kind: "u"}
		for i := 0; i < n; i++ {
			if r.Bool() {
				f.Items = append(f.Items, UItem{IsKey: true, Key: jpKeys[r.Intn(len(jpKeys))]})
			} else {
				f.Items = append(f.Items, UItem{Idx: r.Intn(11) - 5})
			}
		}
		return f
	case 11, 12, 13:
		n := r.Intn(4)
		f := Frag{Kind: "s"}
		for i := 0; i < n; i++ {
			b := genBound(r)
			if i == 2 {
				b = r.Intn(9) - 4
			}
			f.Slice = append(f.Slice, b)
		}
		return f
	default:
		if depth <= 0 {
			return Frag{Kind: "W"}
		}
		return Frag{Kind: "f", Eq: genEqn(r, depth-1, 2)}
	}
}

func genPath(r *Rng, depth int) []Frag {
	n := 1 + r.Intn(4)
	fs := []Frag{{Kind: "R"}}
	if r.Chance(8) {
		fs = nil // relative path without a root fragment
	}
	for i := 0; i < n; i++ {
		fs = append(fs, genFrag(r, depth, false))
	}
	return fs
}

func genSubPath(r *Rng, depth int) []Frag {
	fs := []Frag{{Kind: "A"}}
	if r.Chance(12) {
		fs = []Frag{{Kind: "R"}}
	}
	n := r.Intn(3)
	if r.Chance(10) {
		n = 0
	}
	for i := 0; i < n; i++ {
		f := genFrag(r, 0, true)
		if r.Chance(70) {
			f = Frag{Kind: "c", Key: jpKeys[r.Intn(3)]}
			if r.Chance(25) {
				f = Frag{Kind: "n", N: r.Intn(5) - 2}
			}
		}
		fs = append(fs, f)
	}
	if fs[len(fs)-1].Kind == "D" { // a trailing bare descent has no defined result list
		fs[len(fs)-1] = Frag{Kind: "W"}
	}
	return fs
}

func genConst(r *Rng) any {
	switch r.Intn(8) {
	case 0:
		return nil
	case 1:
		return r.Bool()
	case 2, 3:
		return int64(r.Intn(7) - 2)
	case 4:
		return niceFloat(r)
	case 5:
		return float64(r.Intn(5) - 2)
	default:
		return r.Pick([]string{"", "a", "b", "ab"})
	}
}

var binOps = []string{"eq", "neq", "lt", "gt", "lte", "gte", "or", "and", "add", "sub", "mul", "div", "in", "empty", "has", "exists"}

func genOperand(r *Rng, depth, edepth int) *Eqn {
	switch r.Intn(10) {
	case 0, 1, 2, 3:
		return &Eqn{Kind: "p", Path: genSubPath(r, depth)}
	case 4, 5, 6:
		return &Eqn{Kind: "v", Const: genConst(r)}
	case 7:
		if r.Chance(30) {
			return &Eqn{Kind: "N"}
		}
		return &Eqn{Kind: "v", Const: genConst(r)}
	default:
		if edepth <= 0 {
			return &Eqn{Kind: "p", Path: genSubPath(r, depth)}
		}
		return genEqn(r, depth, edepth-1)
	}
}

func genEqn(r *Rng, depth, edepth int) *Eqn {
	switch r.Intn(12) {
	case 0:
		return &Eqn{Kind: "un", Op: "not", A: genOperand(r, depth, edepth)}
	case 1:
		return &Eqn{Kind: "bin", Op: r.Pick([]string{"eq", "gt", "lt"}), A: &Eqn{Kind: "un", Op: r.Pick([]string{"length", "count"}), A: &Eqn{Kind: "p", Path: genSubPath(r, depth)}}, B: &Eqn{Kind: "v", Const: int64(r.Intn(4))}}
	default:
		op := binOps[r.Intn(len(binOps))]
		a, b := genOperand(r, depth, edepth), genOperand(r, depth, edepth)
		switch op {
		case "in":
			n := r.Intn(4)
			l := make([]any, n)
			for i := range l {
				l[i] = genConst(r)
			}
			b = &Eqn{Kind: "v", Const: l}
		case "empty", "has", "exists":
			if r.Chance(85) {
				b = &Eqn{Kind: "v", Const: r.Bool()}
			}
		}
		return &Eqn{Kind: "bin", Op: op, A: a, B: b}
	}
}

func pathHas(fs []Frag, kind string) bool {
	for _, f := range fs {
		if f.Kind == kind {
			return true
		}
	}
	return false
}

func showList(vs []any) []string {
	out := make([]string, len(vs))
	for i, v := range vs {
		out[i] = Show(v)
	}
	return out
}

func splitResults(s string) []string {
	if s == "" {
		return nil
	}
	return strings.Split(s, " ; ")
}

func sameList(a, b []string, ordered bool) bool {
	if len(a) != len(b) {
		return false
	}
	if !ordered {
		a = append([]string(nil), a...)
		b = append([]string(nil), b...)
		sort.Strings(a)
		sort.Strings(b)
	}
	for i := range a {
		if a[i] != b[i] {
			return false
		}
	}
	return true
}

// directedJpCases: (path, data) pairs aimed at corners the seeded generator rarely reaches:
// filter operands anchored at the document root whose key also occurs in the elements,
// filters as the last fragment and followed by more, on objects and on top-level arrays.
func directedJpCases() (paths [][]Frag, datas []any) {
	R, A := Frag{Kind: "R"}, Frag{Kind: "A"}
	ck := func(k string) Frag { return Frag{Kind: "c", Key: k} }
	nn := func(i int) Frag { return Frag{Kind: "n", N: i} }
	pe := func(fs ...Frag) *Eqn { return &Eqn{Kind: "p", Path: fs} }
	flt := func(op string, a, b *Eqn) Frag { return Frag{Kind: "f", Eq: &Eqn{Kind: "bin", Op: op, A: a, B: b}} }
	obj := func(kv ...any) map[string]any {
		m := map[string]any{}
		for i := 0; i+1 < len(kv); i += 2 {
			m[kv[i].(string)] = kv[i+1]
		}
		return m
	}
	items := []any{obj("v", int64(1), "limit", int64(5)), obj("v", int64(7)), obj("v", int64(3), "limit", int64(0)), obj("v", int64(2), "want", int64(1))}
	doc := obj("items", items, "limit", int64(2), "want", int64(7))
	arr := []any{obj("v", int64(3)), obj("v", int64(1)), obj("v", int64(5), "x", int64(9)), obj("v", int64(3))}
	for _, op := range []string{"gt", "lt", "eq", "neq", "gte", "lte"} {
		f1 := flt(op, pe(A, ck("v")), pe(R, ck("limit")))
		f2 := flt(op, pe(A, ck("v")), pe(R, ck("want")))
		f3 := flt(op, pe(A, ck("v")), pe(R, nn(0), ck("v")))
		f4 := flt(op, pe(R, ck("limit")), pe(A, ck("v")))
		for _, f := range []Frag{f1, f2, f4} {
			paths = append(paths, []Frag{R, ck("items"), f}, []Frag{R, ck("items"), f, ck("v")}, []Frag{R, Frag{Kind: "D"}, f})
			datas = append(datas, doc, doc, doc)
		}
		paths = append(paths, []Frag{R, f3}, []Frag{R, f3, ck("v")})
		datas = append(datas, arr, arr)
		// count() / length() of a path anchored at the document root
		for _, fn := range []string{"count", "length"} {
			un := func(p ...Frag) *Eqn { return &Eqn{Kind: "un", Op: fn, A: pe(p...)} }
			k := &Eqn{Kind: "v", Const: int64(1)}
			g1 := Frag{Kind: "f", Eq: &Eqn{Kind: "bin", Op: op, A: un(R, ck("items"), Frag{Kind: "W"}), B: k}}
			g2 := Frag{Kind: "f", Eq: &Eqn{Kind: "bin", Op: op, A: un(R, ck("limit")), B: k}}
			g3 := Frag{Kind: "f", Eq: &Eqn{Kind: "bin", Op: op, A: un(R, Frag{Kind: "W"}), B: &Eqn{Kind: "v", Const: int64(4)}}}
			paths = append(paths, []Frag{R, ck("items"), g1}, []Frag{R, ck("items"), g2}, []Frag{R, g2}, []Frag{R, g3}, []Frag{R, nn(-1), g3})
			datas = append(datas, doc, doc, doc, arr, arr)
		}
	}
	return
}

// defuseRootOperands returns a copy of the path in which the filter operands anchored at the
// document root ($...) are replaced by the scalars they denote in doc. An operand that denotes
// exactly one scalar becomes that scalar; when operands denote several scalars the whole filter
// equation becomes the disjunction of its instances over every combination (the evaluator's rule
// for multi-valued operands: the filter matches if any combination does); an operand that denotes
// nothing becomes Nothing. length($..) / count($..) become the integer they denote.
// changed: at least one operand was replaced; ok: every root-anchored operand could be replaced
// (scalars only, at most 24 combinations per filter).
func defuseRootOperands(path []Frag, doc any) (out []Frag, changed, ok bool) {
	ok = true
	isRootPath := func(e *Eqn) bool { return e != nil && e.Kind == "p" && len(e.Path) > 0 && e.Path[0].Kind == "R" }
	scalars := func(rs []any) ([]any, bool) {
		for _, v := range rs {
			switch v.(type) {
			case nil, bool, int64, float64, string:
			default:
				return nil, false
			}
		}
		return rs, true
	}
	var frs func(fs []Frag) []Frag
	// collect the root operands of one equation (in order), with the values each denotes
	type operand struct {
		node *Eqn
		vals []any
	}
	var collect func(e *Eqn, acc *[]operand)
	collect = func(e *Eqn, acc *[]operand) {
		if e == nil {
			return
		}
		switch e.Kind {
		case "p":
			if isRootPath(e) {
				vs, good := scalars(BuildExpr(e.Path).Get(doc))
				if !good {
					ok = false
				}
				*acc = append(*acc, operand{e, vs})
			}
		case "un":
			if (e.Op == "length" || e.Op == "count") && isRootPath(e.A) {
				rs := BuildExpr(e.A.Path).Get(doc)
				n := -1
				if e.Op == "count" {
					n = len(rs)
				} else if len(rs) == 1 {
					switch t := rs[0].(type) {
					case string:
						n = len(t)
					case []any:
						n = len(t)
					case map[string]any:
						n = len(t)
					}
				}
				if n < 0 {
					ok = false
				}
				*acc = append(*acc, operand{e, []any{int64(n)}})
				return
			}
			collect(e.A, acc)
			collect(e.B, acc)
		default:
			collect(e.A, acc)
			collect(e.B, acc)
		}
	}
	// a copy of e in which the collected operands are replaced by pick[node]
	var subst func(e *Eqn, pick map[*Eqn]*Eqn) *Eqn
	subst = func(e *Eqn, pick map[*Eqn]*Eqn) *Eqn {
		if e == nil {
			return nil
		}
		if r, found := pick[e]; found {
			return r
		}
		c := *e
		if e.Kind == "p" {
			c.Path = frs(e.Path)
			return &c
		}
		c.A, c.B = subst(e.A, pick), subst(e.B, pick)
		return &c
	}
	defuseEq := func(e *Eqn) *Eqn {
		var ops []operand
		collect(e, &ops)
		if len(ops) == 0 || !ok {
			return subst(e, nil)
		}
		changed = true
		combos := 1
		for _, o := range ops {
			if len(o.vals) > 1 {
				combos *= len(o.vals)
			}
		}
		if combos > 24 {
			ok = false
			return subst(e, nil)
		}
		var result *Eqn
		idx := make([]int, len(ops))
		for {
			pick := map[*Eqn]*Eqn{}
			for k, o := range ops {
				if len(o.vals) == 0 {
					pick[o.node] = &Eqn{Kind: "N"}
				} else {
					pick[o.node] = &Eqn{Kind: "v", Const: o.vals[idx[k]]}
				}
			}
			inst := subst(e, pick)
			if result == nil {
				result = inst
			} else {
				result = &Eqn{Kind: "bin", Op: "or", A: result, B: inst}
			}
			k := 0
			for ; k < len(ops); k++ {
				if len(ops[k].vals) > 1 {
					idx[k]++
					if idx[k] < len(ops[k].vals) {
						break
					}
					idx[k] = 0
				}
			}
			if k == len(ops) {
				break
			}
		}
		return result
	}
	frs = func(fs []Frag) []Frag {
		o := make([]Frag, len(fs))
		for i, f := range fs {
			o[i] = f
			if f.Kind == "f" {
				o[i].Eq = defuseEq(f.Eq)
			}
		}
		return o
	}
	out = frs(path)
	return
}
