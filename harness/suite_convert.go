package main

import (
	"fmt"
	"math"
	"reflect"
	"sort"
	"strconv"
	"strings"
	"time"

	"github.com/ohler55/ojg"
	"github.com/ohler55/ojg/alt"
	"github.com/ohler55/ojg/gen"
	"github.com/ohler55/ojg/oj"
	"github.com/ohler55/ojg/pretty"
	"github.com/ohler55/ojg/sen"
)

// ShowTyped prints a simple value in the model's typed form (I<kind>:<dec> integers).
func ShowTyped(v any) string {
	var sb strings.Builder
	showTyped(&sb, v)
	return sb.String()
}

func showTyped(sb *strings.Builder, v any) {
	ti := func(k int, s string) { sb.WriteString("I" + strconv.Itoa(k) + ":" + s) }
	switch t := v.(type) {
	case int:
		ti(0, strconv.FormatInt(int64(t), 10))
	case int8:
		ti(1, strconv.FormatInt(int64(t), 10))
	case int16:
		ti(2, strconv.FormatInt(int64(t), 10))
	case int32:
		ti(3, strconv.FormatInt(int64(t), 10))
	case int64:
		ti(4, strconv.FormatInt(t, 10))
	case uint:
		ti(5, strconv.FormatUint(uint64(t), 10))
	case uint8:
		ti(6, strconv.FormatUint(uint64(t), 10))
	case uint16:
		ti(7, strconv.FormatUint(uint64(t), 10))
	case uint32:
		ti(8, strconv.FormatUint(uint64(t), 10))
	case uint64:
		ti(9, strconv.FormatUint(t, 10))
	case []any:
		sb.WriteByte('[')
		for i, e := range t {
			if i > 0 {
				sb.WriteByte(' ')
			}
			showTyped(sb, e)
		}
		sb.WriteByte(']')
	case map[string]any:
		keys := make([]string, 0, len(t))
		for k := range t {
			keys = append(keys, k)
		}
		sort.Strings(keys)
		sb.WriteByte('{')
		for i, k := range keys {
			if i > 0 {
				sb.WriteByte(' ')
			}
			sb.WriteString("k" + hx([]byte(k)) + " ")
			showTyped(sb, t[k])
		}
		sb.WriteByte('}')
	case time.Time:
		sb.WriteString("T" + strconv.FormatInt(t.UnixNano(), 10))
	default:
		show(sb, v) // nil, bool, float64, string; gen types show up as themselves (a disagreement)
	}
}

func genTypedScalar(r *Rng, jsonLike bool) any {
	switch r.Intn(12) {
	case 0:
		return nil
	case 1:
		return r.Bool()
	case 2:
		return niceFloat(r)
	case 3:
		return r.Pick([]string{"", "a", "ab", "1", "null", "\x00\"\\", "é"})
	case 4:
		return r.Pick([]string{"", "x"})
	case 5:
		return []float64{0, -0.5, 1e21, 1e-7, math.MaxFloat64, 3}[r.Intn(6)]
	}
	ext := []int64{0, 1, -1, 127, -128, 255, 32767, -32768, 65535, math.MaxInt32, math.MinInt32, math.MaxUint32, math.MaxInt64, math.MinInt64}
	z := ext[r.Intn(len(ext))]
	if r.Chance(40) {
		z = int64(r.Intn(200) - 100)
	}
	if jsonLike {
		return z
	}
	switch r.Intn(11) {
	case 0:
		return int(z)
	case 1:
		return int8(z)
	case 2:
		return int16(z)
	case 3:
		return int32(z)
	case 4:
		return uint(z)
	case 5:
		return uint8(z)
	case 6:
		return uint16(z)
	case 7:
		return uint32(z)
	case 8:
		return uint64(z) // negative z: values above MaxInt64, which wrap
	}
	return z
}

func genTyped(r *Rng, depth int, jsonLike bool) any {
	k := r.Intn(10)
	if depth <= 0 || k < 3 {
		return genTypedScalar(r, jsonLike)
	}
	if k < 6 {
		n := r.Intn(5)
		a := make([]any, n, n+r.Intn(3)) // spare capacity: appends to a copy must not reach the original
		for i := range a {
			a[i] = genTyped(r, depth-1, jsonLike)
		}
		return a
	}
	n := r.Intn(5)
	m := map[string]any{}
	for i := 0; i < n; i++ {
		m[jpKeys[r.Intn(len(jpKeys))]] = genTyped(r, depth-1, jsonLike)
	}
	return m
}

// deep copy of a typed simple tree made by the harness itself
func copyTyped(v any) any {
	switch t := v.(type) {
	case []any:
		a := make([]any, len(t))
		for i, e := range t {
			a[i] = copyTyped(e)
		}
		return a
	case map[string]any:
		m := map[string]any{}
		for k, e := range t {
			m[k] = copyTyped(e)
		}
		return m
	}
	return v
}

// ---- identities of containers

type container struct {
	path string
	v    any // []any, map[string]any, gen.Array or gen.Object
}

func containers(v any, path string, out *[]container) {
	switch t := v.(type) {
	case []any:
		*out = append(*out, container{path, t})
		for i, e := range t {
			containers(e, path+"/"+strconv.Itoa(i), out)
		}
	case gen.Array:
		*out = append(*out, container{path, t})
		for i, e := range t {
			containers(e, path+"/"+strconv.Itoa(i), out)
		}
	case map[string]any:
		*out = append(*out, container{path, t})
		for _, k := range sortedKeys(t) {
			containers(t[k], path+"/"+k, out)
		}
	case gen.Object:
		*out = append(*out, container{path, t})
		keys := make([]string, 0, len(t))
		for k := range t {
			keys = append(keys, k)
		}
		sort.Strings(keys)
		for _, k := range keys {
			containers(t[k], path+"/"+k, out)
		}
	}
}

func sortedKeys(m map[string]any) []string {
	keys := make([]string, 0, len(m))
	for k := range m {
		keys = append(keys, k)
	}
	sort.Strings(keys)
	return keys
}

// identity of the mutable storage behind a container (0: none, e.g. a slice without capacity)
func identity(c any) uintptr {
	rv := reflect.ValueOf(c)
	switch rv.Kind() {
	case reflect.Slice:
		if rv.Cap() == 0 {
			return 0
		}
		return rv.Pointer()
	case reflect.Map:
		return rv.Pointer()
	}
	return 0
}

// in-place mutations of one container; each returns false when it does not apply
func mutateContainer(c any, which int) bool {
	switch t := c.(type) {
	case []any:
		switch which {
		case 0:
			if len(t) == 0 {
				return false
			}
			t[0] = "MUT"
		case 1:
			if len(t) == 0 {
				return false
			}
			t[len(t)-1] = []any{"MUT"}
		case 2:
			if cap(t) == len(t) {
				return false
			}
			_ = append(t, "MUT") // writes into spare capacity
		default:
			return false
		}
	case gen.Array:
		switch which {
		case 0:
			if len(t) == 0 {
				return false
			}
			t[0] = gen.String("MUT")
		case 1:
			if len(t) == 0 {
				return false
			}
			t[len(t)-1] = gen.Array{gen.String("MUT")}
		case 2:
			if cap(t) == len(t) {
				return false
			}
			_ = append(t, gen.String("MUT"))
		default:
			return false
		}
	case map[string]any:
		if t == nil {
			return false
		}
		switch which {
		case 0:
			t["MUT"] = int64(1)
		case 1:
			ks := sortedKeys(t)
			if len(ks) == 0 {
				return false
			}
			delete(t, ks[0])
		case 2:
			ks := sortedKeys(t)
			if len(ks) == 0 {
				return false
			}
			t[ks[len(ks)-1]] = "MUT"
		default:
			return false
		}
	case gen.Object:
		if t == nil {
			return false
		}
		keys := make([]string, 0, len(t))
		for k := range t {
			keys = append(keys, k)
		}
		sort.Strings(keys)
		switch which {
		case 0:
			t["MUT"] = gen.Int(1)
		case 1:
			if len(keys) == 0 {
				return false
			}
			delete(t, keys[0])
		case 2:
			if len(keys) == 0 {
				return false
			}
			t[keys[len(keys)-1]] = gen.String("MUT")
		default:
			return false
		}
	default:
		return false
	}
	return true
}

type copier struct {
	name string
	gen  bool // the input is a gen tree
	f    func(v any) any
}

func suiteConvert(tier string, seed uint64, model string) *Report {
	rep := &Report{Property: "C18", Tier: tier, Seed: seed}
	r := NewRng(seed)
	n := 6000
	if tier == "thorough" {
		n = 80000
	}
	keep := ojg.DefaultOptions
	keep.OmitNil = false
	keep.OmitEmpty = false
	keep.Sort = true
	omit := keep
	omit.OmitNil = true
	pw := pretty.Writer{Options: keep, Width: 40, MaxDepth: 3}
	oe, on, oen := keep, keep, keep
	oe.OmitEmpty = true
	on.OmitNil = true
	oen.OmitEmpty, oen.OmitNil = true, true
	omitVariants := []ojg.Options{oe, on, oen}

	var cases []any
	cases = append(cases,
		map[string]any{"a": nil, "b": []any{}, "c": map[string]any{}, "d": []any{nil, []any{}, map[string]any{"a": nil}}},
		[]any{uint64(math.MaxUint64), uint64(1 << 63), uint(math.MaxUint64), int8(-128), uint8(255)},
		map[string]any{"": map[string]any{"": nil}}, nil, []any{}, map[string]any{},
		map[string]any{"owner": map[string]any{"x": "", "y": []any{}}, "k": int64(1), "n": map[string]any{"z": nil}},
		[]any{map[string]any{"o": map[string]any{"e": map[string]any{}}}, map[string]any{"s": ""}})
	for i := 0; i < n; i++ {
		cases = append(cases, genTyped(r, 1+r.Intn(4), r.Chance(50)))
	}
	var reqs []string
	for _, v := range cases {
		reqs = append(reqs, "convert\t0\t"+ShowTyped(v), "convert\t1\t"+ShowTyped(v))
	}
	ans, err := RunModel(model, reqs)
	if err != nil {
		rep.Add(Disagreement{Kind: "harness-error", Detail: err.Error()})
		return rep
	}
	distinct := map[string]bool{}
	diff := func(desc, where, kind, impl, want string) {
		if impl != want {
			rep.Add(Disagreement{Case: desc, Where: where, Kind: kind, Impl: impl, Model: want})
		}
	}
	for i, v := range cases {
		desc := ShowTyped(v)
		for oi, opt := range []*ojg.Options{&keep, &omit} {
			parts := strings.Split(ans[2*i+oi], " | ")
			if len(parts) != 4 {
				rep.Add(Disagreement{Case: desc, Kind: "harness-error", Detail: ans[2*i+oi]})
				continue
			}
			mGen, mDec, mSimp, mView := parts[0], parts[1], parts[2], parts[3]
			rep.Evaluations++
			rep.Count(fmt.Sprintf("omitnil=%d", oi))
			w := fmt.Sprintf("/omitnil=%d", oi)
			diff(desc, "alt.Generify"+w, "impl-vs-model:generify", safe(func() string { return Show(alt.Generify(copyTyped(v), opt)) }), mGen)
			diff(desc, "alt.GenAlter"+w, "impl-vs-model:generify", safe(func() string { return Show(alt.GenAlter(copyTyped(v), opt)) }), mGen)
			diff(desc, "alt.Decompose"+w, "impl-vs-model:decompose", safe(func() string { return ShowTyped(alt.Decompose(copyTyped(v), opt)) }), mDec)
			diff(desc, "alt.Dup"+w, "impl-vs-model:decompose", safe(func() string { return ShowTyped(alt.Dup(copyTyped(v), opt)) }), mDec)
			diff(desc, "alt.Alter"+w, "impl-vs-model:decompose", safe(func() string { return ShowTyped(alt.Alter(copyTyped(v), opt)) }), mDec)
			diff(desc, "Generify.Simplify"+w, "impl-vs-model:simplify", safe(func() string {
				g := alt.Generify(copyTyped(v), opt)
				if g == nil {
					return "n"
				}
				return ShowTyped(g.Simplify())
			}), mSimp)
			diff(desc, "GenAlter.Alter"+w, "impl-vs-model:simplify", safe(func() string {
				g := alt.GenAlter(copyTyped(v), opt)
				if g == nil {
					return "n"
				}
				return ShowTyped(g.Alter())
			}), mSimp)
			diff(desc, "alt.Alter(gen)"+w, "impl-vs-model:simplify", safe(func() string {
				return ShowTyped(alt.Alter(alt.Generify(copyTyped(v), opt), opt))
			}), mSimp)
			if oi == 0 {
				// the property itself on JSON-like data: the trip is the identity (theorem C18_roundtrip
				// says the model agrees whenever json_like holds; checked here on the real code directly)
				if isJSONLike(v) {
					distinct[desc] = true
					diff(desc, "roundtrip", "impl-law:roundtrip", mSimp, desc)
					diff(desc, "roundtrip", "impl-law:dup", mDec, desc)
				}
				// writers: a gen tree and its simple equivalent give the same text
				g := alt.Generify(copyTyped(v), opt)
				var s any
				if g != nil {
					s = g.Simplify()
				}
				diff(desc, "oj.JSON", "impl-law:writers", safe(func() string { return oj.JSON(s, &keep) }), safe(func() string { return oj.JSON(g, &keep) }))
				diff(desc, "sen.String", "impl-law:writers", safe(func() string { return sen.String(s, &keep) }), safe(func() string { return sen.String(g, &keep) }))
				diff(desc, "pretty.JSON", "impl-law:writers", safe(func() string { return string(pw.Encode(s)) }), safe(func() string { return string(pw.Encode(g)) }))
				// the same under the omit options
				for oi2, oo := range omitVariants {
					oo := oo
					tag := fmt.Sprintf("/omit%d", oi2)
					diff(desc, "oj.JSON"+tag, "impl-law:writers", safe(func() string { return oj.JSON(s, &oo) }), safe(func() string { return oj.JSON(g, &oo) }))
					diff(desc, "sen.String"+tag, "impl-law:writers", safe(func() string { return sen.String(s, &oo) }), safe(func() string { return sen.String(g, &oo) }))
					diff(desc, "pretty.JSON"+tag, "impl-law:writers", safe(func() string { return pretty.JSON(s, &oo) }), safe(func() string { return pretty.JSON(g, &oo) }))
					diff(desc, "pretty.SEN"+tag, "impl-law:writers", safe(func() string { return pretty.SEN(s, &oo) }), safe(func() string { return pretty.SEN(g, &oo) }))
				}
				// and that text denotes view(v)
				diff(desc, "oj.JSON/parse", "impl-vs-model:view", safe(func() string {
					return bigToInt(Show(oj.MustParseString(oj.JSON(v, &keep))))
				}), viewParsed(mView))
			}
		}
		if i%997 == 0 && len(rep.Samples) < 10 {
			rep.Samples = append(rep.Samples, desc)
		}
	}

	// ---- deep copy: identities and mutate-after-copy experiments
	copiers := []copier{
		{"alt.Dup", false, func(v any) any { return alt.Dup(v, &keep) }},
		{"alt.Decompose", false, func(v any) any { return alt.Decompose(v, &keep) }},
		{"alt.Generify", false, func(v any) any { return alt.Generify(v, &keep) }},
		{"alt.Decompose(gen)", true, func(v any) any { return alt.Decompose(v, &keep) }},
		{"alt.Generify(gen)", true, func(v any) any { return alt.Generify(v, &keep) }}, // documented to return the node itself
		{"gen.Dup", true, func(v any) any { return v.(gen.Node).Dup() }},
		{"gen.Simplify", true, func(v any) any { return v.(gen.Node).Simplify() }},
	}
	m := n / 4
	for i := 0; i < m; i++ {
		base := genTyped(r, 1+r.Intn(4), true)
		for _, cp := range copiers {
			if cp.name == "alt.Generify(gen)" {
				continue // returns its argument when it already is a Node: not a copying operation
			}
			mk := func() any {
				o := copyTyped(base)
				if cp.gen {
					return alt.Generify(o, &keep)
				}
				return o
			}
			o := mk()
			if o == nil {
				continue
			}
			c := cp.f(o)
			rep.Evaluations++
			rep.Count("copy:" + cp.name)
			so, sc := Show(o), Show(c)
			var oc, cc []container
			containers(o, "", &oc)
			containers(c, "", &cc)
			ids := map[uintptr]string{}
			for _, x := range oc {
				if id := identity(x.v); id != 0 {
					ids[id] = x.path
				}
			}
			for _, x := range cc {
				if id := identity(x.v); id != 0 {
					if p, shared := ids[id]; shared {
						rep.Add(Disagreement{Case: so, Where: cp.name, Kind: "impl-vs-model:shared-storage",
							Impl: "copy" + x.path + " is the same storage as original" + p, Model: "fresh location for every container (Store.copy_correct)"})
					}
				}
			}
			// mutate every container of the copy in every way: the original must not change
			for _, x := range cc {
				for w := 0; w < 3; w++ {
					if mutateContainer(x.v, w) {
						rep.Count("mutations")
						if got := Show(o); got != so {
							rep.Add(Disagreement{Case: so, Where: cp.name, Kind: "impl-law:mutate-copy-changes-original",
								Impl: got, Model: so, Detail: fmt.Sprintf("container %q of the copy, mutation %d", x.path, w)})
							o = mk()
							so = Show(o)
						}
					}
				}
			}
			// and the other way round, on a fresh pair
			o = mk()
			c = cp.f(o)
			sc = Show(c)
			oc = oc[:0]
			containers(o, "", &oc)
			for _, x := range oc {
				for w := 0; w < 3; w++ {
					if mutateContainer(x.v, w) {
						rep.Count("mutations")
						if got := Show(c); got != sc {
							rep.Add(Disagreement{Case: so, Where: cp.name, Kind: "impl-law:mutate-original-changes-copy",
								Impl: got, Model: sc, Detail: fmt.Sprintf("container %q of the original, mutation %d", x.path, w)})
							sc = got
						}
					}
				}
			}
		}
	}

	// directed: an empty slice with spare capacity is copied too (appending to the copy must not
	// write into storage the original owns); times keep their zone through Generify / Simplify
	for _, cp := range copiers[:2] {
		for k := 0; k < 5; k++ {
			rep.Evaluations++
			top := make([]any, 0, 4)
			inner := make([]any, 0, 2)
			o := map[string]any{"a": top, "l": []any{inner, int64(k)}}
			out := safe(func() string {
				c, _ := cp.f(o).(map[string]any)
				if c == nil {
					return "not a map"
				}
				if ca, ok := c["a"].([]any); ok {
					_ = append(ca, "X")
				}
				if cl, ok := c["l"].([]any); ok && len(cl) > 0 {
					if ci, ok := cl[0].([]any); ok {
						_ = append(ci, "Y")
					}
				}
				if top[:1][0] != nil || inner[:1][0] != nil {
					return fmt.Sprintf("appending to the copy wrote %v / %v into the original's storage", top[:1][0], inner[:1][0])
				}
				return "ok"
			})
			if out != "ok" {
				rep.Add(Disagreement{Case: "empty slices with spare capacity", Where: cp.name, Kind: "impl-law:mutate-copy-changes-original", Impl: out, Model: "independent storage"})
			}
		}
	}
	for k := 0; k < 6; k++ {
		rep.Evaluations++
		zone := time.FixedZone("z", (k-3)*3600)
		tm := time.Date(2021, 3, 5, 10, 11, 12, 0, zone)
		v := map[string]any{"t": tm, "l": []any{tm}}
		out := safe(func() string {
			g := alt.Generify(v, &keep)
			back, _ := g.Simplify().(map[string]any)
			bt, _ := back["t"].(time.Time)
			if bt != tm {
				return fmt.Sprintf("time came back as %v", back["t"])
			}
			o := keep
			o.TimeFormat = time.RFC3339
			if a, b := oj.JSON(v, &o), oj.JSON(g, &o); a != b {
				return "writers differ: " + a + " vs " + b
			}
			return "ok"
		})
		if out != "ok" {
			rep.Add(Disagreement{Case: tm.String(), Where: "alt.Generify/Simplify (time.Time)", Kind: "impl-law:roundtrip", Impl: out, Model: tm.String()})
		}
	}

	// ---- gen.Parser output = Generify(oj.Parser output)
	var docs [][]byte
	for _, s := range []string{"0", "-0", "1.5", "1e3", "9223372036854775807", "-9223372036854775808", "9223372036854775808",
		"123456789012345678901234567890", "1e400", "-1e-400", "0.1234567890123456789012345", "[1,2.0,\"x\",null,true,{}]", "{\"a\":{\"a\":[[]]}}",
		"12345678901234567890.5", "1.0e+2", "[]", "{}", "\"\\ud83d\\ude00\"", "{\"a\":1,\"a\":2}"} {
		docs = append(docs, []byte(s))
	}
	for i := 0; i < n; i++ {
		docs = append(docs, genDoc(r))
	}
	// every decimal a.bc and a sample of a.bcd, bare and inside containers
	for a := 0; a <= 20; a++ {
		for f := 0; f < 100; f++ {
			docs = append(docs, []byte(fmt.Sprintf("%d.%02d", a, f)))
		}
		for f := 0; f < 1000; f += 7 {
			docs = append(docs, []byte(fmt.Sprintf("[%d.%03d,{\"a\":-%d.%03d}]", a, f, a+1, (f*3)%1000)))
		}
	}
	for _, d := range docs {
		rep.Evaluations++
		rep.Count("parse-pair")
		a := safe(func() string {
			v, err := (&oj.Parser{}).Parse(d)
			if err != nil {
				return "error"
			}
			return Show(alt.Generify(v, &keep))
		})
		b := safe(func() string {
			v, err := (&gen.Parser{}).Parse(d)
			if err != nil {
				return "error"
			}
			return Show(v)
		})
		if a != b {
			cl := ""
			if strings.Contains(b, "b") && bigOnly(a, b) {
				cl = "big-number"
			}
			rep.Add(Disagreement{Case: string(d), Where: "gen.Parser vs Generify(oj.Parser)", Kind: "impl-law:parsers", Impl: a, Model: b, Class: cl})
		}
	}

	// ---- kinds outside the Coq model: time.Time survives Generify -> Simplify
	for i := 0; i < 200; i++ {
		tm := time.Unix(int64(r.Intn(2000000000)), int64(r.Intn(1000000000))).UTC()
		v := map[string]any{"t": tm, "a": []any{tm, nil}}
		rep.Evaluations++
		rep.Count("time")
		got := safe(func() string { return ShowTyped(alt.Generify(v, &keep).Simplify()) })
		diff(ShowTyped(v), "Generify.Simplify/time", "impl-law:roundtrip", got, ShowTyped(v))
	}
	rep.Distinct = len(distinct)
	rep.Rule = "typed simple trees (all ten Go integer kinds at their extremes incl. uint64 above MaxInt64, nil members, nested empty containers, spare slice capacity; half of them JSON-like) x OmitNil on/off: alt.Generify, GenAlter, Decompose, Dup, Alter, Node.Simplify, Node.Alter against the extracted generify/decompose/simplify; identity of the trip on JSON-like data; oj/sen/pretty writer text of a gen tree vs its Simplify; writer text parsed back vs the model's view; storage identities of every container of original and copy (reflect pointers) plus three in-place mutations of every container of the copy and of the original for Dup, Decompose, Generify, Node.Dup, Node.Simplify on simple and gen inputs; gen.Parser vs Generify(oj.Parser) on number extremes and seeded documents; time.Time through Generify/Simplify; non-trivial = JSON-like trees"
	return rep
}

func isJSONLike(v any) bool {
	switch t := v.(type) {
	case nil, bool, int64, float64, string:
		return true
	case []any:
		for _, e := range t {
			if !isJSONLike(e) {
				return false
			}
		}
		return true
	case map[string]any:
		for _, e := range t {
			if !isJSONLike(e) {
				return false
			}
		}
		return true
	}
	return false
}

// the writer prints integers above MaxInt64 (uint64) as digits; parsed back they are big numbers
// or floats, so those tokens are compared as numbers
func viewParsed(view string) string {
	toks := strings.Split(view, " ")
	for i, tk := range toks {
		j := 0
		for j < len(tk) && (tk[j] == '[' || tk[j] == '{') {
			j++
		}
		if j < len(tk) && tk[j] == 'i' {
			k := len(tk)
			for k > j && (tk[k-1] == ']' || tk[k-1] == '}') {
				k--
			}
			if _, err := strconv.ParseInt(tk[j+1:k], 10, 64); err != nil {
				toks[i] = tk[:j] + "b" + tk[j+1:k] + tk[k:]
			}
		}
	}
	return normIntegralFloats(strings.Join(toks, " "))
}

// a float64 with an integral value is written without a fraction and so parses back as an int
func normIntegralFloats(s string) string {
	toks := strings.Split(s, " ")
	for i, tk := range toks {
		j := 0
		for j < len(tk) && (tk[j] == '[' || tk[j] == '{') {
			j++
		}
		if j < len(tk) && tk[j] == 'd' {
			k := len(tk)
			for k > j && (tk[k-1] == ']' || tk[k-1] == '}') {
				k--
			}
			f, err := strconv.ParseFloat(tk[j+1:k], 64)
			if err == nil && f == math.Trunc(f) && math.Abs(f) < 1e15 {
				toks[i] = tk[:j] + "i" + strconv.FormatInt(int64(f), 10) + tk[k:]
			}
		}
	}
	return strings.Join(toks, " ")
}

// a and b differ only in tokens where b has a big number
func bigOnly(a, b string) bool {
	ta, tb := strings.Split(a, " "), strings.Split(b, " ")
	if len(ta) != len(tb) {
		return false
	}
	for i := range ta {
		if ta[i] != tb[i] && !strings.Contains(tb[i], "b") {
			return false
		}
	}
	return true
}

// the parser delivers 922337203685477580x as a big number (recorded C02 finding): compare as ints
func bigToInt(s string) string {
	toks := strings.Split(s, " ")
	for i, tk := range toks {
		p, c, q := splitDeco(tk)
		if len(c) > 1 && c[0] == 'b' {
			if _, err := strconv.ParseInt(c[1:], 10, 64); err == nil {
				toks[i] = p + "i" + c[1:] + q
			}
		}
	}
	return strings.Join(toks, " ")
}
