(* C13 — path mutations touch exactly the selected locations.
   Set/Del/Remove/Modify are specified as functional updates [upd] at the normalized paths the
   expression locates (Jp/Mutate.v). Proved for every normalized path, update function and
   document: EFFECT (afterwards the location holds the new value) and FRAME (every location
   that diverges from the updated one is unchanged). The real operations (simple and gen data,
   all *One forms) are compared with the extracted specifications on every run. *)
From Coq Require Import Init.Byte ZArith List Bool.
Require Import Ojg.Base.Bytes Ojg.Base.Jv Ojg.Jp.Expr Ojg.Jp.Locate Ojg.Jp.Mutate.
Import ListNotations.

Theorem C13_effect : forall p g d v, at_path p d = Some v -> at_path p (upd p g d) = Some (g v).
Proof. exact upd_effect. Qed.

Theorem C13_frame : forall p q g d, normal_path p = true -> normal_path q = true ->
  diverge p q = true -> at_path q (upd p g d) = at_path q d.
Proof. exact upd_frame. Qed.

(* non-vacuity: a Set through a wildcard and what it leaves alone *)
Example C13_example :
  set_spec slice_indexes [FRoot; FChild [x61]; FWild] (JStr [x7a])
           (JObj [([x61], JArr [JInt 1; JInt 2]); ([x62], JArr [JInt 3])])
  = JObj [([x61], JArr [JStr [x7a]; JStr [x7a]]); ([x62], JArr [JInt 3])].
Proof. vm_compute. reflexivity. Qed.

Print Assumptions C13_effect.
Print Assumptions C13_frame.
