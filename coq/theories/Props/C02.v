(* C02 — parsed values denote exactly what the JSON text denotes.
   Structural clause (the C02_documents theorems): for every input, Parser and gen.Parser accept exactly
   the texts the reference parser accepts and deliver its documents, number literals replaced
   by the number builder's result (ValueSim.v).
   Integer clause: on the digit-at-a-time path every plain integer literal whose magnitude
   fits int64 is delivered as that int64 (any number of digits, either sign).
   The float/big text, the scan-ahead path and the SEN front-end are decided by correspondence
   against the reference parser RefParse.v; see DESIGN.md. *)
From Coq Require Import Init.Byte ZArith List Bool.
Require Import Ojg.Base.Bytes Ojg.Base.Jv Ojg.Json.Number Ojg.Json.NumberFacts.
Require Import Ojg.Json.Machine Ojg.Json.Ref Ojg.Json.RefParse Ojg.Json.Sweep Ojg.Json.DataInv Ojg.Json.Frontends.
Require Import Ojg.Json.Sweep_parser Ojg.Json.Sweep_gen Ojg.Json.DSweeps Ojg.Json.ValueSim Ojg.Json.ValueSimSweeps Ojg.Json.IntLit Ojg.Json.Fmt Ojg.Json.Dec Ojg.Json.Expo Ojg.Json.Literals.
Import ListNotations.
Open Scope Z_scope.

Theorem C02_int_clause : forall (ds : bytes) (neg : bool),
  Forall digit_ok ds -> digits_val ds <= max_int64 ->
  as_num (fold_left add_digit ds (if neg then set_neg num_reset else num_reset))
  = JInt (if neg then - digits_val ds else digits_val ds).
Proof. exact slow_int_exact. Qed.

Theorem C02_no_wrap : forall i d, 0 <= i <= 922337203685477580 -> 0 <= d <= 9 -> wrap64 (i * 10 + d) = i * 10 + d.
Proof. exact no_wrap_digit. Qed.

Print Assumptions C02_int_clause.
Print Assumptions C02_no_wrap.


(* Structural clause, for every input: Parser and gen.Parser (single-document and multi-document
   modes) accept exactly the texts the reference parser RefParse.v accepts and deliver its
   documents, each number literal t replaced by what the number builder makes of t (see
   ValueSim.v). Strings with every escape, member order, duplicate keys (last one wins),
   nesting and top-level sequences are exact. *)
Definition C02_documents (one : bool) (K : cfg) : Prop :=
  forall w,
    match run_all K w with
    | OOk docs _ => exists rdocs, ref_parse one false w = Some rdocs /\ docs = map (tr K) rdocs
    | OErr _ _ => ref_parse one false w = None
    | _ => False
    end.

Theorem C02_documents_parser : C02_documents true fe_parser.
Proof. exact (parse_refines true fe_parser eq_refl sweep_parser dsweep_parser simsweep_parser). Qed.
Theorem C02_documents_gen : C02_documents true fe_gen.
Proof. exact (parse_refines true fe_gen eq_refl sweep_gen dsweep_gen simsweep_gen). Qed.
Theorem C02_documents_parser_multi : C02_documents false fe_parser_multi.
Proof. exact (parse_refines false fe_parser_multi eq_refl sweep_parser_multi dsweep_parser_multi simsweep_parser_multi). Qed.
Theorem C02_documents_gen_multi : C02_documents false fe_gen_multi.
Proof. exact (parse_refines false fe_gen_multi eq_refl sweep_gen_multi dsweep_gen_multi simsweep_gen_multi). Qed.

(* Parse on a byte slice is the machine run, after an optional byte order mark *)
Theorem C02_parse_bytes_plain : forall K b w, beqb b xef = false -> parse_bytes K (b :: w) = run_all K (b :: w).
Proof. exact parse_bytes_nobom. Qed.
Theorem C02_parse_bytes_bom : forall K b w, parse_bytes K (xef :: xbb :: xbf :: b :: w) = run_all K (b :: w).
Proof. exact parse_bytes_bom. Qed.

(* a value without number leaves is delivered unchanged *)
Theorem C02_no_numbers_exact : forall K v, nonum v = true -> tr K v = v.
Proof. exact tr_nonum. Qed.

(* non-vacuity: {"a":[1,"x\né",true],"a":null} [2.5]   (multi-document mode) *)
Example C02_documents_example :
  let w := map (fun n => n2b n)
    [123;34;97;34;58;91;49;44;34;120;92;110;92;117;48;48;101;57;34;44;116;114;117;101;93;44;34;98;34;58;110;117;108;108;125;32;91;50;46;53;93]%N in
  run_all fe_parser_multi w =
    OOk [JObj [([x61], JArr [JInt 1; JStr [x78; x0a; xc3; xa9]; JBool true]); ([x62], JNull)]; JArr [JFloat [x32; x2e; x35]]] [] /\
  ref_parse false false w =
    Some [JObj [([x61], JArr [JBig [x31]; JStr [x78; x0a; xc3; xa9]; JBool true]); ([x62], JNull)]; JArr [JBig [x32; x2e; x35]]].
Proof. vm_compute. split; reflexivity. Qed.

Print Assumptions C02_documents_parser.
Print Assumptions C02_documents_gen_multi.


(* integer literals, through the machine's own path (scan-ahead loop of the first buffer for
   non-negative literals, digit-at-a-time for negative ones): the leaf that C02_documents assigns
   to a plain integer literal is that integer *)
Theorem C02_int_literal_plain : forall K d1 ds,
  is_19 d1 = true -> all_digits ds -> digits_val (d1 :: ds) < 9223372036854775800 ->
  tr K (JBig (d1 :: ds)) = JInt (digits_val (d1 :: ds)).
Proof. exact leaf_int_literal_plain. Qed.
Theorem C02_int_literal_zero : forall K, tr K (JBig [x30]) = JInt 0.
Proof. exact leaf_int_literal_zero. Qed.
Theorem C02_int_literal_neg : forall K d1 ds,
  is_19 d1 = true -> all_digits ds -> digits_val (d1 :: ds) <= max_int64 ->
  tr K (JBig (x2d :: d1 :: ds)) = JInt (- digits_val (d1 :: ds)).
Proof. exact leaf_int_literal_neg. Qed.
Print Assumptions C02_int_literal_plain.
Print Assumptions C02_int_literal_neg.

(* decimal literals  [-] int . frac  (no exponent, at most 18 fraction digits): the leaf is a float
   whose text is the literal itself; the delivered float64 is strconv.ParseFloat of that text
   (gen.Number.AsNum), so it is the float64 nearest to the literal *)
Theorem C02_dec_literal_plain : forall K d1 ds fr,
  is_19 d1 = true -> all_digits ds -> digits_val (d1 :: ds) < 9223372036854775800 -> frac_ok fr ->
  tr K (JBig ((d1 :: ds) ++ x2e :: fr)) = JFloat ((d1 :: ds) ++ x2e :: fr).
Proof. exact leaf_dec_literal_plain. Qed.
Theorem C02_dec_literal_zero : forall K fr, frac_ok fr ->
  tr K (JBig (x30 :: x2e :: fr)) = JFloat (x30 :: x2e :: fr).
Proof. exact leaf_dec_literal_zero. Qed.
Theorem C02_dec_literal_neg : forall K d1 ds fr,
  is_19 d1 = true -> all_digits ds -> digits_val (d1 :: ds) <= max_int64 -> frac_ok fr ->
  tr K (JBig (x2d :: (d1 :: ds) ++ x2e :: fr)) = JFloat (x2d :: (d1 :: ds) ++ x2e :: fr).
Proof. exact leaf_dec_literal_neg. Qed.
Print Assumptions C02_dec_literal_plain.
Print Assumptions C02_dec_literal_neg.

(* literals with an exponent (mantissa: a plain integer or int.frac, non-negative; exponent value
   1..1022, any spelling of it): the leaf is a float whose text is the mantissa as written followed
   by the canonical exponent  e[-]E  - the same number, spelled without plus sign, capital E or
   leading zeros *)
Theorem C02_exp_literal_int : forall K d1 ds e sg es,
  is_19 d1 = true -> all_digits ds -> digits_val (d1 :: ds) < 9223372036854775800 ->
  is_eb e -> sign_ok sg -> all_digits es -> 0 < digits_val es <= 1022 ->
  tr K (JBig ((d1 :: ds) ++ e :: sg ++ es)) =
  JFloat ((d1 :: ds) ++ x65 :: (if sign_neg sg then [x2d] else []) ++ format_uint (digits_val es)).
Proof. exact leaf_exp_literal_int. Qed.
Theorem C02_exp_literal_dec : forall K d1 ds fr e sg es,
  is_19 d1 = true -> all_digits ds -> digits_val (d1 :: ds) < 9223372036854775800 -> frac_ok fr ->
  is_eb e -> sign_ok sg -> all_digits es -> 0 < digits_val es <= 1022 ->
  tr K (JBig (((d1 :: ds) ++ x2e :: fr) ++ e :: sg ++ es)) =
  JFloat (((d1 :: ds) ++ x2e :: fr) ++ x65 :: (if sign_neg sg then [x2d] else []) ++ format_uint (digits_val es)).
Proof. exact leaf_exp_literal_dec. Qed.
Example C02_exp_literal_example :
  tr fe_gen (JBig [x31; x32; x2e; x35; x45; x2b; x30; x37]) = JFloat [x31; x32; x2e; x35; x65; x37].
Proof. vm_compute. reflexivity. Qed.
Print Assumptions C02_exp_literal_int.
Print Assumptions C02_exp_literal_dec.
