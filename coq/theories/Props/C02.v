(* C02 — parsed values denote exactly what the JSON text denotes (proved part).
   Integer clause: on the digit-at-a-time path every plain integer literal whose magnitude
   fits int64 is delivered as that int64 (any number of digits, either sign).
   The structural part (strings, escapes, member order, duplicate keys) and the float/big text
   are decided by correspondence against the reference parser RefParse.v; see DESIGN.md. *)
From Coq Require Import Init.Byte ZArith List Bool.
Require Import Ojg.Base.Bytes Ojg.Base.Jv Ojg.Json.Number Ojg.Json.NumberFacts.
Import ListNotations.
Open Scope Z_scope.

Theorem C02_int_clause : forall (ds : bytes) (neg : bool),
  Forall digit_ok ds -> digits_val ds <= max_int64 ->
  as_num (fold_left add_digit ds (if neg then set_neg num_reset else num_reset))
  = JInt (if neg then - digits_val ds else digits_val ds).
Proof. exact slow_int_exact. Qed.

Theorem C02_no_wrap : forall i d, 0 <= i <= 922337203685477580 -> 0 <= d <= 9 -> wrap64 (i * 10 + d) = i * 10 + d.
Proof. exact no_wrap_digit. Qed.

Print Assumptions C02_int_clause.
Print Assumptions C02_no_wrap.
