(* C18 — generic and simple forms convert losslessly and copy deeply.
   Alt/Convert.v models the kind switches of alt.Generify/GenAlter, alt.Decompose/Dup/Alter and
   gen Node.Simplify/Alter on typed simple values (compared with the implementation on every
   run); Alt/Store.v models containers with identity, copying as allocation of fresh identities,
   and in-place mutation (the harness observes the identities of the real slices and maps and
   runs the mutate-after-copy experiment on every container). *)
From Coq Require Import Init.Byte ZArith List Bool.
Require Import Ojg.Base.Bytes Ojg.Base.Jv Ojg.Alt.Convert Ojg.Alt.Store.
Import ListNotations.

(* value preservation *)
Theorem C18_simplify_generify_is_decompose : forall omit v, simplify (generify omit v) = decompose omit v.
Proof. exact simplify_generify. Qed.
Theorem C18_decompose_identity : forall v, json_like v = true -> decompose false v = v.
Proof. exact decompose_json_like. Qed.
Theorem C18_roundtrip : forall v, json_like v = true -> simplify (generify false v) = v.
Proof. exact roundtrip_json_like. Qed.
Theorem C18_roundtrip_gen : forall g, gen_plain g = true -> generify false (simplify g) = g.
Proof. exact generify_simplify. Qed.
Theorem C18_writers_see_same_tree : forall g, gen_plain g = true -> view (simplify g) = g.
Proof. exact view_simplify. Qed.
Theorem C18_generify_in_range : forall omit v, gen_plain (generify omit v) = true.
Proof. exact generify_plain. Qed.

(* deep copy: a copy denotes the same value, and mutating any container of either tree leaves
   the other as it was *)
Theorem C18_copy_independent : forall t next,
  (forall l, In l (locs t) -> (l < next)%nat) ->
  let t' := fst (copy next t) in
  value t' = value t /\
  (forall l repl, In l (locs t') -> mutate l repl t = t) /\
  (forall l repl, In l (locs t) -> mutate l repl t' = t').
Proof. exact copy_independent. Qed.

(* non-vacuity *)
Example C18_example_roundtrip :
  json_like (VMap [([x61], VArr [VInt 4 (-5); VNil]); ([x62], VMap [])]) = true /\
  simplify (generify true (VMap [([x61], VNil); ([x62], VInt 9 18446744073709551615)]))
  = VMap [([x62], VInt 4 (-1))].
Proof. vm_compute. split; reflexivity. Qed.
Example C18_example_copy :
  let t := LArr 0 [LObj 1 [([x61], LLeaf (JInt 1))]; LArr 2 []] in
  locs (fst (copy 3 t)) = [3; 4; 5]%nat /\ mutate 1 (LLeaf JNull) t <> t.
Proof. vm_compute. split; [reflexivity|discriminate]. Qed.

Print Assumptions C18_simplify_generify_is_decompose.
Print Assumptions C18_decompose_identity.
Print Assumptions C18_roundtrip.
Print Assumptions C18_roundtrip_gen.
Print Assumptions C18_writers_see_same_tree.
Print Assumptions C18_generify_in_range.
Print Assumptions C18_copy_independent.
