(* C16 — Decompose/Recompose and Marshal/Unmarshal are inverse on user types. *)
From Coq Require Import Init.Byte ZArith String List Bool.
Require Import Ojg.Base.Bytes Ojg.Base.Jv Ojg.Enc.Struct Ojg.Enc.Recompose Ojg.Gen.Fields.
Require Import Ojg.Json.Machine Ojg.Json.Frontends Ojg.Json.Writer Ojg.Json.ParseWrite Ojg.Enc.MarshalRT.
Require Import Ojg.Json.Sweep_parser Ojg.Json.DSweeps Ojg.Json.ValueSimSweeps.
Import ListNotations.

(* decoding the exact-key encoding of any well-typed value (structs nested arbitrarily, pointers,
   slices, maps) gives the value back, nil and empty slices or maps not distinguished *)
Theorem C16_decode_encode : forall v t, wt t v = true -> dec t (enc o_exact0 t v) = Some (norm t v).
Proof. exact dec_enc. Qed.

(* a registry keyed so that types are told apart gives every type its own field index after any
   history of recompositions *)
Theorem C16_index_independent_of_history :
  forall (Ty K Idx : Type) (keq : K -> K -> bool), (forall a b, keq a b = true <-> a = b) ->
  forall (key : Ty -> K) (index_of : Ty -> Idx), (forall a b, key a = key b -> index_of a = index_of b) ->
  forall hist t, snd (use Ty K Idx keq key index_of (history Ty K Idx keq key index_of hist) t) = index_of t.
Proof. exact index_independent_of_history. Qed.

(* ... and a key that does not (a short name shared by two types, the empty name of anonymous
   types) makes the outcome depend on the history: the reason the code must check the type *)
Theorem C16_name_key_refuted :
  exists (key : bool -> unit) (index_of : bool -> bool) (h1 h2 : list bool) (t : bool),
  snd (use bool unit bool (fun _ _ => true) key index_of (history bool unit bool (fun _ _ => true) key index_of h1) t)
  <> snd (use bool unit bool (fun _ _ => true) key index_of (history bool unit bool (fun _ _ => true) key index_of h2) t).
Proof. exists (fun _ => tt), (fun b => b), [true], [], false. vm_compute. discriminate. Qed.

(* the code as it is in /repo now (regenerated lists): recomposition never selects a field index
   by a bare name lookup, and the two functions that resolve a name compare the composer's type *)
Open Scope string_scope.
Theorem C16_registry_checks_type :
  existsb (String.eqb "recomp") recomposer_name_lookups = false /\
  existsb (String.eqb "composerFor") recomposer_type_checks = true /\
  existsb (String.eqb "registerComposer") recomposer_type_checks = true /\
  existsb (String.eqb "recomp") recomposer_index_users = true.
Proof. vm_compute. repeat split. Qed.

(* non-vacuity: a struct with a nested struct, a nil slice and a pointer *)
Example C16_example :
  let tg0 := mkTag false [] false false false in
  let inner := TStruct [x49] [Fld [x41] true tg0 false (TInt true)] in
  let ty := TStruct [x54] [Fld [x4e] true tg0 false TStr; Fld [x50] true tg0 false (TPtr inner); Fld [x4c] true tg0 false (TSlice (TInt true))] in
  let v := GStruct [GStr [x61]; GPtr (GStruct [GInt 7]); GNil] in
  wt ty v = true /\ dec ty (enc o_exact0 ty v) = Some (GStruct [GStr [x61]; GPtr (GStruct [GInt 7]); GSlice []]).
Proof. vm_compute. split; reflexivity. Qed.


(* Unmarshal after Marshal (oj.Parser on the unsorted writer's output, then decoding into the type):
   for every well-typed value whose exact-key encoding is a clean tree (ParseWrite.clean: integers
   below the scan-ahead threshold, plain decimal floats, valid UTF-8 strings, distinct names, nothing
   the options omit) the value comes back, for every indentation, WriteLimit and HTML-safety setting.
   Composition of C16_decode_encode with the refinement theorems of C02 and C04. *)
Theorem C16_unmarshal_marshal : forall o lim t v,
  w_sort o = false -> wt t v = true -> clean o (enc o_exact0 t v) ->
  match run_all fe_parser (write_all o lim (enc o_exact0 t v)) with
  | OOk [j] _ => dec t j = Some (norm t v)
  | _ => False
  end.
Proof. exact (unmarshal_marshal true fe_parser eq_refl sweep_parser dsweep_parser simsweep_parser). Qed.

Example C16_unmarshal_marshal_example :
  let tg0 := mkTag false [] false false false in
  let inner := TStruct [x49] [Fld [x41] true tg0 false (TInt true)] in
  let ty := TStruct [x54] [Fld [x4e] true tg0 false TStr; Fld [x50] true tg0 false (TPtr inner); Fld [x4c] true tg0 false (TSlice (TInt true))] in
  let v := GStruct [GStr [x61]; GPtr (GStruct [GInt 7]); GSlice [GInt 1; GInt 2]] in
  match run_all fe_parser (write_all (mkW 2 false false false false true) (Some 8) (enc o_exact0 ty v)) with
  | OOk [j] _ => dec ty j = Some v
  | _ => False
  end.
Proof. vm_compute. reflexivity. Qed.

Print Assumptions C16_unmarshal_marshal.
Print Assumptions C16_decode_encode.
Print Assumptions C16_index_independent_of_history.
Print Assumptions C16_name_key_refuted.
Print Assumptions C16_registry_checks_type.
