(* C09 — parse errors point at the first offending byte.
   For each front-end: if the machine rejects w with (line, col), then (line, col) designates the
   end of a prefix p of w (1-based line = 1 + newlines in p, column = bytes after the last
   newline) such that p can still be extended to a valid JSON text, and either p = w (the text
   is only incomplete) or no extension of p followed by the next byte of w is valid. Because
   the statement is the same for all four machines, the position is the same for every
   front-end. *)
From Coq Require Import Init.Byte ZArith List Bool.
Require Import Ojg.Base.Bytes Ojg.Json.Machine Ojg.Json.Ref Ojg.Json.Sweep Ojg.Json.Frontends.
Require Import Ojg.Json.Sweep_parser Ojg.Json.Sweep_validator Ojg.Json.Sweep_tokenizer Ojg.Json.Sweep_gen.
Require Import Ojg.Json.Position Ojg.Json.NlTables Ojg.Json.PositionSpec.
Import ListNotations.

Definition C09_statement (K : cfg) : Prop :=
  forall w l col, run_all K w = OErr l col ->
    exists p r, w = p ++ r /\ l = pos_line p /\ col = pos_col p /\
      (exists e, ref_accepts true (p ++ e) = true) /\
      match r with
      | [] => ref_accepts true w = false
      | b :: _ => forall e, ref_accepts true ((p ++ [b]) ++ e) = false
      end.

Theorem C09_parser : C09_statement fe_parser.
Proof. exact (error_position_spec true fe_parser sweep_parser nl_parser). Qed.
Theorem C09_validator : C09_statement fe_validator.
Proof. exact (error_position_spec true fe_validator sweep_validator nl_validator). Qed.
Theorem C09_tokenizer : C09_statement fe_tokenizer.
Proof. exact (error_position_spec true fe_tokenizer sweep_tokenizer nl_tokenizer). Qed.
Theorem C09_gen : C09_statement fe_gen.
Proof. exact (error_position_spec true fe_gen sweep_gen nl_gen). Qed.

(* non-vacuity: a rejected input and its position *)
Example C09_example : run_all fe_parser [x5b; x0a; x31; x20; x78] = OErr 2 3.
Proof. vm_compute. reflexivity. Qed.

Print Assumptions C09_parser.
Print Assumptions C09_validator.
Print Assumptions C09_tokenizer.
Print Assumptions C09_gen.
