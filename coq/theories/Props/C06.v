(* C06 — no input makes a parser panic (JSON front-ends, control part).
   No control state reachable on any input faults on any next byte: the only control-level
   runtime faults are index-out-of-range on the literal words "true"/"false"/"null". *)
From Coq Require Import Init.Byte ZArith List Bool.
Require Import Ojg.Base.Bytes Ojg.Json.Machine Ojg.Json.Ref Ojg.Json.Sweep Ojg.Json.Frontends.
Require Import Ojg.Json.Sweep_parser Ojg.Json.Sweep_validator Ojg.Json.Sweep_tokenizer Ojg.Json.Sweep_gen.
Import ListNotations.

Definition C06_control (K : cfg) : Prop :=
  forall w c s b, ctl_run K ctl_init [] w = Some (c, s) -> ctl_step K c (view_of s) b <> CFault.

Theorem C06_parser : C06_control fe_parser.
Proof. exact (ctl_never_faults true fe_parser sweep_parser). Qed.
Theorem C06_validator : C06_control fe_validator.
Proof. exact (ctl_never_faults true fe_validator sweep_validator). Qed.
Theorem C06_tokenizer : C06_control fe_tokenizer.
Proof. exact (ctl_never_faults true fe_tokenizer sweep_tokenizer). Qed.
Theorem C06_gen : C06_control fe_gen.
Proof. exact (ctl_never_faults true fe_gen sweep_gen). Qed.
Theorem C06_parser_multi : C06_control fe_parser_multi.
Proof. exact (ctl_never_faults false fe_parser_multi sweep_parser_multi). Qed.
Theorem C06_gen_multi : C06_control fe_gen_multi.
Proof. exact (ctl_never_faults false fe_gen_multi sweep_gen_multi). Qed.

Print Assumptions C06_parser.
Print Assumptions C06_gen.
