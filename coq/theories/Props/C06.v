(* C06 — no input makes a parser panic (JSON front-ends, control part).
   No control state reachable on any input faults on any next byte: the only control-level
   runtime faults are index-out-of-range on the literal words "true"/"false"/"null". *)
From Coq Require Import Init.Byte ZArith List Bool.
Require Import Ojg.Base.Bytes Ojg.Json.Machine Ojg.Json.Ref Ojg.Json.Sweep Ojg.Json.Frontends.
Require Import Ojg.Json.Sweep_parser Ojg.Json.Sweep_validator Ojg.Json.Sweep_tokenizer Ojg.Json.Sweep_gen.
Require Import Ojg.Base.Jv Ojg.Json.DataInv Ojg.Json.DSweeps.
Import ListNotations.

Definition C06_control (K : cfg) : Prop :=
  forall w c s b, ctl_run K ctl_init [] w = Some (c, s) -> ctl_step K c (view_of s) b <> CFault.

Theorem C06_parser : C06_control fe_parser.
Proof. exact (ctl_never_faults true fe_parser sweep_parser). Qed.
Theorem C06_validator : C06_control fe_validator.
Proof. exact (ctl_never_faults true fe_validator sweep_validator). Qed.
Theorem C06_tokenizer : C06_control fe_tokenizer.
Proof. exact (ctl_never_faults true fe_tokenizer sweep_tokenizer). Qed.
Theorem C06_gen : C06_control fe_gen.
Proof. exact (ctl_never_faults true fe_gen sweep_gen). Qed.
Theorem C06_parser_multi : C06_control fe_parser_multi.
Proof. exact (ctl_never_faults false fe_parser_multi sweep_parser_multi). Qed.
Theorem C06_gen_multi : C06_control fe_gen_multi.
Proof. exact (ctl_never_faults false fe_gen_multi sweep_gen_multi). Qed.

(* The whole machine (control + value stack + number and string buffers + hand-off of finished
   documents), for every input and every way of cutting it into read buffers: the outcome is
   never a runtime fault. Covers add() writing into the map under a pending key, the slice
   bounds of closeArray, p.stack[0] at the hand-off, p.stack[len-1] at closeObject and the
   escape-byte table. *)
Definition C06_machine (K : cfg) : Prop :=
  (forall w, parse_bytes K w <> OFault) /\ (forall cs, parse_chunks K cs <> OFault).

Theorem C06_machine_parser : C06_machine fe_parser.
Proof. exact (conj (parse_bytes_never_faults true fe_parser sweep_parser dsweep_parser)
                   (parse_chunks_never_faults true fe_parser sweep_parser dsweep_parser)). Qed.
Theorem C06_machine_validator : C06_machine fe_validator.
Proof. exact (conj (parse_bytes_never_faults true fe_validator sweep_validator dsweep_validator)
                   (parse_chunks_never_faults true fe_validator sweep_validator dsweep_validator)). Qed.
Theorem C06_machine_tokenizer : C06_machine fe_tokenizer.
Proof. exact (conj (parse_bytes_never_faults true fe_tokenizer sweep_tokenizer dsweep_tokenizer)
                   (parse_chunks_never_faults true fe_tokenizer sweep_tokenizer dsweep_tokenizer)). Qed.
Theorem C06_machine_gen : C06_machine fe_gen.
Proof. exact (conj (parse_bytes_never_faults true fe_gen sweep_gen dsweep_gen)
                   (parse_chunks_never_faults true fe_gen sweep_gen dsweep_gen)). Qed.
Theorem C06_machine_parser_multi : C06_machine fe_parser_multi.
Proof. exact (conj (parse_bytes_never_faults false fe_parser_multi sweep_parser_multi dsweep_parser_multi)
                   (parse_chunks_never_faults false fe_parser_multi sweep_parser_multi dsweep_parser_multi)). Qed.
Theorem C06_machine_validator_multi : C06_machine fe_validator_multi.
Proof. exact (conj (parse_bytes_never_faults false fe_validator_multi sweep_validator_multi dsweep_validator_multi)
                   (parse_chunks_never_faults false fe_validator_multi sweep_validator_multi dsweep_validator_multi)). Qed.
Theorem C06_machine_tokenizer_multi : C06_machine fe_tokenizer_multi.
Proof. exact (conj (parse_bytes_never_faults false fe_tokenizer_multi sweep_tokenizer_multi dsweep_tokenizer_multi)
                   (parse_chunks_never_faults false fe_tokenizer_multi sweep_tokenizer_multi dsweep_tokenizer_multi)). Qed.
Theorem C06_machine_gen_multi : C06_machine fe_gen_multi.
Proof. exact (conj (parse_bytes_never_faults false fe_gen_multi sweep_gen_multi dsweep_gen_multi)
                   (parse_chunks_never_faults false fe_gen_multi sweep_gen_multi dsweep_gen_multi)). Qed.

(* non-vacuity: the machine does run, and does build through every kind of frame *)
Example C06_machine_runs :
  parse_bytes fe_parser (map (fun n => n2b n) [123; 34; 97; 34; 58; 91; 49; 44; 123; 125; 93; 125]%N)
  = OOk [JObj [([x61], JArr [JInt 1; JObj []])]] [].
Proof. vm_compute. reflexivity. Qed.

Print Assumptions C06_parser.
Print Assumptions C06_machine_parser.
Print Assumptions C06_machine_gen_multi.
Print Assumptions C06_gen.
