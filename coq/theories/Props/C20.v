(* C20 — assembly plans evaluate totally, deterministically and as documented.
   Asm/Eval.v is the executable model of the evaluator (37 functions) the implementation is
   compared with on every run; it is a total function, so a modelled plan either completes,
   returns an error or is outside the model - there is no fourth outcome. Proved for every plan
   and every root: data under $.src changes only through an updating function that names a
   location there. *)
From Coq Require Import Init.Byte ZArith List Bool.
Require Import Ojg.Base.Bytes Ojg.Base.Jv Ojg.Jp.Expr Ojg.Asm.Eval Ojg.Asm.Frame.
Import ListNotations.
Open Scope Z_scope.

(* every argument of the plan, at any depth, is safe: each set / setall / del / delall names a
   path whose first member is not "src" *)
Theorem C20_src_changes_only_through_updates_naming_it :
  forall args root s v al,
  (fix go (l : list arg) : bool := match l with [] => true | x :: l' => safe x && go l' end) args = true ->
  run_plan args root = OVal s v al -> get_src (s_root s) = get_src root.
Proof. exact plan_keeps_src. Qed.

(* the same for every argument in every state, including the bodies of each and nested asm *)
Theorem C20_frame_everywhere : forall a, safe a = true ->
  forall s s' v al, eval s a = OVal s' v al -> src_of s' = src_of s.
Proof. intros a Hs. exact (deepk_keeps a (safe_deepk a Hs)). Qed.

(* non-vacuity: a plan with updates under $.asm completes, computes from $.src, leaves $.src;
   the same plan with an update under $.src is not covered by the hypothesis and does change it *)
Example C20_example_plan :
  let src := [x73; x72; x63] in let asm := [x61; x73; x6d] in
  let root := JObj [(src, JObj [([x78], JInt 5)])] in
  let plan := [ACall FnSet [APath [FRoot; FChild asm; FChild [x61]]; ACall FnSum [APath [FRoot; FChild src; FChild [x78]]; ALit (JInt 1)]];
               ACall FnSet [APath [FRoot; FChild asm; FChild [x62]]; ACall FnLt [APath [FRoot; FChild asm; FChild [x61]]; ALit (JInt 7)]]] in
  (fix go (l : list arg) : bool := match l with [] => true | x :: l' => safe x && go l' end) plan = true /\
  model_asm plan root = model_asm [] (JObj [(asm, JObj [([x61], JInt 6); ([x62], JBool true)]); (src, JObj [([x78], JInt 5)])]).
Proof. vm_compute. split; reflexivity. Qed.

Example C20_example_unsafe :
  let src := [x73; x72; x63] in
  let root := JObj [(src, JObj [([x78], JInt 5)])] in
  let plan := [ACall FnSet [APath [FRoot; FChild src; FChild [x78]]; ALit (JInt 6)]] in
  safe (ACall FnAsm plan) = false /\
  match run_plan plan root with OVal s _ _ => get_src (s_root s) <> get_src root | _ => False end.
Proof. vm_compute. split; [reflexivity|discriminate]. Qed.

Print Assumptions C20_src_changes_only_through_updates_naming_it.
Print Assumptions C20_frame_everywhere.
