(* C01 — strict JSON front-ends accept exactly the RFC 8259 language.
   This file contains only the property theorems; proofs live in Json/Sweep.v, Frontends.v. *)
From Coq Require Import Init.Byte List Bool.
Require Import Ojg.Base.Bytes Ojg.Json.Machine Ojg.Json.Ref Ojg.Json.Sweep Ojg.Json.Frontends.
Require Import Ojg.Json.Sweep_parser Ojg.Json.Sweep_validator Ojg.Json.Sweep_tokenizer Ojg.Json.Sweep_gen.
Require Import Ojg.Json.DataInv Ojg.Json.DSweeps Ojg.Json.Position Ojg.Json.NlTables Ojg.Json.Outcome.

Theorem C01_parser : forall w, ctl_accepts fe_parser w = ref_accepts true w.
Proof. exact (accepts_eq_ref true fe_parser sweep_parser). Qed.
Theorem C01_validator : forall w, ctl_accepts fe_validator w = ref_accepts true w.
Proof. exact (accepts_eq_ref true fe_validator sweep_validator). Qed.
Theorem C01_tokenizer : forall w, ctl_accepts fe_tokenizer w = ref_accepts true w.
Proof. exact (accepts_eq_ref true fe_tokenizer sweep_tokenizer). Qed.
Theorem C01_gen : forall w, ctl_accepts fe_gen w = ref_accepts true w.
Proof. exact (accepts_eq_ref true fe_gen sweep_gen). Qed.
(* multi-document mode (used by C03) *)
Theorem C01_parser_multi : forall w, ctl_accepts fe_parser_multi w = ref_accepts false w.
Proof. exact (accepts_eq_ref false fe_parser_multi sweep_parser_multi). Qed.
Theorem C01_validator_multi : forall w, ctl_accepts fe_validator_multi w = ref_accepts false w.
Proof. exact (accepts_eq_ref false fe_validator_multi sweep_validator_multi). Qed.
Theorem C01_tokenizer_multi : forall w, ctl_accepts fe_tokenizer_multi w = ref_accepts false w.
Proof. exact (accepts_eq_ref false fe_tokenizer_multi sweep_tokenizer_multi). Qed.
Theorem C01_gen_multi : forall w, ctl_accepts fe_gen_multi w = ref_accepts false w.
Proof. exact (accepts_eq_ref false fe_gen_multi sweep_gen_multi). Qed.


(* the whole machine (control, value building, hand-off) delivers documents / events exactly for the
   texts the RFC 8259 reference accepts, and reports an error for every other text; so the four
   front-ends accept and reject alike *)
Definition C01_outcome (one : bool) (K : cfg) : Prop :=
  forall w, delivered (run_all K w) = ref_accepts one w /\
            (delivered (run_all K w) = false -> exists l col, run_all K w = OErr l col).
Theorem C01_outcome_parser : C01_outcome true fe_parser.
Proof. exact (delivered_iff_ref true fe_parser nl_parser sweep_parser dsweep_parser). Qed.
Theorem C01_outcome_validator : C01_outcome true fe_validator.
Proof. exact (delivered_iff_ref true fe_validator nl_validator sweep_validator dsweep_validator). Qed.
Theorem C01_outcome_tokenizer : C01_outcome true fe_tokenizer.
Proof. exact (delivered_iff_ref true fe_tokenizer nl_tokenizer sweep_tokenizer dsweep_tokenizer). Qed.
Theorem C01_outcome_gen : C01_outcome true fe_gen.
Proof. exact (delivered_iff_ref true fe_gen nl_gen sweep_gen dsweep_gen). Qed.
Print Assumptions C01_outcome_validator.

Print Assumptions C01_parser.
Print Assumptions C01_validator.
Print Assumptions C01_tokenizer.
Print Assumptions C01_gen.
