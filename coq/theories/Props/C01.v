(* C01 — strict JSON front-ends accept exactly the RFC 8259 language.
   This file contains only the property theorems; proofs live in Json/Sweep.v, Frontends.v. *)
From Coq Require Import Init.Byte List Bool.
Require Import Ojg.Base.Bytes Ojg.Json.Machine Ojg.Json.Ref Ojg.Json.Sweep Ojg.Json.Frontends.
Require Import Ojg.Json.Sweep_parser Ojg.Json.Sweep_validator Ojg.Json.Sweep_tokenizer Ojg.Json.Sweep_gen.

Theorem C01_parser : forall w, ctl_accepts fe_parser w = ref_accepts true w.
Proof. exact (accepts_eq_ref true fe_parser sweep_parser). Qed.
Theorem C01_validator : forall w, ctl_accepts fe_validator w = ref_accepts true w.
Proof. exact (accepts_eq_ref true fe_validator sweep_validator). Qed.
Theorem C01_tokenizer : forall w, ctl_accepts fe_tokenizer w = ref_accepts true w.
Proof. exact (accepts_eq_ref true fe_tokenizer sweep_tokenizer). Qed.
Theorem C01_gen : forall w, ctl_accepts fe_gen w = ref_accepts true w.
Proof. exact (accepts_eq_ref true fe_gen sweep_gen). Qed.
(* multi-document mode (used by C03) *)
Theorem C01_parser_multi : forall w, ctl_accepts fe_parser_multi w = ref_accepts false w.
Proof. exact (accepts_eq_ref false fe_parser_multi sweep_parser_multi). Qed.
Theorem C01_validator_multi : forall w, ctl_accepts fe_validator_multi w = ref_accepts false w.
Proof. exact (accepts_eq_ref false fe_validator_multi sweep_validator_multi). Qed.
Theorem C01_tokenizer_multi : forall w, ctl_accepts fe_tokenizer_multi w = ref_accepts false w.
Proof. exact (accepts_eq_ref false fe_tokenizer_multi sweep_tokenizer_multi). Qed.
Theorem C01_gen_multi : forall w, ctl_accepts fe_gen_multi w = ref_accepts false w.
Proof. exact (accepts_eq_ref false fe_gen_multi sweep_gen_multi). Qed.

Print Assumptions C01_parser.
Print Assumptions C01_validator.
Print Assumptions C01_tokenizer.
Print Assumptions C01_gen.
