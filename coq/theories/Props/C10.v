(* C10 — SEN writer/parser round trip (proved part: the quoting decision).
   The byte classes AppendSENString uses (regenerated from string.go) and the SEN parser's mode
   tables (regenerated from sen/maps.go) agree: every byte the writer leaves bare continues a
   token for the parser, and every first byte it leaves bare starts a token - except '-' and
   '+', which is the recorded known finding C10-sign-leading-string.
   String clause, whole strings (Sen/SenStr.v, Sen/SenRT.v): for EVERY byte string and both HTML
   settings the string-value reader of sen.Parser (over the regenerated mode tables) reads what
   AppendSENString wrote back as the sanitized string, with exactly the two exceptions of the
   recorded finding (sign-leading bare tokens; reserved words at a value position), which are
   proved to be real exceptions of the model (C10_*_refuted). Numbers, containers and the
   layout around values are decided by correspondence (sen.Parse(sen.String(v)) = v on the real
   code). *)
From Coq Require Import Init.Byte ZArith List Bool.
Require Import Ojg.Base.Bytes Ojg.Json.Writer Ojg.Sen.SenString Ojg.Sen.SenStr Ojg.Sen.SenRT.
Require Ojg.Gen.SenMaps.
Import ListNotations.

Theorem C10_bare_byte_is_token_byte : forall html b,
  bare_class html b = true -> is_tok (SenMaps.tab_tokenMap b) = true.
Proof. exact bare_byte_is_token_byte. Qed.

Theorem C10_bare_first_starts_token : forall html b,
  bare_first html b = true -> b <> x2d -> b <> x2b -> is_start (SenMaps.tab_valueMap b) = true.
Proof. exact bare_first_starts_token. Qed.

Print Assumptions C10_bare_byte_is_token_byte.
Print Assumptions C10_bare_first_starts_token.


(* ---- whole strings *)
(* a string written in quotes is read back as the (sanitized) string, whatever follows *)
Theorem C10_quoted_string_round_trip : forall html s rest,
  sen_quoted html s = true ->
  sen_read (sen_string html s ++ rest) = Some (Str (sanitize s), rest).
Proof. exact sen_quoted_round_trip. Qed.

(* a string written bare is written unchanged, contains nothing that had to be replaced, and is
   read back as one token ending at the terminator - unless it starts with a sign *)
Theorem C10_bare_string_round_trip : forall html b0 s' t rest,
  let s := b0 :: s' in
  sen_quoted html s = false -> b0 <> x2d -> b0 <> x2b ->
  tok_end (SenMaps.tab_tokenMap t) = true ->
  sen_string html s = s /\ sanitize s = s /\
  sen_read (sen_string html s ++ t :: rest) = Some (Tok s, t :: rest).
Proof. exact sen_bare_round_trip. Qed.

(* strings stay strings: as a key always, as a value unless spelled like a reserved word *)
Theorem C10_string_round_trip : forall html s t rest,
  tok_end (SenMaps.tab_tokenMap t) = true ->
  sen_quoted html s = true \/ sign_leading s = false ->
  exists o, sen_read (sen_string html s ++ t :: rest) = Some (o, t :: rest) /\
            key_of o = sanitize s /\
            (sen_quoted html s = true \/ reserved s = false -> val_of o = SvStr (sanitize s)).
Proof. exact sen_string_round_trip. Qed.

(* the same with white space (blanks, tabs, carriage returns, commas) before the value *)
Theorem C10_string_round_trip_ws : forall html s ws t rest,
  Forall (fun b => skipb b = true) ws ->
  tok_end (SenMaps.tab_tokenMap t) = true ->
  sen_quoted html s = true \/ sign_leading s = false ->
  exists o, sen_read (ws ++ sen_string html s ++ t :: rest) = Some (o, t :: rest) /\
            key_of o = sanitize s /\
            (sen_quoted html s = true \/ reserved s = false -> val_of o = SvStr (sanitize s)).
Proof. exact sen_string_round_trip_ws. Qed.

(* arrays of strings: what the tight writer produces (elements separated by one blank) is read back
   element by element - the first statement of C10 above the level of one value *)
Theorem C10_array_of_strings_round_trip : forall html xs rest,
  Forall (elem_ok html) xs ->
  read_array (sen_array html xs ++ rest) = Some (map (elem_out html) xs, rest).
Proof. exact sen_array_round_trip. Qed.

(* objects of strings, as the tight writers lay them out (key, colon, value, one blank): read back
   member by member, keys as strings whatever their spelling *)
Theorem C10_object_of_strings_round_trip : forall html ms rest,
  Forall (member_ok html) ms ->
  read_object (sen_object html ms ++ rest) = Some (map (member_out html) ms, rest).
Proof. exact sen_object_round_trip. Qed.

(* the two exceptions are real (the recorded finding C10-bare-reserved-or-sign-string, in the model):
   "true" is written bare and read as the boolean; "-a" is written bare and is not a token *)
Theorem C10_reserved_value_refuted :
  exists s, sen_quoted false s = false /\ sign_leading s = false /\
    match sen_read (sen_string false s ++ [x5d]) with Some (o, _) => val_of o <> SvStr (sanitize s) | None => False end.
Proof. exists [x74; x72; x75; x65]. vm_compute. repeat split; discriminate. Qed.
Theorem C10_sign_leading_refuted :
  exists s, sen_quoted false s = false /\ sen_read (sen_string false s ++ [x5d]) = None.
Proof. exists [x2d; x61]. vm_compute. split; reflexivity. Qed.

(* non-vacuity: a string with a quote, a control byte, a two-byte rune, an invalid byte, U+2028
   and an apostrophe is quoted and comes back sanitized; a bare one satisfies the hypotheses *)
Example C10_quoted_example :
  let s := [x61; x22; x01; xc3; xa9; xff; xe2; x80; xa8; x27; x0a] in
  sen_quoted true s = true /\
  sen_read (sen_string true s ++ [x5d]) = Some (Str [x61; x22; x01; xc3; xa9; xef; xbf; xbd; xe2; x80; xa8; x27; x0a], [x5d]).
Proof. vm_compute. split; reflexivity. Qed.
Example C10_bare_example :
  let s := [x61; x2d; xc3; xa9; x31] in
  sen_quoted false s = false /\ sign_leading s = false /\ reserved s = false /\ tok_end (SenMaps.tab_tokenMap x3a) = true /\
  sen_read (sen_string false s ++ [x3a; x31]) = Some (Tok s, [x3a; x31]).
Proof. vm_compute. repeat split; reflexivity. Qed.

Print Assumptions C10_quoted_string_round_trip.
Print Assumptions C10_bare_string_round_trip.
Print Assumptions C10_string_round_trip.
Print Assumptions C10_array_of_strings_round_trip.
Print Assumptions C10_object_of_strings_round_trip.
