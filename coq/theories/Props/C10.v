(* C10 — SEN writer/parser round trip (proved part: the quoting decision).
   The byte classes AppendSENString uses (regenerated from string.go) and the SEN parser's mode
   tables (regenerated from sen/maps.go) agree: every byte the writer leaves bare continues a
   token for the parser, and every first byte it leaves bare starts a token - except '-' and
   '+', which is the recorded known finding C10-sign-leading-string. The tree-level round trip
   is decided by correspondence (sen.Parse(sen.String(v)) = v on the real code). *)
From Coq Require Import Init.Byte ZArith List Bool.
Require Import Ojg.Base.Bytes Ojg.Sen.SenString.
Require Ojg.Gen.SenMaps.

Theorem C10_bare_byte_is_token_byte : forall html b,
  bare_class html b = true -> is_tok (SenMaps.tab_tokenMap b) = true.
Proof. exact bare_byte_is_token_byte. Qed.

Theorem C10_bare_first_starts_token : forall html b,
  bare_first html b = true -> b <> x2d -> b <> x2b -> is_start (SenMaps.tab_valueMap b) = true.
Proof. exact bare_first_starts_token. Qed.

Print Assumptions C10_bare_byte_is_token_byte.
Print Assumptions C10_bare_first_starts_token.
