(* C05 — Expr.Get returns exactly the elements the path denotes.
   The denotation get_spec (Jp/Expr.v) is what jp.Expr.Get is compared with on every run; the
   theorems state the clauses of the property about that denotation. *)
From Coq Require Import Init.Byte ZArith List Bool.
Require Import Ojg.Base.Bytes Ojg.Base.Jv Ojg.Jp.Expr Ojg.Jp.GetFacts.
Import ListNotations.
Open Scope Z_scope.

(* a fragment selects the same elements whether it is the last fragment or in the middle *)
Theorem C05_position_independent : forall f b1 b2 root v, sel f b1 root v = sel f b2 root v.
Proof. exact sel_position_independent. Qed.

(* a path is evaluated fragment by fragment (so every prefix selects independently of the rest) *)
Theorem C05_compositional : forall x y root vs,
  y <> [] -> eval_path (x ++ y) root vs = eval_path y root (eval_path x root vs).
Proof. exact eval_path_app. Qed.

(* index: non-negative from the start, negative from the end, nothing outside *)
Theorem C05_index : forall len i, 0 <= len ->
  nth_norm len i = if (0 <=? i) && (i <? len) then Some i
                   else if (i <? 0) && (0 <=? len + i) then Some (len + i) else None.
Proof. exact nth_norm_spec. Qed.

(* slice with a positive step: exactly start, start+step, ... below the end, in ascending
   (array) order *)
Theorem C05_slice_members : forall fuel i stop step k,
  0 < step -> (stop - i <= Z.of_nat fuel * step) ->
  (In k (up_from fuel i stop step) <-> i <= k < stop /\ (k - i) mod step = 0).
Proof. exact up_from_spec. Qed.
Theorem C05_slice_order : forall fuel i stop step,
  0 < step -> forall a b l1 l2 l3, up_from fuel i stop step = l1 ++ a :: l2 ++ b :: l3 -> a < b.
Proof. exact up_from_sorted. Qed.

(* non-vacuity: the repaired defects, as computations of the denotation *)
Example C05_empty_inner_slice :
  get_spec [FRoot; FSlice [2; 2; 3]; FChild [x78]] (JArr [JNull; JNull; JObj [([x78], JInt 1)]]) = [].
Proof. vm_compute. reflexivity. Qed.

Print Assumptions C05_position_independent.
Print Assumptions C05_compositional.
Print Assumptions C05_index.
Print Assumptions C05_slice_members.
Print Assumptions C05_slice_order.
