(* C17 — streaming Match equals parse-then-locate (specification and its basic laws).
   match_spec (Jp/Locate.v): the callbacks are the outermost locations some target selects (by
   the Locate denotation of C11), in document (pre-)order. Proved: every reported location is
   selected by a target, no reported location lies below another selected one, and the values
   reported are the values at those locations. oj.Match/MatchString/MatchLoad (all chunkings)
   and sen.Match are compared with the extracted match_spec on every run. *)
From Coq Require Import Init.Byte ZArith List Bool.
Require Import Ojg.Base.Bytes Ojg.Base.Jv Ojg.Jp.Expr Ojg.Jp.Locate.
Import ListNotations.

Theorem C17_reported_are_selected : forall targets d p v,
  In (p, v) (match_spec targets d) -> existsb (path_eqb p) (selected targets d) = true.
Proof.
  intros targets d p v H. unfold match_spec in H. apply filter_In in H as [_ H].
  apply andb_true_iff in H as [H _]. exact H.
Qed.

Theorem C17_reported_are_outermost : forall targets d p v,
  In (p, v) (match_spec targets d) ->
  existsb (fun s => proper_prefix s p) (selected targets d) = false.
Proof.
  intros targets d p v H. unfold match_spec in H. apply filter_In in H as [_ H].
  apply andb_true_iff in H as [_ H]. apply negb_true_iff in H. exact H.
Qed.

Theorem C17_reported_in_document : forall targets d p v,
  In (p, v) (match_spec targets d) -> In (p, v) (all_locs d).
Proof. intros targets d p v H. unfold match_spec in H. apply filter_In in H as [H _]. exact H. Qed.

Example C17_example :
  match_spec [[FRoot; FDescent; FChild [x62]]]
             (JObj [([x61], JArr [JInt 1; JObj [([x62], JInt 2)]]); ([x62], JInt 3)])
  = [([FRoot; FChild [x61]; FNth 1; FChild [x62]], JInt 2); ([FRoot; FChild [x62]], JInt 3)].
Proof. vm_compute. reflexivity. Qed.

Print Assumptions C17_reported_are_selected.
Print Assumptions C17_reported_are_outermost.
Print Assumptions C17_reported_in_document.
