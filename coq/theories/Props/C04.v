(* C04 — JSON writers: streaming Write emits byte-for-byte the text of the in-memory call.
   The model of oj.Writer (Json/Writer.v: one buffer, flush after every value when the buffer
   exceeds WriteLimit, the trailing-comma overwrite) is proved, for every option combination,
   every tree and every WriteLimit, to produce the same bytes as the unbuffered text function.
   That the text is valid JSON denoting the tree (minus omitted members, invalid UTF-8 replaced)
   is checked per case inside the extracted model with the reference parser, and on the real
   writers by parsing their output back. *)
From Coq Require Import Init.Byte ZArith List Bool.
Require Import Ojg.Base.Bytes Ojg.Base.Jv Ojg.Json.Writer Ojg.Json.WriterFacts.
Require Import Ojg.Json.Machine Ojg.Json.Ref Ojg.Json.RefParse Ojg.Json.WRound Ojg.Json.WInt Ojg.Json.WFinal Ojg.Json.WExpected Ojg.Json.ParseWrite.
Require Import Ojg.Json.Sweep Ojg.Json.DataInv Ojg.Json.Frontends Ojg.Json.Sweep_parser Ojg.Json.Sweep_gen Ojg.Json.DSweeps Ojg.Json.ValueSim Ojg.Json.ValueSimSweeps.
Import ListNotations.

Theorem C04_stream_eq : forall o lim v, write_all o (Some lim) v = write_all o None v.
Proof. exact stream_eq. Qed.

(* the flushed part plus the buffer is always the text so far *)
Theorem C04_stream_invariant : forall o lim v depth st,
  flat (wr o lim depth v st) = flat st ++ text o depth v.
Proof. exact stream_text. Qed.

Print Assumptions C04_stream_eq.
Print Assumptions C04_stream_invariant.

(* Valid JSON denoting the data: for every option set (indent, tab, sort, omit options, HTML-safe
   strings), every WriteLimit and every tree whose float / big-number texts are JSON numbers, the
   reference parser accepts the writer's output and reads it back as ONE document, the written tree
   (toref: numbers as their text, strings with invalid UTF-8 replaced by U+FFFD, members omitted by
   OmitNil / OmitEmpty gone, members whose names collide after that replacement merged as a parser
   merges duplicates). In single- and multi-document mode alike. *)
Theorem C04_round_trip : forall one o lim v,
  let v' := if w_sort o then sort_tree v else v in
  numtexts_ok v' = true ->
  ref_parse one false (write_all o lim v) = Some [toref o v'].
Proof. exact writer_round_trip. Qed.

(* integers are always written as JSON numbers *)
Theorem C04_int_text_is_number : forall z, num_ok (format_int z) = true.
Proof. exact num_ok_format_int. Qed.

(* non-vacuity: {"a":[1,"x<\n\xff",true],"b":null}, indent 2, HTML-safe, OmitNil *)
Example C04_round_trip_example :
  let o := mkW 2 false true true false true in
  let v := JObj [([x62], JNull); ([x61], JArr [JInt 1; JStr [x78; x3c; x0a; xff]; JBool true])] in
  ref_parse true false (write_all o (Some 4) v) =
    Some [JObj [([x61], JArr [JBig [x31]; JStr [x78; x3c; x0a; xef; xbf; xbd]; JBool true])]].
Proof. vm_compute. reflexivity. Qed.


(* the tree of C04_round_trip is the expected tree of the correspondence runs (Writer.expected:
   omitted members dropped, strings sanitized) with numbers as their text, whenever member names
   stay pairwise distinct after sanitizing *)
Theorem C04_toref_is_expected : forall o v, distinct_keys (expected o v) -> toref o v = numtext (expected o v).
Proof. exact toref_expected. Qed.


(* C04 and C02 composed: oj.Parser and gen.Parser on the writer's output deliver exactly the written
   tree, for every option set and WriteLimit, for trees of null, booleans, integers from
   -9223372036854775807 to 9223372036854775799, floats whose text is a plain decimal ([-]int.frac, at
   most 18 fraction digits), strings that are valid UTF-8, arrays and objects with
   distinct names and no member the options omit (clean). *)
Definition C04_parse_write (one : bool) (K : cfg) : Prop :=
  forall o lim v,
    let v' := if w_sort o then sort_tree v else v in
    clean o v' ->
    match run_all K (write_all o lim v) with
    | OOk docs _ => docs = [v']
    | _ => False
    end.
Theorem C04_parse_write_parser : C04_parse_write true fe_parser.
Proof. exact (parse_write true fe_parser eq_refl sweep_parser dsweep_parser simsweep_parser). Qed.
Theorem C04_parse_write_gen : C04_parse_write true fe_gen.
Proof. exact (parse_write true fe_gen eq_refl sweep_gen dsweep_gen simsweep_gen). Qed.
Theorem C04_parse_write_parser_multi : C04_parse_write false fe_parser_multi.
Proof. exact (parse_write false fe_parser_multi eq_refl sweep_parser_multi dsweep_parser_multi simsweep_parser_multi). Qed.
Print Assumptions C04_parse_write_parser.

Print Assumptions C04_round_trip.
