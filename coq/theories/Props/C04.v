(* C04 — JSON writers: streaming Write emits byte-for-byte the text of the in-memory call.
   The model of oj.Writer (Json/Writer.v: one buffer, flush after every value when the buffer
   exceeds WriteLimit, the trailing-comma overwrite) is proved, for every option combination,
   every tree and every WriteLimit, to produce the same bytes as the unbuffered text function.
   That the text is valid JSON denoting the tree (minus omitted members, invalid UTF-8 replaced)
   is checked per case inside the extracted model with the reference parser, and on the real
   writers by parsing their output back. *)
From Coq Require Import Init.Byte ZArith List Bool.
Require Import Ojg.Base.Bytes Ojg.Base.Jv Ojg.Json.Writer Ojg.Json.WriterFacts.
Import ListNotations.

Theorem C04_stream_eq : forall o lim v, write_all o (Some lim) v = write_all o None v.
Proof. exact stream_eq. Qed.

(* the flushed part plus the buffer is always the text so far *)
Theorem C04_stream_invariant : forall o lim v depth st,
  flat (wr o lim depth v st) = flat st ++ text o depth v.
Proof. exact stream_text. Qed.

Print Assumptions C04_stream_eq.
Print Assumptions C04_stream_invariant.
