(* C03 — all parsing front-ends agree, however the input is chunked (proved part).
   In the machine model a buffer boundary only clears the scan-ahead flag of the integer loop;
   [chunks_same_control] shows that acceptance (and with it error/no-error, and by C09 the
   position) is independent of the chunking for every input and every chunking. The value
   part differs between chunkings exactly where [d_fast] matters (the recorded int64 top-decade
   finding): C03_values_* / C03_chunkings_agree_* prove that this is the ONLY difference, for
   every chunking (ChunkSim.v); what the number leaves are is decided by correspondence. *)
From Coq Require Import Init.Byte ZArith List Bool.
Require Import Ojg.Base.Bytes Ojg.Base.Jv Ojg.Json.Machine Ojg.Json.Chunk.
Require Import Ojg.Json.Ref Ojg.Json.RefParse Ojg.Json.Sweep Ojg.Json.DataInv Ojg.Json.Frontends.
Require Import Ojg.Json.Sweep_parser Ojg.Json.Sweep_gen Ojg.Json.DSweeps Ojg.Json.ValueSim Ojg.Json.ValueSimSweeps Ojg.Json.ChunkSim.
Require Import Ojg.Json.Sweep_tokenizer Ojg.Json.TokSim Ojg.Json.TokSweeps Ojg.Json.EvBuild Ojg.Json.Agree.
Import ListNotations.

Theorem C03_chunks_control : forall K cs,
  match run_all_chunks K cs, run_all K (concat cs) with
  | OOk _ _, OOk _ _ => True
  | OErr l c, OErr l' c' => l = l' /\ c = c'
  | OErrOther, OErrOther => True
  | OFault, _ | _, OFault => True      (* faults are C06's subject *)
  | _, _ => False
  end.
Proof. exact chunks_same_control. Qed.


(* Value clause under chunking, for the value-building front-ends and EVERY list of read
   buffers: same accept/reject as the reference parser on the whole text, and the delivered
   documents are the reference's documents up to number leaves (TR: a number leaf is the number
   builder's result on the literal, the scan-ahead flag cleared at any byte). *)
Definition C03_values (one : bool) (K : cfg) : Prop :=
  forall cs,
    match run_all_chunks K cs with
    | OOk docs _ => exists rdocs, ref_parse one false (concat cs) = Some rdocs /\ Forall2 (TR K) rdocs docs
    | OErr _ _ => ref_parse one false (concat cs) = None
    | _ => False
    end.

Theorem C03_values_parser : C03_values true fe_parser.
Proof. exact (chunks_refine true fe_parser eq_refl sweep_parser dsweep_parser simsweep_parser). Qed.
Theorem C03_values_gen : C03_values true fe_gen.
Proof. exact (chunks_refine true fe_gen eq_refl sweep_gen dsweep_gen simsweep_gen). Qed.
Theorem C03_values_parser_multi : C03_values false fe_parser_multi.
Proof. exact (chunks_refine false fe_parser_multi eq_refl sweep_parser_multi dsweep_parser_multi simsweep_parser_multi). Qed.
Theorem C03_values_gen_multi : C03_values false fe_gen_multi.
Proof. exact (chunks_refine false fe_gen_multi eq_refl sweep_gen_multi dsweep_gen_multi simsweep_gen_multi). Qed.

(* two ways of cutting the same text give the same outcome and documents that are images of the
   same reference documents *)
Definition C03_chunkings_agree (K : cfg) : Prop :=
  forall cs1 cs2, concat cs1 = concat cs2 ->
    match run_all_chunks K cs1, run_all_chunks K cs2 with
    | OOk d1 _, OOk d2 _ => exists rdocs, Forall2 (TR K) rdocs d1 /\ Forall2 (TR K) rdocs d2
    | OErr _ _, OErr _ _ => True
    | _, _ => False
    end.
Theorem C03_chunkings_agree_parser : C03_chunkings_agree fe_parser.
Proof. exact (chunkings_agree true fe_parser eq_refl sweep_parser dsweep_parser simsweep_parser). Qed.
Theorem C03_chunkings_agree_gen : C03_chunkings_agree fe_gen.
Proof. exact (chunkings_agree true fe_gen eq_refl sweep_gen dsweep_gen simsweep_gen). Qed.
Theorem C03_chunkings_agree_parser_multi : C03_chunkings_agree fe_parser_multi.
Proof. exact (chunkings_agree false fe_parser_multi eq_refl sweep_parser_multi dsweep_parser_multi simsweep_parser_multi). Qed.
Theorem C03_chunkings_agree_gen_multi : C03_chunkings_agree fe_gen_multi.
Proof. exact (chunkings_agree false fe_gen_multi eq_refl sweep_gen_multi dsweep_gen_multi simsweep_gen_multi). Qed.

(* the only freedom of TR is in number leaves *)
Theorem C03_no_numbers_exact : forall K v v', nonum v = true -> TR K v v' -> v' = v.
Proof. exact TR_nonum. Qed.

(* non-vacuity: a document cut inside a string escape, inside a literal and inside a number *)
Example C03_values_example :
  let bs := map (fun n => n2b n) in
  run_all_chunks fe_parser [bs [123;34;97;92]%N; bs [110;34;58;91;116;114]%N; bs [117;101;44;49]%N; bs [50;93;125]%N] =
    OOk [JObj [([x61; x0a], JArr [JBool true; JInt 12])]] [] /\
  ref_parse true false (bs [123;34;97;92;110;34;58;91;116;114;117;101;44;49;50;93;125]%N) =
    Some [JObj [([x61; x0a], JArr [JBool true; JBig [x31; x32]])]].
Proof. vm_compute. split; reflexivity. Qed.


(* oj.Tokenizer, for EVERY list of read buffers: the callbacks are the reference parser's event
   stream of the whole text (ref_events: object / array starts and ends, keys, strings with every
   escape, literals, in order, duplicates kept), number events up to the number builder (EvR);
   the text is rejected exactly when the reference rejects it, and the reference event stream
   exists exactly when the reference document parser accepts. *)
Definition C03_tokenizer_events (one : bool) (K : cfg) : Prop :=
  forall cs,
    match run_all_chunks K cs with
    | OOk _ evs => exists revs, ref_events one (concat cs) = Some revs /\ Forall2 EvR revs evs
    | OErr _ _ => ref_events one (concat cs) = None
    | _ => False
    end.
Theorem C03_tokenizer_events_single : C03_tokenizer_events true fe_tokenizer.
Proof. exact (tok_chunks_refine true fe_tokenizer eq_refl sweep_tokenizer toksweep_tokenizer). Qed.
Theorem C03_tokenizer_events_multi : C03_tokenizer_events false fe_tokenizer_multi.
Proof. exact (tok_chunks_refine false fe_tokenizer_multi eq_refl sweep_tokenizer_multi toksweep_tokenizer_multi). Qed.
Theorem C03_events_accept_as_parser : forall one w, ref_events one w = None <-> ref_parse one false w = None.
Proof. exact ref_events_accepts. Qed.

Example C03_tokenizer_example :
  let bs := map (fun n => n2b n) in
  run_all_chunks fe_tokenizer [bs [123;34;97;92]%N; bs [110;34;58;91;116;114]%N; bs [117;101;44;49]%N; bs [50;93;125]%N] =
    OOk [] [EObjStart; EKey [x61; x0a]; EArrStart; EBool true; EInt 12; EArrEnd; EObjEnd] /\
  ref_events true (bs [123;34;97;92;110;34;58;91;116;114;117;101;44;49;50;93;125]%N) =
    Some [EObjStart; EKey [x61; x0a]; EArrStart; EBool true; ENumber [x31; x32]; EArrEnd; EObjEnd].
Proof. vm_compute. split; reflexivity. Qed.

Print Assumptions C03_tokenizer_events_single.
Print Assumptions C03_tokenizer_events_multi.


(* Tokenizer + Builder against Parser, on the specification side: the reference event stream
   folded by a builder (bstep: what a Builder does with each callback) is the reference document
   list. With C03_tokenizer_events_* and C03_values_*: the Tokenizer's callbacks and the Parser's
   documents are images of one reference run for every text and every chunking. *)
Theorem C03_events_build_documents : forall one w evs,
  ref_events one w = Some evs -> ref_parse one false w = Some (build_events evs).
Proof. exact ref_events_build. Qed.
Print Assumptions C03_events_build_documents.


(* oj.Parser and gen.Parser: the same documents (as generic values) for every input *)
Theorem C03_parser_gen_agree : forall w,
  match run_all fe_parser w, run_all fe_gen w with
  | OOk d1 _, OOk d2 _ => d1 = d2
  | OErr _ _, OErr _ _ => True
  | _, _ => False
  end.
Proof. exact parser_gen_agree. Qed.
Theorem C03_parser_gen_agree_multi : forall w,
  match run_all fe_parser_multi w, run_all fe_gen_multi w with
  | OOk d1 _, OOk d2 _ => d1 = d2
  | OErr _ _, OErr _ _ => True
  | _, _ => False
  end.
Proof. exact parser_gen_agree_multi. Qed.
Print Assumptions C03_parser_gen_agree.

Print Assumptions C03_values_parser.
Print Assumptions C03_chunkings_agree_gen_multi.

Print Assumptions C03_chunks_control.
