(* C03 — all parsing front-ends agree, however the input is chunked (proved part).
   In the machine model a buffer boundary only clears the scan-ahead flag of the integer loop;
   [chunks_same_control] shows that acceptance (and with it error/no-error, and by C09 the
   position) is independent of the chunking for every input and every chunking. The value
   part differs between chunkings exactly where [d_fast] matters (the recorded int64 top-decade
   finding); it is decided by correspondence against run_chunks. *)
From Coq Require Import Init.Byte ZArith List Bool.
Require Import Ojg.Base.Bytes Ojg.Json.Machine Ojg.Json.Chunk.
Import ListNotations.

Theorem C03_chunks_control : forall K cs,
  match run_all_chunks K cs, run_all K (concat cs) with
  | OOk _ _, OOk _ _ => True
  | OErr l c, OErr l' c' => l = l' /\ c = c'
  | OErrOther, OErrOther => True
  | OFault, _ | _, OFault => True      (* faults are C06's subject *)
  | _, _ => False
  end.
Proof. exact chunks_same_control. Qed.

Print Assumptions C03_chunks_control.
