(* C08 — concurrent use of package-level APIs and shared paths is safe. *)
From Coq Require Import String List Bool.
Require Import Ojg.Gen.Fields Ojg.Reuse.Discipline Ojg.Conc.Pool Ojg.Conc.PoolDiscipline.
Import ListNotations.
Open Scope string_scope.

(* any number of threads, any programs, any schedule (including the runtime dropping pooled
   instances): no instance is ever owned by two threads *)
Theorem C08_exclusive_ownership :
  forall (St A R : Type) (fresh : St) (call : St -> A -> St * R) (good : St -> Prop),
  good fresh -> (forall s a, good s -> good (fst (call s a))) ->
  (forall s a, good s -> snd (call s a) = snd (call fresh a)) ->
  forall progs sched t t' s s' i,
  let g := fold_left (step St A R fresh call) sched (init St A R fresh progs) in
  nth_error (thr _ _ _ g) t = Some s -> nth_error (thr _ _ _ g) t' = Some s' ->
  holds _ _ s = Some i -> holds _ _ s' = Some i -> t = t'.
Proof. exact exclusive_ownership. Qed.

(* ... an owned instance is not in the pool *)
Theorem C08_owned_not_pooled :
  forall (St A R : Type) (fresh : St) (call : St -> A -> St * R) (good : St -> Prop),
  good fresh -> (forall s a, good s -> good (fst (call s a))) ->
  (forall s a, good s -> snd (call s a) = snd (call fresh a)) ->
  forall progs sched t s i,
  let g := fold_left (step St A R fresh call) sched (init St A R fresh progs) in
  nth_error (thr _ _ _ g) t = Some s -> holds _ _ s = Some i -> ~ In i (pool _ _ _ g).
Proof. exact pooled_never_owned. Qed.

(* ... and with instances under the C07 field discipline every thread that has finished its
   program holds exactly the results of running each call alone on a fresh instance *)
Theorem C08_results_schedule_independent :
  forall (F V A R : Type) (cl : F -> cls) (init_f : A -> F -> V) (run : (F -> V) -> A -> (F -> V) * R),
  (forall s1 s2 a, agree_on F V cl not_scratch s1 s2 -> snd (run s1 a) = snd (run s2 a)) ->
  (forall s a f, cl f = Config -> fst (run s a) f = s f) ->
  forall (fresh : F -> V) progs sched t s prog,
  let g := fold_left (step (F -> V) A R fresh (dcall F V A R cl init_f run)) sched (init (F -> V) A R fresh progs) in
  nth_error (thr _ _ _ g) t = Some s -> nth_error progs t = Some prog -> rest_of _ _ s = [] ->
  done_of _ _ s = map (fun a => snd (dcall F V A R cl init_f run fresh a)) prog.
Proof. exact pool_results_schedule_independent. Qed.

(* the pool protocol as it is in /repo now (regenerated lists): every package-level function
   that takes an instance from a pool puts it back with a deferred Put, and none hands the
   pooled writer's buffer to its caller *)
Theorem C08_pool_protocol :
  pool_get_without_deferred_put = [] /\ pool_returns_instance_buffer = [] /\
  forallb (fun f => existsb (String.eqb f) pool_users) ["oj.Parse"; "oj.JSON"; "oj.Marshal"; "sen.Parse"; "sen.String"; "sen.Bytes"] = true.
Proof. vm_compute. repeat split. Qed.

(* non-vacuity: two threads, one call each, interleaved Get/Get/Run/Run/Put/Put on counters *)
Example C08_example_run :
  let call := fun (s : nat) (a : nat) => (S s, a * 2) in
  let g := fold_left (step nat nat nat 0 call) [Sched 0; Sched 1; Sched 1; Sched 0; Sched 0; Sched 1; Drop]
                     (init nat nat nat 0 [[3]; [4]]) in
  map (done_of _ _) (thr _ _ _ g) = [[6]; [8]] /\ length (pool _ _ _ g) = 1.
Proof. vm_compute. split; reflexivity. Qed.

Print Assumptions C08_exclusive_ownership.
Print Assumptions C08_owned_not_pooled.
Print Assumptions C08_results_schedule_independent.
Print Assumptions C08_pool_protocol.
