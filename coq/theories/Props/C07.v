(* C07 — reused and pooled parsers and writers behave like fresh ones. *)
From Coq Require Import Init.Byte String List Bool ZArith.
Require Import Ojg.Gen.Fields Ojg.Reuse.Discipline Ojg.Reuse.Fields.
Require Import Ojg.Base.Bytes Ojg.Base.Jv Ojg.Gen.OjMaps Ojg.Json.Number Ojg.Json.Machine Ojg.Json.Frontends.
Require Import Ojg.Json.Scratch Ojg.Json.ScratchThm Ojg.Json.ScratchSweeps.
Import ListNotations.
Open Scope nat_scope.
Open Scope string_scope.

(* for any instance type under the reset / configuration / scratch discipline, any history of
   calls, and any later call: the reused instance returns what a fresh instance with the same
   configuration returns *)
Theorem C07_reuse_eq_fresh :
  forall (F V A R : Type) (cl : F -> cls) (init : A -> F -> V) (run : (F -> V) -> A -> (F -> V) * R),
  (forall s1 s2 a, agree_on F V cl not_scratch s1 s2 -> snd (run s1 a) = snd (run s2 a)) ->
  (forall s a f, cl f = Config -> fst (run s a) f = s f) ->
  forall (hist : list A) (s0 fresh : F -> V) (a : A),
  agree_on F V cl is_config s0 fresh ->
  snd (call F V A R cl init run (fold_left (fun s x => fst (call F V A R cl init run s x)) hist s0) a)
  = snd (call F V A R cl init run fresh a).
Proof. exact reuse_eq_fresh. Qed.

Theorem C07_history_eq_fresh :
  forall (F V A R : Type) (cl : F -> cls) (init : A -> F -> V) (run : (F -> V) -> A -> (F -> V) * R),
  (forall s1 s2 a, agree_on F V cl not_scratch s1 s2 -> snd (run s1 a) = snd (run s2 a)) ->
  (forall s a f, cl f = Config -> fst (run s a) f = s f) ->
  forall (fresh : F -> V) (hist : list A) (s0 : F -> V),
  agree_on F V cl is_config s0 fresh ->
  results F V A R cl init run s0 hist = map (fun a => snd (call F V A R cl init run fresh a)) hist.
Proof. exact history_eq_fresh. Qed.

(* the discipline holds of the structs and entry points as they are in /repo now *)
Theorem C07_fields_covered :
  covered oj_Parser_fields cl_oj_Parser [oj_Parser_Parse_assigns; oj_Parser_ParseReader_assigns] = true /\
  covered oj_Validator_fields cl_oj_Validator [oj_Validator_Validate_assigns; oj_Validator_ValidateReader_assigns] = true /\
  covered oj_Tokenizer_fields cl_oj_Tokenizer [oj_Tokenizer_Parse_assigns; oj_Tokenizer_Load_assigns] = true /\
  covered gen_Parser_fields cl_gen_Parser [gen_Parser_Parse_assigns; gen_Parser_ParseReader_assigns] = true /\
  covered sen_Parser_fields cl_sen_Parser [sen_Parser_Parse_assigns; sen_Parser_ParseReader_assigns] = true /\
  covered sen_Tokenizer_fields cl_sen_Tokenizer [sen_Tokenizer_Parse_assigns; sen_Tokenizer_Load_assigns] = true /\
  covered oj_Writer_fields cl_oj_Writer [oj_Writer_MustJSON_assigns; oj_Writer_MustWrite_assigns] = true /\
  covered sen_Writer_fields cl_sen_Writer [sen_Writer_MustSEN_assigns; sen_Writer_MustWrite_assigns] = true /\
  forallb (mem "num.Conv") [oj_Parser_Parse_assigns; oj_Parser_ParseReader_assigns; sen_Parser_Parse_assigns; sen_Parser_ParseReader_assigns] = true.
Proof.
  exact (conj covered_oj_Parser (conj covered_oj_Validator (conj covered_oj_Tokenizer (conj covered_gen_Parser
        (conj covered_sen_Parser (conj covered_sen_Tokenizer (conj covered_oj_Writer (conj covered_sen_Writer conv_reset)))))))).
Qed.

(* non-vacuity: a two-field instance (one reset, one scratch written before it is read) meets the
   hypotheses, and a body that reads a stale scratch field does not *)
Example C07_example_discipline :
  let cl := fun f : bool => if f then Reset else Scratch in
  let run := fun (s : bool -> nat) (a : nat) => ((fun f : bool => if f then s true + a else a), s true + a) in
  forall s1 s2 a, agree_on bool nat cl not_scratch s1 s2 -> snd (run s1 a) = snd (run s2 a).
Proof. intros cl run s1 s2 a H. cbn. rewrite (H true eq_refl). reflexivity. Qed.

(* The first hypothesis of the two theorems above, discharged for the byte loops of the JSON
   front-ends (the machine of Json/Machine.v, eight configurations): whatever earlier calls left
   in the scratch fields - nextMode, ri, the string buffer, the number under construction, the
   rune under construction - a run over any input in any chunking gives the outcome of a run
   from the fresh state. (No action reads a scratch field in a mode where it is dead: a sweep
   over the regenerated tables; one step then commutes with overwriting the dead fields.) *)
Definition C07_machine (K : cfg) : Prop :=
  forall (nx : mode) (ri : Z) (tmp : bytes) (nm : num) (rn : Z) (cs : list bytes),
  run_from K (dirty_init nx ri tmp nm rn) cs = run_all_chunks K cs.

Theorem C07_machine_parser : C07_machine fe_parser.
Proof. exact (stale_scratch_irrelevant fe_parser ssweep_parser). Qed.
Theorem C07_machine_validator : C07_machine fe_validator.
Proof. exact (stale_scratch_irrelevant fe_validator ssweep_validator). Qed.
Theorem C07_machine_tokenizer : C07_machine fe_tokenizer.
Proof. exact (stale_scratch_irrelevant fe_tokenizer ssweep_tokenizer). Qed.
Theorem C07_machine_gen : C07_machine fe_gen.
Proof. exact (stale_scratch_irrelevant fe_gen ssweep_gen). Qed.
Theorem C07_machine_parser_multi : C07_machine fe_parser_multi.
Proof. exact (stale_scratch_irrelevant fe_parser_multi ssweep_parser_multi). Qed.
Theorem C07_machine_validator_multi : C07_machine fe_validator_multi.
Proof. exact (stale_scratch_irrelevant fe_validator_multi ssweep_validator_multi). Qed.
Theorem C07_machine_tokenizer_multi : C07_machine fe_tokenizer_multi.
Proof. exact (stale_scratch_irrelevant fe_tokenizer_multi ssweep_tokenizer_multi). Qed.
Theorem C07_machine_gen_multi : C07_machine fe_gen_multi.
Proof. exact (stale_scratch_irrelevant fe_gen_multi ssweep_gen_multi). Qed.

(* non-vacuity: a dirty state does differ from the fresh one, and the run does produce a value *)
Example C07_machine_example :
  run_from fe_parser (dirty_init M_colonMap 3 [x61] (set_I num_reset 77) 9)
           [map (fun n => n2b n) [91; 49; 50; 44; 34; 120; 34; 93]%N]
  = OOk [JArr [JInt 12; JStr [x78]]] [].
Proof. vm_compute. reflexivity. Qed.

Print Assumptions C07_reuse_eq_fresh.
Print Assumptions C07_history_eq_fresh.
Print Assumptions C07_fields_covered.
Print Assumptions C07_machine_parser.
Print Assumptions C07_machine_gen_multi.
