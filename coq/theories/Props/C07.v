(* C07 — reused and pooled parsers and writers behave like fresh ones. *)
From Coq Require Import String List Bool.
Require Import Ojg.Gen.Fields Ojg.Reuse.Discipline Ojg.Reuse.Fields.
Import ListNotations.
Open Scope string_scope.

(* for any instance type under the reset / configuration / scratch discipline, any history of
   calls, and any later call: the reused instance returns what a fresh instance with the same
   configuration returns *)
Theorem C07_reuse_eq_fresh :
  forall (F V A R : Type) (cl : F -> cls) (init : A -> F -> V) (run : (F -> V) -> A -> (F -> V) * R),
  (forall s1 s2 a, agree_on F V cl not_scratch s1 s2 -> snd (run s1 a) = snd (run s2 a)) ->
  (forall s a f, cl f = Config -> fst (run s a) f = s f) ->
  forall (hist : list A) (s0 fresh : F -> V) (a : A),
  agree_on F V cl is_config s0 fresh ->
  snd (call F V A R cl init run (fold_left (fun s x => fst (call F V A R cl init run s x)) hist s0) a)
  = snd (call F V A R cl init run fresh a).
Proof. exact reuse_eq_fresh. Qed.

Theorem C07_history_eq_fresh :
  forall (F V A R : Type) (cl : F -> cls) (init : A -> F -> V) (run : (F -> V) -> A -> (F -> V) * R),
  (forall s1 s2 a, agree_on F V cl not_scratch s1 s2 -> snd (run s1 a) = snd (run s2 a)) ->
  (forall s a f, cl f = Config -> fst (run s a) f = s f) ->
  forall (fresh : F -> V) (hist : list A) (s0 : F -> V),
  agree_on F V cl is_config s0 fresh ->
  results F V A R cl init run s0 hist = map (fun a => snd (call F V A R cl init run fresh a)) hist.
Proof. exact history_eq_fresh. Qed.

(* the discipline holds of the structs and entry points as they are in /repo now *)
Theorem C07_fields_covered :
  covered oj_Parser_fields cl_oj_Parser [oj_Parser_Parse_assigns; oj_Parser_ParseReader_assigns] = true /\
  covered oj_Validator_fields cl_oj_Validator [oj_Validator_Validate_assigns; oj_Validator_ValidateReader_assigns] = true /\
  covered oj_Tokenizer_fields cl_oj_Tokenizer [oj_Tokenizer_Parse_assigns; oj_Tokenizer_Load_assigns] = true /\
  covered gen_Parser_fields cl_gen_Parser [gen_Parser_Parse_assigns; gen_Parser_ParseReader_assigns] = true /\
  covered sen_Parser_fields cl_sen_Parser [sen_Parser_Parse_assigns; sen_Parser_ParseReader_assigns] = true /\
  covered sen_Tokenizer_fields cl_sen_Tokenizer [sen_Tokenizer_Parse_assigns; sen_Tokenizer_Load_assigns] = true /\
  covered oj_Writer_fields cl_oj_Writer [oj_Writer_MustJSON_assigns; oj_Writer_MustWrite_assigns] = true /\
  covered sen_Writer_fields cl_sen_Writer [sen_Writer_MustSEN_assigns; sen_Writer_MustWrite_assigns] = true /\
  forallb (mem "num.Conv") [oj_Parser_Parse_assigns; oj_Parser_ParseReader_assigns; sen_Parser_Parse_assigns; sen_Parser_ParseReader_assigns] = true.
Proof.
  exact (conj covered_oj_Parser (conj covered_oj_Validator (conj covered_oj_Tokenizer (conj covered_gen_Parser
        (conj covered_sen_Parser (conj covered_sen_Tokenizer (conj covered_oj_Writer (conj covered_sen_Writer conv_reset)))))))).
Qed.

(* non-vacuity: a two-field instance (one reset, one scratch written before it is read) meets the
   hypotheses, and a body that reads a stale scratch field does not *)
Example C07_example_discipline :
  let cl := fun f : bool => if f then Reset else Scratch in
  let run := fun (s : bool -> nat) (a : nat) => ((fun f : bool => if f then s true + a else a), s true + a) in
  forall s1 s2 a, agree_on bool nat cl not_scratch s1 s2 -> snd (run s1 a) = snd (run s2 a).
Proof. intros cl run s1 s2 a H. cbn. rewrite (H true eq_refl). reflexivity. Qed.

Print Assumptions C07_reuse_eq_fresh.
Print Assumptions C07_history_eq_fresh.
Print Assumptions C07_fields_covered.
