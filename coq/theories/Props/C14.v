(* C14 — JSONPath and script text forms round-trip (proved part: string literals).
   jp.AppendString (escape classes from the generated jp_jMap) followed by the parser's
   readStr/readEscStr is the identity on every string of bytes below 0x80 - quotes, backslashes
   and control characters included - for both quote characters, in any context that follows;
   and on EVERY byte string (Jp/StrU.v: the utf8.DecodeRune branch with its \u escapes for
   U+2028, U+2029 and U+FFFD and the \x escape for a byte that is not UTF-8).
   The expression- and equation-level round trips (printed text parses, prints identically and
   evaluates as the ORIGINAL tree denotes in Jp/Expr.v) are decided by correspondence. *)
From Coq Require Import Init.Byte ZArith List Bool.
Require Import Ojg.Base.Bytes Ojg.Json.Writer Ojg.Jp.Str Ojg.Jp.StrU Ojg.Jp.PathText Ojg.Jp.PathRT Ojg.Jp.Expr Ojg.Jp.PathEval.
Import ListNotations.

Theorem C14_string_roundtrip : forall s term k,
  (term = x22 \/ term = x27) -> Forall ascii s ->
  read_str term (enc_body s ++ term :: k) = Some (s, k).
Proof. exact string_roundtrip. Qed.

Print Assumptions C14_string_roundtrip.


(* every byte string, either quote: the printed literal reads back as the same string *)
Theorem C14_string_roundtrip_all : forall s term k,
  (term = x22 \/ term = x27) ->
  read_str term (enc_body_u (length s) s ++ term :: k) = Some (s, k).
Proof. exact string_roundtrip_all. Qed.

(* on ASCII strings this is the function of the first theorem *)
Theorem C14_ascii_same_encoding : forall s, Forall ascii s -> enc_body_u (length s) s = enc_body s.
Proof. intros s H. apply enc_body_u_ascii; [apply le_n | exact H]. Qed.

Example C14_string_roundtrip_all_example :
  let s := [x61; x27; xc3; xa9; xff; xe2; x80; xa8; x5c; xf0; x9f; x98; x80] in
  read_str x27 (enc_body_u (length s) s ++ [x27; x5d]) =
    Some (s, [x5d]).
Proof. vm_compute. reflexivity. Qed.

Print Assumptions C14_string_roundtrip_all.


(* ---- paths of a root followed by children with ANY key bytes, indexes with ANY integer, wildcards
   of both kinds, descents, unions of strings and integers (a union of one member reads back as
   that child or index) and slices of up to three numbers (a missing end is filled in with the
   largest end, as the parser always does) (this includes the normal paths Locate and Walk hand out). The
   printed text - dot form for token keys by the regenerated jp_tokenMap, bracketed literal
   otherwise, [n], .* and [*], a descent's second dot left to a following token child or star -
   parses back to the same fragments, keys and members byte for byte. *)
Theorem C14_normal_path_round_trip : forall fs,
  Forall frag_ok fs ->      (* no empty union: Union{} prints [] which is no fragment *)
  parse_path (print_path fs) = Some (map norm_frag fs).
Proof. exact path_text_round_trip. Qed.

Theorem C14_normal_path_round_trip_clean : forall fs,
  Forall frag_clean fs -> parse_path (print_path fs) = Some fs.
Proof. exact path_text_round_trip_clean. Qed.

Example C14_normal_path_example :
  let fs := [NChild [x61; x62]; NNth (-9223372036854775808)%Z; NDescent; NChild [x61; x20; x27]; NNth 0%Z; NDescent; NChild [x7a]; NWild true;
             NDescent; NWild true; NWild false; NChild []; NDescent; NDescent; NChild [xc3; xa9]; NUnion [inl [x61; x27]; inr (-3)%Z; inl []]; NUnion [inr 0%Z; inr 7%Z]; NSlice [1; 5]%Z; NSlice [0; 2147483647; -2]%Z; NSlice [-3; -1; 1]%Z; NDescent] in
  parse_path (print_path fs) = Some fs.
Proof. vm_compute. reflexivity. Qed.

Print Assumptions C14_normal_path_round_trip.


(* the property's own words for these paths: the text of x parses to an expression that evaluates
   identically on all data (get_spec: the evaluation model the suites compare with Expr.Get) and
   prints identically (unless a union has one member: its text is that of a child / index) *)
Theorem C14_path_text_faithful : forall fs d, Forall frag_ok fs ->
  exists fs', parse_path (print_path fs) = Some fs' /\
    get_spec (FRoot :: map to_frag fs') d = get_spec (FRoot :: map to_frag fs) d /\
    (Forall no_single fs -> print_path fs' = print_path fs).
Proof. exact path_text_faithful. Qed.
Print Assumptions C14_path_text_faithful.


(* BracketString: the bracketed text of a path without descents parses back as well (both wildcards
   as the bracketed one); with a descent it does not - the recorded finding C14 BracketString [..],
   here as a fact of the model *)
Theorem C14_bracket_text_round_trip : forall fs, Forall frag_ok fs -> Forall no_descent fs ->
  parse_path (print_path_b fs) = Some (map norm_frag_b fs).
Proof. exact bracket_text_round_trip. Qed.
Theorem C14_bracket_descent_refuted : parse_path (print_path_b [NDescent; NChild [x61]]) = None.
Proof. exact bracket_descent_refuted. Qed.
Print Assumptions C14_bracket_text_round_trip.


(* the same for expressions that start with @ (as inside filters) or directly with a fragment *)
Theorem C14_path_text_round_trip_heads : forall h fs, Forall frag_ok fs ->
  parse_path_h (print_path_h h fs) = Some (h, map norm_frag fs).
Proof. exact path_text_round_trip_h. Qed.
Print Assumptions C14_path_text_round_trip_heads.
