(* C14 — JSONPath and script text forms round-trip (proved part: string literals).
   jp.AppendString (escape classes from the generated jp_jMap) followed by the parser's
   readStr/readEscStr is the identity on every string of bytes below 0x80 - quotes, backslashes
   and control characters included - for both quote characters, in any context that follows.
   The expression- and equation-level round trips (printed text parses, prints identically and
   evaluates as the ORIGINAL tree denotes in Jp/Expr.v) are decided by correspondence. *)
From Coq Require Import Init.Byte ZArith List Bool.
Require Import Ojg.Base.Bytes Ojg.Jp.Str.
Import ListNotations.

Theorem C14_string_roundtrip : forall s term k,
  (term = x22 \/ term = x27) -> Forall ascii s ->
  read_str term (enc_body s ++ term :: k) = Some (s, k).
Proof. exact string_roundtrip. Qed.

Print Assumptions C14_string_roundtrip.
