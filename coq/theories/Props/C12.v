(* C12 — filter scripts are total and follow typed comparison semantics.
   Stated about the script denotation of Jp/Expr.v (apply_bin / evals / script_match), which
   Script.Match and filters are compared with on every run. *)
From Coq Require Import Init.Byte ZArith QArith List Bool.
Require Import Ojg.Base.Bytes Ojg.Base.Jv Ojg.Jp.Expr Ojg.Jp.GetFacts.
Import ListNotations.

Theorem C12_eq_neq_complement : forall a b,
  exists r, apply_bin OEq a b = SBool r /\ apply_bin ONeq a b = SBool (negb r).
Proof. exact eq_neq_complement. Qed.

Theorem C12_mismatched_kinds_unequal : forall a b, kind_of a <> kind_of b -> apply_bin OEq a b = SBool false.
Proof. exact eq_mixed_kinds_false. Qed.

Theorem C12_containers_unequal : forall x y,
  is_container x = true -> is_container y = true -> apply_bin OEq (SVal x) (SVal y) = SBool false.
Proof. exact eq_containers_false. Qed.

Theorem C12_order_mixed_false : forall o a b,
  (o = OLt \/ o = OGt \/ o = OLte \/ o = OGte) -> kind_of a <> kind_of b -> apply_bin o a b = SBool false.
Proof. exact order_mixed_false. Qed.

Theorem C12_numbers_by_value : forall z q, apply_bin OEq (SInt z) (SFlt q) = SBool (Qeq_bool (inject_Z z) q).
Proof. exact int_float_eq. Qed.

Theorem C12_missing_is_nothing : forall boo, apply_bin OExists SNothing (SBool boo) = SBool (negb boo).
Proof. exact exists_nothing. Qed.

Theorem C12_total : forall e root cur, evals e root cur <> [].
Proof. exact evals_nonempty. Qed.

Theorem C12_match_iff_filter : forall e root el,
  existsb is_true (evals e root el) = true <-> In el (sel (FFilter e) true root (JArr [el])).
Proof. exact match_iff_filter. Qed.

Print Assumptions C12_eq_neq_complement.
Print Assumptions C12_order_mixed_false.
Print Assumptions C12_total.
Print Assumptions C12_match_iff_filter.
