(* C11 — every JSONPath evaluator agrees with Get.
   Has, First and Locate are defined as separate evaluators (early-exit search, path-carrying
   selection) over the same fragment denotation; the theorems relate each of them to get_spec
   for all paths and all data. The real Has/FirstFound/Locate/Walk/GetNodes/FirstNode and the
   other data representations are compared with these on every run. *)
From Coq Require Import Init.Byte ZArith List Bool.
Require Import Ojg.Base.Bytes Ojg.Base.Jv Ojg.Jp.Expr Ojg.Jp.Locate.
Import ListNotations.

Theorem C11_has_iff_get_nonempty : forall x d,
  has_spec x d = negb (match get_spec x d with [] => true | _ => false end).
Proof. exact has_iff_get_nonempty. Qed.

Theorem C11_first_is_first_of_get : forall x d, first_spec x d = hd_error (get_spec x d).
Proof. exact first_spec_head. Qed.

Theorem C11_first_member_of_get : forall x d r, first_spec x d = Some r -> In r (get_spec x d).
Proof. exact first_in_get. Qed.

Theorem C11_locate_values_are_get : forall x d, map snd (locate_spec x d) = get_spec x d.
Proof. exact locate_spec_values. Qed.

Example C11_example :
  locate_spec [FRoot; FWild; FNth (-1)] (JObj [([x61], JArr [JInt 1; JInt 2])])
  = [([FRoot; FChild [x61]; FNth 1], JInt 2)].
Proof. vm_compute. reflexivity. Qed.

Print Assumptions C11_has_iff_get_nonempty.
Print Assumptions C11_first_is_first_of_get.
Print Assumptions C11_locate_values_are_get.
