(* C15 — all encoders agree on how a Go value is encoded.
   Enc/Struct.v is the tree the option documentation prescribes for struct types and values
   given as data (tag / lower-case / exact key naming, NestEmbed, OmitNil, OmitEmpty, CreateKey,
   ,omitempty and ,string tags, embedded structs and nil pointers); every encoder is compared
   with it on every run. Proved about the specification for all options, types and values: *)
From Coq Require Import Init.Byte ZArith List Bool.
Require Import Ojg.Base.Bytes Ojg.Base.Jv Ojg.Enc.Struct.
Import ListNotations.
Open Scope Z_scope.

(* the object made from a struct is the create key followed by what each field contributes, in
   declaration order, and a field's contribution depends on that field and its value only *)
Theorem C15_struct_is_concat_of_field_contributions : forall o name fs vals,
  enc o (TStruct name fs) (GStruct vals) =
  JObj ((match o_ck o with Some k => [(k, JStr name)] | None => [] end) ++ concat (contribs o fs vals)).
Proof. exact enc_struct_char. Qed.

(* omitempty affects only the tagged field: setting or clearing it on field i leaves the
   contribution of every other field untouched ... *)
Theorem C15_omitempty_is_local : forall o fs vals i b j,
  j <> i -> nth_error (contribs o (flip_omit i b fs) vals) j = nth_error (contribs o fs vals) j.
Proof. exact omitempty_is_local. Qed.

(* ... and its own member is unchanged or disappears / appears as a whole (never renamed or altered) *)
Theorem C15_omitempty_own_field : forall o fname exported tg emb ft x b,
  let c1 := member_of_field o (Fld fname exported tg emb ft) x in
  let c2 := member_of_field o (Fld fname exported (set_omit tg b) emb ft) x in
  c2 = c1 \/ c2 = [] \/ c1 = [].
Proof. exact omitempty_own_field. Qed.

(* non-vacuity: tags, naming, a nil embedded pointer and an omitted empty member *)
Example C15_example :
  let tg0 := mkTag false [] false false false in
  let ty := TStruct [x54] [Fld [x45] true tg0 true (TPtr (TStruct [x45] [Fld [x58] true tg0 false (TInt false)]));
                           Fld [x4e; x61; x6d; x65] true (mkTag true [x6e] false true false) false TStr;
                           Fld [x49; x44] true tg0 false (TInt false)] in
  enc (mkOpts true false false false false None false false false) ty (GStruct [GNil; GStr []; GInt 7])
  = JObj [([x69; x64], JInt 7)].
Proof. vm_compute. reflexivity. Qed.

Print Assumptions C15_struct_is_concat_of_field_contributions.
Print Assumptions C15_omitempty_is_local.
Print Assumptions C15_omitempty_own_field.
