(* C19 — Diff, Compare and Match report exactly the real differences.
   diff / jeq / jmatch (Alt/Diff.v) are the executable specification alt.Diff, alt.Compare and
   alt.Match are compared with on every run. Proved for all pairs of trees: Diff with no ignore
   paths is empty exactly when the trees are equal up to numeric width and null-versus-absent
   members, and Compare is nil exactly when Diff is empty. *)
From Coq Require Import Init.Byte ZArith List Bool.
Require Import Ojg.Base.Bytes Ojg.Base.Jv Ojg.Alt.Diff.
Import ListNotations.

Theorem C19_diff_empty_iff_equal : forall a b, diff a b [] = [] <-> jeq a b = true.
Proof. exact diff_empty_iff_equal. Qed.

Theorem C19_compare_nil_iff_diff_empty : forall a b ign, compare a b ign = None <-> diff a b ign = [].
Proof. exact compare_none_iff_diff_empty. Qed.

(* non-vacuity: numeric width and null-versus-absent are not differences, a changed leaf is *)
Example C19_example_equal :
  diff (JObj [([x61], JInt 1); ([x62], JNull)]) (JObj [([x61], JFloat [x31; x2e; x30])]) [] = [].
Proof. vm_compute. reflexivity. Qed.
Example C19_example_ignored :
  diff (JArr [JObj [([x61], JInt 1)]; JObj [([x62], JInt 2)]])
       (JArr [JObj [([x61], JInt 9)]; JObj [([x62], JInt 8)]])
       [[PIdx 0; PKey [x61]]; [PIdx 1; PKey [x62]]] = [].
Proof. vm_compute. reflexivity. Qed.

Print Assumptions C19_diff_empty_iff_equal.
Print Assumptions C19_compare_nil_iff_diff_empty.
