From Coq Require Import Init.Byte NArith ZArith List Bool.
Require Import Ojg.Base.Bytes Ojg.Base.Jv Ojg.Alt.Diff.
Import ListNotations.

Fixpoint join_sp2 (l : list bytes) : bytes :=
  match l with [] => [] | [a] => a | a :: l' => a ++ x20 :: join_sp2 l' end.
Fixpoint join_semi2 (l : list bytes) : bytes :=
  match l with [] => [] | [a] => a | a :: l' => a ++ x20 :: x3b :: x20 :: join_semi2 l' end.

Definition show_pelem (e : pelem) : bytes :=
  match e with
  | PKey k => x6b :: hex_of_bytes k
  | PIdx i => x69 :: format_int i
  | PWild => [x2a]
  end.
Definition show_path (p : path) : bytes := x2f :: join_sp2 (map show_pelem p).

(* diffs | equal? | match? *)
Definition model_diff (a b : jv) (ign : list path) : bytes :=
  join_semi2 (map show_path (diff a b ign)) ++ x20 :: x7c :: x20 ::
  (if jeq a b then [x74] else [x66]) ++ x20 :: (if jmatch a b then [x74] else [x66]).
