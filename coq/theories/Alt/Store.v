(* C18: copying conversions (Dup, Generify, Simplify, Decompose) and aliasing.
   Go slices and maps are mutable objects; a value tree is modelled with the identity (location)
   of every container attached to it. Two trees share mutable state exactly when a location
   occurs in both. A copying operation allocates fresh locations for every container. *)
From Coq Require Import Init.Byte NArith ZArith List Bool Lia.
Require Import Ojg.Base.Bytes Ojg.Base.Jv.
Import ListNotations.
Local Open Scope nat_scope.

Inductive ltree : Set :=
  | LLeaf (v : jv)                                  (* scalar: immutable *)
  | LArr (l : nat) (cs : list ltree)                (* slice with identity l *)
  | LObj (l : nat) (m : list (bytes * ltree)).      (* map with identity l *)

Fixpoint value (t : ltree) : jv :=
  match t with
  | LLeaf v => v
  | LArr _ cs => JArr (map value cs)
  | LObj _ m => JObj ((fix go (m : list (bytes * ltree)) : list (bytes * jv) :=
                         match m with [] => [] | (k, c) :: m' => (k, value c) :: go m' end) m)
  end.

Fixpoint locs (t : ltree) : list nat :=
  match t with
  | LLeaf _ => []
  | LArr l cs => l :: flat_map locs cs
  | LObj l m => l :: (fix go (m : list (bytes * ltree)) : list nat :=
                        match m with [] => [] | (_, c) :: m' => locs c ++ go m' end) m
  end.

(* a copy allocates the locations next, next+1, ... ; returns the copy and the new counter *)
Fixpoint copy (next : nat) (t : ltree) {struct t} : ltree * nat :=
  match t with
  | LLeaf v => (LLeaf v, next)
  | LArr _ cs =>
      let '(cs', n') := (fix go (n : nat) (cs : list ltree) : list ltree * nat :=
                           match cs with
                           | [] => ([], n)
                           | c :: cs' => let '(c', n1) := copy n c in
                                         let '(r, n2) := go n1 cs' in (c' :: r, n2)
                           end) (S next) cs in
      (LArr next cs', n')
  | LObj _ m =>
      let '(m', n') := (fix go (n : nat) (m : list (bytes * ltree)) : list (bytes * ltree) * nat :=
                          match m with
                          | [] => ([], n)
                          | (k, c) :: m' => let '(c', n1) := copy n c in
                                            let '(r, n2) := go n1 m' in ((k, c') :: r, n2)
                          end) (S next) m in
      (LObj next m', n')
  end.

(* in-place mutation of the container with identity l (replace its contents), wherever it occurs *)
Fixpoint mutate (l : nat) (repl : ltree) (t : ltree) {struct t} : ltree :=
  match t with
  | LLeaf v => LLeaf v
  | LArr l' cs => if Nat.eqb l l' then repl else LArr l' (map (mutate l repl) cs)
  | LObj l' m => if Nat.eqb l l' then repl
                 else LObj l' ((fix go (m : list (bytes * ltree)) : list (bytes * ltree) :=
                                  match m with [] => [] | (k, c) :: m' => (k, mutate l repl c) :: go m' end) m)
  end.

(* induction principle reaching inside *)
Section LInd.
  Variable P : ltree -> Prop.
  Hypothesis Hleaf : forall v, P (LLeaf v).
  Hypothesis Harr : forall l cs, Forall P cs -> P (LArr l cs).
  Hypothesis Hobj : forall l m, Forall (fun kc => P (snd kc)) m -> P (LObj l m).
  Fixpoint ltree_ind2 (t : ltree) : P t :=
    match t with
    | LLeaf v => Hleaf v
    | LArr l cs => Harr l cs ((fix go (cs : list ltree) : Forall P cs :=
                                 match cs with [] => Forall_nil _ | c :: cs' => Forall_cons c (ltree_ind2 c) (go cs') end) cs)
    | LObj l m => Hobj l m ((fix go (m : list (bytes * ltree)) : Forall (fun kc => P (snd kc)) m :=
                               match m with [] => Forall_nil _ | (k, c) :: m' => Forall_cons (k, c) (ltree_ind2 c) (go m') end) m)
    end.
End LInd.

(* ---- a copy denotes the same value, uses only fresh locations *)
Definition copy_ok (t : ltree) : Prop :=
  forall next, let '(t', n') := copy next t in
    value t' = value t /\ next <= n' /\ (forall l, In l (locs t') -> next <= l < n').

Theorem copy_correct : forall t, copy_ok t.
Proof.
  induction t as [v|l cs IH|l m IH] using ltree_ind2; intro next.
  - simpl. split; [reflexivity|split; [lia|intros x []]].
  - simpl.
    set (go := fix go (n : nat) (cs : list ltree) : list ltree * nat :=
                 match cs with
                 | [] => ([], n)
                 | c :: cs' => let '(c', n1) := copy n c in let '(r, n2) := go n1 cs' in (c' :: r, n2)
                 end).
    assert (H : forall cs, Forall copy_ok cs -> forall n,
               let '(r, n2) := go n cs in
               map value r = map value cs /\ n <= n2 /\ (forall x, In x (flat_map locs r) -> n <= x < n2)).
    { clear. induction cs as [|c cs IHc]; intros HF n; simpl.
      - split; [reflexivity|split; [lia|intros x []]].
      - inversion HF as [|? ? Hc HFc]; subst. specialize (Hc n). destruct (copy n c) as [c' n1].
        destruct Hc as (V1 & L1 & F1). specialize (IHc HFc n1). destruct (go n1 cs) as [r n2].
        destruct IHc as (V2 & L2 & F2). simpl. split; [|split].
        + rewrite V1, V2. reflexivity.
        + lia.
        + intros x Hx. apply in_app_or in Hx as [Hx|Hx]; [specialize (F1 x Hx)|specialize (F2 x Hx)]; lia. }
    specialize (H cs IH (S next)). destruct (go (S next) cs) as [cs' n'].
    destruct H as (V & L & F). simpl. split; [|split].
    + rewrite V. reflexivity.
    + lia.
    + intros x [<-|Hx]; [lia|]. specialize (F x Hx). lia.
  - simpl.
    set (go := fix go (n : nat) (m : list (bytes * ltree)) : list (bytes * ltree) * nat :=
                 match m with
                 | [] => ([], n)
                 | (k, c) :: m' => let '(c', n1) := copy n c in let '(r, n2) := go n1 m' in ((k, c') :: r, n2)
                 end).
    set (vals := fix go (m : list (bytes * ltree)) : list (bytes * jv) :=
                   match m with [] => [] | (k, c) :: m' => (k, value c) :: go m' end).
    set (ls := fix go (m : list (bytes * ltree)) : list nat :=
                 match m with [] => [] | (_, c) :: m' => locs c ++ go m' end).
    assert (H : forall m, Forall (fun kc => copy_ok (snd kc)) m -> forall n,
               let '(r, n2) := go n m in
               vals r = vals m /\ n <= n2 /\ (forall x, In x (ls r) -> n <= x < n2)).
    { clear. induction m as [|[k c] m IHm]; intros HF n; simpl.
      - split; [reflexivity|split; [lia|intros x []]].
      - inversion HF as [|? ? Hc HFm]; subst. simpl in Hc. specialize (Hc n). destruct (copy n c) as [c' n1].
        destruct Hc as (V1 & L1 & F1). specialize (IHm HFm n1). destruct (go n1 m) as [r n2].
        destruct IHm as (V2 & L2 & F2). simpl. split; [|split].
        + rewrite V1, V2. reflexivity.
        + lia.
        + intros x Hx. apply in_app_or in Hx as [Hx|Hx]; [specialize (F1 x Hx)|specialize (F2 x Hx)]; lia. }
    specialize (H m IH (S next)). destruct (go (S next) m) as [m' n'].
    destruct H as (V & L & F). simpl. split; [|split].
    + fold vals. rewrite V. reflexivity.
    + lia.
    + intros x [<-|Hx]; [lia|]. fold ls in Hx. specialize (F x Hx). lia.
Qed.

(* ---- mutating a location that does not occur in a tree leaves the tree as it is *)
Theorem mutate_frame l repl : forall t, ~ In l (locs t) -> mutate l repl t = t.
Proof.
  induction t as [v|l' cs IH|l' m IH] using ltree_ind2; intro Hn; simpl.
  - reflexivity.
  - simpl in Hn. destruct (Nat.eqb l l') eqn:E; [apply Nat.eqb_eq in E; subst; exfalso; apply Hn; left; reflexivity|].
    f_equal. assert (Hcs : ~ In l (flat_map locs cs)) by (intro; apply Hn; right; assumption).
    clear Hn E. induction IH as [|c cs Hc _ IHcs]; simpl; [reflexivity|].
    simpl in Hcs. rewrite Hc, IHcs; auto; intro; apply Hcs; apply in_or_app; auto.
  - simpl in Hn. destruct (Nat.eqb l l') eqn:E; [apply Nat.eqb_eq in E; subst; exfalso; apply Hn; left; reflexivity|].
    f_equal.
    set (ls := fix go (m : list (bytes * ltree)) : list nat :=
                 match m with [] => [] | (_, c) :: m' => locs c ++ go m' end) in *.
    assert (Hm : ~ In l (ls m)) by (intro; apply Hn; right; assumption).
    clear Hn E. induction IH as [|[k c] m Hc _ IHm]; simpl; [reflexivity|].
    simpl in Hm, Hc. rewrite Hc, IHm; auto; intro; apply Hm; apply in_or_app; auto.
Qed.

(* C18: after a copy made with locations beyond those of the original, mutating any container of
   the copy never changes the original, and mutating any container of the original never changes
   the copy *)
Theorem copy_independent t next :
  (forall l, In l (locs t) -> l < next) ->
  let t' := fst (copy next t) in
  value t' = value t /\
  (forall l repl, In l (locs t') -> mutate l repl t = t) /\
  (forall l repl, In l (locs t) -> mutate l repl t' = t').
Proof.
  intro Hold. pose proof (copy_correct t next) as H. destruct (copy next t) as [t' n']. simpl.
  destruct H as (V & L & F). split; [|split].
  - exact V.
  - intros l repl Hl. apply mutate_frame. intro Hin. specialize (F l Hl). specialize (Hold l Hin). lia.
  - intros l repl Hl. apply mutate_frame. intro Hin. specialize (F l Hin). specialize (Hold l Hl). lia.
Qed.
