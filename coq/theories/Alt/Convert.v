(* C18: conversions between simple Go data and gen.Node trees.
   A simple value carries the Go kind of every integer (int, int8 ... uint64) because the
   conversions widen them to int64 (uint64 wraps); a generic tree is a [jv]. Floats are float64
   (decimal text), float32 and time.Time are not modelled. Maps are association lists without
   duplicate keys. *)
From Coq Require Import Init.Byte NArith ZArith List Bool Lia.
Require Import Ojg.Base.Bytes Ojg.Base.Jv.
Import ListNotations.
Open Scope Z_scope.

Inductive tval : Set :=
  | VNil
  | VBool (b : bool)
  | VInt (k : Z) (z : Z)   (* k: 0 int 1 int8 2 int16 3 int32 4 int64 5 uint 6 uint8 7 uint16 8 uint32 9 uint64 *)
  | VFloat (t : bytes)
  | VStr (s : bytes)
  | VArr (l : list tval)
  | VMap (m : list (bytes * tval)).

Section TvInd.
  Variable P : tval -> Prop.
  Hypothesis Hnil : P VNil.
  Hypothesis Hbool : forall b, P (VBool b).
  Hypothesis Hint : forall k z, P (VInt k z).
  Hypothesis Hfloat : forall t, P (VFloat t).
  Hypothesis Hstr : forall s, P (VStr s).
  Hypothesis Harr : forall l, Forall P l -> P (VArr l).
  Hypothesis Hmap : forall m, Forall (fun kv => P (snd kv)) m -> P (VMap m).
  Fixpoint tval_ind2 (v : tval) : P v :=
    match v with
    | VNil => Hnil | VBool b => Hbool b | VInt k z => Hint k z | VFloat t => Hfloat t | VStr s => Hstr s
    | VArr l => Harr l ((fix go (l : list tval) : Forall P l :=
                           match l with [] => Forall_nil _ | x :: l' => Forall_cons x (tval_ind2 x) (go l') end) l)
    | VMap m => Hmap m ((fix go (m : list (bytes * tval)) : Forall (fun kv => P (snd kv)) m :=
                           match m with [] => Forall_nil _ | (k, x) :: m' => Forall_cons (k, x) (tval_ind2 x) (go m') end) m)
    end.
End TvInd.

(* Go: int64(x) for x of any integer kind whose mathematical value is z *)
Definition wrap64 (z : Z) : Z := (z + 2^63) mod 2^64 - 2^63.

Definition is_vnil (v : tval) : bool := match v with VNil => true | _ => false end.
Definition is_jnull (v : jv) : bool := match v with JNull => true | _ => false end.

(* alt.Generify / alt.GenAlter (omit = Options.OmitNil) *)
Fixpoint generify (omit : bool) (v : tval) : jv :=
  match v with
  | VNil => JNull
  | VBool b => JBool b
  | VInt _ z => JInt (wrap64 z)
  | VFloat t => JFloat t
  | VStr s => JStr s
  | VArr l => JArr (map (generify omit) l)
  | VMap m => JObj ((fix go (m : list (bytes * tval)) : list (bytes * jv) :=
                       match m with
                       | [] => []
                       | (k, x) :: m' => let g := generify omit x in
                                         if omit && is_jnull g then go m' else (k, g) :: go m'
                       end) m)
  end.

(* alt.Decompose / alt.Dup / alt.Alter on simple data (OmitEmpty off) *)
Fixpoint decompose (omit : bool) (v : tval) : tval :=
  match v with
  | VInt _ z => VInt 4 (wrap64 z)
  | VArr l => VArr (map (decompose omit) l)
  | VMap m => VMap ((fix go (m : list (bytes * tval)) : list (bytes * tval) :=
                       match m with
                       | [] => []
                       | (k, x) :: m' => let d := decompose omit x in
                                         if omit && is_vnil d then go m' else (k, d) :: go m'
                       end) m)
  | _ => v
  end.

(* gen Node.Simplify / Node.Alter *)
Fixpoint simplify (g : jv) : tval :=
  match g with
  | JNull => VNil
  | JBool b => VBool b
  | JInt z => VInt 4 z
  | JFloat t => VFloat t
  | JBig t => VStr t
  | JStr s => VStr s
  | JArr l => VArr (map simplify l)
  | JObj m => VMap ((fix go (m : list (bytes * jv)) : list (bytes * tval) :=
                       match m with [] => [] | (k, x) :: m' => (k, simplify x) :: go m' end) m)
  end.

(* what the writers see of a simple value *)
Fixpoint view (v : tval) : jv :=
  match v with
  | VNil => JNull
  | VBool b => JBool b
  | VInt _ z => JInt z
  | VFloat t => JFloat t
  | VStr s => JStr s
  | VArr l => JArr (map view l)
  | VMap m => JObj ((fix go (m : list (bytes * tval)) : list (bytes * jv) :=
                       match m with [] => [] | (k, x) :: m' => (k, view x) :: go m' end) m)
  end.

(* JSON-like simple data: every integer is an int64 *)
Fixpoint json_like (v : tval) : bool :=
  match v with
  | VInt k z => (k =? 4) && (- 2^63 <=? z) && (z <? 2^63)
  | VArr l => forallb json_like l
  | VMap m => (fix go (m : list (bytes * tval)) : bool :=
                 match m with [] => true | (_, x) :: m' => json_like x && go m' end) m
  | _ => true
  end.

(* generic trees produced by the library: integers are int64; no Big *)
Fixpoint gen_plain (g : jv) : bool :=
  match g with
  | JInt z => (- 2^63 <=? z) && (z <? 2^63)
  | JBig _ => false
  | JArr l => forallb gen_plain l
  | JObj m => (fix go (m : list (bytes * jv)) : bool :=
                 match m with [] => true | (_, x) :: m' => gen_plain x && go m' end) m
  | _ => true
  end.

Lemma wrap64_id z : - 2^63 <= z < 2^63 -> wrap64 z = z.
Proof. intro H. unfold wrap64. rewrite Z.mod_small; lia. Qed.

Lemma wrap64_range z : - 2^63 <= wrap64 z < 2^63.
Proof. unfold wrap64. pose proof (Z.mod_pos_bound (z + 2^63) (2^64) ltac:(lia)). lia. Qed.

Lemma is_null_generify omit v : is_jnull (generify omit v) = is_vnil (decompose omit v).
Proof. destruct v; reflexivity. Qed.

(* Simplify after Generify is Decompose, whatever the kinds and the OmitNil option *)
Theorem simplify_generify omit : forall v, simplify (generify omit v) = decompose omit v.
Proof.
  induction v as [| b | k z | t | s | l IH | m IH] using tval_ind2; try reflexivity.
  - cbn [generify decompose simplify]. f_equal. rewrite map_map.
    induction IH as [|x l Hx _ IHl]; [reflexivity|]. cbn [map]. rewrite Hx, IHl. reflexivity.
  - cbn [generify decompose simplify]. f_equal.
    induction IH as [|[k x] m Hx _ IHm]; [reflexivity|]. cbn [snd] in Hx.
    rewrite is_null_generify. destruct (omit && is_vnil (decompose omit x)).
    + exact IHm.
    + rewrite Hx, IHm. reflexivity.
Qed.

(* on JSON-like data with nulls kept Decompose/Dup/Alter is the identity *)
Theorem decompose_json_like : forall v, json_like v = true -> decompose false v = v.
Proof.
  induction v as [| b | k z | t | s | l IH | m IH] using tval_ind2; intro H; try reflexivity.
  - cbn [json_like] in H. apply andb_prop in H as [H H3]. apply andb_prop in H as [H1 H2].
    apply Z.eqb_eq in H1. apply Z.leb_le in H2. apply Z.ltb_lt in H3. subst k.
    cbn [decompose]. rewrite wrap64_id by lia. reflexivity.
  - cbn [decompose json_like] in *. f_equal.
    induction IH as [|x l Hx _ IHl]; [reflexivity|]. cbn [forallb] in H. apply andb_prop in H as [H1 H2].
    cbn [map]. rewrite Hx, IHl; auto.
  - cbn [decompose json_like] in *. f_equal.
    induction IH as [|[k x] m Hx _ IHm]; [reflexivity|]. apply andb_prop in H as [H1 H2]. cbn [snd] in Hx.
    cbn [andb]. f_equal; [f_equal; apply Hx; exact H1 | apply IHm; exact H2].
Qed.

Theorem roundtrip_json_like v : json_like v = true -> simplify (generify false v) = v.
Proof. intro H. rewrite simplify_generify. apply decompose_json_like. exact H. Qed.

(* the other direction: Generify after Simplify gives the generic tree back *)
Theorem generify_simplify : forall g, gen_plain g = true -> generify false (simplify g) = g.
Proof.
  induction g as [| b | z | t | t | s | l IH | m IH] using jv_ind2; intro H; try reflexivity; try discriminate.
  - cbn [gen_plain] in H. apply andb_prop in H as [H1 H2]. apply Z.leb_le in H1. apply Z.ltb_lt in H2.
    cbn [simplify generify]. rewrite wrap64_id by lia. reflexivity.
  - cbn [simplify generify gen_plain] in *. f_equal. rewrite map_map.
    induction IH as [|x l Hx _ IHl]; [reflexivity|]. cbn [forallb] in H. apply andb_prop in H as [H1 H2].
    cbn [map]. rewrite Hx, IHl; auto.
  - cbn [simplify generify gen_plain] in *. f_equal.
    induction IH as [|[k x] m Hx _ IHm]; [reflexivity|]. apply andb_prop in H as [H1 H2]. cbn [snd] in Hx.
    cbn [andb]. f_equal; [f_equal; apply Hx; exact H1 | apply IHm; exact H2].
Qed.

(* the writers see the same tree in a generic value and in its simple equivalent *)
Theorem view_simplify : forall g, gen_plain g = true -> view (simplify g) = g.
Proof.
  induction g as [| b | z | t | t | s | l IH | m IH] using jv_ind2; intro H; try reflexivity; try discriminate.
  - cbn [simplify view gen_plain] in *. f_equal. rewrite map_map.
    induction IH as [|x l Hx _ IHl]; [reflexivity|]. cbn [forallb] in H. apply andb_prop in H as [H1 H2].
    cbn [map]. rewrite Hx, IHl; auto.
  - cbn [simplify view gen_plain] in *. f_equal.
    induction IH as [|[k x] m Hx _ IHm]; [reflexivity|]. apply andb_prop in H as [H1 H2]. cbn [snd] in Hx.
    rewrite Hx, IHm; auto.
Qed.

(* results of the library never leave the int64 range and never contain nil members when omitted *)
Theorem generify_plain omit : forall v, gen_plain (generify omit v) = true.
Proof.
  induction v as [| b | k z | t | s | l IH | m IH] using tval_ind2; try reflexivity.
  - cbn [generify gen_plain]. pose proof (wrap64_range z). apply andb_true_intro. split; [apply Z.leb_le|apply Z.ltb_lt]; lia.
  - cbn [generify gen_plain]. induction IH as [|x l Hx _ IHl]; [reflexivity|]. cbn [map forallb]. rewrite Hx, IHl. reflexivity.
  - cbn [generify gen_plain]. induction IH as [|[k x] m Hx _ IHm]; [reflexivity|]. cbn [snd] in Hx.
    destruct (omit && is_jnull (generify omit x)); [exact IHm|]. rewrite Hx, IHm. reflexivity.
Qed.

(* ---- text form for the correspondence harness: like Jv.show with I<kind>:<dec> integers *)
Fixpoint show_tval (v : tval) : bytes :=
  match v with
  | VNil => [x6e]
  | VBool true => [x74]
  | VBool false => [x66]
  | VInt k z => x49 :: format_int k ++ x3a :: format_int z
  | VFloat t => x64 :: t
  | VStr s => x73 :: hex_of_bytes s
  | VArr l => x5b :: (fix go (l : list tval) : bytes :=
                       match l with
                       | [] => [x5d]
                       | [a] => show_tval a ++ [x5d]
                       | a :: l' => show_tval a ++ x20 :: go l'
                       end) l
  | VMap m => x7b :: (fix go (m : list (bytes * tval)) : bytes :=
                       match m with
                       | [] => [x7d]
                       | [(k, a)] => x6b :: hex_of_bytes k ++ x20 :: show_tval a ++ [x7d]
                       | (k, a) :: m' => x6b :: hex_of_bytes k ++ x20 :: show_tval a ++ x20 :: go m'
                       end) m
  end.

(* generify | decompose | simplify of generify | view *)
Definition model_convert (omit : bool) (v : tval) : bytes :=
  show (generify omit v) ++ [x20; x7c; x20] ++ show_tval (decompose omit v) ++ [x20; x7c; x20]
  ++ show_tval (simplify (generify omit v)) ++ [x20; x7c; x20] ++ show (view v).
