(* alt.Diff / Compare / Match on JSON-like trees (C19): executable specification and the
   theorems relating Diff to deep equality up to numeric width and null-versus-absent. *)
From Coq Require Import Init.Byte NArith ZArith QArith List Bool Lia.
Require Import Ojg.Base.Bytes Ojg.Base.Jv Ojg.Jp.Expr.
Import ListNotations.
Open Scope Z_scope.

Inductive pelem : Set := PKey (k : bytes) | PIdx (i : Z) | PWild.
Definition path := list pelem.

(* scalar equality up to numeric width: ints and floats compare by value *)
Definition num_val (v : jv) : option Q :=
  match v with JInt z => Some (inject_Z z) | JFloat t => Some (q_of_text t) | _ => None end.

Definition scalar_eq (a b : jv) : bool :=
  match a, b with
  | JNull, JNull => true
  | JBool x, JBool y => Bool.eqb x y
  | JStr x, JStr y => bytes_eqb x y
  | JBig x, JBig y => bytes_eqb x y
  | _, _ => match num_val a, num_val b with Some x, Some y => Qeq_bool x y | _, _ => false end
  end.

Definition is_null (v : jv) : bool := match v with JNull => true | _ => false end.
Definition getd (k : bytes) (m : list (bytes * jv)) : jv := match map_get k m with Some v => v | None => JNull end.

(* deep equality up to numeric width and null-versus-absent members *)
Fixpoint jeq (a b : jv) {struct a} : bool :=
  match a with
  | JArr x =>
      match b with
      | JArr y => (fix go (x y : list jv) : bool :=
                     match x, y with
                     | [], [] => true
                     | p :: x', q :: y' => jeq p q && go x' y'
                     | _, _ => false
                     end) x y
      | _ => false
      end
  | JObj x =>
      match b with
      | JObj y =>
          (fix go (x : list (bytes * jv)) : bool :=
             match x with [] => true | (k, p) :: x' => jeq p (getd k y) && go x' end) x &&
          forallb (fun kv => match map_get (fst kv) x with Some _ => true | None => is_null (snd kv) end) y
      | _ => false
      end
  | _ => match b with JArr _ | JObj _ => false | _ => scalar_eq a b end
  end.

(* ---- ignore paths *)
Definition ignore_idx (i : Z) (ign : list path) : bool :=
  existsb (fun p => match p with [PWild] => true | [PIdx j] => i =? j | _ => false end) ign.
Definition ignore_key (k : bytes) (ign : list path) : bool :=
  existsb (fun p => match p with [PWild] => true | [PKey j] => bytes_eqb k j | _ => false end) ign.
Definition child_ign_idx (i : Z) (ign : list path) : list path :=
  flat_map (fun p => match p with
                     | PWild :: (_ :: _) as t => [tl p]
                     | PIdx j :: (_ :: _) => if i =? j then [tl p] else []
                     | _ => [] end) ign.
Definition child_ign_key (k : bytes) (ign : list path) : list path :=
  flat_map (fun p => match p with
                     | PWild :: (_ :: _) => [tl p]
                     | PKey j :: (_ :: _) => if bytes_eqb k j then [tl p] else []
                     | _ => [] end) ign.

(* keys of y that x does not have, in y's order *)
Definition extra_keys (x y : list (bytes * jv)) : list (bytes * jv) :=
  filter (fun kv => match map_get (fst kv) x with Some _ => false | None => true end) y.

(* Diff: the paths at which the two trees differ (set semantics for objects) *)
Fixpoint diff (a b : jv) (ign : list path) {struct a} : list path :=
  match a with
  | JArr x =>
      match b with
      | JArr y =>
          (fix go (i : Z) (x y : list jv) : list path :=
             match x with
             | [] => match y with
                     | [] => []
                     | _ => if ignore_idx i ign then [] else [[PIdx i]]
                     end
             | p :: x' =>
                 if ignore_idx i ign then go (i + 1) x' (tl y)
                 else match y with
                      | [] => [[PIdx i]]           (* the second array is shorter: reported once *)
                      | q :: y' => map (cons (PIdx i)) (diff p q (child_ign_idx i ign)) ++ go (i + 1) x' y'
                      end
             end) 0 x y
      | _ => [[]]
      end
  | JObj x =>
      match b with
      | JObj y =>
          (fix go (x : list (bytes * jv)) : list path :=
             match x with
             | [] => []
             | (k, p) :: x' =>
                 (if ignore_key k ign then [] else map (cons (PKey k)) (diff p (getd k y) (child_ign_key k ign))) ++ go x'
             end) x ++
          flat_map (fun kv => if ignore_key (fst kv) ign || is_null (snd kv) then [] else [[PKey (fst kv)]]) (extra_keys x y)
      | _ => [[]]
      end
  | _ => match b with
         | JArr _ | JObj _ => [[]]
         | _ => if scalar_eq a b then [] else [[]]
         end
  end.

(* ---- Diff is empty exactly when the trees are equal (no ignore paths) *)
Lemma map_cons_nil {A} (x : A) (l : list (list A)) : map (cons x) l = [] <-> l = [].
Proof. destruct l; simpl; split; intro H; try discriminate; reflexivity. Qed.

Lemma app_nil_iff {A} (a b : list A) : a ++ b = [] <-> a = [] /\ b = [].
Proof. split; [apply app_eq_nil|intros [-> ->]; reflexivity]. Qed.

Definition Pd (a : jv) : Prop := forall b, diff a b [] = [] <-> jeq a b = true.

Lemma scalar_case a : (match a with JArr _ | JObj _ => False | _ => True end) -> Pd a.
Proof.
  intros Ha b. destruct a; try contradiction; destruct b;
    cbn [diff jeq];
    try (match goal with |- context[scalar_eq ?x ?y] => destruct (scalar_eq x y) end);
    split; intro H; try reflexivity; try discriminate H; try exact H.
Qed.

Theorem diff_empty_iff_equal : forall a, Pd a.
Proof.
  induction a as [|b0|z|t|t|s|l IH|m IH] using jv_ind2.
  - apply scalar_case; exact I.
  - apply scalar_case; exact I.
  - apply scalar_case; exact I.
  - apply scalar_case; exact I.
  - apply scalar_case; exact I.
  - apply scalar_case; exact I.
  - (* arrays *)
    intro b. destruct b as [| | | | | |y|]; simpl; try (split; intro H; discriminate H).
    set (goD := fix go (i : Z) (x y : list jv) : list path :=
             match x with
             | [] => match y with [] => [] | _ => if ignore_idx i [] then [] else [[PIdx i]] end
             | p :: x' =>
                 if ignore_idx i [] then go (i + 1) x' (tl y)
                 else match y with
                      | [] => [[PIdx i]]
                      | q :: y' => map (cons (PIdx i)) (diff p q (child_ign_idx i [])) ++ go (i + 1) x' y'
                      end
             end).
    set (goE := fix go (x y : list jv) : bool :=
                     match x, y with
                     | [], [] => true
                     | p :: x', q :: y' => jeq p q && go x' y'
                     | _, _ => false
                     end).
    assert (H : forall x, Forall Pd x -> forall i y, goD i x y = [] <-> goE x y = true).
    { clear. induction x as [|p x IHx]; intros HF i y.
      - destruct y; simpl; split; intro H; try reflexivity; discriminate H.
      - inversion HF as [|? ? Hp HFx]; subst. destruct y as [|q y]; simpl.
        + split; intro H; discriminate H.
        + unfold Pd in Hp. split.
          * intro H. apply app_eq_nil in H as [H1 H2]. apply map_cons_nil in H1.
            apply andb_true_iff. split; [apply Hp; exact H1 | apply (IHx HFx (i + 1) y); exact H2].
          * intro H. apply andb_true_iff in H as [H1 H2]. apply Hp in H1. apply (IHx HFx (i + 1) y) in H2.
            apply app_nil_iff. split; [apply map_cons_nil; exact H1 | exact H2]. }
    apply H. exact IH.
  - (* objects *)
    intro b. destruct b as [| | | | | | |y]; simpl; try (split; intro H; discriminate H).
    set (goD := fix go (x : list (bytes * jv)) : list path :=
             match x with
             | [] => []
             | (k, p) :: x' =>
                 (if ignore_key k [] then [] else map (cons (PKey k)) (diff p (getd k y) (child_ign_key k []))) ++ go x'
             end).
    set (goE := fix go (x : list (bytes * jv)) : bool :=
             match x with [] => true | (k, p) :: x' => jeq p (getd k y) && go x' end).
    assert (H1 : forall x, Forall (fun kv => Pd (snd kv)) x -> (goD x = [] <-> goE x = true)).
    { clear. induction x as [|[k p] x IHx]; intro HF; simpl.
      - split; reflexivity.
      - inversion HF as [|? ? Hp HFx]; subst. simpl in Hp.
        unfold Pd in Hp. split.
        * intro H. apply app_eq_nil in H as [H1 H2]. apply map_cons_nil in H1.
          apply andb_true_iff. split; [apply Hp; exact H1 | apply (IHx HFx); exact H2].
        * intro H. apply andb_true_iff in H as [H1 H2]. apply Hp in H1. apply (IHx HFx) in H2.
          apply app_nil_iff. split; [apply map_cons_nil; exact H1 | exact H2]. }
    assert (H2 : flat_map (fun kv => if ignore_key (fst kv) [] || is_null (snd kv) then [] else [[PKey (fst kv)]]) (extra_keys m y) = [] <->
                 forallb (fun kv => match map_get (fst kv) m with Some _ => true | None => is_null (snd kv) end) y = true).
    { clear. unfold extra_keys. induction y as [|[k v] y IHy]; simpl; [split; reflexivity|].
      destruct (map_get k m); simpl.
      - exact IHy.
      - destruct (is_null v); simpl; [exact IHy|]. split; intro H; discriminate H. }
    split.
    + intro H. apply app_eq_nil in H as [Ha Hb]. apply andb_true_iff. split.
      * apply (proj1 (H1 m IH)). exact Ha.
      * apply (proj1 H2). exact Hb.
    + intro H. apply andb_true_iff in H as [Ha Hb]. apply app_nil_iff. split.
      * apply (proj2 (H1 m IH)). exact Ha.
      * apply (proj2 H2). exact Hb.
Qed.

(* Compare returns nil exactly when Diff is empty *)
Definition compare (a b : jv) (ign : list path) : option path := hd_error (diff a b ign).
Lemma compare_none_iff_diff_empty a b ign : compare a b ign = None <-> diff a b ign = [].
Proof. unfold compare. destruct (diff a b ign); simpl; split; intro H; try reflexivity; discriminate H. Qed.

(* ---- Match: every member of the fingerprint is matched in the target *)
Fixpoint jmatch (f t : jv) {struct f} : bool :=
  match f with
  | JArr x =>
      match t with
      | JArr y => (fix go (x y : list jv) : bool :=
                     match x, y with
                     | [], [] => true
                     | p :: x', q :: y' => jmatch p q && go x' y'
                     | _, _ => false
                     end) x y
      | _ => false
      end
  | JObj x =>
      match t with
      | JObj y => (fix go (x : list (bytes * jv)) : bool :=
                     match x with [] => true | (k, p) :: x' => jmatch p (getd k y) && go x' end) x
      | _ => false
      end
  | _ => match t with JArr _ | JObj _ => false | _ => scalar_eq f t end
  end.

(* a tree matches itself, and equal trees match *)
Lemma scalar_eq_refl a : (match a with JArr _ | JObj _ => False | _ => True end) -> scalar_eq a a = true.
Proof.
  destruct a; simpl; intro H; try contradiction; try reflexivity.
  - destruct b; reflexivity.
  - unfold Qeq_bool. simpl. apply Zeq_is_eq_bool. reflexivity.
  - apply Qeq_bool_iff. reflexivity.
  - apply bytes_eqb_eq; reflexivity.
  - apply bytes_eqb_eq; reflexivity.
Qed.
