(* C07: reused instances behave like fresh ones.
   An instance is a record of fields. Every entry point first stores fresh values into the
   RESET fields (the prologue), then runs the body. CONFIG fields are the caller's options and
   are never written by the body. SCRATCH fields are written by the body before it reads them
   (ri by the action that starts a literal, num by the action that starts a number, rn by \u,
   nextMode by the action that starts a string, the append functions by the prologue's option
   dispatch, needSep by appendSEN).  [reuse_eq_fresh] shows that under this discipline the
   result of a call after ANY history of calls equals the result on a fresh instance with the
   same configuration.  The discipline itself is tied to the source in two ways: the field and
   assignment lists are regenerated from the Go structs and entry methods on every run and the
   coverage obligations below are recomputed over them; the write-before-read assumption on
   the body is exercised by the history suite of the harness. *)
From Coq Require Import String List Bool.
Import ListNotations.
Open Scope string_scope.

Inductive cls : Set := Reset | Config | Scratch.

Section Reuse.
  Variables (F V A R : Type).
  Variable cl : F -> cls.
  Definition st := F -> V.
  Variable init : A -> F -> V.          (* what the prologue stores for the call's arguments *)
  Variable run : st -> A -> st * R.     (* the body *)

  Definition reset (s : st) (a : A) : st :=
    fun f => match cl f with Reset => init a f | _ => s f end.
  Definition call (s : st) (a : A) : st * R := run (reset s a) a.

  Definition agree_on (P : cls -> bool) (s1 s2 : st) : Prop := forall f, P (cl f) = true -> s1 f = s2 f.
  Definition not_scratch (c : cls) : bool := match c with Scratch => false | _ => true end.
  Definition is_config (c : cls) : bool := match c with Config => true | _ => false end.

  (* the body reads a scratch field only after writing it *)
  Hypothesis run_frame : forall s1 s2 a, agree_on not_scratch s1 s2 -> snd (run s1 a) = snd (run s2 a).
  (* the body never writes a configuration field *)
  Hypothesis run_keeps_config : forall s a f, cl f = Config -> fst (run s a) f = s f.

  Lemma call_keeps_config s a f : cl f = Config -> fst (call s a) f = s f.
  Proof. intro H. unfold call. rewrite run_keeps_config by exact H. unfold reset. rewrite H. reflexivity. Qed.

  Lemma history_keeps_config (hist : list A) : forall s f, cl f = Config ->
    fold_left (fun s x => fst (call s x)) hist s f = s f.
  Proof.
    induction hist as [|x hist IH]; intros s f H; cbn [fold_left]; [reflexivity|].
    rewrite IH by exact H. apply call_keeps_config. exact H.
  Qed.

  Theorem reuse_eq_fresh (hist : list A) (s0 fresh : st) (a : A) :
    agree_on is_config s0 fresh ->
    snd (call (fold_left (fun s x => fst (call s x)) hist s0) a) = snd (call fresh a).
  Proof.
    intro Hc. unfold call at 1 3. apply run_frame. intros f Hf. unfold reset.
    destruct (cl f) eqn:E; try discriminate.
    - reflexivity.
    - rewrite history_keeps_config by exact E. apply Hc. rewrite E. reflexivity.
  Qed.

  (* consequently every call of a history returns what a fresh instance returns *)
  Fixpoint results (s : st) (hist : list A) : list R :=
    match hist with [] => [] | a :: h => snd (call s a) :: results (fst (call s a)) h end.

  Theorem history_eq_fresh (fresh : st) : forall hist s0, agree_on is_config s0 fresh ->
    results s0 hist = map (fun a => snd (call fresh a)) hist.
  Proof.
    induction hist as [|a h IH]; intros s0 Hc; cbn [results map]; [reflexivity|]. f_equal.
    - exact (reuse_eq_fresh [] s0 fresh a Hc).
    - apply IH. intros f Hf. destruct (cl f) eqn:E; try discriminate.
      rewrite call_keeps_config by exact E. apply Hc. rewrite E. reflexivity.
  Qed.
End Reuse.

(* ---- the discipline, checked against the generated field lists *)
Definition lookup (f : string) (c : list (string * cls)) : option cls :=
  match find (fun p => String.eqb f (fst p)) c with Some p => Some (snd p) | None => None end.
Definition mem (f : string) (l : list string) : bool := existsb (String.eqb f) l.

(* every field is classified, every classified name is a field, and every RESET field is
   assigned by every entry point *)
Definition covered (fields : list string) (c : list (string * cls)) (entries : list (list string)) : bool :=
  forallb (fun f => match lookup f c with
                    | Some Reset => forallb (mem f) entries
                    | Some _ => true
                    | None => false
                    end) fields
  && forallb (fun p => mem (fst p) fields) c.
