(* Hand classification of the fields of every reusable instance (see Discipline.v), checked
   against the struct definitions and entry-method assignments regenerated from /repo. *)
From Coq Require Import String List Bool.
Require Import Ojg.Gen.Fields Ojg.Reuse.Discipline.
Import ListNotations.
Open Scope string_scope.

Definition cl_oj_Parser : list (string * cls) :=
  [("line", Reset); ("noff", Reset); ("OnlyOne", Reset); ("tmp", Reset); ("stack", Reset); ("starts", Reset);
   ("cb", Reset); ("resultChan", Reset); ("result", Reset); ("mode", Reset); ("mi", Reset);
   ("maps", Scratch);       (* recycled maps: contents matter only under Reuse, which documents it *)
   ("runeBytes", Scratch); ("ri", Scratch); ("rn", Scratch); ("nextMode", Scratch);
   ("num", Scratch);        (* Number.Reset at the first byte of a number; Conv is stored by the prologue, ForceFloat is configuration *)
   ("Reuse", Config)].
Definition cl_oj_Validator : list (string * cls) :=
  [("line", Reset); ("noff", Reset); ("stack", Reset); ("mode", Reset);
   ("ri", Scratch); ("nextMode", Scratch); ("OnlyOne", Config)].
Definition cl_oj_Tokenizer : list (string * cls) :=
  [("line", Reset); ("noff", Reset); ("tmp", Reset); ("starts", Reset); ("handler", Reset); ("mode", Reset); ("mi", Reset);
   ("runeBytes", Scratch); ("ri", Scratch); ("rn", Scratch); ("nextMode", Scratch); ("num", Scratch); ("OnlyOne", Config)].
Definition cl_gen_Parser : list (string * cls) :=
  [("line", Reset); ("noff", Reset); ("OnlyOne", Reset); ("tmp", Reset); ("stack", Reset); ("starts", Reset);
   ("cb", Reset); ("resultChan", Reset); ("result", Reset); ("mode", Reset); ("mi", Reset);
   ("maps", Scratch); ("runeBytes", Scratch); ("ri", Scratch); ("rn", Scratch); ("nextMode", Scratch); ("num", Scratch);
   ("Reuse", Config)].
Definition cl_sen_Parser : list (string * cls) :=
  [("line", Reset); ("noff", Reset); ("OnlyOne", Reset); ("tmp", Reset); ("stack", Reset); ("starts", Reset);
   ("cb", Reset); ("resultChan", Reset); ("result", Reset); ("mode", Reset); ("mi", Reset);
   ("plus", Reset); ("lastKey", Reset); ("lastStrKey", Reset); ("quoteDelim", Reset);
   ("maps", Scratch); ("runeBytes", Scratch); ("ri", Scratch); ("rn", Scratch); ("num", Scratch);
   ("tokenFuncs", Config); ("Reuse", Config)].
Definition cl_sen_Tokenizer : list (string * cls) :=
  [("line", Reset); ("noff", Reset); ("tmp", Reset); ("starts", Reset); ("handler", Reset); ("mode", Reset); ("mi", Reset);
   ("exkey", Reset);
   ("quoteDelim", Scratch);  (* stored at the opening quote of every string before the closing one is looked for *)
   ("runeBytes", Scratch); ("ri", Scratch); ("rn", Scratch); ("num", Scratch); ("OnlyOne", Config)].
Definition cl_oj_Writer : list (string * cls) :=
  [("buf", Reset); ("w", Reset); ("appendArray", Reset); ("appendObject", Reset); ("appendDefault", Reset); ("appendString", Reset);
   ("findex", Scratch);     (* calcFieldsIndex, called by every entry point before any use *)
   ("Options", Config); ("strict", Config)].
Definition cl_sen_Writer : list (string * cls) :=
  [("buf", Reset); ("w", Reset); ("appendArray", Reset); ("appendObject", Reset); ("appendDefault", Reset); ("appendString", Reset);
   ("findex", Scratch); ("needSep", Scratch); ("Options", Config)].

Lemma covered_oj_Parser : covered oj_Parser_fields cl_oj_Parser [oj_Parser_Parse_assigns; oj_Parser_ParseReader_assigns] = true.
Proof. vm_compute. reflexivity. Qed.
Lemma covered_oj_Validator : covered oj_Validator_fields cl_oj_Validator [oj_Validator_Validate_assigns; oj_Validator_ValidateReader_assigns] = true.
Proof. vm_compute. reflexivity. Qed.
Lemma covered_oj_Tokenizer : covered oj_Tokenizer_fields cl_oj_Tokenizer [oj_Tokenizer_Parse_assigns; oj_Tokenizer_Load_assigns] = true.
Proof. vm_compute. reflexivity. Qed.
Lemma covered_gen_Parser : covered gen_Parser_fields cl_gen_Parser [gen_Parser_Parse_assigns; gen_Parser_ParseReader_assigns] = true.
Proof. vm_compute. reflexivity. Qed.
Lemma covered_sen_Parser : covered sen_Parser_fields cl_sen_Parser [sen_Parser_Parse_assigns; sen_Parser_ParseReader_assigns] = true.
Proof. vm_compute. reflexivity. Qed.
Lemma covered_sen_Tokenizer : covered sen_Tokenizer_fields cl_sen_Tokenizer [sen_Tokenizer_Parse_assigns; sen_Tokenizer_Load_assigns] = true.
Proof. vm_compute. reflexivity. Qed.
Lemma covered_oj_Writer : covered oj_Writer_fields cl_oj_Writer [oj_Writer_MustJSON_assigns; oj_Writer_MustWrite_assigns] = true.
Proof. vm_compute. reflexivity. Qed.
Lemma covered_sen_Writer : covered sen_Writer_fields cl_sen_Writer [sen_Writer_MustSEN_assigns; sen_Writer_MustWrite_assigns] = true.
Proof. vm_compute. reflexivity. Qed.

(* the number conversion method is stored by every parser entry point that has one *)
Lemma conv_reset : forallb (mem "num.Conv") [oj_Parser_Parse_assigns; oj_Parser_ParseReader_assigns; sen_Parser_Parse_assigns; sen_Parser_ParseReader_assigns] = true.
Proof. vm_compute. reflexivity. Qed.
