(* The pool model instantiated with instances under the C07 field discipline: "good" instances
   are those whose configuration fields are the fresh ones. *)
From Coq Require Import List Bool.
Require Import Ojg.Reuse.Discipline Ojg.Conc.Pool.
Import ListNotations.

Section PoolDiscipline.
  Variables (F V A R : Type).
  Variable cl : F -> cls.
  Variable init_f : A -> F -> V.
  Variable run : (F -> V) -> A -> (F -> V) * R.
  Hypothesis run_frame : forall s1 s2 a, agree_on F V cl not_scratch s1 s2 -> snd (run s1 a) = snd (run s2 a).
  Hypothesis run_keeps_config : forall s a f, cl f = Config -> fst (run s a) f = s f.
  Variable fresh : F -> V.

  Definition dcall := call F V A R cl init_f run.
  Definition dgood (s : F -> V) : Prop := agree_on F V cl is_config s fresh.

  Lemma dgood_fresh : dgood fresh.
  Proof. intros f _. reflexivity. Qed.
  Lemma dgood_call s a : dgood s -> dgood (fst (dcall s a)).
  Proof.
    intros H f Hf. destruct (cl f) eqn:E; try discriminate.
    unfold dcall. rewrite (call_keeps_config F V A R cl init_f run run_keeps_config s a f E). apply H. rewrite E. reflexivity.
  Qed.
  Lemma dcall_indep s a : dgood s -> snd (dcall s a) = snd (dcall fresh a).
  Proof. intro H. exact (reuse_eq_fresh F V A R cl init_f run run_frame run_keeps_config [] s fresh a H). Qed.

  Theorem pool_results_schedule_independent progs sched t s prog :
    let g := fold_left (step (F -> V) A R fresh dcall) sched (init (F -> V) A R fresh progs) in
    nth_error (thr _ _ _ g) t = Some s -> nth_error progs t = Some prog -> rest_of _ _ s = [] ->
    done_of _ _ s = map (fun a => snd (dcall fresh a)) prog.
  Proof.
    exact (results_schedule_independent (F -> V) A R fresh dcall dgood dgood_fresh dgood_call dcall_indep progs sched t s prog).
  Qed.
End PoolDiscipline.
