(* C08: concurrent use of the pooled package-level functions.
   Threads run programs (lists of calls). A call takes an instance from the pool (or makes a
   fresh one when the pool is empty), runs on it, and puts it back; the runtime may drop pooled
   instances at any time (sync.Pool semantics). The schedule is arbitrary. Proved: an instance
   is never owned by two threads nor owned while pooled, and every call returns what it returns
   on a fresh instance - whatever the interleaving.  Running the body as one atomic step is
   justified by the ownership invariant (nobody else can touch the instance in between); that
   the real bodies touch nothing but their instance, their arguments and immutable shared
   objects is what the race detector observes in the harness run. *)
From Coq Require Import List Arith Bool Lia.
Import ListNotations.

Section Pool.
  Variables (St A R : Type).
  Variable fresh : St.
  Variable call : St -> A -> St * R.
  Variable good : St -> Prop.                      (* reachable from fresh by calls *)
  Hypothesis good_fresh : good fresh.
  Hypothesis good_call : forall s a, good s -> good (fst (call s a)).
  Hypothesis call_indep : forall s a, good s -> snd (call s a) = snd (call fresh a).   (* C07 *)

  Inductive tst : Type :=
    | Idle (past : list A) (todo : list A) (done : list R)
    | Hold (i : nat) (a : A) (past : list A) (todo : list A) (done : list R)
    | Ret (i : nat) (past : list A) (todo : list A) (done : list R).

  Record G : Type := mkG { pool : list nat; inst : nat -> St; next : nat; thr : list tst }.

  Inductive ev : Type := Sched (t : nat) | Drop.

  Fixpoint upd {X} (n : nat) (x : X) (l : list X) : list X :=
    match l, n with
    | [], _ => []
    | _ :: l', O => x :: l'
    | y :: l', S n' => y :: upd n' x l'
    end.

  Definition set_inst (f : nat -> St) (i : nat) (s : St) : nat -> St := fun j => if Nat.eqb j i then s else f j.

  Definition step (g : G) (e : ev) : G :=
    match e with
    | Drop => mkG (tl (pool g)) (inst g) (next g) (thr g)
    | Sched t =>
        match nth_error (thr g) t with
        | Some (Idle past (a :: todo) done) =>
            match pool g with
            | i :: p => mkG p (inst g) (next g) (upd t (Hold i a past todo done) (thr g))
            | [] => mkG [] (set_inst (inst g) (next g) fresh) (S (next g)) (upd t (Hold (next g) a past todo done) (thr g))
            end
        | Some (Hold i a past todo done) =>
            let '(s', r) := call (inst g i) a in
            mkG (pool g) (set_inst (inst g) i s') (next g) (upd t (Ret i (past ++ [a]) todo (done ++ [r])) (thr g))
        | Some (Ret i past todo done) =>
            mkG (i :: pool g) (inst g) (next g) (upd t (Idle past todo done) (thr g))
        | _ => g
        end
    end.

  Definition init (progs : list (list A)) : G :=
    mkG [] (fun _ => fresh) 0 (map (fun p => Idle [] p []) progs).

  Definition holds (s : tst) : option nat :=
    match s with Idle _ _ _ => None | Hold i _ _ _ _ => Some i | Ret i _ _ _ => Some i end.

  (* the calls a thread has finished and still has to make, and its results so far *)
  Definition past_of (s : tst) : list A := match s with Idle p _ _ => p | Hold _ _ p _ _ => p | Ret _ p _ _ => p end.
  Definition rest_of (s : tst) : list A := match s with Idle _ t _ => t | Hold _ a _ t _ => a :: t | Ret _ _ t _ => t end.
  Definition done_of (s : tst) : list R := match s with Idle _ _ d => d | Hold _ _ _ _ d => d | Ret _ _ _ d => d end.

  Definition spec (a : A) : R := snd (call fresh a).

  Record Inv (progs : list (list A)) (g : G) : Prop := mkInv {
    inv_nodup : NoDup (pool g);
    inv_pool_lt : forall i, In i (pool g) -> i < next g;
    inv_good : forall i, i < next g -> good (inst g i);
    inv_len : length (thr g) = length progs;
    inv_held : forall t s i, nth_error (thr g) t = Some s -> holds s = Some i ->
               i < next g /\ ~ In i (pool g) /\
               (forall t' s', t' <> t -> nth_error (thr g) t' = Some s' -> holds s' <> Some i);
    inv_prog : forall t s, nth_error (thr g) t = Some s ->
               nth_error progs t = Some (past_of s ++ rest_of s) /\ done_of s = map spec (past_of s) }.

  Lemma nth_upd_same {X} (l : list X) : forall n x y, nth_error l n = Some y -> nth_error (upd n x l) n = Some x.
  Proof. induction l as [|z l IH]; intros [|n] x y H; simpl in *; try discriminate; auto. eapply IH; eauto. Qed.
  Lemma nth_upd_other {X} (l : list X) : forall n m x, n <> m -> nth_error (upd n x l) m = nth_error l m.
  Proof. induction l as [|z l IH]; intros [|n] [|m] x H; simpl; auto; try congruence. Qed.
  Lemma length_upd {X} (l : list X) : forall n x, length (upd n x l) = length l.
  Proof. induction l as [|z l IH]; intros [|n] x; simpl; auto. Qed.

  Lemma Inv_init progs : Inv progs (init progs).
  Proof.
    constructor; simpl.
    - constructor.
    - intros i [].
    - intros i Hi. lia.
    - apply map_length.
    - intros t s i Hn Hh. rewrite nth_error_map in Hn. destruct (nth_error progs t); simpl in Hn; [|discriminate].
      inversion Hn; subst. discriminate.
    - intros t s Hn. rewrite nth_error_map in Hn. destruct (nth_error progs t) eqn:E; simpl in Hn; [|discriminate].
      inversion Hn; subst. simpl. split; reflexivity.
  Qed.

  (* how the thread table looks after replacing entry t *)
  Lemma nth_upd_cases {X} (l : list X) n x y m z :
    nth_error l n = Some y -> nth_error (upd n x l) m = Some z ->
    (m = n /\ z = x) \/ (m <> n /\ nth_error l m = Some z).
  Proof.
    intros Hn Hm. destruct (Nat.eq_dec m n) as [->|Hne].
    - left. rewrite (nth_upd_same l n x y Hn) in Hm. inversion Hm. auto.
    - right. rewrite nth_upd_other in Hm by auto. auto.
  Qed.

  Lemma Inv_step progs g e : Inv progs g -> Inv progs (step g e).
  Proof.
    intros I. destruct e as [t|].
    2:{ (* Drop *)
      destruct I as [Hnd Hlt Hgood Hlen Hheld Hprog]. unfold step. constructor; simpl; auto.
      - destruct (pool g); simpl; [constructor|]. inversion Hnd; auto.
      - intros i Hi. apply Hlt. destruct (pool g); simpl in *; auto.
      - intros t s i Hn Hh. destruct (Hheld t s i Hn Hh) as (H1 & H2 & H3). repeat split; auto.
        intro Hin. apply H2. destruct (pool g); simpl in *; auto. }
    unfold step. destruct (nth_error (thr g) t) as [st|] eqn:Et; [|exact I].
    destruct I as [Hnd Hlt Hgood Hlen Hheld Hprog].
    destruct st as [past [|a todo] done | i a past todo done | i past todo done].
    - constructor; auto.
    - (* Get *)
      destruct (pool g) as [|i p] eqn:Ep.
      + (* fresh instance *)
        constructor; simpl.
        * constructor.
        * intros i [].
        * intros i Hi. unfold set_inst. destruct (Nat.eqb i (next g)) eqn:E; [exact good_fresh|].
          apply Nat.eqb_neq in E. apply Hgood. lia.
        * rewrite length_upd. exact Hlen.
        * intros t' s i Hn Hh.
          destruct (nth_upd_cases _ _ _ _ _ _ Et Hn) as [[-> ->]|[Hne Hn']].
          -- simpl in Hh. inversion Hh; subst i. split; [lia|]. split; [intros []|].
             intros t2 s2 Hne Hn2. rewrite nth_upd_other in Hn2 by auto.
             intro Hc. destruct (Hheld t2 s2 (next g) Hn2 Hc) as (Hlt' & _). lia.
          -- destruct (Hheld t' s i Hn' Hh) as (H1 & H2 & H3). split; [lia|]. split; [intros []|].
             intros t2 s2 Hne2 Hn2.
             destruct (nth_upd_cases _ _ _ _ _ _ Et Hn2) as [[-> ->]|[Hne3 Hn3]].
             ++ simpl. intro Hc. inversion Hc. lia.
             ++ eapply H3; eauto.
        * intros t' s Hn.
          destruct (nth_upd_cases _ _ _ _ _ _ Et Hn) as [[-> ->]|[Hne Hn']].
          -- destruct (Hprog t _ Et) as (P1 & P2). simpl in *. auto.
          -- apply Hprog; auto.
      + (* from the pool *)
        inversion Hnd as [|? ? Hnotin Hnd']; subst.
        constructor; simpl.
        * exact Hnd'.
        * intros j Hj. apply Hlt. right. exact Hj.
        * exact Hgood.
        * rewrite length_upd. exact Hlen.
        * intros t' s j Hn Hh.
          destruct (nth_upd_cases _ _ _ _ _ _ Et Hn) as [[-> ->]|[Hne Hn']].
          -- simpl in Hh. inversion Hh; subst j. split; [apply Hlt; left; reflexivity|]. split; [exact Hnotin|].
             intros t2 s2 Hne Hn2. rewrite nth_upd_other in Hn2 by auto.
             intro Hc. destruct (Hheld t2 s2 i Hn2 Hc) as (_ & Hnp & _). apply Hnp. left. reflexivity.
          -- destruct (Hheld t' s j Hn' Hh) as (H1 & H2 & H3). split; [exact H1|].
             split; [intro Hin; apply H2; right; exact Hin|].
             intros t2 s2 Hne2 Hn2.
             destruct (nth_upd_cases _ _ _ _ _ _ Et Hn2) as [[-> ->]|[Hne3 Hn3]].
             ++ simpl. intro Hc. inversion Hc; subst j. apply H2. left. reflexivity.
             ++ eapply H3; eauto.
        * intros t' s Hn.
          destruct (nth_upd_cases _ _ _ _ _ _ Et Hn) as [[-> ->]|[Hne Hn']].
          -- destruct (Hprog t _ Et) as (P1 & P2). simpl in *. auto.
          -- apply Hprog; auto.
    - (* Run *)
      destruct (Hheld t _ i Et eq_refl) as (Hi & Hnp & Hothers).
      pose proof (Hgood i Hi) as Hg.
      destruct (call (inst g i) a) as [s' r] eqn:Ec.
      constructor; simpl.
      + exact Hnd.
      + exact Hlt.
      + intros j Hj. unfold set_inst. destruct (Nat.eqb j i) eqn:E.
        * replace s' with (fst (call (inst g i) a)) by (rewrite Ec; reflexivity). apply good_call. exact Hg.
        * apply Hgood. exact Hj.
      + rewrite length_upd. exact Hlen.
      + intros t' s j Hn Hh.
        destruct (nth_upd_cases _ _ _ _ _ _ Et Hn) as [[-> ->]|[Hne Hn']].
        * simpl in Hh. inversion Hh; subst j. split; [exact Hi|]. split; [exact Hnp|].
          intros t2 s2 Hne Hn2. rewrite nth_upd_other in Hn2 by auto. eapply Hothers; eauto.
        * destruct (Hheld t' s j Hn' Hh) as (H1 & H2 & H3). split; [exact H1|]. split; [exact H2|].
          intros t2 s2 Hne2 Hn2.
          destruct (nth_upd_cases _ _ _ _ _ _ Et Hn2) as [[-> ->]|[Hne3 Hn3]].
          -- simpl. intro Hc. inversion Hc; subst j. eapply (Hothers t' s); eauto.
          -- eapply H3; eauto.
      + intros t' s Hn.
        destruct (nth_upd_cases _ _ _ _ _ _ Et Hn) as [[-> ->]|[Hne Hn']].
        * destruct (Hprog t _ Et) as (P1 & P2). simpl in *. split.
          -- rewrite <- app_assoc. exact P1.
          -- rewrite map_app. simpl. rewrite P2. f_equal. f_equal. unfold spec.
             rewrite <- (call_indep (inst g i) a Hg). rewrite Ec. reflexivity.
        * apply Hprog; auto.
    - (* Put *)
      destruct (Hheld t _ i Et eq_refl) as (Hi & Hnp & Hothers).
      constructor; simpl.
      + constructor; auto.
      + intros j [<-|Hj]; auto.
      + exact Hgood.
      + rewrite length_upd. exact Hlen.
      + intros t' s j Hn Hh.
        destruct (nth_upd_cases _ _ _ _ _ _ Et Hn) as [[-> ->]|[Hne Hn']].
        * simpl in Hh. discriminate.
        * destruct (Hheld t' s j Hn' Hh) as (H1 & H2 & H3). split; [exact H1|]. split.
          -- intros [<-|Hin]; [|auto]. eapply (Hothers t' s); eauto.
          -- intros t2 s2 Hne2 Hn2.
             destruct (nth_upd_cases _ _ _ _ _ _ Et Hn2) as [[-> ->]|[Hne3 Hn3]].
             ++ simpl. discriminate.
             ++ eapply H3; eauto.
      + intros t' s Hn.
        destruct (nth_upd_cases _ _ _ _ _ _ Et Hn) as [[-> ->]|[Hne Hn']].
        * destruct (Hprog t _ Et) as (P1 & P2). simpl in *. auto.
        * apply Hprog; auto.
  Qed.

  Theorem Inv_reachable progs (sched : list ev) : Inv progs (fold_left step sched (init progs)).
  Proof.
    assert (H : forall g, Inv progs g -> Inv progs (fold_left step sched g)).
    { induction sched as [|e sched IH]; intros g I; cbn [fold_left]; [exact I|]. apply IH. apply Inv_step. exact I. }
    apply H. apply Inv_init.
  Qed.

  (* under every schedule: no instance has two owners, and every thread's results are those of
     fresh instances; a thread that has finished its program has the sequential results *)
  Theorem exclusive_ownership progs sched t t' s s' i :
    let g := fold_left step sched (init progs) in
    nth_error (thr g) t = Some s -> nth_error (thr g) t' = Some s' ->
    holds s = Some i -> holds s' = Some i -> t = t'.
  Proof.
    intros g Hs Hs' Hh Hh'. destruct (Nat.eq_dec t t') as [|Hne]; [assumption|]. exfalso.
    destruct (Inv_reachable progs sched) as [_ _ _ _ Hheld _]. fold g in Hheld.
    destruct (Hheld t s i Hs Hh) as (_ & _ & H3). apply (H3 t' s'); auto.
  Qed.

  Theorem results_schedule_independent progs sched t s prog :
    let g := fold_left step sched (init progs) in
    nth_error (thr g) t = Some s -> nth_error progs t = Some prog -> rest_of s = [] ->
    done_of s = map spec prog.
  Proof.
    intros g Hs Hp Hr. destruct (Inv_reachable progs sched) as [_ _ _ _ _ Hprog]. fold g in Hprog.
    destruct (Hprog t s Hs) as (P1 & P2). rewrite Hr, app_nil_r in P1. rewrite Hp in P1. inversion P1; subst.
    exact P2.
  Qed.

  Theorem pooled_never_owned progs sched t s i :
    let g := fold_left step sched (init progs) in
    nth_error (thr g) t = Some s -> holds s = Some i -> ~ In i (pool g).
  Proof.
    intros g Hs Hh. destruct (Inv_reachable progs sched) as [_ _ _ _ Hheld _]. fold g in Hheld.
    destruct (Hheld t s i Hs Hh) as (_ & H2 & _). exact H2.
  Qed.
End Pool.
