(* C15: how a Go value is encoded. Types and values of the reflective encoders as data, and
   the tree the option documentation prescribes for them. This is the executable specification
   oj.JSON / Marshal / Write, sen.String, pretty.JSON and alt.Decompose are compared with. *)
From Coq Require Import Init.Byte NArith ZArith List Bool Lia.
Require Import Ojg.Base.Bytes Ojg.Base.Jv.
Import ListNotations.
Open Scope Z_scope.

Record tagspec : Set := mkTag {
  t_has : bool;          (* a json tag is present and not empty *)
  t_name : bytes;        (* name part (may be empty) *)
  t_dash : bool;         (* the tag is exactly "-" : the field is skipped *)
  t_omit : bool;         (* ,omitempty *)
  t_str : bool }.        (* ,string *)

Inductive ty : Set :=
  | TBool | TInt (is64 : bool) | TFloat | TStr      (* is64: a signed Go integer kind *)
  | TPtr (t : ty) | TSlice (t : ty) | TMap (t : ty) | TAny
  | TStruct (name : bytes) (fs : list field)
with field : Set :=
  | Fld (name : bytes) (exported : bool) (tag : tagspec) (emb : bool) (t : ty).

Inductive gv : Set :=
  | GBool (b : bool) | GInt (z : Z) | GFloat (t : bytes) | GStr (s : bytes)
  | GNil                                   (* nil pointer, slice, map or interface *)
  | GPtr (v : gv)
  | GSlice (l : list gv)
  | GMap (m : list (bytes * gv))
  | GAny (t : ty) (v : gv)                 (* an interface holding a value of type t *)
  | GStruct (fs : list gv).                (* field values in declaration order *)

Record opts : Set := mkOpts {
  o_tags : bool; o_exact : bool; o_nest : bool; o_omitnil : bool; o_omitempty : bool;
  o_ck : option bytes;
  o_decomp : bool;        (* alt.Decompose: an object left without members counts as empty *)
  o_tagexact : bool;
  o_derefempty : bool }.  (* known-finding variant (Decompose): emptiness is judged after following pointers and interfaces *)    (* known-finding variant: with UseTags an untagged field keeps its exact name whatever KeyExact says *)

Definition lower_byte (b : byte) : byte :=
  let x := b2z b in if (65 <=? x) && (x <=? 90) then z2b (x + 32) else b.

(* the key style "most often seen in JSON": first letter lower case; names of up to three letters
   (ID, URL) entirely lower case *)
Definition low_name (n : bytes) : bytes :=
  if (3 <? Z.of_nat (length n)) then match n with b :: r => (if b2z b <? 128 then z2b (Z.lor (b2z b) 32) else b) :: r | [] => [] end
  else map lower_byte n.

Definition plain_key (o : opts) (name : bytes) : bytes := if o_exact o then name else low_name name.

Definition field_key (o : opts) (name : bytes) (tg : tagspec) : bytes :=
  let plain := if o_tags o && o_tagexact o then name else plain_key o name in
  if o_tags o && t_has tg then
    (match t_name tg with [] => plain | n => n end)
  else plain.

Definition is_empty (v : jv) : bool :=
  match v with
  | JNull => true
  | JBool b => negb b
  | JInt z => z =? 0
  | JFloat t => bytes_eqb t [x30]
  | JStr s => match s with [] => true | _ => false end
  | JArr l => match l with [] => true | _ => false end
  | JObj m => match m with [] => true | _ => false end
  | JBig _ => false
  end.

Definition is_null (v : jv) : bool := match v with JNull => true | _ => false end.

(* a value as a JSON string: the ,string tag option *)
Definition as_string (v : jv) : jv :=
  match v with
  | JBool true => JStr [x74; x72; x75; x65]
  | JBool false => JStr [x66; x61; x6c; x73; x65]
  | JInt z => JStr (format_int z)
  | JFloat t => JStr t
  | _ => v
  end.

Definition is_struct_val (v : gv) : bool :=
  match v with GStruct _ => true | GPtr (GStruct _) => true | GAny _ (GStruct _) => true | GAny _ (GPtr (GStruct _)) => true | _ => false end.

Section Enc.
  Variable o : opts.

  (* is the Go value empty in the sense of omitempty / OmitEmpty: false, 0, "", nil, or a
     slice or map without elements; a non-nil pointer or interface never is, whatever it holds *)
  Definition gv_empty (v : gv) : bool :=
    match v with
    | GBool b => negb b
    | GInt z => z =? 0
    | GFloat t => bytes_eqb t [x30]
    | GStr s => match s with [] => true | _ => false end
    | GNil => true
    | GSlice l => match l with [] => true | _ => false end
    | GMap m => match m with [] => true | _ => false end
    | GPtr _ | GAny _ _ | GStruct _ => false
    end.

  (* keep a member? [x] is the Go value, [e] its encoding *)
  Definition int64_behind (t : ty) (x : gv) : bool :=
    (* behind a pointer or an interface decompose widens every integer kind to int64 (the only
       kind its emptiness test knows) *)
    match x, t with
    | GPtr _, TPtr (TInt _) => true
    | GAny (TInt _) _, _ => true
    | _, _ => false
    end.

  Definition keep (tg : tagspec) (t : ty) (x : gv) (e : jv) : bool :=
    negb (o_omitnil o && is_null e) &&
    negb ((o_omitempty o || (o_tags o && t_omit tg)) &&
          (gv_empty x
           || (o_decomp o && o_omitempty o && (is_struct_val x || match x with GMap _ => true | _ => false end)
               && match e with JObj [] => true | _ => false end)
           || (o_derefempty o && match x with
                                  | GPtr _ | GAny _ _ =>
                                      negb (is_struct_val x) &&
                                      match e with
                                      | JInt z => (z =? 0) && int64_behind t x
                                      | JFloat _ => false
                                      | _ => is_empty e
                                      end
                                  | _ => false
                                  end))).

  Fixpoint enc (t : ty) (v : gv) {struct v} : jv :=
    match v with
    | GBool b => JBool b
    | GInt z => JInt z
    | GFloat x => JFloat x
    | GStr s => JStr s
    | GNil => match t with TSlice _ => JArr [] | TMap _ => JObj [] | _ => JNull end
    | GPtr x => enc (match t with TPtr t' => t' | _ => t end) x
    | GSlice l => JArr (map (enc (match t with TSlice t' => t' | _ => TAny end)) l)
    | GMap m => JObj ((fix go (m : list (bytes * gv)) : list (bytes * jv) :=
                         match m with
                         | [] => []
                         | (k, x) :: m' =>
                             let e := enc (match t with TMap t' => t' | _ => TAny end) x in
                             if keep (mkTag false [] false false false) (match t with TMap t' => t' | _ => TAny end) x e then (k, e) :: go m' else go m'
                         end) m)
    | GAny t' x => enc t' x
    | GStruct vals =>
        match t with
        | TStruct name fs =>
            JObj ((match o_ck o with Some k => [(k, JStr name)] | None => [] end) ++
                  (fix members (fs : list field) (vals : list gv) {struct vals} : list (bytes * jv) :=
                     match vals, fs with
                     | x :: vals', Fld fname exported tg emb ft :: fs' =>
                         let rest := members fs' vals' in
                         if negb exported then rest
                         else if o_tags o && t_dash tg && negb emb then rest
                         else if emb && negb (o_nest o) then
                           (* flattened: the members of the embedded struct appear at this level;
                              a nil embedded pointer contributes nothing *)
                           match enc ft x with
                           | JObj inner =>
                               (match o_ck o with Some _ => tl inner | None => inner end) ++ rest
                           | _ => rest
                           end
                         else
                           let e := enc ft x in
                           if keep tg ft x e
                           then (field_key o fname tg, if o_tags o && t_str tg then as_string e else e) :: rest
                           else rest
                     | _, _ => []
                     end) fs vals)
        | _ => JNull
        end
    end.
End Enc.

(* ---- omitempty tags are local: the tag of one field never changes another field's member *)
Definition set_omit (tg : tagspec) (b : bool) : tagspec := mkTag (t_has tg) (t_name tg) (t_dash tg) b (t_str tg).

Fixpoint flip_omit (i : nat) (b : bool) (fs : list field) : list field :=
  match fs, i with
  | [], _ => []
  | Fld n e tg emb t :: fs', O => Fld n e (set_omit tg b) emb t :: fs'
  | f :: fs', S i' => f :: flip_omit i' b fs'
  end.

Definition model_enc (o : opts) (t : ty) (v : gv) : bytes := show (canon (enc o t v)).

(* ---- what one field contributes to the object of its struct *)
Definition member_of_field (o : opts) (f : field) (x : gv) : list (bytes * jv) :=
  match f with
  | Fld fname exported tg emb ft =>
      if negb exported then []
      else if o_tags o && t_dash tg && negb emb then []
      else if emb && negb (o_nest o) then
        match enc o ft x with
        | JObj inner => match o_ck o with Some _ => tl inner | None => inner end
        | _ => []
        end
      else
        let e := enc o ft x in
        if keep o tg ft x e
        then [(field_key o fname tg, if o_tags o && t_str tg then as_string e else e)]
        else []
  end.

Definition contribs (o : opts) (fs : list field) (vals : list gv) : list (list (bytes * jv)) :=
  map (fun p => member_of_field o (fst p) (snd p)) (combine fs vals).

(* the object of a struct is the create key followed by the contributions of its fields in order *)
Theorem enc_struct_char o name fs vals :
  enc o (TStruct name fs) (GStruct vals) =
  JObj ((match o_ck o with Some k => [(k, JStr name)] | None => [] end) ++ concat (contribs o fs vals)).
Proof.
  cbn [enc]. f_equal. f_equal.
  match goal with |- ?F fs vals = _ =>
    assert (H : forall vals0 fs0, F fs0 vals0 = concat (contribs o fs0 vals0)); [|apply H] end.
  induction vals0 as [|x vals0 IH]; intros fs0.
  - destruct fs0 as [|[? ? ? ? ?] ?]; reflexivity.
  - destruct fs0 as [|[fname exported tg emb ft] fs0]; [reflexivity|].
    unfold contribs in *. cbn [combine map concat fst snd member_of_field].
    rewrite <- (IH fs0).
    set (e := enc o ft x). set (rest := _ fs0 vals0).
    destruct exported, emb, (o_tags o) eqn:Et, (t_dash tg) eqn:Ed, (o_nest o) eqn:En;
      cbn [negb andb app]; try reflexivity;
      try (destruct e; reflexivity);
      try (unfold keep; rewrite ?Et; destruct (negb _ && negb _); reflexivity).
Qed.

Lemma combine_flip i b : forall fs (vals : list gv) j,
  j <> i -> nth_error (combine (flip_omit i b fs) vals) j = nth_error (combine fs vals) j.
Proof.
  induction i as [|i IH]; intros fs vals j Hj.
  - destruct fs as [|[n e tg emb t] fs]; [reflexivity|]. destruct vals as [|x vals]; [reflexivity|].
    destruct j as [|j]; [congruence|]. reflexivity.
  - destruct fs as [|f fs]; [reflexivity|]. destruct vals as [|x vals]; [destruct f; reflexivity|].
    destruct j as [|j].
    + destruct f; reflexivity.
    + destruct f; cbn [flip_omit combine nth_error]; apply IH; congruence.
Qed.

(* omitempty on field i never changes what another field contributes, under any options *)
Theorem omitempty_is_local o fs vals i b j :
  j <> i -> nth_error (contribs o (flip_omit i b fs) vals) j = nth_error (contribs o fs vals) j.
Proof.
  intro Hj. unfold contribs. rewrite !nth_error_map. rewrite (combine_flip i b fs vals j Hj). reflexivity.
Qed.

(* and the contribution of field i itself is either unchanged or dropped/added as a whole *)
Theorem omitempty_own_field o fname exported tg emb ft x b :
  let c1 := member_of_field o (Fld fname exported tg emb ft) x in
  let c2 := member_of_field o (Fld fname exported (set_omit tg b) emb ft) x in
  c2 = c1 \/ c2 = [] \/ c1 = [].
Proof.
  cbn [member_of_field]. unfold set_omit, field_key, keep. cbn [t_has t_name t_dash t_omit t_str].
  destruct (negb exported); [left; reflexivity|].
  destruct (o_tags o && t_dash tg && negb emb); [left; reflexivity|].
  destruct (emb && negb (o_nest o)); [left; reflexivity|].
  destruct (negb (o_omitnil o && is_null (enc o ft x))); cbn [andb]; [|left; reflexivity].
  destruct (negb ((o_omitempty o || o_tags o && b) && _)) eqn:E1;
  destruct (negb ((o_omitempty o || o_tags o && t_omit tg) && _)) eqn:E2; auto.
Qed.
