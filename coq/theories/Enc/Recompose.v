(* C16: recomposition. (1) The registry of per-type field indexes: with keys that tell the
   types apart the index used for a type never depends on what was recomposed before; with a
   key that does not (the short type name, the empty name of anonymous types) it does.
   (2) Decoding the exact-key encoding of a well-typed value gives the value back (nil and
   empty slices or maps not distinguished). *)
From Coq Require Import Init.Byte NArith ZArith List Bool Lia.
Require Import Ojg.Base.Bytes Ojg.Base.Jv Ojg.Enc.Struct.
Import ListNotations.
Open Scope Z_scope.

(* ------------------------------------------------------------------ registry *)
Section Registry.
  Variables (Ty K Idx : Type).
  Variable keq : K -> K -> bool.
  Hypothesis keq_eq : forall a b, keq a b = true <-> a = b.
  Variable key : Ty -> K.
  Variable index_of : Ty -> Idx.

  Definition reg := list (K * Idx).
  Fixpoint rfind (k : K) (r : reg) : option Idx :=
    match r with [] => None | (k', i) :: r' => if keq k k' then Some i else rfind k r' end.

  (* recompose a value of type t: use the registered index or register the type now *)
  Definition use (r : reg) (t : Ty) : reg * Idx :=
    match rfind (key t) r with
    | Some i => (r, i)
    | None => ((key t, index_of t) :: r, index_of t)
    end.

  Definition history (hist : list Ty) : reg := fold_left (fun r x => fst (use r x)) hist [].

  (* keys tell types apart (as far as their index is concerned) *)
  Hypothesis key_separates : forall a b, key a = key b -> index_of a = index_of b.

  Definition sound (r : reg) : Prop := forall t i, rfind (key t) r = Some i -> i = index_of t.

  Lemma sound_use r t : sound r -> sound (fst (use r t)).
  Proof.
    intros H t' i. unfold use. destruct (rfind (key t) r) eqn:E; simpl; [apply H|].
    destruct (keq (key t') (key t)) eqn:Ek.
    - intro Hi. inversion Hi; subst. apply key_separates. symmetry. apply keq_eq. exact Ek.
    - apply H.
  Qed.

  Lemma sound_history hist : sound (history hist).
  Proof.
    unfold history. assert (G : forall r, sound r -> sound (fold_left (fun r x => fst (use r x)) hist r)).
    { induction hist as [|x h IH]; intros r Hr; simpl; [exact Hr|]. apply IH. apply sound_use. exact Hr. }
    apply G. intros t i H. discriminate.
  Qed.

  Theorem index_independent_of_history hist t : snd (use (history hist) t) = index_of t.
  Proof.
    unfold use. destruct (rfind (key t) (history hist)) eqn:E; simpl; [|reflexivity].
    exact (sound_history hist t i E).
  Qed.
End Registry.

(* without separation the outcome depends on the history: two types under one key *)
Example name_key_depends_on_history :
  let key := fun _ : bool => tt in
  let index_of := fun b : bool => b in
  snd (use bool unit bool (fun _ _ => true) key index_of (history bool unit bool (fun _ _ => true) key index_of [true]) false) = true /\
  snd (use bool unit bool (fun _ _ => true) key index_of (history bool unit bool (fun _ _ => true) key index_of []) false) = false.
Proof. vm_compute. split; reflexivity. Qed.

(* ------------------------------------------------------------------ decode after encode *)
Definition o_exact0 : opts := mkOpts false true false false false None false false false.

Definition is_ref (t : ty) : bool := match t with TPtr _ | TAny => true | _ => false end.

Fixpoint dec (t : ty) (j : jv) {struct t} : option gv :=
  match t with
  | TBool => match j with JBool b => Some (GBool b) | _ => None end
  | TInt _ => match j with JInt z => Some (GInt z) | _ => None end
  | TFloat => match j with JFloat x => Some (GFloat x) | _ => None end
  | TStr => match j with JStr s => Some (GStr s) | _ => None end
  | TPtr t' => match j with JNull => Some GNil | _ => option_map GPtr (dec t' j) end
  | TSlice t' =>
      match j with
      | JArr l => option_map GSlice
                    ((fix go (l : list jv) : option (list gv) :=
                        match l with
                        | [] => Some []
                        | x :: l' => match dec t' x, go l' with Some a, Some r => Some (a :: r) | _, _ => None end
                        end) l)
      | _ => None
      end
  | TMap t' =>
      match j with
      | JObj m => option_map GMap
                    ((fix go (m : list (bytes * jv)) : option (list (bytes * gv)) :=
                        match m with
                        | [] => Some []
                        | (k, x) :: m' => match dec t' x, go m' with Some a, Some r => Some ((k, a) :: r) | _, _ => None end
                        end) m)
      | _ => None
      end
  | TAny => None
  | TStruct _ fs =>
      match j with
      | JObj m => option_map GStruct
                    ((fix go (fs : list field) : option (list gv) :=
                        match fs with
                        | [] => Some []
                        | Fld n _ _ _ ft :: fs' =>
                            match map_get n m with
                            | Some x => match dec ft x, go fs' with Some a, Some r => Some (a :: r) | _, _ => None end
                            | None => None
                            end
                        end) fs)
      | _ => None
      end
  end.

Definition fname (f : field) : bytes := match f with Fld n _ _ _ _ => n end.
Definition ftype (f : field) : ty := match f with Fld _ _ _ _ t => t end.
Definition plain_field (f : field) : bool := match f with Fld _ e _ emb _ => e && negb emb end.

Fixpoint names_distinct (l : list bytes) : bool :=
  match l with [] => true | n :: l' => negb (existsb (bytes_eqb n) l') && names_distinct l' end.

(* well-typed values of types the round trip covers: no interfaces, no pointer to pointer *)
Fixpoint wt (t : ty) (v : gv) {struct v} : bool :=
  match v, t with
  | GBool _, TBool => true
  | GInt _, TInt _ => true
  | GFloat _, TFloat => true
  | GStr _, TStr => true
  | GNil, TPtr _ => true
  | GNil, TSlice _ => true
  | GNil, TMap _ => true
  | GPtr x, TPtr t' => negb (is_ref t') && wt t' x
  | GSlice l, TSlice t' => forallb (wt t') l
  | GMap m, TMap t' =>
      (fix go (m : list (bytes * gv)) : bool := match m with [] => true | (_, x) :: m' => wt t' x && go m' end) m
  | GStruct vals, TStruct _ fs =>
      forallb plain_field fs && names_distinct (map fname fs) &&
      (fix go (fs : list field) (vals : list gv) {struct vals} : bool :=
         match vals, fs with
         | [], [] => true
         | x :: vals', f :: fs' => wt (ftype f) x && go fs' vals'
         | _, _ => false
         end) fs vals
  | _, _ => false
  end.

(* nil slices and maps are not distinguished from empty ones *)
Fixpoint norm (t : ty) (v : gv) {struct v} : gv :=
  match v, t with
  | GNil, TSlice _ => GSlice []
  | GNil, TMap _ => GMap []
  | GPtr x, TPtr t' => GPtr (norm t' x)
  | GSlice l, TSlice t' => GSlice (map (norm t') l)
  | GMap m, TMap t' =>
      GMap ((fix go (m : list (bytes * gv)) : list (bytes * gv) :=
               match m with [] => [] | (k, x) :: m' => (k, norm t' x) :: go m' end) m)
  | GStruct vals, TStruct _ fs =>
      GStruct ((fix go (fs : list field) (vals : list gv) {struct vals} : list gv :=
                  match vals, fs with
                  | x :: vals', f :: fs' => norm (ftype f) x :: go fs' vals'
                  | _, _ => []
                  end) fs vals)
  | _, _ => v
  end.

Section GvInd.
  Variable P : gv -> Prop.
  Hypothesis Hb : forall b, P (GBool b).
  Hypothesis Hi : forall z, P (GInt z).
  Hypothesis Hf : forall t, P (GFloat t).
  Hypothesis Hs : forall s, P (GStr s).
  Hypothesis Hn : P GNil.
  Hypothesis Hp : forall v, P v -> P (GPtr v).
  Hypothesis Hl : forall l, Forall P l -> P (GSlice l).
  Hypothesis Hm : forall m, Forall (fun kv => P (snd kv)) m -> P (GMap m).
  Hypothesis Ha : forall t v, P v -> P (GAny t v).
  Hypothesis Hst : forall fs, Forall P fs -> P (GStruct fs).
  Fixpoint gv_ind2 (v : gv) : P v :=
    match v with
    | GBool b => Hb b | GInt z => Hi z | GFloat t => Hf t | GStr s => Hs s | GNil => Hn
    | GPtr x => Hp x (gv_ind2 x)
    | GSlice l => Hl l ((fix go (l : list gv) : Forall P l :=
                           match l with [] => Forall_nil _ | x :: l' => Forall_cons x (gv_ind2 x) (go l') end) l)
    | GMap m => Hm m ((fix go (m : list (bytes * gv)) : Forall (fun kv => P (snd kv)) m :=
                         match m with [] => Forall_nil _ | (k, x) :: m' => Forall_cons (k, x) (gv_ind2 x) (go m') end) m)
    | GAny t x => Ha t x (gv_ind2 x)
    | GStruct fs => Hst fs ((fix go (l : list gv) : Forall P l :=
                               match l with [] => Forall_nil _ | x :: l' => Forall_cons x (gv_ind2 x) (go l') end) fs)
    end.
End GvInd.

Lemma keep_exact0 tg t x e : keep o_exact0 tg t x e = true.
Proof. reflexivity. Qed.

Lemma enc_not_null : forall v t, wt t v = true -> is_ref t = false -> enc o_exact0 t v <> JNull.
Proof.
  destruct v; intros ty0 Hw Hr; destruct ty0; simpl in *; try discriminate.
Qed.

(* the members of a struct whose fields are all plain: one per field, under its name *)
Definition mem (fs : list field) (vals : list gv) : list (bytes * jv) :=
  map (fun p => (fname (fst p), enc o_exact0 (ftype (fst p)) (snd p))) (combine fs vals).

Lemma contribs_plain : forall fs vals, forallb plain_field fs = true ->
  concat (contribs o_exact0 fs vals) = mem fs vals.
Proof.
  induction fs as [|[n e tg emb ft] fs IH]; intros vals Hp; [reflexivity|].
  destruct vals as [|x vals]; [reflexivity|].
  cbn [forallb plain_field] in Hp. apply andb_prop in Hp as [Hf Hp]. apply andb_prop in Hf as [He Hemb].
  destruct e; try discriminate. destruct emb; try discriminate.
  unfold contribs, mem in *. cbn [combine map concat fst snd fname ftype member_of_field].
  rewrite keep_exact0. cbn. f_equal. apply IH. exact Hp.
Qed.

Lemma map_get_mem_notin n : forall fs vals,
  existsb (bytes_eqb n) (map fname fs) = false -> map_get n (mem fs vals) = None.
Proof.
  induction fs as [|f fs IH]; intros vals H; [reflexivity|]. destruct vals as [|x vals]; [reflexivity|].
  cbn [map existsb] in H. apply orb_false_elim in H as [H1 H2].
  unfold mem. cbn [combine map fst snd map_get]. rewrite H1. apply IH. exact H2.
Qed.

Lemma bytes_eqb_refl n : bytes_eqb n n = true.
Proof. apply bytes_eqb_eq. reflexivity. Qed.

Theorem dec_enc : forall v t, wt t v = true -> dec t (enc o_exact0 t v) = Some (norm t v).
Proof.
  induction v as [b|z|x|s| |v IH|l IH|m IH|t' v IH|vals IH] using gv_ind2; intros t Hw.
  - destruct t; try discriminate; reflexivity.
  - destruct t; try discriminate; reflexivity.
  - destruct t; try discriminate; reflexivity.
  - destruct t; try discriminate; reflexivity.
  - destruct t; try discriminate; reflexivity.
  - destruct t; try discriminate. cbn [wt] in Hw. apply andb_prop in Hw as [Hr Hw].
    apply negb_true_iff in Hr. cbn [enc norm dec].
    pose proof (enc_not_null v t Hw Hr) as Hnn. specialize (IH t Hw).
    destruct (enc o_exact0 t v) eqn:E; try congruence; rewrite IH; reflexivity.
  - destruct t; try discriminate. cbn [wt] in Hw. cbn [enc norm dec]. f_equal.
    assert (G : forall l, Forall (fun v => forall t, wt t v = true -> dec t (enc o_exact0 t v) = Some (norm t v)) l ->
                forallb (wt t) l = true ->
                (fix go (l : list jv) : option (list gv) :=
                   match l with
                   | [] => Some []
                   | x :: l' => match dec t x, go l' with Some a, Some r => Some (a :: r) | _, _ => None end
                   end) (map (enc o_exact0 t) l) = Some (map (norm t) l)).
    { clear. induction 1 as [|x l Hx _ IHl]; intro Hf; [reflexivity|].
      cbn [forallb] in Hf. apply andb_prop in Hf as [H1 H2]. cbn [map]. rewrite (Hx t H1), (IHl H2). reflexivity. }
    rewrite (G l IH Hw). reflexivity.
  - destruct t; try discriminate. cbn [wt] in Hw. cbn [enc norm dec].
    assert (G : forall m, Forall (fun kv : bytes * gv => forall t, wt t (snd kv) = true -> dec t (enc o_exact0 t (snd kv)) = Some (norm t (snd kv))) m ->
                (fix go (m : list (bytes * gv)) : bool := match m with [] => true | (_, x) :: m' => wt t x && go m' end) m = true ->
                (fix go (m : list (bytes * jv)) : option (list (bytes * gv)) :=
                   match m with
                   | [] => Some []
                   | (k, x) :: m' => match dec t x, go m' with Some a, Some r => Some ((k, a) :: r) | _, _ => None end
                   end)
                  ((fix go (m : list (bytes * gv)) : list (bytes * jv) :=
                      match m with
                      | [] => []
                      | (k, x) :: m' =>
                          let e := enc o_exact0 t x in
                          if keep o_exact0 (mkTag false [] false false false) t x e then (k, e) :: go m' else go m'
                      end) m)
                = Some ((fix go (m : list (bytes * gv)) : list (bytes * gv) :=
                           match m with [] => [] | (k, x) :: m' => (k, norm t x) :: go m' end) m)).
    { clear. induction 1 as [|[k x] m Hx _ IHm]; intro Hf; [reflexivity|].
      apply andb_prop in Hf as [H1 H2]. cbn [snd] in Hx. specialize (IHm H2). specialize (Hx t H1).
      simpl in IHm |- *. rewrite Hx. rewrite IHm. reflexivity. }
    exact (f_equal (option_map GMap) (G m IH Hw)).
  - discriminate.
  - destruct t as [| | | | | | | |name fs]; try discriminate.
    cbn [wt] in Hw. apply andb_prop in Hw as [Hw Hgo]. apply andb_prop in Hw as [Hplain Hnames].
    rewrite enc_struct_char. cbn [o_ck o_exact0 app]. rewrite (contribs_plain fs vals Hplain).
    cbn [dec norm].
    (* generalise the member list: all we need is that every field finds its own encoding *)
    assert (G : forall M fs0 vals0,
      Forall (fun v => forall t, wt t v = true -> dec t (enc o_exact0 t v) = Some (norm t v)) vals0 ->
      (fix go (fs : list field) (vals : list gv) {struct vals} : bool :=
         match vals, fs with
         | [], [] => true
         | x :: vals', f :: fs' => wt (ftype f) x && go fs' vals'
         | _, _ => false
         end) fs0 vals0 = true ->
      (forall f x, In (f, x) (combine fs0 vals0) -> map_get (fname f) M = Some (enc o_exact0 (ftype f) x)) ->
      (fix go (fs : list field) : option (list gv) :=
         match fs with
         | [] => Some []
         | Fld n _ _ _ ft :: fs' =>
             match map_get n M with
             | Some x => match dec ft x, go fs' with Some a, Some r => Some (a :: r) | _, _ => None end
             | None => None
             end
         end) fs0 =
      Some ((fix go (fs : list field) (vals : list gv) {struct vals} : list gv :=
               match vals, fs with
               | x :: vals', f :: fs' => norm (ftype f) x :: go fs' vals'
               | _, _ => []
               end) fs0 vals0)).
    { clear. intros M fs0 vals0 HF. revert fs0. induction HF as [|x vals0 Hx _ IHv]; intros fs0 Hgo Hlook.
      - destruct fs0; [reflexivity|discriminate].
      - destruct fs0 as [|[n e tg emb ft] fs0]; [discriminate|].
        apply andb_prop in Hgo as [H1 H2]. cbn [ftype] in H1.
        pose proof (Hlook (Fld n e tg emb ft) x (or_introl eq_refl)) as HL. cbn [fname ftype] in HL. rewrite HL.
        rewrite (Hx ft H1). rewrite (IHv fs0 H2); [reflexivity|].
        intros f y Hin. apply Hlook. right. exact Hin. }
    refine (f_equal (option_map GStruct) (G (mem fs vals) fs vals IH Hgo _)).
    (* every field finds its own encoding because the names are distinct *)
    clear G IH Hgo Hplain. revert vals. induction fs as [|f fs IHf]; intros vals g x Hin; [destruct Hin|].
    destruct vals as [|y vals]; [destruct Hin|].
    cbn [map names_distinct] in Hnames. apply andb_prop in Hnames as [Hn1 Hn2]. apply negb_true_iff in Hn1.
    unfold mem. cbn [combine map fst snd map_get].
    destruct Hin as [Heq|Hin].
    + inversion Heq; subst. rewrite bytes_eqb_refl. reflexivity.
    + destruct (bytes_eqb (fname g) (fname f)) eqn:E.
      * exfalso. apply bytes_eqb_eq in E.
        assert (Hex : existsb (bytes_eqb (fname f)) (map fname fs) = true).
        { apply existsb_exists. exists (fname g). split.
          - apply in_map_iff. exists g. split; [reflexivity|]. eapply in_combine_l. exact Hin.
          - rewrite E. apply bytes_eqb_refl. }
        congruence.
      * apply (IHf Hn2 vals g x Hin).
Qed.
