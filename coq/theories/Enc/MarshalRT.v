(* C16: Unmarshal after Marshal, by composing dec_enc (Recompose.v) with parse_write (ParseWrite.v):
   for a well-typed value whose exact-key encoding is a clean tree (no floats, integers below the
   scan-ahead threshold, valid UTF-8 strings), parsing the written text and decoding it into the
   type gives the value back (nil and empty slices or maps not distinguished). *)
From Coq Require Import Init.Byte NArith ZArith List Bool.
Require Import Ojg.Base.Bytes Ojg.Base.Jv Ojg.Json.Machine Ojg.Json.Sweep Ojg.Json.DataInv Ojg.Json.ValueSim Ojg.Json.Writer Ojg.Json.ParseWrite Ojg.Enc.Struct Ojg.Enc.Recompose.
Import ListNotations.

Section M.
  Variable one : bool.
  Variable K : cfg.
  Hypothesis Hb : builds K = true.
  Hypothesis Hsweep : sweep_ok one K = true.
  Hypothesis Hdsweep : dsweep_ok one K = true.
  Hypothesis Hsim : simsweep_ok K one = true.

  Theorem unmarshal_marshal o lim t v :
    w_sort o = false -> wt t v = true -> clean o (enc o_exact0 t v) ->
    match run_all K (write_all o lim (enc o_exact0 t v)) with
    | OOk [j] _ => dec t j = Some (norm t v)
    | _ => False
    end.
  Proof.
    intros Hs Hwt HC.
    pose proof (parse_write one K Hb Hsweep Hdsweep Hsim o lim (enc o_exact0 t v)) as H.
    rewrite Hs in H. specialize (H HC).
    destruct (run_all K (write_all o lim (enc o_exact0 t v))) as [l c| | |docs evs]; try contradiction.
    subst docs. apply dec_enc. exact Hwt.
  Qed.
End M.
