(* UTF-8 as Go's unicode/utf8 does it. *)
From Coq Require Import Init.Byte NArith ZArith List Bool Lia.
Require Import Ojg.Base.Bytes.
Import ListNotations.
Open Scope Z_scope.

Definition rune_error : Z := 65533. (* U+FFFD *)

Definition is_surrogate (r : Z) : bool := (55296 <=? r) && (r <=? 57343).

(* utf8.EncodeRune / utf8.AppendRune *)
Definition encode_rune (r : Z) : bytes :=
  let r := if (r <? 0) || (1114111 <? r) || is_surrogate r then rune_error else r in
  if r <? 128 then [z2b r]
  else if r <? 2048 then [z2b (192 + r / 64); z2b (128 + r mod 64)]
  else if r <? 65536 then [z2b (224 + r / 4096); z2b (128 + (r / 64) mod 64); z2b (128 + r mod 64)]
  else [z2b (240 + r / 262144); z2b (128 + (r / 4096) mod 64); z2b (128 + (r / 64) mod 64); z2b (128 + r mod 64)].

Definition is_cont (b : byte) : bool := (128 <=? b2z b) && (b2z b <=? 191).

(* utf8.DecodeRune on the head of s: (rune, width); (RuneError,1) on invalid, (RuneError,0) on empty *)
Definition decode_rune (s : bytes) : Z * nat :=
  match s with
  | [] => (rune_error, 0%nat)
  | b0 :: t =>
    let x0 := b2z b0 in
    if x0 <? 128 then (x0, 1%nat)
    else if x0 <? 194 then (rune_error, 1%nat)
    else if x0 <? 224 then
      match t with
      | b1 :: _ => if is_cont b1 then ((x0 - 192) * 64 + (b2z b1 - 128), 2%nat) else (rune_error, 1%nat)
      | _ => (rune_error, 1%nat)
      end
    else if x0 <? 240 then
      match t with
      | b1 :: b2 :: _ =>
        let lo := if x0 =? 224 then 160 else 128 in
        let hi := if x0 =? 237 then 159 else 191 in
        if (lo <=? b2z b1) && (b2z b1 <=? hi) && is_cont b2
        then ((x0 - 224) * 4096 + (b2z b1 - 128) * 64 + (b2z b2 - 128), 3%nat)
        else (rune_error, 1%nat)
      | _ => (rune_error, 1%nat)
      end
    else if x0 <? 245 then
      match t with
      | b1 :: b2 :: b3 :: _ =>
        let lo := if x0 =? 240 then 144 else 128 in
        let hi := if x0 =? 244 then 143 else 191 in
        if (lo <=? b2z b1) && (b2z b1 <=? hi) && is_cont b2 && is_cont b3
        then ((x0 - 240) * 262144 + (b2z b1 - 128) * 4096 + (b2z b2 - 128) * 64 + (b2z b3 - 128), 4%nat)
        else (rune_error, 1%nat)
      | _ => (rune_error, 1%nat)
      end
    else (rune_error, 1%nat)
  end.
