(* Shared vocabulary: bytes, byte strings, decimal text. *)
From Coq Require Import Init.Byte NArith ZArith List Bool Lia.
Import ListNotations.
Open Scope Z_scope.

Definition bytes := list byte.

Definition b2n (b : byte) : N := Byte.to_N b.
Definition b2z (b : byte) : Z := Z.of_N (Byte.to_N b).
Definition n2b (n : N) : byte := match Byte.of_N n with Some b => b | None => x00 end.
Definition z2b (z : Z) : byte := n2b (Z.to_N z).
Definition beqb (a b : byte) : bool := Byte.eqb a b.

Lemma beqb_eq a b : beqb a b = true <-> a = b.
Proof. unfold beqb. apply Byte.byte_dec_bl || (split; [apply Byte.byte_dec_bl | apply Byte.byte_dec_lb]). Qed.

Fixpoint bytes_eqb (a b : bytes) : bool :=
  match a, b with
  | [], [] => true
  | x :: a', y :: b' => beqb x y && bytes_eqb a' b'
  | _, _ => false
  end.

Lemma bytes_eqb_eq a b : bytes_eqb a b = true <-> a = b.
Proof.
  revert b; induction a as [|x a IH]; destruct b as [|y b]; simpl; split; intro H; try congruence; try discriminate.
  - apply andb_true_iff in H as [H1 H2]. apply beqb_eq in H1. apply IH in H2. congruence.
  - inversion H; subst. apply andb_true_iff; split; [apply beqb_eq; reflexivity | apply IH; reflexivity].
Qed.

(* lexicographic byte-string order, as Go's string comparison *)
Fixpoint bytes_ltb (a b : bytes) : bool :=
  match a, b with
  | [], [] => false
  | [], _ :: _ => true
  | _ :: _, [] => false
  | x :: a', y :: b' => if (b2n x <? b2n y)%N then true else if (b2n y <? b2n x)%N then false else bytes_ltb a' b'
  end.
Definition bytes_leb (a b : bytes) : bool := negb (bytes_ltb b a).

(* ASCII helpers *)
Definition is_digit (b : byte) : bool := (48 <=? b2z b) && (b2z b <=? 57).
Definition digit_val (b : byte) : Z := b2z b - 48.
Definition digit_byte (d : Z) : byte := z2b (48 + d).

(* decimal text of a non-negative number, most significant digit first (strconv.FormatUint) *)
Fixpoint pos_digits_fuel (fuel : nat) (z : Z) (acc : bytes) : bytes :=
  match fuel with
  | O => acc
  | S f => if z <? 10 then digit_byte z :: acc
           else pos_digits_fuel f (z / 10) (digit_byte (z mod 10) :: acc)
  end.
Definition format_uint (z : Z) : bytes := pos_digits_fuel (S (Z.to_nat (Z.log2 z))) z [].
Definition format_int (z : Z) : bytes :=
  if z <? 0 then x2d :: format_uint (- z) else format_uint z.

(* value of a digit string *)
Definition digits_val (ds : bytes) : Z := fold_left (fun acc d => acc * 10 + digit_val d) ds 0.

Definition two64 : Z := 18446744073709551616.
Definition max_int64 : Z := 9223372036854775807.
Definition wrap64 (z : Z) : Z := z mod two64.
(* int64(x) conversion of a uint64 *)
Definition to_int64 (z : Z) : Z := if z <=? max_int64 then z else z - two64.
(* -i on int64 (wraps for MinInt64) *)
Definition neg_int64 (z : Z) : Z := if z =? - max_int64 - 1 then z else - z.

Definition hex_digit (n : Z) : byte := if n <? 10 then z2b (48 + n) else z2b (87 + n).
