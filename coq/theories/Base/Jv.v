(* JSON-like values shared by all models. Objects are association lists in insertion
   order; Go map semantics is equality up to [canon]. *)
From Coq Require Import Init.Byte NArith ZArith List Bool Lia.
Require Import Ojg.Base.Bytes.
Import ListNotations.
Open Scope Z_scope.

Inductive jv : Set :=
  | JNull
  | JBool (b : bool)
  | JInt (z : Z)
  | JFloat (t : bytes)      (* decimal text; the float is strconv.ParseFloat of it (oracle) *)
  | JBig (t : bytes)        (* json.Number / gen.Big: digits kept as text *)
  | JStr (s : bytes)
  | JArr (l : list jv)
  | JObj (m : list (bytes * jv)).

(* Go: obj[k] = v *)
Fixpoint map_set (k : bytes) (v : jv) (m : list (bytes * jv)) : list (bytes * jv) :=
  match m with
  | [] => [(k, v)]
  | (k', v') :: m' => if bytes_eqb k k' then (k, v) :: m' else (k', v') :: map_set k v m'
  end.

Fixpoint map_get (k : bytes) (m : list (bytes * jv)) : option jv :=
  match m with
  | [] => None
  | (k', v') :: m' => if bytes_eqb k k' then Some v' else map_get k m'
  end.

Fixpoint map_del (k : bytes) (m : list (bytes * jv)) : list (bytes * jv) :=
  match m with
  | [] => []
  | (k', v') :: m' => if bytes_eqb k k' then map_del k m' else (k', v') :: map_del k m'
  end.

(* sorted insert, replacing an equal key (so: last duplicate wins when folding left) *)
Fixpoint ins_sorted (k : bytes) (v : jv) (m : list (bytes * jv)) : list (bytes * jv) :=
  match m with
  | [] => [(k, v)]
  | (k', v') :: m' =>
      if bytes_eqb k k' then (k, v) :: m'
      else if bytes_ltb k k' then (k, v) :: (k', v') :: m'
      else (k', v') :: ins_sorted k v m'
  end.

Fixpoint canon (v : jv) : jv :=
  match v with
  | JArr l => JArr (map canon l)
  | JObj m =>
      JObj (fold_left (fun acc kv => ins_sorted (fst kv) (snd kv) acc)
                      ((fix go (m : list (bytes * jv)) : list (bytes * jv) :=
                          match m with
                          | [] => []
                          | (k, x) :: m' => (k, canon x) :: go m'
                          end) m) [])
  | _ => v
  end.

Fixpoint jv_eqb (a b : jv) {struct a} : bool :=
  match a, b with
  | JNull, JNull => true
  | JBool x, JBool y => Bool.eqb x y
  | JInt x, JInt y => x =? y
  | JFloat x, JFloat y => bytes_eqb x y
  | JBig x, JBig y => bytes_eqb x y
  | JStr x, JStr y => bytes_eqb x y
  | JArr x, JArr y =>
      (fix go (x y : list jv) : bool :=
         match x, y with
         | [], [] => true
         | a :: x', b :: y' => jv_eqb a b && go x' y'
         | _, _ => false
         end) x y
  | JObj x, JObj y =>
      (fix go (x y : list (bytes * jv)) : bool :=
         match x, y with
         | [], [] => true
         | (k, a) :: x', (k', b) :: y' => bytes_eqb k k' && jv_eqb a b && go x' y'
         | _, _ => false
         end) x y
  | _, _ => false
  end.

(* canonical text used by the correspondence harness:
   n t f  i<dec>  d<text>  b<text>  s<hex>  [v v]  {k<hex> v ...} *)
Definition hex_of_byte (b : byte) : bytes :=
  [hex_digit (b2z b / 16); hex_digit (b2z b mod 16)].
Definition hex_of_bytes (s : bytes) : bytes := flat_map hex_of_byte s.

Fixpoint show (v : jv) : bytes :=
  match v with
  | JNull => [x6e]
  | JBool true => [x74]
  | JBool false => [x66]
  | JInt z => x69 :: format_int z
  | JFloat t => x64 :: t
  | JBig t => x62 :: t
  | JStr s => x73 :: hex_of_bytes s
  | JArr l => x5b :: (fix go (l : list jv) : bytes :=
                       match l with
                       | [] => [x5d]
                       | [a] => show a ++ [x5d]
                       | a :: l' => show a ++ x20 :: go l'
                       end) l
  | JObj m => x7b :: (fix go (m : list (bytes * jv)) : bytes :=
                       match m with
                       | [] => [x7d]
                       | [(k, a)] => x6b :: hex_of_bytes k ++ x20 :: show a ++ [x7d]
                       | (k, a) :: m' => x6b :: hex_of_bytes k ++ x20 :: show a ++ x20 :: go m'
                       end) m
  end.

(* induction principle that reaches inside arrays and objects *)
Section JvInd.
  Variable P : jv -> Prop.
  Hypothesis Hnull : P JNull.
  Hypothesis Hbool : forall b, P (JBool b).
  Hypothesis Hint : forall z, P (JInt z).
  Hypothesis Hfloat : forall t, P (JFloat t).
  Hypothesis Hbig : forall t, P (JBig t).
  Hypothesis Hstr : forall s, P (JStr s).
  Hypothesis Harr : forall l, Forall P l -> P (JArr l).
  Hypothesis Hobj : forall m, Forall (fun kv => P (snd kv)) m -> P (JObj m).

  Fixpoint jv_ind2 (v : jv) : P v :=
    match v with
    | JNull => Hnull
    | JBool b => Hbool b
    | JInt z => Hint z
    | JFloat t => Hfloat t
    | JBig t => Hbig t
    | JStr s => Hstr s
    | JArr l => Harr l ((fix go (l : list jv) : Forall P l :=
                           match l with
                           | [] => Forall_nil _
                           | x :: l' => Forall_cons x (jv_ind2 x) (go l')
                           end) l)
    | JObj m => Hobj m ((fix go (m : list (bytes * jv)) : Forall (fun kv => P (snd kv)) m :=
                           match m with
                           | [] => Forall_nil _
                           | (k, x) :: m' => Forall_cons (k, x) (jv_ind2 x) (go m')
                           end) m)
    end.
End JvInd.
