(* C10, string clause: AppendSENString (string.go, classes from the GENERATED senMap) writes a
   string bare only when the SEN parser (sen/maps.go, GENERATED tables) reads those bytes back
   as one token. *)
From Coq Require Import Init.Byte NArith ZArith List Bool Lia.
Require Import Ojg.Base.Bytes Ojg.Gen.StrMaps.
Require Ojg.Gen.SenMaps.
Import ListNotations.
Open Scope Z_scope.

(* the byte may appear in a bare token without forcing quotes *)
Definition bare_class (html : bool) (b : byte) : bool :=
  let c := ojg_senMap b in
  beqb c x6f || beqb c x30 || (beqb c x38) || (negb html && beqb c x68 && negb (beqb b x26)).

(* the first byte of a bare token *)
Definition bare_first (html : bool) (b : byte) : bool :=
  let c := ojg_senMap b in
  beqb c x6f || beqb c x38 || (negb html && beqb c x68 && negb (beqb b x26)).

Definition is_tok (a : SenMaps.action) : bool := (SenMaps.action_code a =? SenMaps.action_code SenMaps.A_tokenOk)%N.
Definition is_start (a : SenMaps.action) : bool := (SenMaps.action_code a =? SenMaps.action_code SenMaps.A_tokenStart)%N.

Definition all256 : list byte := map (fun n => n2b (N.of_nat n)) (seq 0 256).
Lemma all256_complete b : existsb (beqb b) all256 = true.
Proof. destruct b; vm_compute; reflexivity. Qed.

(* every byte written bare continues a token for the parser *)
Definition bare_bytes_ok (html : bool) : bool :=
  forallb (fun b => negb (bare_class html b) || is_tok (SenMaps.tab_tokenMap b)) all256.
(* every first byte written bare starts a token, except the two sign characters (recorded finding) *)
Definition bare_first_ok (html : bool) : bool :=
  forallb (fun b => negb (bare_first html b) || is_start (SenMaps.tab_valueMap b) || beqb b x2d || beqb b x2b) all256.

Lemma bare_bytes_checked : bare_bytes_ok true = true /\ bare_bytes_ok false = true.
Proof. split; vm_compute; reflexivity. Qed.
Lemma bare_first_checked : bare_first_ok true = true /\ bare_first_ok false = true.
Proof. split; vm_compute; reflexivity. Qed.

Lemma forallb_all256 (f : byte -> bool) : forallb f all256 = true -> forall b, f b = true.
Proof.
  intros H b. rewrite forallb_forall in H. apply H.
  pose proof (all256_complete b) as E. apply existsb_exists in E as [x [Hx He]].
  apply beqb_eq in He. subst. exact Hx.
Qed.

Theorem bare_byte_is_token_byte html b :
  bare_class html b = true -> is_tok (SenMaps.tab_tokenMap b) = true.
Proof.
  intro H. destruct bare_bytes_checked as [Ht Hf].
  assert (E : negb (bare_class html b) || is_tok (SenMaps.tab_tokenMap b) = true).
  { destruct html; [apply (forallb_all256 _ Ht)|apply (forallb_all256 _ Hf)]. }
  rewrite H in E. exact E.
Qed.

Theorem bare_first_starts_token html b :
  bare_first html b = true -> b <> x2d -> b <> x2b -> is_start (SenMaps.tab_valueMap b) = true.
Proof.
  intros H Hm Hp. destruct bare_first_checked as [Ht Hf].
  assert (E : negb (bare_first html b) || is_start (SenMaps.tab_valueMap b) || beqb b x2d || beqb b x2b = true).
  { destruct html; [apply (forallb_all256 _ Ht)|apply (forallb_all256 _ Hf)]. }
  rewrite H in E. simpl in E.
  apply orb_true_iff in E as [E|E]; [|apply beqb_eq in E; contradiction].
  apply orb_true_iff in E as [E|E]; [exact E|apply beqb_eq in E; contradiction].
Qed.
