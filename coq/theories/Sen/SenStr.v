(* C10, string clause, executable model.
   [sen_string]: ojg.AppendSENString (string.go:113-204), classes from the GENERATED senMap.
   [rrun]: the part of sen.Parser (sen/parser.go) that reads one string value - a bare token or
   a quoted string with escapes - driven by the GENERATED mode tables of sen/maps.go
   (valueMap, tokenMap, stringMap, escMap, escByteMap, uMap). Both are tied to the code by the
   correspondence run (requests senstr / senread). *)
From Coq Require Import Init.Byte NArith ZArith List Bool Lia.
Require Import Ojg.Base.Bytes Ojg.Base.Utf8 Ojg.Gen.StrMaps Ojg.Json.Machine Ojg.Json.Writer.
Require Ojg.Gen.SenMaps.
Import ListNotations.
Open Scope Z_scope.

(* ---- the writer *)
Definition u2028 : bytes := [x5c; x75; x32; x30; x32; x38].
Definition u2029 : bytes := [x5c; x75; x32; x30; x32; x39].
Definition ufffd : bytes := [x5c; x75; x66; x66; x66; x64].

(* the loop of AppendSENString: (what is appended after the opening quote, quote forced);
   [first] is i == 0 *)
Fixpoint sen_str_body (fuel : nat) (html first : bool) (s : bytes) : bytes * bool :=
  match fuel, s with
  | O, _ => ([], false)
  | _, [] => ([], false)
  | S f, b :: r =>
      let c := ojg_senMap b in
      if beqb c x6f || beqb c x30 then
        let '(o, q) := sen_str_body f html false r in (b :: o, q)
      else if beqb c x78 then
        let '(o, q) := sen_str_body f html false r in (b :: o, true)
      else if beqb c x2e then
        let '(o, q) := sen_str_body f html false r in (u00 b ++ o, true)
      else if beqb c x68 then
        let '(o, q) := sen_str_body f html false r in
        if html then (u00 b ++ o, true) else (b :: o, q || beqb b x26)
      else if beqb c x38 then
        let '(rn, w) := decode_rune s in
        let w := match w with O => 1%nat | _ => w end in
        let '(o, q) := sen_str_body f html false (skipn w s) in
        if rn =? 8232 then (u2028 ++ o, true)
        else if rn =? 8233 then (u2029 ++ o, true)
        else if rn =? rune_error then (ufffd ++ o, true)
        else if rn =? 65279 then (firstn w s ++ o, q || first)
        else (firstn w s ++ o, q)
      else
        let '(o, q) := sen_str_body f html false r in (x5c :: c :: o, true)
  end.

Definition sen_first_ok (html : bool) (b : byte) : bool :=
  let m := ojg_senMap b in
  beqb m x6f || beqb m x38 || (negb html && beqb m x68).

Definition sen_quoted (html : bool) (s : bytes) : bool :=
  match s with
  | [] => true
  | b0 :: _ =>
      (ojg_maxTokenLen <? Z.of_nat (length s)) || negb (sen_first_ok html b0) ||
      snd (sen_str_body (length s) html true s)
  end.

Definition sen_string (html : bool) (s : bytes) : bytes :=
  match s with
  | [] => [x22; x22]
  | _ :: _ =>
      let body := fst (sen_str_body (length s) html true s) in
      if sen_quoted html s then x22 :: body ++ [x22] else body
  end.

(* ---- the reader: one string value *)
Inductive rmode : Set := RmValue | RmToken | RmString | RmEsc | RmU.
Record rst : Set := mkRS { rs_mode : rmode; rs_tmp : bytes; rs_q : byte; rs_rn : Z; rs_ri : Z }.
Inductive rout : Set := Tok (s : bytes) | Str (s : bytes).

Definition act_is (a b : SenMaps.action) : bool := (SenMaps.action_code a =? SenMaps.action_code b)%N.

(* the token ends before a byte whose tokenMap action is one of these; the byte is then handled
   by the surrounding document (white space, comma, newline, colon, closing bracket) *)
Definition tok_end (a : SenMaps.action) : bool :=
  act_is a SenMaps.A_tokenSpc || act_is a SenMaps.A_tokenColon || act_is a SenMaps.A_tokenNlColon ||
  act_is a SenMaps.A_closeArray || act_is a SenMaps.A_closeObject.

Fixpoint rrun (st : rst) (w : bytes) : option (rout * bytes) :=
  match w with
  | [] => None
  | b :: r =>
      match rs_mode st with
      | RmValue =>
          let a := SenMaps.tab_valueMap b in
          if act_is a SenMaps.A_skipChar then rrun st r
          else if act_is a SenMaps.A_valQuote then rrun (mkRS RmString [] b 0 0) r
          else if act_is a SenMaps.A_tokenStart then rrun (mkRS RmToken [b] (rs_q st) 0 0) r
          else None
      | RmToken =>
          let a := SenMaps.tab_tokenMap b in
          if act_is a SenMaps.A_tokenOk then rrun (mkRS RmToken (rs_tmp st ++ [b]) (rs_q st) 0 0) r
          else if tok_end a then Some (Tok (rs_tmp st), w)
          else None
      | RmString =>
          let a := SenMaps.tab_stringMap b in
          if act_is a SenMaps.A_strOk then rrun (mkRS RmString (rs_tmp st ++ [b]) (rs_q st) 0 0) r
          else if act_is a SenMaps.A_strQuote then
            if beqb b (rs_q st) then Some (Str (rs_tmp st), r)
            else rrun (mkRS RmString (rs_tmp st ++ [b]) (rs_q st) 0 0) r
          else if act_is a SenMaps.A_strSlash then rrun (mkRS RmEsc (rs_tmp st) (rs_q st) 0 0) r
          else None
      | RmEsc =>
          let a := SenMaps.tab_escMap b in
          if act_is a SenMaps.A_escOk then
            match SenMaps.data_escByteMap b with
            | Some c => rrun (mkRS RmString (rs_tmp st ++ [c]) (rs_q st) 0 0) r
            | None => None
            end
          else if act_is a SenMaps.A_escU then rrun (mkRS RmU (rs_tmp st) (rs_q st) 0 0) r
          else None
      | RmU =>
          let a := SenMaps.tab_uMap b in
          if act_is a SenMaps.A_uOk then
            let rn := rs_rn st * 16 + hex_val b in
            if rs_ri st + 1 =? 4 then rrun (mkRS RmString (rs_tmp st ++ encode_rune rn) (rs_q st) 0 0) r
            else rrun (mkRS RmU (rs_tmp st) (rs_q st) rn (rs_ri st + 1)) r
          else None
      end
  end.

Definition rinit : rst := mkRS RmValue [] x00 0 0.
Definition sen_read (w : bytes) : option (rout * bytes) := rrun rinit w.

(* what a token is as a VALUE (addToken): the three reserved words, else a string *)
Definition w_null : bytes := [x6e; x75; x6c; x6c].
Definition w_true : bytes := [x74; x72; x75; x65].
Definition w_false : bytes := [x66; x61; x6c; x73; x65].
Definition reserved (s : bytes) : bool := bytes_eqb s w_null || bytes_eqb s w_true || bytes_eqb s w_false.

(* ---- printable forms for the correspondence run *)
Definition hexs (s : bytes) : bytes := flat_map (fun b => [hex_digit (b2z b / 16); hex_digit (b2z b mod 16)]) s.
Definition show_read (w : bytes) : bytes :=
  match sen_read w with
  | None => [x2d]                                              (* - : outside the sub-model *)
  | Some (Tok s, rest) => x54 :: hexs s ++ x20 :: hexs rest    (* T<hex> <rest> *)
  | Some (Str s, rest) => x53 :: hexs s ++ x20 :: hexs rest    (* S<hex> <rest> *)
  end.

(* ---- arrays of strings: the tight writer (sen/tight.go tightArray: elements separated by one
   blank, the last blank overwritten by the bracket) and the reader around the string-value reader *)
Fixpoint sen_elems (html : bool) (xs : list bytes) : bytes :=
  match xs with
  | [] => []
  | [x] => sen_string html x
  | x :: r => sen_string html x ++ x20 :: sen_elems html r
  end.
Definition sen_array (html : bool) (xs : list bytes) : bytes :=
  match xs with [] => [x5b; x5d] | _ => x5b :: sen_elems html xs ++ [x5d] end.

Fixpoint skip_ws (w : bytes) : bytes :=
  match w with
  | b :: r => if act_is (SenMaps.tab_valueMap b) SenMaps.A_skipChar then skip_ws r else w
  | [] => []
  end.
Fixpoint read_elems (fuel : nat) (w : bytes) : option (list rout * bytes) :=
  match fuel with
  | O => None
  | S f =>
      match skip_ws w with
      | [] => None
      | b :: r =>
          if act_is (SenMaps.tab_valueMap b) SenMaps.A_closeArray then Some ([], r)
          else match rrun rinit (b :: r) with
               | Some (o, r2) => match read_elems f r2 with Some (l, k) => Some (o :: l, k) | None => None end
               | None => None
               end
      end
  end.
Definition read_array (w : bytes) : option (list rout * bytes) :=
  match w with
  | b :: r => if act_is (SenMaps.tab_valueMap b) SenMaps.A_openArray then read_elems (S (length r)) r else None
  | [] => None
  end.

Definition show_read_array (w : bytes) : bytes :=
  match read_array w with
  | None => [x2d]
  | Some (l, rest) =>
      flat_map (fun o => match o with Tok s => x54 :: hexs s ++ [x20] | Str s => x53 :: hexs s ++ [x20] end) l ++ x7c :: hexs rest
  end.

(* ---- objects of strings: the tight writers (tightObject / tightSortObject: key, colon, value, one
   blank; the last blank overwritten by the brace; the member order is the caller's) and the reader *)
Fixpoint sen_members (html : bool) (ms : list (bytes * bytes)) : bytes :=
  match ms with
  | [] => []
  | [(k, v)] => sen_string html k ++ x3a :: sen_string html v
  | (k, v) :: r => sen_string html k ++ x3a :: sen_string html v ++ x20 :: sen_members html r
  end.
Definition sen_object (html : bool) (ms : list (bytes * bytes)) : bytes :=
  match ms with [] => [x7b; x7d] | _ => x7b :: sen_members html ms ++ [x7d] end.

Definition rout_bytes (o : rout) : bytes := match o with Tok s => s | Str s => s end.

Fixpoint skip_colon_ws (w : bytes) : bytes :=
  match w with
  | b :: r => if act_is (SenMaps.tab_colonMap b) SenMaps.A_skipChar then skip_colon_ws r else w
  | [] => []
  end.
(* after a key: a token key ends at the colon itself; a quoted key is followed by colonMap *)
Definition after_key (o : rout) (w : bytes) : option bytes :=
  match o with
  | Tok _ => match w with
             | c :: r => if act_is (SenMaps.tab_tokenMap c) SenMaps.A_tokenColon then Some r else None
             | [] => None
             end
  | Str _ => match skip_colon_ws w with
             | c :: r => if act_is (SenMaps.tab_colonMap c) SenMaps.A_colonColon then Some r else None
             | [] => None
             end
  end.
Fixpoint read_members (fuel : nat) (w : bytes) : option (list (bytes * rout) * bytes) :=
  match fuel with
  | O => None
  | S f =>
      match skip_ws w with
      | [] => None
      | b :: r =>
          if act_is (SenMaps.tab_valueMap b) SenMaps.A_closeObject then Some ([], r)
          else match rrun rinit (b :: r) with
               | Some (ko, r2) =>
                   match after_key ko r2 with
                   | Some r3 =>
                       match rrun rinit r3 with
                       | Some (vo, r4) =>
                           match read_members f r4 with
                           | Some (l, k) => Some ((rout_bytes ko, vo) :: l, k)
                           | None => None
                           end
                       | None => None
                       end
                   | None => None
                   end
               | None => None
               end
      end
  end.
Definition read_object (w : bytes) : option (list (bytes * rout) * bytes) :=
  match w with
  | b :: r => if act_is (SenMaps.tab_valueMap b) SenMaps.A_openObject then read_members (S (length r)) r else None
  | [] => None
  end.
Definition show_read_object (w : bytes) : bytes :=
  match read_object w with
  | None => [x2d]
  | Some (l, rest) =>
      flat_map (fun kv => x4b :: hexs (fst kv) ++ x20 :: (match snd kv with Tok s => x54 :: hexs s | Str s => x53 :: hexs s end) ++ [x20]) l
      ++ x7c :: hexs rest
  end.
