(* C10, string clause: the SEN string reader (Sen/SenStr.v, over the regenerated tables of
   sen/maps.go) reads what AppendSENString (over the regenerated senMap of string.go) writes
   back as the sanitized string - for EVERY byte string and both HTML settings. The only
   exceptions are the ones of the recorded finding: a bare token that starts with a sign is not
   read as a token at all, and a bare token spelled like a reserved word is a string only at a
   key position. *)
From Coq Require Import Init.Byte NArith ZArith List Bool Lia.
Require Import Ojg.Base.Bytes Ojg.Base.Utf8 Ojg.Gen.StrMaps Ojg.Json.Machine Ojg.Json.Ref Ojg.Json.Sweep Ojg.Json.Writer Ojg.Json.WStr.
Require Import Ojg.Sen.SenString Ojg.Sen.SenStr.
Require Ojg.Gen.SenMaps.
Import ListNotations.
Open Scope Z_scope.

Definition sst (tmp : bytes) : rst := mkRS RmString tmp x22 0 0.

Definition plainb (b : byte) : bool :=
  act_is (SenMaps.tab_stringMap b) SenMaps.A_strOk ||
  (act_is (SenMaps.tab_stringMap b) SenMaps.A_strQuote && negb (beqb b x22)).

(* ---- byte classes of senMap against the reader's tables, by exhaustion over the 256 bytes *)
Definition sclass_ok (b : byte) : bool :=
  let c := ojg_senMap b in
  (if 128 <=? b2z b then beqb c x38 && act_is (SenMaps.tab_stringMap b) SenMaps.A_strOk else true) &&
  (if beqb c x6f || beqb c x30 then plainb b && (b2z b <? 128)
   else if beqb c x78 then plainb b && (b2z b <? 128)
   else if beqb c x2e then (b2z b <? 128)
   else if beqb c x68 then plainb b && (b2z b <? 128)
   else if beqb c x38 then (128 <=? b2z b)
   else act_is (SenMaps.tab_escMap c) SenMaps.A_escOk &&
        match SenMaps.data_escByteMap c with Some x => beqb x b | None => false end && (b2z b <? 128)).

Lemma sclass_sweep : forallb sclass_ok all_bytes = true.
Proof. vm_compute. reflexivity. Qed.
Lemma sclass_of b : sclass_ok b = true.
Proof. pose proof sclass_sweep as H. rewrite forallb_forall in H. apply H. apply all_bytes_complete. Qed.

Definition hexu_ok (b : byte) : bool := negb (is_hex b) || act_is (SenMaps.tab_uMap b) SenMaps.A_uOk.
Lemma hexu_sweep : forallb hexu_ok all_bytes = true.
Proof. vm_compute. reflexivity. Qed.
Lemma hexu_of b : is_hex b = true -> act_is (SenMaps.tab_uMap b) SenMaps.A_uOk = true.
Proof.
  intro H. pose proof hexu_sweep as S. rewrite forallb_forall in S. specialize (S b (all_bytes_complete b)).
  unfold hexu_ok in S. rewrite H in S. exact S.
Qed.

(* ---- single steps of the reader inside a quoted string *)
Lemma r_plain tmp b rest : plainb b = true -> rrun (sst tmp) (b :: rest) = rrun (sst (tmp ++ [b])) rest.
Proof.
  unfold plainb. intro H. cbn [rrun rs_mode sst rs_tmp rs_q].
  destruct (act_is (SenMaps.tab_stringMap b) SenMaps.A_strOk) eqn:E; [reflexivity|].
  simpl in H. apply andb_true_iff in H as [H1 H2]. rewrite H1. apply negb_true_iff in H2. rewrite H2. reflexivity.
Qed.

Lemma r_plain_list bs : forall tmp rest, Forall (fun b => plainb b = true) bs ->
  rrun (sst tmp) (bs ++ rest) = rrun (sst (tmp ++ bs)) rest.
Proof.
  induction bs as [|b bs IH]; intros tmp rest H.
  - simpl. rewrite app_nil_r. reflexivity.
  - inversion H as [|? ? Hb Hbs]; subst. change ((b :: bs) ++ rest) with (b :: (bs ++ rest)).
    rewrite r_plain by exact Hb. rewrite IH by exact Hbs. rewrite <- app_assoc. reflexivity.
Qed.

Lemma r_esc tmp c x rest :
  act_is (SenMaps.tab_escMap c) SenMaps.A_escOk = true -> SenMaps.data_escByteMap c = Some x ->
  rrun (sst tmp) (x5c :: c :: rest) = rrun (sst (tmp ++ [x])) rest.
Proof.
  intros H1 H2. cbn [rrun rs_mode sst rs_tmp rs_q].
  change (act_is (SenMaps.tab_stringMap x5c) SenMaps.A_strOk) with false.
  change (act_is (SenMaps.tab_stringMap x5c) SenMaps.A_strQuote) with false.
  change (act_is (SenMaps.tab_stringMap x5c) SenMaps.A_strSlash) with true.
  cbn iota. cbn [rs_mode rs_tmp rs_q]. rewrite H1, H2. reflexivity.
Qed.

Lemma r_u4 tmp h1 h2 h3 h4 rest :
  is_hex h1 = true -> is_hex h2 = true -> is_hex h3 = true -> is_hex h4 = true ->
  rrun (sst tmp) (x5c :: x75 :: h1 :: h2 :: h3 :: h4 :: rest) =
  rrun (sst (tmp ++ encode_rune (((hex_val h1 * 16 + hex_val h2) * 16 + hex_val h3) * 16 + hex_val h4))) rest.
Proof.
  intros H1 H2 H3 H4. apply hexu_of in H1, H2, H3, H4.
  cbn [rrun rs_mode sst rs_tmp rs_q].
  change (act_is (SenMaps.tab_stringMap x5c) SenMaps.A_strOk) with false.
  change (act_is (SenMaps.tab_stringMap x5c) SenMaps.A_strQuote) with false.
  change (act_is (SenMaps.tab_stringMap x5c) SenMaps.A_strSlash) with true.
  cbn iota. cbn [rs_mode rs_tmp rs_q].
  change (act_is (SenMaps.tab_escMap x75) SenMaps.A_escOk) with false.
  change (act_is (SenMaps.tab_escMap x75) SenMaps.A_escU) with true.
  cbn iota. cbn [rs_mode rs_tmp rs_q rs_rn rs_ri].
  rewrite H1. cbn [rs_mode rs_tmp rs_q rs_rn rs_ri]. change (0 + 1 =? 4) with false. cbn iota.
  cbn [rs_mode rs_tmp rs_q rs_rn rs_ri].
  rewrite H2. cbn [rs_mode rs_tmp rs_q rs_rn rs_ri]. change (0 + 1 + 1 =? 4) with false. cbn iota.
  cbn [rs_mode rs_tmp rs_q rs_rn rs_ri].
  rewrite H3. cbn [rs_mode rs_tmp rs_q rs_rn rs_ri]. change (0 + 1 + 1 + 1 =? 4) with false. cbn iota.
  cbn [rs_mode rs_tmp rs_q rs_rn rs_ri].
  rewrite H4. cbn [rs_mode rs_tmp rs_q rs_rn rs_ri]. change (0 + 1 + 1 + 1 + 1 =? 4) with true. cbn iota.
  change (0 * 16 + hex_val h1) with (hex_val h1). reflexivity.
Qed.

Lemma r_u00 tmp b rest : (b2z b <? 128) = true ->
  rrun (sst tmp) (u00 b ++ rest) = rrun (sst (tmp ++ [b])) rest.
Proof.
  intro Hb. pose proof (u00_of b) as H. unfold u00_ok in H. rewrite Hb in H.
  apply andb_true_iff in H as [H He]. apply andb_true_iff in H as [H Hv]. apply andb_true_iff in H as [H1 H2].
  apply Z.eqb_eq in Hv. apply bytes_eqb_eq in He.
  change (u00 b ++ rest) with (x5c :: x75 :: x30 :: x30 :: hex_digit (b2z b / 16) :: hex_digit (b2z b mod 16) :: rest).
  rewrite (r_u4 tmp x30 x30 _ _ rest eq_refl eq_refl H1 H2). rewrite Hv, He. reflexivity.
Qed.

Lemma r_fixed tmp h1 h2 h3 h4 v rest :
  is_hex h1 = true -> is_hex h2 = true -> is_hex h3 = true -> is_hex h4 = true ->
  ((hex_val h1 * 16 + hex_val h2) * 16 + hex_val h3) * 16 + hex_val h4 = v ->
  rrun (sst tmp) ([x5c; x75; h1; h2; h3; h4] ++ rest) = rrun (sst (tmp ++ encode_rune v)) rest.
Proof. intros A B C D <-. apply r_u4; assumption. Qed.

Lemma high_plain b : 128 <= b2z b -> plainb b = true.
Proof.
  intro H. pose proof (sclass_of b) as C. unfold sclass_ok in C. apply andb_true_iff in C as [C _].
  apply Z.leb_le in H. rewrite H in C. apply andb_true_iff in C as [_ C]. unfold plainb. rewrite C. reflexivity.
Qed.
Lemma high_class8 b : 128 <= b2z b -> beqb (ojg_senMap b) x38 = true.
Proof.
  intro H. pose proof (sclass_of b) as C. unfold sclass_ok in C. apply andb_true_iff in C as [C _].
  apply Z.leb_le in H. rewrite H in C. apply andb_true_iff in C as [C _]. exact C.
Qed.

(* ---- the body of a quoted string is read back as the sanitized string *)
Lemma sen_body_run fuel : forall html first s tmp rest, (length s <= fuel)%nat ->
  rrun (sst tmp) (fst (sen_str_body fuel html first s) ++ rest) = rrun (sst (tmp ++ sanitize_utf8 fuel s)) rest.
Proof.
  induction fuel as [|f IH]; intros html first s tmp rest Hlen.
  - destruct s; [|simpl in Hlen; lia]. simpl. rewrite app_nil_r. reflexivity.
  - destruct s as [|b r]; [simpl; rewrite app_nil_r; reflexivity|].
    simpl in Hlen. assert (Hr : (length r <= f)%nat) by lia.
    pose proof (sclass_of b) as HC. unfold sclass_ok in HC. apply andb_true_iff in HC as [_ HC].
    cbn [sen_str_body sanitize_utf8].
    destruct (beqb (ojg_senMap b) x6f || beqb (ojg_senMap b) x30) eqn:Co.
    { apply andb_true_iff in HC as [Hp H4]. rewrite H4.
      specialize (IH html false r (tmp ++ [b]) rest Hr).
      destruct (sen_str_body f html false r) as [o q]. cbn [fst] in *.
      change ((b :: o) ++ rest) with (b :: (o ++ rest)). rewrite r_plain by exact Hp. rewrite IH, <- app_assoc. reflexivity. }
    destruct (beqb (ojg_senMap b) x78) eqn:Cx.
    { apply andb_true_iff in HC as [Hp H4]. rewrite H4.
      specialize (IH html false r (tmp ++ [b]) rest Hr).
      destruct (sen_str_body f html false r) as [o q]. cbn [fst] in *.
      change ((b :: o) ++ rest) with (b :: (o ++ rest)). rewrite r_plain by exact Hp. rewrite IH, <- app_assoc. reflexivity. }
    destruct (beqb (ojg_senMap b) x2e) eqn:Cd.
    { rewrite HC.
      specialize (IH html false r (tmp ++ [b]) rest Hr).
      destruct (sen_str_body f html false r) as [o q]. cbn [fst] in *.
      rewrite <- app_assoc. rewrite r_u00 by exact HC. rewrite IH, <- app_assoc. reflexivity. }
    destruct (beqb (ojg_senMap b) x68) eqn:Ch.
    { apply andb_true_iff in HC as [Hp H4]. rewrite H4.
      specialize (IH html false r (tmp ++ [b]) rest Hr).
      destruct (sen_str_body f html false r) as [o q]. cbn [fst] in *. destruct html; cbn [fst].
      - rewrite <- app_assoc. rewrite r_u00 by exact H4. rewrite IH, <- app_assoc. reflexivity.
      - change ((b :: o) ++ rest) with (b :: (o ++ rest)). rewrite r_plain by exact Hp. rewrite IH, <- app_assoc. reflexivity. }
    destruct (beqb (ojg_senMap b) x38) eqn:C8.
    { apply Z.leb_le in HC.
      destruct (b2z b <? 128) eqn:E128; [apply Z.ltb_lt in E128; lia|].
      pose proof (decode_high b r HC) as HD.
      destruct (decode_rune (b :: r)) as [rn w] eqn:ED.
      set (w' := match w with O => 1%nat | _ => w end).
      assert (Hw : (1 <= w' <= S (length r))%nat /\ (w <> 0%nat -> w' = w)).
      { unfold w'. destruct HD as [(_ & [->| ->] & Hl)|(_ & Hw2 & Hl & _)]; simpl in *; [lia|lia|]. destruct w; [lia|]. split; [simpl in *; lia | reflexivity]. }
      destruct Hw as [Hw1 Hw2].
      assert (Hsk : (length (skipn w' (b :: r)) <= f)%nat).
      { rewrite skipn_length. cbn [length]. lia. }
      destruct HD as [(Hrn & Hw & Hl)|(Hrn & Hw & Hl & Hhigh & H28 & H29)].
      - subst rn.
        pose proof (IH html false (skipn w' (b :: r)) (tmp ++ encode_rune rune_error) rest Hsk) as IH1.
        destruct (sen_str_body f html false (skipn w' (b :: r))) as [o q]. cbn [fst] in *.
        change (rune_error =? 8232) with false. change (rune_error =? 8233) with false. rewrite Z.eqb_refl. cbn [fst].
        rewrite <- app_assoc. rewrite (r_fixed tmp x66 x66 x66 x64 rune_error) by reflexivity.
        rewrite IH1, <- app_assoc. reflexivity.
      - assert (Ew : w' = w) by (apply Hw2; lia). rewrite Ew in *.
        destruct (rn =? rune_error) eqn:Er; [apply Z.eqb_eq in Er; contradiction|].
        assert (Hpl : Forall (fun b => plainb b = true) (firstn w (b :: r))).
        { eapply Forall_impl; [|exact Hhigh]. intros a Ha. apply high_plain. exact Ha. }
        destruct (rn =? 8232) eqn:E28.
        + apply Z.eqb_eq in E28. rewrite (H28 E28).
          pose proof (IH html false (skipn w (b :: r)) (tmp ++ encode_rune 8232) rest Hsk) as IH1.
          destruct (sen_str_body f html false (skipn w (b :: r))) as [o q]. cbn [fst] in *.
          rewrite <- app_assoc. rewrite (r_fixed tmp x32 x30 x32 x38 8232) by reflexivity.
          rewrite IH1, <- app_assoc. reflexivity.
        + destruct (rn =? 8233) eqn:E29.
          * apply Z.eqb_eq in E29. rewrite (H29 E29).
            pose proof (IH html false (skipn w (b :: r)) (tmp ++ encode_rune 8233) rest Hsk) as IH1.
            destruct (sen_str_body f html false (skipn w (b :: r))) as [o q]. cbn [fst] in *.
            rewrite <- app_assoc. rewrite (r_fixed tmp x32 x30 x32 x39 8233) by reflexivity.
            rewrite IH1, <- app_assoc. reflexivity.
          * pose proof (IH html false (skipn w (b :: r)) (tmp ++ firstn w (b :: r)) rest Hsk) as IH1.
            destruct (sen_str_body f html false (skipn w (b :: r))) as [o q]. cbn [fst] in *.
            destruct (rn =? 65279); cbn [fst]; rewrite <- app_assoc, (r_plain_list _ tmp _ Hpl), IH1, <- app_assoc; reflexivity. }
    { (* a two-character escape *)
      apply andb_true_iff in HC as [HC H4]. apply andb_true_iff in HC as [H1 H2]. rewrite H4.
      destruct (SenMaps.data_escByteMap (ojg_senMap b)) as [x|] eqn:Ex; [|discriminate H2]. apply beqb_eq in H2. subst x.
      specialize (IH html false r (tmp ++ [b]) rest Hr).
      destruct (sen_str_body f html false r) as [o q]. cbn [fst] in *.
      change ((x5c :: ojg_senMap b :: o) ++ rest) with (x5c :: ojg_senMap b :: (o ++ rest)).
      rewrite (r_esc tmp _ b _ H1 Ex). rewrite IH, <- app_assoc. reflexivity. }
Qed.

(* ---- the bare case: nothing forced quotes, so the text is the string itself, every byte is a
   bare-token byte and nothing was replaced *)
Lemma sen_body_bare fuel : forall html first s, (length s <= fuel)%nat ->
  snd (sen_str_body fuel html first s) = false ->
  fst (sen_str_body fuel html first s) = s /\ Forall (fun b => bare_class html b = true) s /\ sanitize_utf8 fuel s = s.
Proof.
  induction fuel as [|f IH]; intros html first s Hlen Hq.
  - destruct s; [|simpl in Hlen; lia]. simpl. auto.
  - destruct s as [|b r]; [simpl; auto|].
    simpl in Hlen. assert (Hr : (length r <= f)%nat) by lia.
    pose proof (sclass_of b) as HC. unfold sclass_ok in HC. apply andb_true_iff in HC as [_ HC].
    revert Hq. cbn [sen_str_body sanitize_utf8]. unfold bare_class.
    destruct (beqb (ojg_senMap b) x6f || beqb (ojg_senMap b) x30) eqn:Co.
    { apply andb_true_iff in HC as [Hp H4]. rewrite H4.
      specialize (IH html false r Hr). destruct (sen_str_body f html false r) as [o q]. cbn [fst snd] in *.
      intro Hq. destruct (IH Hq) as (E1 & E2 & E3). rewrite E1, E3. split; [reflexivity|]. split; [|reflexivity].
      constructor; [|exact E2]. apply orb_true_iff in Co as [Co|Co]; rewrite Co; [reflexivity|]. rewrite orb_true_r. reflexivity. }
    destruct (beqb (ojg_senMap b) x78) eqn:Cx.
    { destruct (sen_str_body f html false r) as [o q]. cbn [snd]. discriminate. }
    destruct (beqb (ojg_senMap b) x2e) eqn:Cd.
    { destruct (sen_str_body f html false r) as [o q]. cbn [snd]. discriminate. }
    destruct (beqb (ojg_senMap b) x68) eqn:Ch.
    { apply andb_true_iff in HC as [Hp H4]. rewrite H4.
      specialize (IH html false r Hr). destruct (sen_str_body f html false r) as [o q]. destruct html; cbn [fst snd] in *; [discriminate|].
      intro Hq. apply orb_false_iff in Hq as [Hq Hamp]. destruct (IH Hq) as (E1 & E2 & E3). rewrite E1, E3.
      split; [reflexivity|]. split; [|reflexivity]. constructor; [|exact E2].
      apply orb_false_iff in Co as [Co1 Co2]. rewrite Co1, Co2, Hamp, Ch. destruct (beqb (ojg_senMap b) x38); reflexivity. }
    destruct (beqb (ojg_senMap b) x38) eqn:C8.
    { apply Z.leb_le in HC.
      destruct (b2z b <? 128) eqn:E128; [apply Z.ltb_lt in E128; lia|].
      pose proof (decode_high b r HC) as HD.
      destruct (decode_rune (b :: r)) as [rn w] eqn:ED.
      set (w' := match w with O => 1%nat | _ => w end).
      assert (Hw : (1 <= w' <= S (length r))%nat /\ (w <> 0%nat -> w' = w)).
      { unfold w'. destruct HD as [(_ & [->| ->] & Hl)|(_ & Hw2 & Hl & _)]; simpl in *; [lia|lia|]. destruct w; [lia|]. split; [simpl in *; lia | reflexivity]. }
      destruct Hw as [Hw1 Hw2].
      assert (Hsk : (length (skipn w' (b :: r)) <= f)%nat).
      { rewrite skipn_length. cbn [length]. lia. }
      specialize (IH html false (skipn w' (b :: r)) Hsk).
      destruct (sen_str_body f html false (skipn w' (b :: r))) as [o q]. cbn [fst snd] in IH. cbn beta iota.
      destruct HD as [(Hrn & Hw & Hl)|(Hrn & Hw & Hl & Hhigh & H28 & H29)].
      - subst rn. change (rune_error =? 8232) with false. change (rune_error =? 8233) with false. rewrite Z.eqb_refl.
        cbn [snd]. discriminate.
      - assert (Ew : w' = w) by (apply Hw2; lia). rewrite Ew in *.
        destruct (rn =? rune_error) eqn:Er; [apply Z.eqb_eq in Er; contradiction|].
        destruct (rn =? 8232); [cbn [snd]; discriminate|].
        destruct (rn =? 8233); [cbn [snd]; discriminate|].
        assert (T : q = false -> firstn w (b :: r) ++ o = b :: r /\ Forall (fun b0 => bare_class html b0 = true) (b :: r) /\
                                  firstn w (b :: r) ++ sanitize_utf8 f (skipn w (b :: r)) = b :: r).
        { intro Hq. destruct (IH Hq) as (E1 & E2 & E3). rewrite E1, E3, firstn_skipn. split; [reflexivity|]. split; [|reflexivity].
          rewrite <- (firstn_skipn w (b :: r)). apply Forall_app. split; [|exact E2].
          eapply Forall_impl; [|exact Hhigh]. intros a Ha. unfold high in Ha. unfold bare_class. rewrite (high_class8 a Ha).
          rewrite !orb_true_r. reflexivity. }
        destruct (rn =? 65279); cbn [fst snd]; intro Hq; [apply orb_false_iff in Hq as [Hq _]|]; exact (T Hq). }
    { destruct (sen_str_body f html false r) as [o q]. cbn [snd]. discriminate. }
Qed.

(* ---- reading a bare token *)
Lemma r_token s : forall tmp q t rest,
  Forall (fun b => is_tok (SenMaps.tab_tokenMap b) = true) s ->
  tok_end (SenMaps.tab_tokenMap t) = true -> act_is (SenMaps.tab_tokenMap t) SenMaps.A_tokenOk = false ->
  rrun (mkRS RmToken tmp q 0 0) (s ++ t :: rest) = Some (Tok (tmp ++ s), t :: rest).
Proof.
  induction s as [|b s IH]; intros tmp q t rest Hs Ht Hn.
  - cbn [List.app rrun rs_mode rs_tmp rs_q]. rewrite Hn, Ht, app_nil_r. reflexivity.
  - inversion Hs as [|? ? Hb Hbs]; subst. cbn [List.app rrun rs_mode rs_tmp rs_q].
    unfold is_tok in Hb. unfold act_is at 1. rewrite Hb.
    rewrite (IH (tmp ++ [b]) q t rest Hbs Ht Hn), <- app_assoc. reflexivity.
Qed.

Definition tok_end_ok (b : byte) : bool :=
  negb (tok_end (SenMaps.tab_tokenMap b)) || negb (act_is (SenMaps.tab_tokenMap b) SenMaps.A_tokenOk).
Lemma tok_end_sweep : forallb tok_end_ok all_bytes = true.
Proof. vm_compute. reflexivity. Qed.
Lemma tok_end_not_ok t : tok_end (SenMaps.tab_tokenMap t) = true -> act_is (SenMaps.tab_tokenMap t) SenMaps.A_tokenOk = false.
Proof.
  intro H. pose proof tok_end_sweep as S. rewrite forallb_forall in S. specialize (S t (all_bytes_complete t)).
  unfold tok_end_ok in S. rewrite H in S. simpl in S. apply negb_true_iff in S. exact S.
Qed.

(* ---- the two theorems *)
Theorem sen_quoted_round_trip html s rest :
  sen_quoted html s = true ->
  sen_read (sen_string html s ++ rest) = Some (Str (sanitize s), rest).
Proof.
  intro Hq. unfold sen_string. destruct s as [|b0 s'].
  - reflexivity.
  - rewrite Hq. set (s := b0 :: s').
    change ((x22 :: fst (sen_str_body (length s) html true s) ++ [x22]) ++ rest)
      with (x22 :: ((fst (sen_str_body (length s) html true s) ++ [x22]) ++ rest)).
    rewrite <- app_assoc. unfold sen_read, rinit. cbn [rrun rs_mode].
    change (act_is (SenMaps.tab_valueMap x22) SenMaps.A_skipChar) with false.
    change (act_is (SenMaps.tab_valueMap x22) SenMaps.A_valQuote) with true.
    cbn iota. change (mkRS RmString [] x22 0 0) with (sst []).
    rewrite (sen_body_run (length s) html true s [] _ (le_n _)).
    cbn [List.app rrun rs_mode sst rs_tmp rs_q].
    change (act_is (SenMaps.tab_stringMap x22) SenMaps.A_strOk) with false.
    change (act_is (SenMaps.tab_stringMap x22) SenMaps.A_strQuote) with true.
    cbn iota. reflexivity.
Qed.

Theorem sen_bare_round_trip html b0 s' t rest :
  let s := b0 :: s' in
  sen_quoted html s = false -> b0 <> x2d -> b0 <> x2b ->
  tok_end (SenMaps.tab_tokenMap t) = true ->
  sen_string html s = s /\ sanitize s = s /\
  sen_read (sen_string html s ++ t :: rest) = Some (Tok s, t :: rest).
Proof.
  intros s Hq Hm Hp Ht.
  assert (Hq' := Hq). unfold sen_quoted, s in Hq'. fold s in Hq'.
  apply orb_false_iff in Hq' as [Hq' Hbody]. apply orb_false_iff in Hq' as [_ Hfirst]. apply negb_false_iff in Hfirst.
  destruct (sen_body_bare (length s) html true s (le_n _) Hbody) as (E1 & E2 & E3).
  assert (Es : sen_string html s = s).
  { unfold sen_string, s. fold s. rewrite Hq. exact E1. }
  split; [exact Es|]. split; [exact E3|]. rewrite Es.
  assert (Hbf : bare_first html b0 = true).
  { unfold bare_first. unfold sen_first_ok in Hfirst. inversion E2 as [|? ? Hb0 _]; subst. unfold bare_class in Hb0.
    apply orb_true_iff in Hfirst as [Hfirst|Hfirst].
    - rewrite Hfirst. reflexivity.
    - apply andb_true_iff in Hfirst as [Hh Hc]. apply beqb_eq in Hc. rewrite Hc in Hb0 |- *.
      change (beqb x68 x6f) with false in *. change (beqb x68 x30) with false in *. change (beqb x68 x38) with false in *.
      exact Hb0. }
  pose proof (bare_first_starts_token html b0 Hbf Hm Hp) as Hst. unfold is_start in Hst.
  unfold sen_read, rinit, s. cbn [List.app rrun rs_mode rs_q].
  assert (Hns : act_is (SenMaps.tab_valueMap b0) SenMaps.A_skipChar = false /\ act_is (SenMaps.tab_valueMap b0) SenMaps.A_valQuote = false).
  { unfold act_is. apply N.eqb_eq in Hst. rewrite Hst. split; reflexivity. }
  destruct Hns as [Hn1 Hn2]. rewrite Hn1, Hn2. unfold act_is at 1. rewrite Hst.
  inversion E2 as [|? ? Hb0 Hrest]; subst.
  rewrite (r_token s' [b0] x00 t rest).
  - reflexivity.
  - eapply Forall_impl; [|exact Hrest]. intros a Ha. exact (bare_byte_is_token_byte html a Ha).
  - exact Ht.
  - exact (tok_end_not_ok t Ht).
Qed.

(* ---- one statement: a string that does not start with a sign comes back as itself (sanitized);
   as a key always, as a value unless it is spelled like a reserved word *)
Definition key_of (o : rout) : bytes := match o with Tok s => s | Str s => s end.
Inductive sval : Set := SvNull | SvBool (b : bool) | SvStr (s : bytes).
Definition val_of (o : rout) : sval :=
  match o with
  | Str s => SvStr s
  | Tok s => if bytes_eqb s w_null then SvNull else if bytes_eqb s w_true then SvBool true
             else if bytes_eqb s w_false then SvBool false else SvStr s
  end.
Definition sign_leading (s : bytes) : bool := match s with b :: _ => beqb b x2d || beqb b x2b | [] => false end.

Lemma val_of_tok s : reserved s = false -> val_of (Tok s) = SvStr s.
Proof.
  unfold reserved, val_of. intro H. apply orb_false_iff in H as [H H3]. apply orb_false_iff in H as [H1 H2].
  rewrite H1, H2, H3. reflexivity.
Qed.

Theorem sen_string_round_trip html s t rest :
  tok_end (SenMaps.tab_tokenMap t) = true ->
  sen_quoted html s = true \/ sign_leading s = false ->
  exists o, sen_read (sen_string html s ++ t :: rest) = Some (o, t :: rest) /\
            key_of o = sanitize s /\
            (sen_quoted html s = true \/ reserved s = false -> val_of o = SvStr (sanitize s)).
Proof.
  intros Ht Hs. destruct (sen_quoted html s) eqn:Hq.
  - exists (Str (sanitize s)). split; [apply sen_quoted_round_trip; exact Hq|]. split; [reflexivity|]. intros _. reflexivity.
  - destruct Hs as [Hs|Hs]; [discriminate|].
    destruct s as [|b0 s']; [discriminate Hq|].
    assert (Hm : b0 <> x2d) by (intro E; subst b0; discriminate Hs).
    assert (Hp : b0 <> x2b) by (intro E; subst b0; discriminate Hs).
    destruct (sen_bare_round_trip html b0 s' t rest Hq Hm Hp Ht) as (E1 & E2 & E3).
    exists (Tok (b0 :: s')). split; [exact E3|]. split; [symmetry; exact E2|].
    intros [H|H]; [discriminate|]. rewrite E2. apply val_of_tok. exact H.
Qed.

(* ---- white space before the value (indentation, the blank after a colon) is skipped *)
Definition skipb (b : byte) : bool := act_is (SenMaps.tab_valueMap b) SenMaps.A_skipChar.
Lemma sen_read_skip ws : forall w, Forall (fun b => skipb b = true) ws -> sen_read (ws ++ w) = sen_read w.
Proof.
  induction ws as [|b ws IH]; intros w H; [reflexivity|].
  inversion H as [|? ? Hb Hws]; subst. unfold sen_read, rinit in *. cbn [List.app rrun rs_mode].
  unfold skipb in Hb. rewrite Hb. apply IH. exact Hws.
Qed.

Theorem sen_string_round_trip_ws html s ws t rest :
  Forall (fun b => skipb b = true) ws ->
  tok_end (SenMaps.tab_tokenMap t) = true ->
  sen_quoted html s = true \/ sign_leading s = false ->
  exists o, sen_read (ws ++ sen_string html s ++ t :: rest) = Some (o, t :: rest) /\
            key_of o = sanitize s /\
            (sen_quoted html s = true \/ reserved s = false -> val_of o = SvStr (sanitize s)).
Proof. intros Hws Ht Hs. rewrite (sen_read_skip ws _ Hws). apply sen_string_round_trip; assumption. Qed.

Example skipb_space_tab : skipb x20 = true /\ skipb x09 = true /\ skipb x0d = true /\ skipb x2c = true.
Proof. vm_compute. repeat split; reflexivity. Qed.

(* ---- arrays of strings *)
Definition elem_ok (html : bool) (s : bytes) : Prop := sen_quoted html s = true \/ sign_leading s = false.
Definition elem_out (html : bool) (s : bytes) : rout := if sen_quoted html s then Str (sanitize s) else Tok s.

Lemma elem_read html s t rest : elem_ok html s -> tok_end (SenMaps.tab_tokenMap t) = true ->
  sen_read (sen_string html s ++ t :: rest) = Some (elem_out html s, t :: rest).
Proof.
  intros Hs Ht. unfold elem_out. destruct (sen_quoted html s) eqn:Hq.
  - apply sen_quoted_round_trip. exact Hq.
  - destruct Hs as [Hs|Hs]; [rewrite Hq in Hs; discriminate|]. destruct s as [|b0 s']; [discriminate Hq|].
    assert (Hm : b0 <> x2d) by (intro E; subst b0; discriminate Hs).
    assert (Hp : b0 <> x2b) by (intro E; subst b0; discriminate Hs).
    destruct (sen_bare_round_trip html b0 s' t rest Hq Hm Hp Ht) as (_ & _ & E3). exact E3.
Qed.

(* the first byte of a written string neither is white space nor closes an array *)
Lemma elem_first html s : elem_ok html s ->
  exists b r, sen_string html s = b :: r /\
    act_is (SenMaps.tab_valueMap b) SenMaps.A_skipChar = false /\
    act_is (SenMaps.tab_valueMap b) SenMaps.A_closeArray = false.
Proof.
  intro Hs. destruct (sen_quoted html s) eqn:Hq.
  - unfold sen_string. destruct s as [|b0 s']; [exists x22, [x22]; repeat split; reflexivity|].
    rewrite Hq. eexists; eexists. split; [reflexivity|]. split; reflexivity.
  - destruct Hs as [Hs|Hs]; [rewrite Hq in Hs; discriminate|]. destruct s as [|b0 s']; [discriminate Hq|].
    assert (Hm : b0 <> x2d) by (intro E; subst b0; discriminate Hs).
    assert (Hp : b0 <> x2b) by (intro E; subst b0; discriminate Hs).
    destruct (sen_bare_round_trip html b0 s' x20 [] Hq Hm Hp eq_refl) as (E1 & _ & _). rewrite E1.
    assert (Hq' := Hq). unfold sen_quoted in Hq'.
    apply orb_false_iff in Hq' as [Hq' Hbody]. apply orb_false_iff in Hq' as [_ Hfirst]. apply negb_false_iff in Hfirst.
    destruct (sen_body_bare (length (b0 :: s')) html true (b0 :: s') (le_n _) Hbody) as (_ & E2 & _).
    pose proof (Forall_inv E2) as Hb0. cbn beta in Hb0.
    assert (Hbf : bare_first html b0 = true).
    { unfold bare_first. unfold sen_first_ok in Hfirst. unfold bare_class in Hb0.
      apply orb_true_iff in Hfirst as [Hfirst|Hfirst].
      - rewrite Hfirst. reflexivity.
      - apply andb_true_iff in Hfirst as [Hh Hc]. apply beqb_eq in Hc. rewrite Hc in Hb0 |- *.
        change (beqb x68 x6f) with false in *. change (beqb x68 x30) with false in *. change (beqb x68 x38) with false in *.
        exact Hb0. }
    pose proof (bare_first_starts_token html b0 Hbf Hm Hp) as Hst. unfold is_start in Hst. apply N.eqb_eq in Hst.
    exists b0, s'. split; [reflexivity|]. unfold act_is. rewrite Hst. split; reflexivity.
Qed.

Lemma skip_ws_elem html s rest : elem_ok html s -> skip_ws (sen_string html s ++ rest) = sen_string html s ++ rest.
Proof.
  intro Hs. destruct (elem_first html s Hs) as (b & r & E & N1 & _). rewrite E. cbn [List.app skip_ws]. rewrite N1. reflexivity.
Qed.

Lemma read_elems_printed html xs : forall fuel rest, xs <> [] -> Forall (elem_ok html) xs -> (length xs < fuel)%nat ->
  read_elems fuel (sen_elems html xs ++ x5d :: rest) = Some (map (elem_out html) xs, rest).
Proof.
  induction xs as [|x xs IH]; intros fuel rest Hne Hok Hf; [contradiction|].
  destruct fuel as [|fuel]; [simpl in Hf; lia|]. simpl in Hf.
  pose proof (Forall_inv Hok) as Hx. pose proof (Forall_inv_tail Hok) as Hxs.
  destruct (elem_first html x Hx) as (b & r & E & N1 & N2).
  destruct xs as [|y ys].
  - cbn [sen_elems map read_elems]. rewrite (skip_ws_elem html x _ Hx). rewrite E. cbn [List.app]. rewrite N2.
    change (b :: r ++ x5d :: rest) with ((b :: r) ++ x5d :: rest). rewrite <- E.
    pose proof (elem_read html x x5d rest Hx eq_refl) as HR. unfold sen_read in HR. rewrite HR.
    destruct fuel as [|fuel]; [lia|]. cbn [read_elems skip_ws].
    change (act_is (SenMaps.tab_valueMap x5d) SenMaps.A_skipChar) with false. cbn iota.
    change (act_is (SenMaps.tab_valueMap x5d) SenMaps.A_closeArray) with true. cbn iota. reflexivity.
  - change (sen_elems html (x :: y :: ys)) with (sen_string html x ++ x20 :: sen_elems html (y :: ys)).
    rewrite <- app_assoc. cbn [List.app map read_elems]. rewrite (skip_ws_elem html x _ Hx). rewrite E. cbn [List.app]. rewrite N2.
    change (b :: r ++ x20 :: sen_elems html (y :: ys) ++ x5d :: rest) with ((b :: r) ++ x20 :: (sen_elems html (y :: ys) ++ x5d :: rest)). rewrite <- E.
    pose proof (elem_read html x x20 (sen_elems html (y :: ys) ++ x5d :: rest) Hx eq_refl) as HR. unfold sen_read in HR. rewrite HR.
    assert (Hsk : read_elems fuel (x20 :: sen_elems html (y :: ys) ++ x5d :: rest) = read_elems fuel (sen_elems html (y :: ys) ++ x5d :: rest)).
    { destruct fuel as [|f2]; [reflexivity|]. cbn [read_elems skip_ws].
      change (act_is (SenMaps.tab_valueMap x20) SenMaps.A_skipChar) with true. cbn iota. reflexivity. }
    rewrite Hsk. rewrite (IH fuel rest ltac:(discriminate) Hxs ltac:(simpl in *; lia)). reflexivity.
Qed.

Lemma sen_elems_length html xs : Forall (elem_ok html) xs -> (length xs <= length (sen_elems html xs))%nat.
Proof.
  induction xs as [|x xs IH]; intro H; [simpl; lia|].
  pose proof (Forall_inv H) as Hx. pose proof (Forall_inv_tail H) as Hxs. specialize (IH Hxs).
  destruct (elem_first html x Hx) as (b & r & E & _ & _).
  destruct xs as [|y ys]; [cbn [sen_elems length]; rewrite E; simpl; lia|].
  change (sen_elems html (x :: y :: ys)) with (sen_string html x ++ x20 :: sen_elems html (y :: ys)).
  rewrite app_length, E. cbn [length] in *. lia.
Qed.

Theorem sen_array_round_trip html xs rest : Forall (elem_ok html) xs ->
  read_array (sen_array html xs ++ rest) = Some (map (elem_out html) xs, rest).
Proof.
  intro Hok. unfold sen_array. destruct xs as [|x xs]; [reflexivity|].
  set (l := x :: xs) in *. cbn [List.app read_array].
  change (act_is (SenMaps.tab_valueMap x5b) SenMaps.A_openArray) with true. cbn iota.
  rewrite <- app_assoc. cbn [List.app].
  apply read_elems_printed; [discriminate|exact Hok|].
  rewrite app_length. pose proof (sen_elems_length html l Hok). cbn [length]. lia.
Qed.

(* ---- objects of strings *)
Lemma elem_first_obj html s : elem_ok html s ->
  exists b r, sen_string html s = b :: r /\
    act_is (SenMaps.tab_valueMap b) SenMaps.A_closeObject = false.
Proof.
  intro Hs. destruct (sen_quoted html s) eqn:Hq.
  - unfold sen_string. destruct s as [|b0 s']; [exists x22, [x22]; split; reflexivity|].
    rewrite Hq. eexists; eexists. split; reflexivity.
  - destruct Hs as [Hs|Hs]; [rewrite Hq in Hs; discriminate|]. destruct s as [|b0 s']; [discriminate Hq|].
    assert (Hm : b0 <> x2d) by (intro E; subst b0; discriminate Hs).
    assert (Hp : b0 <> x2b) by (intro E; subst b0; discriminate Hs).
    destruct (sen_bare_round_trip html b0 s' x20 [] Hq Hm Hp eq_refl) as (E1 & _ & _). rewrite E1.
    destruct (elem_first html (b0 :: s') (or_intror Hs)) as (b & r & E & _ & _).
    rewrite E1 in E. inversion E; subst b r.
    (* the first byte starts a token *)
    assert (Hq' := Hq). unfold sen_quoted in Hq'.
    apply orb_false_iff in Hq' as [Hq' Hbody]. apply orb_false_iff in Hq' as [_ Hfirst]. apply negb_false_iff in Hfirst.
    destruct (sen_body_bare (length (b0 :: s')) html true (b0 :: s') (le_n _) Hbody) as (_ & E2 & _).
    pose proof (Forall_inv E2) as Hb0. cbn beta in Hb0.
    assert (Hbf : bare_first html b0 = true).
    { unfold bare_first. unfold sen_first_ok in Hfirst. unfold bare_class in Hb0.
      apply orb_true_iff in Hfirst as [Hfirst|Hfirst].
      - rewrite Hfirst. reflexivity.
      - apply andb_true_iff in Hfirst as [Hh Hc]. apply beqb_eq in Hc. rewrite Hc in Hb0 |- *.
        change (beqb x68 x6f) with false in *. change (beqb x68 x30) with false in *. change (beqb x68 x38) with false in *.
        exact Hb0. }
    pose proof (bare_first_starts_token html b0 Hbf Hm Hp) as Hst. unfold is_start in Hst. apply N.eqb_eq in Hst.
    exists b0, s'. split; [reflexivity|]. unfold act_is. rewrite Hst. reflexivity.
Qed.

Lemma after_key_colon html k rest : after_key (elem_out html k) (x3a :: rest) = Some rest.
Proof. unfold elem_out. destruct (sen_quoted html k); reflexivity. Qed.

Definition member_out (html : bool) (kv : bytes * bytes) : bytes * rout :=
  (rout_bytes (elem_out html (fst kv)), elem_out html (snd kv)).
Definition member_ok (html : bool) (kv : bytes * bytes) : Prop := elem_ok html (fst kv) /\ elem_ok html (snd kv).

(* one member followed by the terminator t (a blank or the closing brace) *)
Lemma read_member_text html k v t rest : elem_ok html k -> elem_ok html v -> tok_end (SenMaps.tab_tokenMap t) = true ->
  exists b r, sen_string html k ++ x3a :: sen_string html v ++ t :: rest = b :: r /\
    skip_ws (b :: r) = b :: r /\ act_is (SenMaps.tab_valueMap b) SenMaps.A_closeObject = false /\
    rrun rinit (b :: r) = Some (elem_out html k, x3a :: sen_string html v ++ t :: rest) /\
    rrun rinit (sen_string html v ++ t :: rest) = Some (elem_out html v, t :: rest).
Proof.
  intros Hk Hv Ht. destruct (elem_first_obj html k Hk) as (b & r & E & N2).
  exists b, (r ++ x3a :: sen_string html v ++ t :: rest). rewrite E. split; [reflexivity|].
  split.
  - pose proof (skip_ws_elem html k (x3a :: sen_string html v ++ t :: rest) Hk) as S. rewrite E in S. exact S.
  - split; [exact N2|]. split.
    + pose proof (elem_read html k x3a (sen_string html v ++ t :: rest) Hk eq_refl) as HR. unfold sen_read in HR. rewrite E in HR. exact HR.
    + exact (elem_read html v t rest Hv Ht).
Qed.

Lemma read_members_printed html ms : forall fuel rest, ms <> [] -> Forall (member_ok html) ms -> (length ms < fuel)%nat ->
  read_members fuel (sen_members html ms ++ x7d :: rest) = Some (map (member_out html) ms, rest).
Proof.
  induction ms as [|[k v] ms IH]; intros fuel rest Hne Hok Hf; [contradiction|].
  destruct fuel as [|fuel]; [simpl in Hf; lia|]. simpl in Hf.
  pose proof (Forall_inv Hok) as [Hk Hv]. pose proof (Forall_inv_tail Hok) as Hms. cbn [fst snd] in Hk, Hv.
  destruct ms as [|[k2 v2] ms2].
  - cbn [sen_members map]. rewrite <- ?app_assoc. cbn [List.app]. rewrite <- ?app_assoc. cbn [List.app].
    destruct (read_member_text html k v x7d rest Hk Hv eq_refl) as (b & r & E & S & N2 & RK & RV).
    rewrite E. cbn [read_members]. rewrite S, N2, RK. rewrite after_key_colon. rewrite RV.
    destruct fuel as [|fuel]; [lia|]. cbn [read_members skip_ws].
    change (act_is (SenMaps.tab_valueMap x7d) SenMaps.A_skipChar) with false. cbn iota.
    change (act_is (SenMaps.tab_valueMap x7d) SenMaps.A_closeObject) with true. cbn iota. reflexivity.
  - change (sen_members html ((k, v) :: (k2, v2) :: ms2)) with
      (sen_string html k ++ x3a :: sen_string html v ++ x20 :: sen_members html ((k2, v2) :: ms2)).
    rewrite <- ?app_assoc. cbn [List.app]. rewrite <- ?app_assoc. cbn [List.app map].
    destruct (read_member_text html k v x20 (sen_members html ((k2, v2) :: ms2) ++ x7d :: rest) Hk Hv eq_refl) as (b & r & E & S & N2 & RK & RV).
    rewrite E. cbn [read_members]. rewrite S, N2, RK. rewrite after_key_colon. rewrite RV.
    assert (Hsk : read_members fuel (x20 :: sen_members html ((k2, v2) :: ms2) ++ x7d :: rest) =
                  read_members fuel (sen_members html ((k2, v2) :: ms2) ++ x7d :: rest)).
    { destruct fuel as [|f2]; [reflexivity|]. cbn [read_members skip_ws].
      change (act_is (SenMaps.tab_valueMap x20) SenMaps.A_skipChar) with true. cbn iota. reflexivity. }
    rewrite Hsk. rewrite (IH fuel rest ltac:(discriminate) Hms ltac:(simpl in *; lia)). reflexivity.
Qed.

Lemma sen_members_length html ms : (length ms <= length (sen_members html ms))%nat.
Proof.
  induction ms as [|[k v] ms IH]; [simpl; lia|]. destruct ms as [|[k2 v2] ms2].
  - cbn [sen_members length]. rewrite app_length. cbn [length]. lia.
  - change (sen_members html ((k, v) :: (k2, v2) :: ms2)) with
      (sen_string html k ++ x3a :: sen_string html v ++ x20 :: sen_members html ((k2, v2) :: ms2)).
    rewrite app_length. cbn [length]. rewrite app_length. cbn [length] in *. lia.
Qed.

Theorem sen_object_round_trip html ms rest : Forall (member_ok html) ms ->
  read_object (sen_object html ms ++ rest) = Some (map (member_out html) ms, rest).
Proof.
  intro Hok. unfold sen_object. destruct ms as [|m ms]; [reflexivity|].
  set (l := m :: ms) in *. cbn [List.app read_object].
  change (act_is (SenMaps.tab_valueMap x7b) SenMaps.A_openObject) with true. cbn iota.
  rewrite <- app_assoc. cbn [List.app].
  apply read_members_printed; [discriminate|exact Hok|].
  rewrite app_length. pose proof (sen_members_length html l). cbn [length]. lia.
Qed.
