(* C20: assembly plans. An executable model of the evaluator of package asm for the functions
   whose result is determined by JSON-like values with int64 arithmetic: asm, set, setall, del,
   delall, get, getall, + - * / mod on integers and strings, == != < <= > >=, and, or, not, cond,
   list, quote, nth, size, reverse, append, include, the type predicates, int, each.
   The model is value-based. The implementation stores evaluated values without copying them,
   so a container that is reachable twice can be changed through either name; the model tracks
   when that can matter ([taint]) and then abstains (OSkip), as it does for float arithmetic,
   for paths it cannot update functionally and for @-updates on data of unknown origin. *)
From Coq Require Import Init.Byte NArith ZArith List Bool Lia.
Require Import Ojg.Base.Bytes Ojg.Base.Jv Ojg.Jp.Expr Ojg.Jp.GetFacts Ojg.Jp.Locate Ojg.Alt.Convert.
Import ListNotations.
Open Scope Z_scope.

Inductive fname : Set :=
  | FnAsm | FnSet | FnSetall | FnDel | FnDelall | FnGet | FnGetall
  | FnSum | FnDif | FnProduct | FnQuotient | FnMod
  | FnEq | FnNeq | FnLt | FnLte | FnGt | FnGte | FnAnd | FnOr | FnNot | FnCond
  | FnList | FnQuote | FnNth | FnSize | FnReverse | FnAppend | FnInclude
  | FnIsArray | FnIsBool | FnIsMap | FnIsNull | FnIsNum | FnIsString | FnInt | FnEach.

Inductive arg : Set :=
  | ALit (v : jv)
  | APath (x : expr)                       (* starts with FRoot or FAt *)
  | ACall (f : fname) (args : list arg).

Inductive atv : Set :=
  | AtRoot                                 (* the local value is the root map itself *)
  | AtLocal (v : jv)                       (* the map made by each for one element *)
  | AtDet (v : jv).                        (* some value; where it lives is not tracked *)

Record st : Set := mkSt { s_root : jv; s_at : atv; s_taint : bool }.

Inductive out : Set :=
  | OVal (s : st) (v : jv) (al : bool)     (* al: the value may share storage with the root, the plan or a local map *)
  | OErr                                   (* Execute returns an error *)
  | OSkip.                                 (* outside the model *)

Definition at_value (s : st) : jv :=
  match s_at s with AtRoot => s_root s | AtLocal v => v | AtDet v => v end.

Definition is_container (v : jv) : bool := match v with JArr _ | JObj _ => true | _ => false end.
Fixpoint has_inner_container (v : jv) : bool :=
  match v with
  | JArr l => existsb is_container l
  | JObj m => existsb (fun kv => is_container (snd kv)) m
  | _ => false
  end.

Definition is_at (x : expr) : bool := match x with FAt :: _ => true | _ => false end.

Fixpoint keys_of (x : list frag) : option (list bytes) :=
  match x with
  | [] => Some []
  | FChild k :: r => match keys_of r with Some ks => Some (k :: ks) | None => None end
  | _ => None
  end.

(* jp SetOne / Set on a path of member names: missing members are created as objects, an array
   on the way is skipped silently, null or a scalar on the way is an error *)
Inductive upres : Set := UOk (v : jv) | UErr.
Fixpoint set_keys (ks : list bytes) (v : jv) (d : jv) : upres :=
  match ks with
  | [] => UErr
  | [k] => match d with
           | JObj m => UOk (JObj (map_set k v m))
           | JArr _ => UOk d
           | _ => UErr
           end
  | k :: ks' =>
      match d with
      | JObj m =>
          match map_get k m with
          | Some c => match set_keys ks' v c with UOk c' => UOk (JObj (map_set k c' m)) | UErr => UErr end
          | None => match set_keys ks' v (JObj []) with UOk c' => UOk (JObj (map_set k c' m)) | UErr => UErr end
          end
      | JArr _ => UOk d
      | _ => UErr
      end
  end.

Fixpoint del_keys (ks : list bytes) (d : jv) : upres :=
  match ks with
  | [] => UErr
  | [k] => match d with
           | JObj m => UOk (JObj (map_del k m))
           | JArr _ => UOk d
           | _ => UErr
           end
  | k :: ks' =>
      match d with
      | JObj m =>
          match map_get k m with
          | Some c => match del_keys ks' c with UOk c' => UOk (JObj (map_set k c' m)) | UErr => UErr end
          | None => UOk d
          end
      | JArr _ => UOk d
      | _ => UErr
      end
  end.

Definition jbool (b : bool) : jv := JBool b.
Definition in_i64 (z : Z) : bool := (- 2^63 <=? z) && (z <? 2^63).
Definition exact_f64 (z : Z) : bool := (- 2^53 <=? z) && (z <=? 2^53).

(* values that are equal for == (equalVals): numbers by value, containers member-wise;
   None: floats are involved *)
Fixpoint equal_vals (a b : jv) {struct a} : option bool :=
  match a, b with
  | JNull, JNull => Some true
  | JNull, _ => Some false
  | JBool x, JBool y => Some (Bool.eqb x y)
  | JBool _, _ => Some false
  | JInt x, JInt y => Some (x =? y)
  | JInt _, JFloat _ => None
  | JInt _, _ => Some false
  | JFloat x, JFloat y => if bytes_eqb x y then Some true else None
  | JFloat _, JInt _ => None
  | JFloat _, _ => Some false
  | JStr x, JStr y => Some (bytes_eqb x y)
  | JStr _, _ => Some false
  | JBig _, _ => Some false              (* json.Number is not a kind equalVals knows *)
  | JArr x, JArr y =>
      (fix go (x y : list jv) : option bool :=
         match x, y with
         | [], [] => Some true
         | p :: x', q :: y' =>
             if negb (Nat.eqb (length x') (length y')) then Some false
             else match equal_vals p q with
                  | Some true => go x' y'
                  | r => r
                  end
         | _, _ => Some false
         end) x y
  | JArr _, _ => Some false
  | JObj x, JObj y =>
      if negb (Nat.eqb (length x) (length y)) then Some false
      else (fix go (x : list (bytes * jv)) : option bool :=
              match x with
              | [] => Some true
              | (k, p) :: x' =>
                  match map_get k y with
                  | None => Some false
                  | Some q => match equal_vals p q with
                              | Some true => go x'
                              | Some false => Some false
                              | None => None
                              end
                  end
              end) x
  | JObj _, _ => Some false
  end.

Inductive num3 : Set := NInt (z : Z) | NStr (s : bytes).

(* the order tests: the first argument is the reference kind *)
Definition cmp_chain (strict_fail : Z -> Z -> bool) (sfail : bytes -> bytes -> bool) (first : jv) (rest : list jv) : option (option bool) :=
  (* outer None: skip; inner None: error *)
  match first with
  | JInt z0 =>
      (fix go (z0 : Z) (l : list jv) : option (option bool) :=
         match l with
         | [] => Some (Some true)
         | JInt z :: l' => if exact_f64 z0 && exact_f64 z then
                             if strict_fail z0 z then Some (Some false) else go z l'
                           else None
         | JFloat _ :: _ => None
         | _ :: _ => Some None
         end) z0 rest
  | JFloat _ => None
  | JStr s0 =>
      (fix go (s0 : bytes) (l : list jv) : option (option bool) :=
         match l with
         | [] => Some (Some true)
         | v :: l' => let s := match v with JStr s => s | _ => [] end in
                      if sfail s0 s then Some (Some false) else go s l'
         end) s0 rest
  | _ => Some None
  end.

Definition bytes_leb (a b : bytes) : bool := bytes_ltb a b || bytes_eqb a b.

Definition fmt_int (z : Z) : bytes := format_int z.



Definition ret (s : st) (v : jv) : out := OVal s v false.

(* integer arithmetic folds; strings join in sum *)
Definition sum_vals (vs : list jv) : option (option jv) :=
  (fix go (acc : num3) (first : bool) (l : list jv) : option (option jv) :=
     match l with
     | [] => Some (Some (match acc with NInt z => JInt z | NStr s => JStr s end))
     | JInt z :: l' =>
         match acc with
         | NInt a => go (NInt (wrap64 (a + z))) false l'
         | NStr s => go (NStr (s ++ fmt_int z)) false l'
         end
     | JStr t :: l' =>
         match acc with
         | NInt a => if first then go (NStr t) false l' else go (NStr (fmt_int a ++ t)) false l'
         | NStr s => go (NStr (s ++ t)) false l'
         end
     | JFloat _ :: _ => None
     | _ :: _ => Some None
     end) (NInt 0) true vs.

Definition fold_ints (op : Z -> Z -> option Z) (vs : list jv) : option (option jv) :=
  (fix go (acc : Z) (first : bool) (l : list jv) : option (option jv) :=
     match l with
     | [] => Some (Some (JInt acc))
     | JInt z :: l' => if first then go z false l'
                       else match op acc z with Some r => go (wrap64 r) false l' | None => Some None end
     | JFloat _ :: _ => None
     | _ :: _ => Some None
     end) 0 true vs.

Definition type_pred (f : fname) (v : jv) : bool :=
  match f, v with
  | FnIsArray, JArr _ => true
  | FnIsBool, JBool _ => true
  | FnIsMap, JObj _ => true
  | FnIsNull, JNull => true
  | FnIsNum, JInt _ => true
  | FnIsNum, JFloat _ => true
  | FnIsString, JStr _ => true
  | _, _ => false
  end.

(* include on a list: membership by the package's deep equality (equalVals);
   None: a comparison involves floats and is left undecided *)
Definition include_list (l : list jv) (v : jv) : option (option bool) :=
  (fix go (l : list jv) : option (option bool) :=
     match l with
     | [] => Some (Some false)
     | m :: l' =>
         match equal_vals m v with
         | Some true => Some (Some true)
         | Some false => go l'
         | None => None
         end
     end) l.

Fixpoint is_sub (needle hay : bytes) : bool :=
  match hay with
  | [] => match needle with [] => true | _ => false end
  | _ :: hay' => (bytes_eqb (firstn (length needle) hay) needle) || is_sub needle hay'
  end.

(* does [v] contain (or is it) a container equal to [anc]? Storing a shared container below
   itself makes the data cyclic; the value model cannot express that *)
Fixpoint deep_has (anc : jv) (v : jv) {struct v} : bool :=
  match v with
  | JArr l => jv_eqb (canon anc) (canon v) || existsb (deep_has anc) l
  | JObj m => jv_eqb (canon anc) (canon v) ||
              (fix go (m : list (bytes * jv)) : bool :=
                 match m with [] => false | (_, x) :: m' => deep_has anc x || go m' end) m
  | _ => false
  end.

Fixpoint may_cycle (ks : list bytes) (d : jv) (v : jv) : bool :=
  (is_container d && deep_has d v) ||
  match ks, d with
  | k :: ks', JObj m => match map_get k m with Some c => may_cycle ks' c v | None => false end
  | _, _ => false
  end.

Definition store_taint (s : st) (al : bool) : bool := s_taint s || al.

(* set / del on a path of member names in the root or in the local value *)
Definition update_at (s : st) (x : expr) (f : jv -> upres) : out :=
  if s_taint s then OSkip else
  match x with
  | FRoot :: r =>
      match keys_of r with
      | Some ks => match f (s_root s) with
                   | UOk root' => OVal (mkSt root' (s_at s) (s_taint s)) (at_value (mkSt root' (s_at s) (s_taint s))) true
                   | UErr => OErr
                   end
      | None => OSkip
      end
  | FAt :: r =>
      match keys_of r, s_at s with
      | Some ks, AtRoot => match f (s_root s) with
                           | UOk root' => OVal (mkSt root' AtRoot (s_taint s)) root' true
                           | UErr => OErr
                           end
      | Some [k], AtLocal v => match f v with
                               | UOk v' => OVal (mkSt (s_root s) (AtLocal v') (s_taint s)) v' true
                               | UErr => OErr
                               end
      | _, _ => OSkip
      end
  | _ => OSkip
  end.

Definition path_keys (x : expr) : option (list bytes) :=
  match x with FRoot :: r | FAt :: r => keys_of r | _ => None end.

Fixpoint eval (s : st) (a : arg) {struct a} : out :=
  match a with
  | ALit v => OVal s v (is_container v)
  | APath x =>
      let d := if is_at x then at_value s else s_root s in
      match x with
      | [] => OVal s JNull false
      | _ => match first_spec x d with
             | Some v => OVal s v (is_container v)
             | None => OVal s JNull false
             end
      end
  | ACall f args =>
      let evs := fix evs (s : st) (l : list arg) : option (option (st * list (jv * bool))) :=
        match l with
        | [] => Some (Some (s, []))
        | a :: l' =>
            match eval s a with
            | OSkip => None
            | OErr => Some None
            | OVal s' v al =>
                match evs s' l' with
                | Some (Some (s'', vs)) => Some (Some (s'', (v, al) :: vs))
                | r => r
                end
            end
        end in
      let with_vals := fun (k : st -> list (jv * bool) -> out) =>
        match evs s args with
        | None => OSkip
        | Some None => OErr
        | Some (Some (s', vs)) => k s' vs
        end in
      match f with
      | FnAsm =>
          let s0 := s in
          (fix go (s : st) (l : list arg) : out :=
             match l with
             | [] => OVal s (at_value s) true
             | a :: l' =>
                 match eval s a with
                 | OVal s' v al =>
                     (* the result becomes the local value; set/del return the local value itself *)
                     let is_upd := match a with ACall (FnSet | FnSetall | FnDel | FnDelall) _ => true | _ => false end in
                     let s'' := if is_upd then s' else mkSt (s_root s') (AtDet v) (s_taint s') in
                     match l' with
                     | [] =>
                         (* the local value is a variable of this call: the caller keeps its own *)
                         match s_at s0, s_at s'' with
                         | AtLocal _, AtLocal v' => OVal (mkSt (s_root s'') (AtLocal v') (s_taint s'')) v al
                         | AtLocal _, _ => OSkip
                         | a0, _ => OVal (mkSt (s_root s'') a0 (s_taint s'')) v al
                         end
                     | _ => go s'' l'
                     end
                 | r => r
                 end
             end) s args
      | FnSet | FnSetall =>
          match args with
          | [APath x; va] =>
              match eval s va with
              | OVal s' v al =>
                  match path_keys x with
                  | Some ks =>
                      if al && may_cycle ks (if is_at x then at_value s' else s_root s') v then OSkip else
                      match update_at s' x (set_keys ks v) with
                               | OVal s'' r _ => OVal (mkSt (s_root s'') (s_at s'') (store_taint s'' al)) r true
                               | o => o
                               end
                  | None => OSkip
                  end
              | r => r
              end
          | [_; _] => OSkip                  (* a path built by at / root: not modelled *)
          | _ => OErr
          end
      | FnDel | FnDelall =>
          match args with
          | [APath x] => match path_keys x with
                         | Some ks => update_at s x (del_keys ks)
                         | None => OSkip
                         end
          | [_] => OErr
          | _ => OErr
          end
      | FnGet | FnGetall =>
          match args with
          | [APath x] =>
              let d := if is_at x then at_value s else s_root s in
              if match f with FnGet => true | _ => false end
              then match x with
                   | [] => ret s JNull
                   | _ => match first_spec x d with Some v => OVal s v (is_container v) | None => ret s JNull end
                   end
              else match x with
                   | [] => ret s JNull
                   | _ => let r := get_spec x d in OVal s (JArr r) (existsb is_container r)
                   end
          | [APath x; da] =>
              match eval s da with
              | OVal s' d _ =>
                  if match f with FnGet => true | _ => false end
                  then match x with
                       | [] => ret s' JNull
                       | _ => match first_spec x d with Some v => OVal s' v (is_container v) | None => ret s' JNull end
                       end
                  else match x with
                       | [] => ret s' JNull
                       | _ => let r := get_spec x d in OVal s' (JArr r) (existsb is_container r)
                       end
              | r => r
              end
          | [_] | [_; _] => OSkip
          | _ => OErr
          end
      | FnSum => with_vals (fun s' vs => match sum_vals (map fst vs) with
                                         | None => OSkip | Some None => OErr | Some (Some v) => ret s' v end)
      | FnDif => with_vals (fun s' vs => match fold_ints (fun a b => Some (a - b)) (map fst vs) with
                                         | None => OSkip | Some None => OErr | Some (Some v) => ret s' v end)
      | FnProduct => with_vals (fun s' vs => match fold_ints (fun a b => Some (a * b)) (map fst vs) with
                                             | None => OSkip | Some None => OErr | Some (Some v) => ret s' v end)
      | FnQuotient => with_vals (fun s' vs => match fold_ints (fun a b => if b =? 0 then None else Some (Z.quot a b)) (map fst vs) with
                                              | None => OSkip | Some None => OErr | Some (Some v) => ret s' v end)
      | FnMod =>
          match args with
          | [_; _] => with_vals (fun s' vs =>
              match map fst vs with
              | [JInt a; JInt b] => if b =? 0 then OErr else ret s' (JInt (Z.rem a b))
              | _ => OErr
              end)
          | _ => OErr
          end
      | FnEq | FnNeq =>
          (* arguments are evaluated one at a time and the loop stops at the first difference *)
          let neg := match f with FnNeq => true | _ => false end in
          match args with
          | [] => ret s (jbool (negb neg))
          | a0 :: rest =>
              match eval s a0 with
              | OVal s0 v0 _ =>
                  (fix go (s : st) (l : list arg) : out :=
                     match l with
                     | [] => ret s (jbool (negb neg))
                     | a :: l' =>
                         match eval s a with
                         | OVal s' v _ =>
                             match equal_vals v0 v with
                             | Some true => go s' l'
                             | Some false => ret s' (jbool neg)
                             | None => OSkip
                             end
                         | r => r
                         end
                     end) s0 rest
              | r => r
              end
          end
      | FnLt | FnLte | FnGt | FnGte =>
          (* the first argument fixes the kind; the others are evaluated one at a time and the
             loop stops at the first pair that is out of order *)
          let zf := match f with
                    | FnLt => fun a b => b <=? a | FnLte => fun a b => b <? a
                    | FnGt => fun a b => a <=? b | _ => fun a b => a <? b end in
          let sf := match f with
                    | FnLt => fun a b => bytes_leb b a | FnLte => fun a b => bytes_ltb b a
                    | FnGt => fun a b => bytes_leb a b | _ => fun a b => bytes_ltb a b end in
          match args with
          | [] => ret s (jbool true)
          | a0 :: rest =>
              match eval s a0 with
              | OVal s0 (JInt z0) _ =>
                  (fix go (s : st) (z0 : Z) (l : list arg) : out :=
                     match l with
                     | [] => ret s (jbool true)
                     | a :: l' =>
                         match eval s a with
                         | OVal s' (JInt z) _ =>
                             if exact_f64 z0 && exact_f64 z then
                               (if zf z0 z then ret s' (jbool false) else go s' z l')
                             else OSkip
                         | OVal _ (JFloat _) _ => OSkip
                         | OVal _ _ _ => OErr
                         | r => r
                         end
                     end) s0 z0 rest
              | OVal s0 (JStr t0) _ =>
                  (fix go (s : st) (t0 : bytes) (l : list arg) : out :=
                     match l with
                     | [] => ret s (jbool true)
                     | a :: l' =>
                         match eval s a with
                         | OVal s' v _ =>
                             let t := match v with JStr t => t | _ => [] end in
                             if sf t0 t then ret s' (jbool false) else go s' t l'
                         | r => r
                         end
                     end) s0 t0 rest
              | OVal _ (JFloat _) _ => OSkip
              | OVal _ _ _ => OErr
              | r => r
              end
          end
      | FnAnd | FnOr =>
          let isand := match f with FnAnd => true | _ => false end in
          (fix go (s : st) (l : list arg) : out :=
             match l with
             | [] => ret s (jbool isand)
             | a :: l' =>
                 match eval s a with
                 | OVal s' v _ =>
                     match v with
                     | JNull => if isand then ret s' (jbool false) else go s' l'
                     | JBool b => if Bool.eqb b isand then go s' l' else ret s' (jbool b)
                     | _ => OErr
                     end
                 | r => r
                 end
             end) s args
      | FnNot =>
          match args with
          | [_] => with_vals (fun s' vs => match map fst vs with [JBool b] => ret s' (jbool (negb b)) | _ => OErr end)
          | _ => OErr
          end
      | FnCond =>
          (* every clause is [test value]; clauses are data here: the harness only builds clauses
             whose two elements are ordinary arguments *)
          (fix go (s : st) (l : list arg) : out :=
             match l with
             | [] => ret s JNull
             | ACall FnList [c; v] :: l' =>
                 match eval s c with
                 | OVal s' (JBool true) _ => eval s' v
                 | OVal s' _ _ => go s' l'
                 | r => r
                 end
             | _ :: _ => OErr
             end) s args
      | FnList => with_vals (fun s' vs => OVal s' (JArr (map fst vs)) (existsb snd vs))
      | FnQuote => match args with
                   | [] => ret s JNull
                   | ALit v :: _ => OVal s v (is_container v)
                   | _ => OSkip
                   end
      | FnNth =>
          match args with
          | [_; _] => with_vals (fun s' vs =>
              match vs with
              | [(JArr l, al); (JInt i, _)] =>
                  let n := Z.of_nat (length l) in
                  let j := if i <? 0 then n + i else i in
                  if (j <? 0) || (n <=? j) then ret s' JNull
                  else match nth_error l (Z.to_nat j) with Some v => OVal s' v (al && is_container v) | None => ret s' JNull end
              | _ => OErr
              end)
          | _ => OErr
          end
      | FnSize =>
          match args with
          | [_] => with_vals (fun s' vs =>
              match map fst vs with
              | [JStr t] => ret s' (JInt (Z.of_nat (length t)))
              | [JArr l] => ret s' (JInt (Z.of_nat (length l)))
              | [JObj m] => ret s' (JInt (Z.of_nat (length m)))
              | _ => ret s' (JInt 0)
              end)
          | _ => OErr
          end
      | FnReverse =>
          match args with
          | [_] => with_vals (fun s' vs => match vs with
                                           | [(JArr l, al)] => OVal s' (JArr (rev l)) (al && existsb is_container l)
                                           | _ => OErr end)
          | _ => OErr
          end
      | FnAppend =>
          match args with
          | [_; _] => with_vals (fun s' vs => match vs with
                                              | [(JArr l, al); (v, al2)] => OVal s' (JArr (l ++ [v])) (al || al2)
                                              | _ => OErr end)
          | _ => OErr
          end
      | FnInclude =>
          match args with
          | [_; _] => with_vals (fun s' vs =>
              match map fst vs with
              | [JArr l; v] => match include_list l v with
                               | None => OSkip | Some None => OErr | Some (Some b) => ret s' (jbool b) end
              | [JStr h; JStr n] => ret s' (jbool (is_sub n h))
              | _ => OErr
              end)
          | _ => OErr
          end
      | FnIsArray | FnIsBool | FnIsMap | FnIsNull | FnIsNum | FnIsString =>
          match args with
          | [_] => with_vals (fun s' vs => match map fst vs with [v] => ret s' (jbool (type_pred f v)) | _ => OErr end)
          | _ => OErr
          end
      | FnInt =>
          match args with
          | [_] => with_vals (fun s' vs =>
              match map fst vs with
              | [JInt z] => ret s' (JInt z)
              | [JFloat _] | [JStr _] => OSkip
              | _ => ret s' JNull
              end)
          | _ => OErr
          end
      | FnEach =>
          match args with
          | [la; (ACall _ _) as body] =>
              match eval s la with
              | OVal s' (JArr l) al =>
                  (fix go (s : st) (l : list jv) (acc : list jv) (aal : bool) : out :=
                     match l with
                     | [] => OVal s (JArr (rev acc)) aal
                     | e :: l' =>
                         let loc := JObj [([x73; x72; x63], e)] in
                         match eval (mkSt (s_root s) (AtLocal loc) (s_taint s)) body with
                         | OVal s1 _ _ =>
                             let locv := match s_at s1 with AtLocal v => v | _ => loc end in
                             let r := match locv with JObj m => match map_get [x61; x73; x6d] m with Some v => v | None => JNull end | _ => JNull end in
                             go (mkSt (s_root s1) (s_at s) (s_taint s1)) l' (r :: acc) (aal || is_container r)
                         | r => r
                         end
                     end) s' l [] false
              | OVal _ _ _ => OErr
              | r => r
              end
          | [_; _] => OErr
          | _ => OSkip
          end
      end
  end.

(* a plan is the argument list of the outer asm, run with the root as local value *)
Definition run_plan (args : list arg) (root : jv) : out :=
  eval (mkSt root AtRoot false) (ACall FnAsm args).

(* text form of an outcome for the correspondence harness *)
Definition model_asm (args : list arg) (root : jv) : bytes :=
  match run_plan args root with
  | OVal s v _ => x56 :: x20 :: show (canon (s_root s))
  | OErr => [x45]
  | OSkip => [x53]
  end.
