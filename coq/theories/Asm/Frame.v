(* C20: data under $.src changes only through updating functions that name a location there.
   Proved on the value model: if every set / setall / del / delall of a plan names a path whose
   first member is not "src", the member "src" of the root is the same after any completed
   evaluation, whatever else the plan does. *)
From Coq Require Import Init.Byte NArith ZArith List Bool Lia.
Require Import Ojg.Base.Bytes Ojg.Base.Jv Ojg.Jp.Expr Ojg.Jp.GetFacts Ojg.Jp.Locate Ojg.Alt.Convert Ojg.Asm.Eval.
Import ListNotations.
Open Scope Z_scope.

Section ArgInd.
  Variable P : arg -> Prop.
  Hypothesis Hlit : forall v, P (ALit v).
  Hypothesis Hpath : forall x, P (APath x).
  Hypothesis Hcall : forall f args, Forall P args -> P (ACall f args).
  Fixpoint arg_ind2 (a : arg) : P a :=
    match a with
    | ALit v => Hlit v
    | APath x => Hpath x
    | ACall f args => Hcall f args ((fix go (l : list arg) : Forall P l :=
                                       match l with [] => Forall_nil _ | x :: l' => Forall_cons x (arg_ind2 x) (go l') end) args)
    end.
End ArgInd.

Definition src_key : bytes := [x73; x72; x63].

Definition safe_target (x : expr) : bool :=
  match x with
  | FRoot :: FChild k :: _ => negb (bytes_eqb k src_key)
  | FAt :: FChild k :: _ => negb (bytes_eqb k src_key)
  | _ => false
  end.

Definition is_update (f : fname) : bool :=
  match f with FnSet | FnSetall | FnDel | FnDelall => true | _ => false end.

Fixpoint safe (a : arg) : bool :=
  match a with
  | ALit _ | APath _ => true
  | ACall f args =>
      (if is_update f then match args with APath x :: _ => safe_target x | _ => true end else true)
      && (fix go (l : list arg) : bool := match l with [] => true | x :: l' => safe x && go l' end) args
  end.

Definition get_src (d : jv) : option jv := match d with JObj m => map_get src_key m | _ => None end.
Definition src_of (s : st) : option jv := get_src (s_root s).

Lemma beqb_sym x y : beqb x y = beqb y x.
Proof.
  destruct (beqb x y) eqn:E; destruct (beqb y x) eqn:E2; auto.
  - apply beqb_eq in E. subst. assert (H : beqb y y = true) by (apply beqb_eq; reflexivity). congruence.
  - apply beqb_eq in E2. subst. assert (H : beqb x x = true) by (apply beqb_eq; reflexivity). congruence.
Qed.

Lemma bytes_eqb_sym : forall a b, bytes_eqb a b = bytes_eqb b a.
Proof.
  induction a as [|x a IH]; destruct b as [|y b]; simpl; auto.
  rewrite IH, beqb_sym. reflexivity.
Qed.

Lemma map_get_set_other k k' v : forall m, bytes_eqb k' k = false -> map_get k' (map_set k v m) = map_get k' m.
Proof.
  induction m as [|[k2 v2] m IH]; intro H; simpl.
  - rewrite H. reflexivity.
  - destruct (bytes_eqb k k2) eqn:E.
    + simpl. rewrite H. apply bytes_eqb_eq in E. subst k2. rewrite H. reflexivity.
    + simpl. destruct (bytes_eqb k' k2); auto.
Qed.

Lemma map_get_del_other k k' : forall m, bytes_eqb k' k = false -> map_get k' (map_del k m) = map_get k' m.
Proof.
  induction m as [|[k2 v2] m IH]; intro H; simpl; auto.
  destruct (bytes_eqb k k2) eqn:E.
  - apply bytes_eqb_eq in E. subst k2. rewrite H. auto.
  - simpl. destruct (bytes_eqb k' k2); auto.
Qed.

Lemma set_keys_cons2 k k2 ks v d :
  set_keys (k :: k2 :: ks) v d =
  match d with
  | JObj m =>
      match map_get k m with
      | Some c => match set_keys (k2 :: ks) v c with UOk c' => UOk (JObj (map_set k c' m)) | UErr => UErr end
      | None => match set_keys (k2 :: ks) v (JObj []) with UOk c' => UOk (JObj (map_set k c' m)) | UErr => UErr end
      end
  | JArr _ => UOk d
  | _ => UErr
  end.
Proof. reflexivity. Qed.

Lemma del_keys_cons2 k k2 ks d :
  del_keys (k :: k2 :: ks) d =
  match d with
  | JObj m =>
      match map_get k m with
      | Some c => match del_keys (k2 :: ks) c with UOk c' => UOk (JObj (map_set k c' m)) | UErr => UErr end
      | None => UOk d
      end
  | JArr _ => UOk d
  | _ => UErr
  end.
Proof. reflexivity. Qed.

Lemma set_keys_src k ks v d d' :
  bytes_eqb k src_key = false -> set_keys (k :: ks) v d = UOk d' -> get_src d' = get_src d.
Proof.
  intros Hk H. assert (Hk' : bytes_eqb src_key k = false) by (rewrite bytes_eqb_sym; exact Hk).
  destruct ks as [|k2 ks].
  - simpl in H. destruct d; try discriminate; inversion H; subst; simpl; auto. apply map_get_set_other. exact Hk'.
  - rewrite set_keys_cons2 in H. destruct d; try discriminate.
    + inversion H; subst. reflexivity.
    + destruct (map_get k m).
      * destruct (set_keys (k2 :: ks) v j); try discriminate. inversion H; subst. simpl. apply map_get_set_other. exact Hk'.
      * destruct (set_keys (k2 :: ks) v (JObj [])); try discriminate. inversion H; subst. simpl. apply map_get_set_other. exact Hk'.
Qed.

Lemma del_keys_src k ks d d' :
  bytes_eqb k src_key = false -> del_keys (k :: ks) d = UOk d' -> get_src d' = get_src d.
Proof.
  intros Hk H. assert (Hk' : bytes_eqb src_key k = false) by (rewrite bytes_eqb_sym; exact Hk).
  destruct ks as [|k2 ks].
  - simpl in H. destruct d; try discriminate; inversion H; subst; simpl; auto. apply map_get_del_other. exact Hk'.
  - rewrite del_keys_cons2 in H. destruct d; try discriminate.
    + inversion H; subst. reflexivity.
    + destruct (map_get k m).
      * destruct (del_keys (k2 :: ks) j); try discriminate. inversion H; subst. simpl. apply map_get_set_other. exact Hk'.
      * inversion H; subst. reflexivity.
Qed.

Ltac bm H := repeat match type of H with context [match ?x with _ => _ end] =>
  lazymatch x with true => fail | false => fail | _ => idtac end; destruct x eqn:?; try discriminate H end.

(* update_at with a function that keeps the src member keeps it in the state *)
Lemma update_at_src s x f s' r al :
  (forall d d', f d = UOk d' -> get_src d' = get_src d) ->
  update_at s x f = OVal s' r al -> src_of s' = src_of s.
Proof.
  intros Hf H. unfold update_at in H. bm H; inversion H; subst; unfold src_of; simpl; try reflexivity; eapply Hf; eauto.
Qed.

Definition keeps (a : arg) : Prop := forall s s' v al, eval s a = OVal s' v al -> src_of s' = src_of s.

(* the frame fact for an argument and for everything below it *)
Fixpoint deepk (a : arg) : Prop :=
  keeps a /\
  match a with
  | ACall _ args => (fix go (l : list arg) : Prop := match l with [] => True | x :: l' => deepk x /\ go l' end) args
  | _ => True
  end.

Lemma deepk_keeps a : deepk a -> keeps a.
Proof. destruct a; simpl; tauto. Qed.

Lemma deepk_list (l : list arg) :
  (fix go (l : list arg) : Prop := match l with [] => True | x :: l' => deepk x /\ go l' end) l <-> Forall deepk l.
Proof. induction l as [|x l IH]; simpl; split; intro H; auto; [destruct H; constructor; tauto | inversion H; subst; tauto]. Qed.

Lemma safe_args f args : safe (ACall f args) = true -> Forall (fun a => safe a = true) args.
Proof.
  simpl. intro H. apply andb_prop in H as [_ H]. induction args as [|a l IH]; constructor.
  - apply andb_prop in H as [H _]. exact H.
  - apply IH. apply andb_prop in H as [_ H]. exact H.
Qed.

Lemma forall_deepk args : Forall (fun a => safe a = true -> deepk a) args -> Forall (fun a => safe a = true) args -> Forall deepk args.
Proof. intros H1 H2. induction H1; inversion H2; subst; constructor; auto. Qed.

Lemma forall_keeps args : Forall deepk args -> Forall keeps args.
Proof. induction 1; constructor; auto using deepk_keeps. Qed.

Lemma safe_target_keys x ks : safe_target x = true -> path_keys x = Some ks ->
  exists k ks', ks = k :: ks' /\ bytes_eqb k src_key = false.
Proof.
  intros Hs Hp. destruct x as [|f x]; try discriminate. destruct f; try discriminate;
  (destruct x as [|f2 x]; try discriminate; destruct f2; try discriminate; simpl in *;
   destruct (keys_of x); try discriminate; inversion Hp; subst; exists k, l; split; auto;
   destruct (bytes_eqb k src_key); auto; discriminate).
Qed.

Ltac ev_head H Ka :=
  match type of H with
  | context [match eval ?s ?a with _ => _ end] =>
      let E := fresh "E" in
      destruct (eval s a) as [? ? ?| |] eqn:E; try discriminate H; apply Ka in E
  end.

Ltac close H := inversion H; subst; unfold src_of in *; cbn [s_root s_at s_taint]; (assumption || congruence || reflexivity).

Ltac finish H :=
  bm H; try discriminate H;
  first [ close H
        | match goal with IHl : forall _, _ |- _ => apply IHl in H; unfold src_of in *; cbn [s_root s_at s_taint] in H; congruence end ].

Ltac split_HK := repeat match goal with HK : Forall keeps (_ :: _) |- _ => inversion HK; clear HK; subst end.
Ltac use_keeps := repeat match goal with E : eval ?s ?a = OVal _ _ _, K : keeps ?a |- _ => apply K in E end.
Ltac fin H := inversion H; subst; unfold src_of in *; cbn [s_root s_at s_taint]; congruence.

Ltac strict H HK :=
  match type of H with context [match ?F ?s ?l with _ => _ end] =>
    lazymatch type of F with st -> list arg -> option _ => idtac end;
    let L := fresh "L" in
    assert (L : forall l, Forall keeps l -> forall s1 s2 vs, F s1 l = Some (Some (s2, vs)) -> src_of s2 = src_of s1);
    [ let Ka := fresh "Ka" in let IHl := fresh "IHl" in let H' := fresh "H'" in
      induction 1 as [|? ? Ka ? IHl]; intros ? ? ? H'; cbn in H';
      [ inversion H'; subst; reflexivity
      | ev_head H' Ka;
        match type of H' with context [match F ?s2 ?l2 with _ => _ end] =>
          let E2 := fresh "E2" in destruct (F s2 l2) as [[[? ?]|]|] eqn:E2; try discriminate H'; inversion H'; subst; apply IHl in E2; congruence end ]
    | let EV := fresh "EV" in destruct (F s l) as [[[? ?]|]|] eqn:EV;
      [ apply (L _ HK) in EV; bm H; close H | bm H; try discriminate H | bm H; try discriminate H ] ]
  end.

(* loops over the remaining arguments: [F s l] or [F s acc l] *)
Ltac loop1 H HK :=
  match type of H with ?F ?s0 ?l0 = _ =>
    lazymatch type of F with st -> list arg -> out => idtac end;
    let L := fresh "L" in
    assert (L : forall l, Forall keeps l -> forall s1 s2 v2 al2, F s1 l = OVal s2 v2 al2 -> src_of s2 = src_of s1);
    [ let Ka := fresh "Ka" in let IHl := fresh "IHl" in let H' := fresh "H'" in
      induction 1 as [|? ? Ka ? IHl]; intros ? ? ? ? H'; cbn in H'; [ close H' | ev_head H' Ka; finish H' ]
    | apply (L _ HK) in H ]
  end.

Ltac loop2 H HK :=
  match type of H with ?F ?s0 ?z0 ?l0 = _ =>
    lazymatch type of F with st -> _ -> list arg -> out => idtac end;
    let L := fresh "L" in
    assert (L : forall l, Forall keeps l -> forall s1 z1 s2 v2 al2, F s1 z1 l = OVal s2 v2 al2 -> src_of s2 = src_of s1);
    [ let Ka := fresh "Ka" in let IHl := fresh "IHl" in let H' := fresh "H'" in
      induction 1 as [|? ? Ka ? IHl]; intros ? ? ? ? ? H'; cbn in H'; [ close H' | ev_head H' Ka; finish H' ]
    | apply (L _ HK) in H ]
  end.

Theorem safe_deepk : forall a, safe a = true -> deepk a.
Proof.
  induction a as [v|x|f args IH] using arg_ind2; intros Hs.
  - split; [|exact I]. intros s s' v0 al H. simpl in H. inversion H; subst. reflexivity.
  - split; [|exact I]. intros s s' v0 al H. simpl in H. bm H; inversion H; subst; reflexivity.
  - pose proof (forall_deepk args IH (safe_args f args Hs)) as HD. clear IH.
    assert (HK : Forall keeps args) by (apply forall_keeps; exact HD).
    split; [|exact (proj2 (deepk_list args) HD)].
    intros s s' v0 al H.
    destruct f; cbn [eval] in H.
    all: try solve [strict H HK].
    + (* asm *)
      match type of H with ?F ?s0 ?l0 = _ =>
        assert (L : forall l, Forall keeps l -> forall s1 s2 v2 al2, F s1 l = OVal s2 v2 al2 -> src_of s2 = src_of s1) end.
      { induction 1 as [|a rst Ka Krst IHl]; intros s1 s2 v2 al2 H'; cbn in H'; [close H'|].
        ev_head H' Ka.
        destruct rst as [|a2 rst];
        (match type of H' with context [if ?b then _ else mkSt _ (AtDet _) _] => destruct b end);
        first [ apply IHl in H'; cbv iota in H'; unfold src_of in *; cbn [s_root s_at s_taint] in H'; congruence
              | cbv iota in H'; bm H'; close H' ]. }
      apply (L _ HK) in H. exact H.
    + (* set *)
      simpl in Hs. apply andb_prop in Hs as [Hs _].
      bm H; try discriminate H; split_HK; use_keeps;
      match goal with PK : path_keys ?x = Some ?ks |- _ => destruct (safe_target_keys _ _ Hs PK) as (k & ks' & -> & Hk) end;
      match goal with U : update_at _ _ _ = OVal _ _ _ |- _ => apply update_at_src in U; [|intros d d' Hd; eapply set_keys_src; eauto] end;
      fin H.
    + (* setall *)
      simpl in Hs. apply andb_prop in Hs as [Hs _].
      bm H; try discriminate H; split_HK; use_keeps;
      match goal with PK : path_keys ?x = Some ?ks |- _ => destruct (safe_target_keys _ _ Hs PK) as (k & ks' & -> & Hk) end;
      match goal with U : update_at _ _ _ = OVal _ _ _ |- _ => apply update_at_src in U; [|intros d d' Hd; eapply set_keys_src; eauto] end;
      fin H.
    + (* del *)
      simpl in Hs. apply andb_prop in Hs as [Hs _].
      bm H; try discriminate H;
      match goal with PK : path_keys ?x = Some ?ks |- _ => destruct (safe_target_keys _ _ Hs PK) as (k & ks' & -> & Hk) end;
      apply update_at_src in H; [exact H|intros d d' Hd; eapply del_keys_src; eauto].
    + (* delall *)
      simpl in Hs. apply andb_prop in Hs as [Hs _].
      bm H; try discriminate H;
      match goal with PK : path_keys ?x = Some ?ks |- _ => destruct (safe_target_keys _ _ Hs PK) as (k & ks' & -> & Hk) end;
      apply update_at_src in H; [exact H|intros d d' Hd; eapply del_keys_src; eauto].
    + (* get *) bm H; try discriminate H; split_HK; use_keeps; fin H.
    + (* getall *) bm H; try discriminate H; split_HK; use_keeps; fin H.
    + destruct args as [|a0 rest]; [fin H|]. inversion HK as [|? ? K0 Kr]; subst. ev_head H K0.
      loop1 H Kr. congruence.
    + destruct args as [|a0 rest]; [fin H|]. inversion HK as [|? ? K0 Kr]; subst. ev_head H K0.
      loop1 H Kr. congruence.
    + destruct args as [|a0 rest]; [fin H|]. inversion HK as [|? ? K0 Kr]; subst. ev_head H K0.
      match type of H with match ?v with _ => _ end = _ => destruct v; try discriminate H end; loop2 H Kr; congruence.
    + destruct args as [|a0 rest]; [fin H|]. inversion HK as [|? ? K0 Kr]; subst. ev_head H K0.
      match type of H with match ?v with _ => _ end = _ => destruct v; try discriminate H end; loop2 H Kr; congruence.
    + destruct args as [|a0 rest]; [fin H|]. inversion HK as [|? ? K0 Kr]; subst. ev_head H K0.
      match type of H with match ?v with _ => _ end = _ => destruct v; try discriminate H end; loop2 H Kr; congruence.
    + destruct args as [|a0 rest]; [fin H|]. inversion HK as [|? ? K0 Kr]; subst. ev_head H K0.
      match type of H with match ?v with _ => _ end = _ => destruct v; try discriminate H end; loop2 H Kr; congruence.
    + loop1 H HK. exact H.
    + loop1 H HK. exact H.
    + (* cond *)
      match type of H with ?F ?s0 ?l0 = _ =>
        assert (L : forall l, Forall deepk l -> forall s1 s2 v2 al2, F s1 l = OVal s2 v2 al2 -> src_of s2 = src_of s1) end.
      { induction 1 as [|a rst Da Drst IHl]; intros s1 s2 v2 al2 H'; cbn in H'; [close H'|].
        destruct a as [| |f0 cargs]; try discriminate H'. destruct f0; try discriminate H'.
        destruct cargs as [|c [|v [|x cargs]]]; try discriminate H'.
        cbn [deepk] in Da. destruct Da as (_ & (Dc & Dv & _)).
        apply deepk_keeps in Dc. apply deepk_keeps in Dv.
        ev_head H' Dc. bm H'; try discriminate H'.
        all: first [ apply Dv in H'; congruence | apply IHl in H'; congruence ]. }
      apply (L _ HD) in H. exact H.
    + (* quote *) bm H; try discriminate H; fin H.
    + (* each *)
      destruct args as [|la [|body [|x args]]]; try discriminate H; try (destruct body; discriminate H).
      destruct body as [| |bf bargs]; try discriminate H.
      inversion HK as [|? ? Kla Kr]; subst. inversion Kr as [|? ? Kb _]; subst.
      remember (ACall bf bargs) as body eqn:Hb.
      ev_head H Kla.
      match type of H with match ?v with _ => _ end = _ => destruct v; try discriminate H end.
      match type of H with ?F _ _ _ _ = _ =>
        assert (L : forall lv s1 acc1 aal1 s2 v2 al2, F s1 lv acc1 aal1 = OVal s2 v2 al2 -> src_of s2 = src_of s1) end.
      { induction lv as [|e lv IHl]; intros s1 acc1 aal1 s2 v2 al2 H'; cbn in H'; [close H'|].
        match type of H' with context [match eval ?st ?b with _ => _ end] =>
          destruct (eval st b) as [? ? ?| |] eqn:E2; try discriminate H'; apply Kb in E2 end.
        apply IHl in H'. unfold src_of in *. cbn [s_root s_at s_taint] in H', E2. congruence. }
      apply L in H. congruence.
Qed.

(* the statement for whole plans: a completed evaluation leaves the member "src" of the root as it
   was whenever every updating function of the plan names a location outside "src" *)
Theorem plan_keeps_src args root s v al :
  (fix go (l : list arg) : bool := match l with [] => true | x :: l' => safe x && go l' end) args = true ->
  run_plan args root = OVal s v al -> get_src (s_root s) = get_src root.
Proof.
  intros Hs H. unfold run_plan in H.
  assert (Hsafe : safe (ACall FnAsm args) = true) by (simpl; exact Hs).
  apply (deepk_keeps _ (safe_deepk _ Hsafe)) in H. exact H.
Qed.
