From Coq Require Import extraction.Extraction ExtrOcamlBasic.
Require Import Ojg.Base.Bytes Ojg.Base.Jv Ojg.Json.Machine Ojg.Json.Ref Ojg.Json.Show.
Extraction Language OCaml.
Extraction "model.ml" model_parse model_parse_chunks spec_accepts spec_parse.
