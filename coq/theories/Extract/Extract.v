From Coq Require Import extraction.Extraction ExtrOcamlBasic.
Require Import Ojg.Base.Bytes Ojg.Base.Jv Ojg.Json.Machine Ojg.Json.Ref Ojg.Json.Show.
Require Import Ojg.Jp.Expr Ojg.Jp.Show.
Require Import Ojg.Alt.Diff Ojg.Alt.Show Ojg.Alt.Convert Ojg.Asm.Eval Ojg.Enc.Struct Ojg.Sen.SenStr Ojg.Jp.PathText.
Extraction Language OCaml.
Extraction "model.ml" model_parse model_parse_chunks spec_accepts spec_parse
  model_get model_match model_locate model_locate_ses model_locate_rv model_first model_has model_mutate model_mutate_one model_mutate_live model_jpstr model_jpread print_path print_path_b print_path_h model_jpparse model_jpparse_h model_write model_diff model_matchdoc model_convert model_asm model_enc sen_string show_read hexs sen_array show_read_array sen_object show_read_object.
