(* JSONPath expressions, filter equations and their denotation on JSON-like data.
   This is the executable specification the jp evaluators (Get, Has, First, Locate, Walk,
   Set, Del, Remove, Modify, Match, scripts) are compared with, and about which the
   property theorems of C05, C11, C12, C13 are stated. *)
From Coq Require Import Init.Byte NArith ZArith QArith List Bool Lia.
Require Import Ojg.Base.Bytes Ojg.Base.Jv.
Import ListNotations.
Open Scope Z_scope.

Inductive opcode : Set :=
  | OEq | ONeq | OLt | OGt | OLte | OGte | OOr | OAnd | ONot
  | OAdd | OSub | OMul | ODiv | OIn | OEmpty | OHas | OExists | OLength | OCount.

Inductive uitem : Set := UKey (k : bytes) | UIdx (i : Z).

Inductive frag : Set :=
  | FRoot | FAt
  | FChild (k : bytes)
  | FNth (i : Z)
  | FWild
  | FDescent
  | FUnion (l : list uitem)
  | FSlice (l : list Z)                 (* 0..3 integers: start, end, step *)
  | FFilter (e : eqn)
with eqn : Set :=
  | EConst (c : jv)                     (* null, bool, int, float, string, list constant *)
  | ENothing
  | EPath (p : list frag)
  | EUn (o : opcode) (a : eqn)
  | EBin (o : opcode) (a b : eqn).

Definition expr := list frag.

(* ---------------------------------------------------------------- numbers *)

(* exact value of a decimal text (the floats used in jp models are decimal texts that are
   exactly representable; the harness only generates such floats) *)
Fixpoint pow10 (n : nat) : Z := match n with O => 1 | S k => 10 * pow10 k end.

Definition split_at (c : byte) (s : bytes) : bytes * option bytes :=
  (fix go (acc s : bytes) : bytes * option bytes :=
     match s with
     | [] => (rev acc, None)
     | b :: r => if beqb b c then (rev acc, Some r) else go (b :: acc) r
     end) [] s.

Definition signed_digits (s : bytes) : Z :=
  match s with
  | b :: r => if beqb b x2d then - digits_val r else if beqb b x2b then digits_val r else digits_val s
  | [] => 0
  end.

(* mantissa * 10^exp10 of a decimal text like -12.5e-3 *)
Definition dec_parts (t : bytes) : Z * Z :=
  let '(m, e) := match split_at x65 t with
                 | (m, Some e) => (m, signed_digits e)
                 | (m, None) => match split_at x45 t with (m, Some e) => (m, signed_digits e) | (m, None) => (m, 0) end
                 end in
  let neg := match m with b :: _ => beqb b x2d | [] => false end in
  let m := match m with b :: r => if beqb b x2d || beqb b x2b then r else m | [] => m end in
  let '(ip, fp) := split_at x2e m in
  let fp := match fp with Some f => f | None => [] end in
  let v := digits_val (ip ++ fp) in
  ((if neg then - v else v), e - Z.of_nat (length fp)).

Definition q_of_text (t : bytes) : Q :=
  let '(m, e) := dec_parts t in
  if e >=? 0 then inject_Z (m * pow10 (Z.to_nat e))
  else Qred (Qmake m (Z.to_pos (pow10 (Z.to_nat (- e))))).

(* ---------------------------------------------------------------- script values *)

Inductive sv : Set :=
  | SNothing
  | SNull
  | SBool (b : bool)
  | SInt (z : Z)
  | SFlt (q : Q)
  | SStr (s : bytes)
  | SVal (v : jv).                       (* a container (array or object) or list constant *)

Definition sv_of (v : jv) : sv :=
  match v with
  | JNull => SNull
  | JBool b => SBool b
  | JInt z => SInt z
  | JFloat t => SFlt (q_of_text t)
  | JBig t => SStr t
  | JStr s => SStr s
  | _ => SVal v
  end.

Definition wrap_i64 (z : Z) : Z :=
  let m := z mod two64 in if m <=? max_int64 then m else m - two64.

(* Go interface equality on normalised script values; None = runtime panic (comparing two
   uncomparable values of the same dynamic type) *)
Definition go_eq (a b : sv) : option bool :=
  match a, b with
  | SNothing, SNothing => Some true
  | SNull, SNull => Some true
  | SBool x, SBool y => Some (Bool.eqb x y)
  | SInt x, SInt y => Some (x =? y)
  | SFlt x, SFlt y => Some (Qeq_bool x y)
  | SStr x, SStr y => Some (bytes_eqb x y)
  | SVal (JArr _), SVal (JArr _) => None
  | SVal (JObj _), SVal (JObj _) => None
  | _, _ => Some false
  end.

(* the specified equality: numbers by value across int and float, containers and mismatched
   kinds simply unequal *)
Definition spec_eq (a b : sv) : bool :=
  match a, b with
  | SInt x, SFlt y => Qeq_bool (inject_Z x) y
  | SFlt x, SInt y => Qeq_bool x (inject_Z y)
  | _, _ => match go_eq a b with Some r => r | None => false end
  end.

Definition num_q (a : sv) : option Q :=
  match a with SInt z => Some (inject_Z z) | SFlt q => Some q | _ => None end.

Definition cmp_num (o : opcode) (x y : Q) : bool :=
  match o with
  | OLt => negb (Qle_bool y x)
  | OGt => negb (Qle_bool x y)
  | OLte => Qle_bool x y
  | OGte => Qle_bool y x
  | _ => false
  end.
Definition cmp_str (o : opcode) (x y : bytes) : bool :=
  match o with
  | OLt => bytes_ltb x y
  | OGt => bytes_ltb y x
  | OLte => bytes_leb x y
  | OGte => bytes_leb y x
  | _ => false
  end.

Definition as_bool (a : sv) : bool := match a with SBool b => b | _ => false end.

Definition arith (o : opcode) (a b : sv) : sv :=
  match a, b with
  | SInt x, SInt y =>
      match o with
      | OAdd => SInt (wrap_i64 (x + y))
      | OSub => SInt (wrap_i64 (x - y))
      | OMul => SInt (wrap_i64 (x * y))
      | ODiv => if y =? 0 then SNothing else SInt (wrap_i64 (Z.quot x y))
      | _ => SNothing
      end
  | SStr x, SStr y => match o with OAdd => SStr (x ++ y) | _ => SNothing end
  | _, _ =>
      match num_q a, num_q b with
      | Some x, Some y =>
          match o with
          | OAdd => SFlt (Qred (x + y))
          | OSub => SFlt (Qred (x - y))
          | OMul => SFlt (Qred (x * y))
          | ODiv => if Qeq_bool y 0 then SNothing else SFlt (Qred (x / y))
          | _ => SNothing
          end
      | _, _ => SNothing
      end
  end.

Definition container_len (a : sv) : option Z :=
  match a with
  | SStr s => Some (Z.of_nat (length s))
  | SVal (JArr l) => Some (Z.of_nat (length l))
  | SVal (JObj m) => Some (Z.of_nat (length m))
  | _ => None
  end.

Definition spec_in (a e : sv) : bool := match go_eq a e with Some r => r | None => false end.

(* one operator application on evaluated operands, as the operator documentation defines it *)
Definition apply_bin (o : opcode) (a b : sv) : sv :=
  match o with
  | OEq => SBool (spec_eq a b)
  | ONeq => SBool (negb (spec_eq a b))
  | OLt | OGt | OLte | OGte =>
      match num_q a, num_q b with
      | Some x, Some y => SBool (cmp_num o x y)
      | _, _ => match a, b with SStr x, SStr y => SBool (cmp_str o x y) | _, _ => SBool false end
      end
  | OOr => SBool (as_bool a || as_bool b)
  | OAnd => SBool (as_bool a && as_bool b)
  | OAdd | OSub | OMul | ODiv => arith o a b
  | OIn =>
      match b with
      | SVal (JArr l) => SBool (existsb (fun e => spec_in a (sv_of e)) l)
      | _ => SBool false
      end
  | OEmpty =>
      match b with
      | SBool boo => match container_len a with Some n => SBool (Bool.eqb boo (n =? 0)) | None => SBool false end
      | _ => SBool false
      end
  | OHas | OExists =>
      match b with
      | SBool boo => SBool (Bool.eqb boo (match a with SNothing => false | _ => true end))
      | _ => SBool false
      end
  | _ => SNothing
  end.

Definition apply_un (o : opcode) (a : sv) : sv :=
  match o with
  | ONot => SBool (negb (as_bool a))
  | OLength => match container_len a with Some n => SInt n | None => SNothing end
  | _ => SNothing
  end.

(* ---------------------------------------------------------------- selection *)

Definition children (v : jv) : list jv :=
  match v with JArr l => l | JObj m => map snd m | _ => [] end.

(* proper descendants: the children of v, then for each child its own descendants *)
Fixpoint descendants (v : jv) : list jv :=
  match v with
  | JArr l => l ++ (fix go (l : list jv) : list jv :=
                      match l with [] => [] | c :: l' => descendants c ++ go l' end) l
  | JObj m => map snd m ++ (fix go (m : list (bytes * jv)) : list jv :=
                      match m with [] => [] | (_, c) :: m' => descendants c ++ go m' end) m
  | _ => []
  end.

Definition is_container (v : jv) : bool := match v with JArr _ | JObj _ => true | _ => false end.

Definition nth_norm (len i : Z) : option Z :=
  let i := if i <? 0 then len + i else i in
  if (0 <=? i) && (i <? len) then Some i else None.

Definition arr_nth (l : list jv) (i : Z) : list jv :=
  match nth_norm (Z.of_nat (length l)) i with
  | Some k => match nth_error l (Z.to_nat k) with Some v => [v] | None => [] end
  | None => []
  end.

Definition max_end : Z := 2147483647.

(* the indexes a slice selects on an array of length len, in selection order *)
Fixpoint up_from (fuel : nat) (i stop step : Z) : list Z :=
  match fuel with O => [] | S f => if i <? stop then i :: up_from f (i + step) stop step else [] end.
Fixpoint down_from (fuel : nat) (i stop step : Z) : list Z :=
  match fuel with O => [] | S f => if stop <? i then i :: down_from f (i + step) stop step else [] end.

Definition slice_indexes (len : Z) (sl : list Z) : list Z :=
  let start := nth 0 sl 0 in
  let stop := nth 1 sl max_end in
  let step := nth 2 sl 1 in
  if step =? 0 then [] else
  let start := if start <? 0 then Z.max 0 (len + start) else start in
  let stop := if stop <? 0 then len + stop else stop in
  if len <=? start then [] else
  let stop := if len <? stop then len else stop in
  if 0 <? step then up_from (Z.to_nat len) start stop step
  else down_from (Z.to_nat len + 1) start (if stop <? -1 then -1 else stop) step.

Definition pick (l : list jv) (ix : list Z) : list jv :=
  flat_map (fun i => match nth_error l (Z.to_nat i) with Some v => [v] | None => [] end) ix.

Definition is_true (a : sv) : bool := match a with SBool true => true | _ => false end.

Fixpoint sel (f : frag) (last : bool) (root v : jv) {struct f} : list jv :=
  match f with
  | FRoot => [root]
  | FAt => [v]
  | FChild k => match v with JObj m => match map_get k m with Some x => [x] | None => [] end | _ => [] end
  | FNth i => match v with JArr l => arr_nth l i | _ => [] end
  | FWild => children v
  | FDescent => v :: descendants v
  | FUnion us =>
      flat_map (fun u => match u, v with
                         | UKey k, JObj m => match map_get k m with Some x => [x] | None => [] end
                         | UIdx i, JArr l => arr_nth l i
                         | _, _ => []
                         end) us
  | FSlice sl => match v with JArr l => pick l (slice_indexes (Z.of_nat (length l)) sl) | _ => [] end
  | FFilter e => filter (fun el => existsb is_true (evals e root el)) (children v)
  end
with evals (e : eqn) (root cur : jv) {struct e} : list sv :=
  match e with
  | EConst c => [sv_of c]
  | ENothing => [SNothing]
  | EPath p =>
      match (fix go (p : list frag) (vs : list jv) : list jv :=
               match p with
               | [] => vs
               | f :: p' => go p' (flat_map (sel f (match p' with [] => true | _ => false end) root) vs)
               end) p [cur] with
      | [] => [SNothing]
      | vs => map sv_of vs
      end
  | EUn OCount (EPath p) =>
      [SInt (Z.of_nat (length ((fix go (p : list frag) (vs : list jv) : list jv :=
               match p with
               | [] => vs
               | f :: p' => go p' (flat_map (sel f (match p' with [] => true | _ => false end) root) vs)
               end) p [cur])))]
  | EUn o a => map (apply_un o) (evals a root cur)
  | EBin o a b => flat_map (fun x => map (apply_bin o x) (evals b root cur)) (evals a root cur)
  end.

Fixpoint eval_path (p : expr) (root : jv) (vs : list jv) : list jv :=
  match p with
  | [] => vs
  | f :: p' => eval_path p' root (flat_map (sel f (match p' with [] => true | _ => false end) root) vs)
  end.

(* Expr.Get *)
Definition get_spec (x : expr) (d : jv) : list jv :=
  match x with [] => [] | _ => eval_path x d [d] end.

(* Script.Match / filter membership *)
Definition script_match (e : eqn) (v : jv) : bool := existsb is_true (evals e v v).
