(* Path mutations (C13): Set, Del, Remove, Modify as functional updates at the locations the
   path selects, and the frame/effect theorems. *)
From Coq Require Import Init.Byte NArith ZArith QArith List Bool Lia.
Require Import Ojg.Base.Bytes Ojg.Base.Jv Ojg.Jp.Expr Ojg.Jp.Locate.
Import ListNotations.
Open Scope Z_scope.

Fixpoint map_upd (k : bytes) (g : jv -> jv) (m : list (bytes * jv)) : list (bytes * jv) :=
  match m with
  | [] => []
  | (k', v) :: m' => if bytes_eqb k k' then (k', g v) :: m' else (k', v) :: map_upd k g m'
  end.

Fixpoint list_upd (i : nat) (g : jv -> jv) (l : list jv) : list jv :=
  match l, i with
  | [], _ => []
  | x :: l', O => g x :: l'
  | x :: l', S j => x :: list_upd j g l'
  end.

(* update the value at a normalized path (root marker, child keys, non-negative indexes) *)
Fixpoint upd (p : list frag) (g : jv -> jv) (d : jv) : jv :=
  match p with
  | [] => g d
  | FRoot :: p' => upd p' g d
  | FChild k :: p' => match d with JObj m => JObj (map_upd k (upd p' g) m) | _ => d end
  | FNth i :: p' => match d with JArr l => if i <? 0 then d else JArr (list_upd (Z.to_nat i) (upd p' g) l) | _ => d end
  | _ => d
  end.

(* the value at a normalized path *)
Fixpoint at_path (p : list frag) (d : jv) : option jv :=
  match p with
  | [] => Some d
  | FRoot :: p' => at_path p' d
  | FChild k :: p' => match d with JObj m => match map_get k m with Some v => at_path p' v | None => None end | _ => None end
  | FNth i :: p' => match d with JArr l => if i <? 0 then None else match nth_error l (Z.to_nat i) with Some v => at_path p' v | None => None end | _ => None end
  | _ => None
  end.

(* ---- effect: after an update the location holds the new value *)
Lemma map_get_upd_same k g m v : map_get k m = Some v -> map_get k (map_upd k g m) = Some (g v).
Proof.
  induction m as [|[k' x] m IH]; simpl; [discriminate|].
  destruct (bytes_eqb k k') eqn:E; simpl; rewrite E; [intro H; inversion H; reflexivity|exact IH].
Qed.

Lemma nth_list_upd_same i g : forall l v, nth_error l i = Some v -> nth_error (list_upd i g l) i = Some (g v).
Proof.
  induction i as [|i IH]; intros [|x l] v H; simpl in *; try discriminate.
  - inversion H; reflexivity.
  - apply IH; exact H.
Qed.

Theorem upd_effect p : forall g d v, at_path p d = Some v -> at_path p (upd p g d) = Some (g v).
Proof.
  induction p as [|f p IH]; intros g d v H; simpl in *.
  - inversion H; reflexivity.
  - destruct f; try discriminate; try (apply IH; exact H).
    + destruct d; try discriminate. destruct (map_get k m) as [x|] eqn:E; [|discriminate].
      simpl. rewrite (map_get_upd_same k (upd p g) m x E). apply IH; exact H.
    + destruct d; try discriminate. destruct (i <? 0) eqn:Ei; [discriminate|].
      destruct (nth_error l (Z.to_nat i)) as [x|] eqn:E; [|discriminate].
      simpl. rewrite (nth_list_upd_same _ (upd p g) l x E). apply IH; exact H.
Qed.

(* ---- frame: a location that is not below, above or at the updated one is unchanged *)
Definition frag_eqb (a b : frag) : bool :=
  match a, b with
  | FChild x, FChild y => bytes_eqb x y
  | FNth x, FNth y => x =? y
  | _, _ => false
  end.

(* root markers do not move: paths are compared without them *)
Definition no_root (p : list frag) : list frag :=
  filter (fun f => match f with FRoot => false | _ => true end) p.

(* q diverges from p: at some position they name different members *)
Fixpoint diverge (p q : list frag) : bool :=
  match p, q with
  | a :: p', b :: q' => if frag_eqb a b then diverge p' q' else true
  | _, _ => false
  end.

Lemma map_get_upd_other k k' g m : bytes_eqb k' k = false -> map_get k' (map_upd k g m) = map_get k' m.
Proof.
  intro H. induction m as [|[k2 x] m IH]; simpl; [reflexivity|].
  destruct (bytes_eqb k k2) eqn:E; simpl.
  - destruct (bytes_eqb k' k2) eqn:E2; [|reflexivity].
    apply bytes_eqb_eq in E, E2. subst. rewrite (proj2 (bytes_eqb_eq k2 k2) eq_refl) in H. discriminate.
  - destruct (bytes_eqb k' k2); [reflexivity|exact IH].
Qed.

Lemma nth_list_upd_other i j g : forall l, i <> j -> nth_error (list_upd i g l) j = nth_error l j.
Proof.
  revert j. induction i as [|i IH]; intros j [|x l] H; simpl; try reflexivity.
  - destruct j; [contradiction|reflexivity].
  - destruct j; [reflexivity|]. simpl. apply IH. congruence.
Qed.

Lemma map_get_upd_none k g m : map_get k m = None -> map_get k (map_upd k g m) = None.
Proof.
  induction m as [|[k2 x] m IH]; simpl; [reflexivity|].
  destruct (bytes_eqb k k2) eqn:E; simpl; rewrite E; [discriminate|exact IH].
Qed.

Lemma nth_list_upd_none i g : forall l, nth_error l i = None -> nth_error (list_upd i g l) i = None.
Proof. induction i as [|n IHn]; intros [|y l] G; simpl in *; try reflexivity; try discriminate. apply IHn; exact G. Qed.

(* member names and non-negative indexes only *)
Fixpoint normal_path (p : list frag) : bool :=
  match p with
  | [] => true
  | FChild _ :: p' => normal_path p'
  | FNth i :: p' => (0 <=? i) && normal_path p'
  | _ => false
  end.

Theorem upd_frame p : forall q g d, normal_path p = true -> normal_path q = true ->
  diverge p q = true -> at_path q (upd p g d) = at_path q d.
Proof.
  induction p as [|a p IH]; intros q g d Np Nq Hd.
  - destruct q; discriminate.
  - destruct q as [|b q]; [destruct a; discriminate|].
    destruct a; simpl in Np; try discriminate.
    + (* FChild *)
      destruct b; simpl in Nq; try discriminate.
      * simpl in Hd. simpl. destruct d; try reflexivity.
        destruct (bytes_eqb k k0) eqn:E.
        -- apply bytes_eqb_eq in E. subst k0.
           destruct (map_get k m) as [x|] eqn:G.
           ++ rewrite (map_get_upd_same k (upd p g) m x G). apply IH; auto.
           ++ rewrite (map_get_upd_none k (upd p g) m G). reflexivity.
        -- assert (E' : bytes_eqb k0 k = false).
           { destruct (bytes_eqb k0 k) eqn:E2; [|reflexivity]. apply bytes_eqb_eq in E2. subst.
             rewrite (proj2 (bytes_eqb_eq k k) eq_refl) in E. discriminate. }
           rewrite (map_get_upd_other k k0 (upd p g) m E'). reflexivity.
      * simpl. destruct d; reflexivity.
    + (* FNth *)
      apply andb_true_iff in Np as [Ni Np]. apply Z.leb_le in Ni.
      destruct b; simpl in Nq; try discriminate.
      * simpl. destruct d; try reflexivity. destruct (i <? 0); reflexivity.
      * apply andb_true_iff in Nq as [Ni0 Nq]. apply Z.leb_le in Ni0.
        simpl in Hd. simpl. destruct d; try reflexivity.
        replace (i <? 0) with false by (symmetry; apply Z.ltb_ge; lia).
        replace (i0 <? 0) with false by (symmetry; apply Z.ltb_ge; lia). simpl.
        destruct (i =? i0) eqn:E.
        -- apply Z.eqb_eq in E. subst i0.
           destruct (nth_error l (Z.to_nat i)) as [x|] eqn:G.
           ++ rewrite (nth_list_upd_same _ (upd p g) l x G). apply IH; auto.
           ++ rewrite (nth_list_upd_none _ (upd p g) l G). reflexivity.
        -- apply Z.eqb_neq in E. rewrite nth_list_upd_other by lia. reflexivity.
Qed.

(* ---------------------------------------------------------------- the operations *)

Definition replace_nth (l : list jv) (i : Z) (v : jv) : list jv :=
  match nth_norm (Z.of_nat (length l)) i with
  | Some k => list_upd (Z.to_nat k) (fun _ => v) l
  | None => l
  end.

(* Set / Del on the parent of the last fragment *)
Definition set_last (f : frag) (v : jv) (parent : jv) : jv :=
  match f, parent with
  | FChild k, JObj m => JObj (map_set k v m)
  | FNth i, JArr l => JArr (replace_nth l i v)
  | FWild, JArr l => JArr (map (fun _ => v) l)
  | FWild, JObj m => JObj (map (fun kv => (fst kv, v)) m)
  | FUnion us, JObj m =>
      JObj (fold_left (fun acc u => match u with UKey k => map_set k v acc | _ => acc end) us m)
  | FUnion us, JArr l =>
      JArr (fold_left (fun acc u => match u with UIdx i => replace_nth acc i v | _ => acc end) us l)
  | _, _ => parent
  end.

Definition del_last (f : frag) (parent : jv) : jv :=
  match f, parent with
  | FChild k, JObj m => JObj (map_del k m)
  | FWild, JObj m => JObj []
  | FUnion us, JObj m =>
      JObj (fold_left (fun acc u => match u with UKey k => map_del k acc | _ => acc end) us m)
  | _, JArr _ => set_last f JNull parent
  | _, _ => parent
  end.

(* remove the elements at the given indexes *)
Fixpoint drop_indexes (i : Z) (ix : list Z) (l : list jv) : list jv :=
  match l with
  | [] => []
  | x :: l' => if existsb (Z.eqb i) ix then drop_indexes (i + 1) ix l' else x :: drop_indexes (i + 1) ix l'
  end.

Section Ops.
  Variable six : Z -> list Z -> list Z.

Definition selected_indexes (f : frag) (root : jv) (l : list jv) : list Z :=
  flat_map (fun pc => match fst pc with [FNth i] => [i] | _ => [] end)
           (sel_loc_six six f true root ([], JArr l)).
Definition selected_keys (f : frag) (root : jv) (m : list (bytes * jv)) : list bytes :=
  flat_map (fun pc => match fst pc with [FChild k] => [k] | _ => [] end)
           (sel_loc_six six f true root ([], JObj m)).

(* [elem_root = true]: the recorded known finding C13-remove-filter-root: Remove matches a trailing
   filter with Script.Match, whose root ($) is the element instead of the document *)
Definition remove_filter_elem (e : eqn) (parent : jv) : jv :=
  match parent with
  | JArr l => JArr (filter (fun c => negb (existsb is_true (evals e c c))) l)
  | JObj m => JObj (filter (fun kv => negb (existsb is_true (evals e (snd kv) (snd kv)))) m)
  | _ => parent
  end.

Definition remove_last (f : frag) (root : jv) (parent : jv) : jv :=
  match parent with
  | JArr l => JArr (drop_indexes 0 (selected_indexes f root l) l)
  | JObj m => JObj (fold_left (fun acc k => map_del k acc) (selected_keys f root m) m)
  | _ => parent
  end.

Definition parents_of (x : expr) (d : jv) : list pv := eval_loc_six six (removelast x) d [([], d)].

Definition set_spec (x : expr) (v : jv) (d : jv) : jv :=
  fold_left (fun acc par => upd (fst par) (set_last (last x FRoot) v) acc) (parents_of x d) d.
Definition del_spec (x : expr) (d : jv) : jv :=
  fold_left (fun acc par => upd (fst par) (del_last (last x FRoot)) acc) (parents_of x d) d.
Definition remove_spec (x : expr) (d : jv) : jv :=
  fold_left (fun acc par => upd (fst par) (remove_last (last x FRoot) d) acc) (parents_of x d) d.
Definition remove_spec_elem_root (x : expr) (d : jv) : jv :=
  match last x FRoot with
  | FFilter e => fold_left (fun acc par => upd (fst par) (remove_filter_elem e) acc) (parents_of x d) d
  | _ => remove_spec x d
  end.
Definition modify_spec (x : expr) (g : jv -> jv) (d : jv) : jv :=
  fold_left (fun acc loc => upd (fst loc) g acc) (locate_six six x d) d.

(* the *One forms: one result per selected location *)
Definition modify_one_candidates (x : expr) (g : jv -> jv) (d : jv) : list jv :=
  map (fun loc => upd (fst loc) g d) (locate_six six x d).

(* Known-finding variant (C13-modify-filter-sees-modified-descendants): modify.go walks a descent
   children first and reads the live data, so a filter above a modified location is evaluated on
   the modified subtree. [modify_live] is that traversal written as a function; [root] stays the
   original document (filters with $ operands are outside the class). *)
Fixpoint modify_live (fuel : nat) (x : expr) (g : jv -> jv) (root v : jv) {struct fuel} : jv :=
  match fuel with
  | O => v
  | S fuel' =>
      match x with
      | [] => g v
      | FRoot :: x' | FAt :: x' => modify_live fuel' x' g root v
      | FDescent :: x' =>
          let below c := if is_container c then modify_live fuel' x g root c else c in
          let v' := match v with
                    | JArr l => JArr (map below l)
                    | JObj m => JObj (map (fun kv => (fst kv, below (snd kv))) m)
                    | _ => v
                    end in
          modify_live fuel' x' g root v'
      | f :: x' =>
          fold_left (fun acc loc => upd (fst loc) (modify_live fuel' x' g root) acc)
                    (sel_loc_six six f (match x' with [] => true | _ => false end) root ([], v)) v
      end
  end.
Definition modify_live_spec (x : expr) (g : jv -> jv) (d : jv) : jv := modify_live 1000 x g d d.

(* ---- when the comparison with the implementation is meaningful *)

(* two locations where one is a prefix of the other (descent): the result depends on the order *)
Fixpoint is_prefix (p q : list frag) : bool :=
  match p, q with
  | [], _ => true
  | a :: p', b :: q' => frag_eqb a b && is_prefix p' q'
  | _, _ => false
  end.
Definition overlapping (ps : list (list frag)) : bool :=
  (fix go (ps : list (list frag)) : bool :=
     match ps with
     | [] => false
     | p :: ps' => existsb (fun q => is_prefix (no_root p) (no_root q) || is_prefix (no_root q) (no_root p)) ps' || go ps'
     end) ps.

(* the members of [parent] that Set's last fragment addresses (existing or to be created) *)
Definition set_targets (f : frag) (parent : jv) : list frag :=
  match f, parent with
  | FChild k, JObj _ => [FChild k]
  | FNth i, JArr l => match nth_norm (Z.of_nat (length l)) i with Some k => [FNth k] | None => [] end
  | FWild, JArr l => map (fun ix => FNth (fst ix)) (indexed_from 0 l)
  | FWild, JObj m => map (fun kv => FChild (fst kv)) m
  | FUnion us, JObj _ => flat_map (fun u => match u with UKey k => [FChild k] | _ => [] end) us
  | FUnion us, JArr l =>
      flat_map (fun u => match u with
                         | UIdx i => match nth_norm (Z.of_nat (length l)) i with Some k => [FNth k] | None => [] end
                         | _ => [] end) us
  | _, _ => []
  end.

(* a target location (parent + addressed member) that is a prefix of another parent: the result
   would depend on the order in which the locations are visited *)
Definition targets_block_parents (f : frag) (parents : list pv) : bool :=
  let targets := flat_map (fun par => map (fun t => fst par ++ [t]) (set_targets f (snd par))) parents in
  existsb (fun t => existsb (fun par => is_container (snd par) && is_prefix (no_root t) (no_root (fst par))) parents) targets.

(* Set/Del: every child/index step on the way finds its member (nothing has to be created
   and no scalar has to be followed), and the last fragment applies to every parent *)
Fixpoint all_steps_match (x : expr) (root : jv) (pvs : list pv) : bool :=
  match x with
  | [] => true
  | f :: x' =>
      let step pv := sel_loc_six six f (match x' with [] => true | _ => false end) root pv in
      (match f with
       | FChild _ | FNth _ => forallb (fun pv => match step pv with [] => false | _ => true end) pvs
       | FDescent => forallb (fun pv => is_container (snd pv)) pvs   (* a scalar cannot be descended into *)
       | _ => true
       end) && all_steps_match x' root (flat_map step pvs)
  end.

Definition last_applies (f : frag) (parent : jv) : bool :=
  match f, parent with
  | FChild _, JObj _ => true
  | FNth i, JArr l => match nth_norm (Z.of_nat (length l)) i with Some _ => true | None => false end
  | FWild, (JArr _ | JObj _) => true
  | FUnion us, JObj _ => forallb (fun u => match u with UKey _ => true | _ => false end) us
  | FUnion us, JArr l => forallb (fun u => match u with UIdx i => match nth_norm (Z.of_nat (length l)) i with Some _ => true | None => false end | _ => false end) us
  | _, _ => false
  end.

Definition set_comparable (x : expr) (d : jv) : bool :=
  match x with
  | [] => false
  | _ =>
      all_steps_match (removelast x) d [([], d)] &&
      (* below a descent every container is visited and the ones the last fragment does not apply
         to are passed over silently *)
      ((match last (removelast x) FRoot, last x FRoot with
        | FDescent, (FChild _ | FWild) => true
        | _, _ => false end) ||
       forallb (fun par => last_applies (last x FRoot) (snd par)) (parents_of x d)) &&
      negb (targets_block_parents (last x FRoot) (parents_of x d)) &&
      match parents_of x d with [] => false | _ => true end
  end.

(* one candidate result per selected location, for the *One forms *)
Definition single_last (op : Z) (f : frag) (v : jv) (g : jv -> jv) (parent : jv) : jv :=
  match f, parent with
  | FChild k, JObj m =>
      if op =? 0 then JObj (map_set k v m)
      else if (op =? 1) || (op =? 2) then JObj (map_del k m)
      else JObj (map_upd k g m)
  | FNth i, JArr l =>
      if op =? 0 then JArr (replace_nth l i v)
      else if op =? 1 then JArr (replace_nth l i JNull)
      else if op =? 2 then JArr (drop_indexes 0 [i] l)
      else JArr (list_upd (Z.to_nat i) g l)
  | _, _ => parent
  end.

Definition one_candidates (op : Z) (x : expr) (v : jv) (g : jv -> jv) (d : jv) : list jv :=
  if op =? 0 then
    match flat_map (fun par => map (fun t => upd (fst par) (single_last 0 t v g) d) (set_targets (last x FRoot) (snd par)))
                   (parents_of x d) with
    | [] => [d]
    | cs => cs
    end
  else
  match locate_six six x d with
  | [] => [d]
  | locs => map (fun loc => upd (removelast (fst loc)) (single_last op (last (fst loc) FRoot) v g) d) locs
  end.

End Ops.
