(* C14, normal paths: the text of a path made of a root and child / index fragments (the paths
   Locate and Walk hand out), wildcards and descents reads back as the same path. Printer: Expr.Append with Child.Append
   (dot form when every byte is a token byte of the GENERATED jp_tokenMap, else the bracketed
   string literal of jp.AppendString) and Nth.Append. Parser: readExpr / nextFrag / afterDot /
   afterBracket / readInt / readStr restricted to these fragments. Both are extracted and compared
   with the code (requests jppath / jpparse). *)
From Coq Require Import Init.Byte NArith ZArith List Bool Lia.
Require Import Ojg.Base.Bytes Ojg.Base.Utf8 Ojg.Gen.StrMaps Ojg.Json.Writer Ojg.Jp.Str Ojg.Jp.StrU.
Import ListNotations.
Open Scope Z_scope.

(* NWild true is the wildcard written dot-star, NWild false the one written as a bracketed star *)
Inductive nfrag : Set := NChild (k : bytes) | NNth (i : Z) | NWild (star : bool) | NDescent | NUnion (ms : list (bytes + Z)) | NSlice (l : list Z).

(* ---- printer *)
Definition tok_byte (b : byte) : bool := negb (beqb (jp_tokenMap b) x2e).
Definition token_ok (k : bytes) : bool :=
  match k with [] => false | _ => forallb tok_byte k end.

Definition print_member (m : bytes + Z) : bytes :=
  match m with
  | inl s => x27 :: enc_body_u (length s) s ++ [x27]
  | inr i => format_int i
  end.
Fixpoint print_members (ms : list (bytes + Z)) : bytes :=
  match ms with
  | [] => []
  | [m] => print_member m
  | m :: r => print_member m ++ x2c :: print_members r
  end.

(* maxEnd of jp/get.go (the model of evaluation has the same constant, Jp/Expr.v max_end) *)
Definition slice_max_end : Z := 2147483647.
Definition print_start (a : Z) : bytes := if a =? 0 then [] else format_int a.
Definition print_end (b : Z) : bytes := if b =? slice_max_end then [] else format_int b.
Definition print_slice (l : list Z) : bytes :=
  match l with
  | [] => [x3a]
  | [a] => print_start a ++ [x3a]
  | [a; b] => print_start a ++ x3a :: print_end b
  | a :: b :: c :: _ => print_start a ++ x3a :: print_end b ++ x3a :: format_int c
  end.

Definition print_frag (f : nfrag) : bytes :=
  match f with
  | NSlice l => x5b :: print_slice l ++ [x5d]
  | NUnion ms => x5b :: print_members ms ++ [x5d]
  | NChild k => if token_ok k then x2e :: k else x5b :: x27 :: enc_body_u (length k) k ++ [x27; x5d]
  | NNth i => x5b :: format_int i ++ [x5d]
  | NWild true => [x2e; x2a]
  | NWild false => [x5b; x2a; x5d]
  | NDescent => []     (* written by print_frags, which looks at the next fragment *)
  end.

(* Expr.Append: a descent is two dots; the second one is written by the next fragment when that
   is a token child or a '*' wildcard *)
Definition second_dot (r : list nfrag) : bool :=
  match r with
  | NChild k :: _ => negb (token_ok k)
  | NWild star :: _ => negb star
  | _ => true
  end.
Fixpoint print_frags (fs : list nfrag) : bytes :=
  match fs with
  | [] => []
  | NDescent :: r => x2e :: (if second_dot r then [x2e] else []) ++ print_frags r
  | f :: r => print_frag f ++ print_frags r
  end.
Definition print_path (fs : list nfrag) : bytes := x24 :: print_frags fs.

(* Expr.BracketString: every fragment in its bracket form; a descent is written [..] (and one more
   dot when it is the last fragment), which the parser does not read - the recorded finding of C14 *)
Definition print_frag_b (f : nfrag) : bytes :=
  match f with
  | NChild k => x5b :: x27 :: enc_body_u (length k) k ++ [x27; x5d]
  | NWild _ => [x5b; x2a; x5d]
  | NDescent => [x5b; x2e; x2e; x5d]
  | _ => print_frag f
  end.
Definition ends_in_descent (fs : list nfrag) : bool :=
  match rev fs with NDescent :: _ => true | _ => false end.
Definition print_path_b (fs : list nfrag) : bytes :=
  x24 :: flat_map print_frag_b fs ++ (if ends_in_descent fs then [x2e] else []).

(* ---- parser *)
Fixpoint skip_space (w : bytes) : bytes :=
  match w with b :: r => if beqb b x20 then skip_space r else w | [] => [] end.

Fixpoint span_token (w : bytes) : bytes * bytes :=
  match w with
  | b :: r => if tok_byte b then let '(t, k) := span_token r in (b :: t, k) else ([], w)
  | [] => ([], [])
  end.

Fixpoint read_digits (acc : Z) (w : bytes) : Z * bytes :=
  match w with
  | b :: r => if is_digit b then read_digits (acc * 10 + digit_val b) r else (acc, w)
  | [] => (acc, [])
  end.

(* readInt on the byte q (already consumed) and what follows: the value and the text from the
   first byte after the digits *)
Definition read_int (q : byte) (r' : bytes) : option (Z * bytes) :=
  let neg := beqb q x2d in
  let ds := if neg then r' else q :: r' in
  match ds with
  | d :: _ =>
      if is_digit d then let '(v, r2) := read_digits 0 ds in Some ((if neg then - v else v), r2) else None
  | [] => None
  end.

Definition cons_opt (f : nfrag) (r : option (list nfrag)) : option (list nfrag) :=
  match r with Some l => Some (f :: l) | None => None end.

Definition push_member (m : bytes + Z) (r : option (list (bytes + Z) * bytes)) : option (list (bytes + Z) * bytes) :=
  match r with Some (l, k) => Some (m :: l, k) | None => None end.

(* what follows a union member: a comma (more members) or the closing bracket *)
Definition after_member (m : bytes + Z) (w : bytes) (more : bytes -> option (list (bytes + Z) * bytes)) :
  option (list (bytes + Z) * bytes) :=
  match skip_space w with
  | e :: r => if beqb e x2c then push_member m (more r) else if beqb e x5d then Some ([m], r) else None
  | [] => None
  end.

(* readUnion, entered right after a comma *)
Fixpoint read_union (fuel : nat) (w : bytes) : option (list (bytes + Z) * bytes) :=
  match fuel with
  | O => None
  | S f =>
    match skip_space w with
    | [] => None
    | q :: r' =>
        if beqb q x27 || beqb q x22 then
          match read_str q r' with
          | Some (s, r2) => after_member (inl s) r2 (read_union f)
          | None => None
          end
        else
          match read_int q r' with
          | Some (v, r2) => after_member (inr v) r2 (read_union f)
          | None => None
          end
    end
  end.

(* an integer that must be followed by the closing bracket *)
Definition read_last_int (d : byte) (r : bytes) : option (Z * bytes) :=
  match read_int d r with
  | Some (v, e :: r') => if beqb e x5d then Some (v, r') else None
  | _ => None
  end.

(* readSlice(i), entered right after the first colon *)
Definition read_slice (i : Z) (w : bytes) : option (list Z * bytes) :=
  match w with
  | [] => None
  | b :: r =>
      if beqb b x5d then Some ([i; slice_max_end], r)
      else
        match skip_space w with
        | [] => None
        | c :: r1 =>
            if beqb c x3a then                               (* the end is left out *)
              match r1 with
              | [] => None
              | d :: r2 =>
                  if beqb d x5d then Some ([i; slice_max_end], r2)
                  else match read_last_int d r2 with Some (v, k) => Some ([i; slice_max_end; v], k) | None => None end
              end
            else
              match read_int c r1 with
              | Some (v, e :: r2) =>
                  if beqb e x3a then
                    match r2 with
                    | [] => None
                    | d :: r3 =>
                        if beqb d x5d then Some ([i; v], r3)
                        else match read_last_int d r3 with Some (v2, k) => Some ([i; v; v2], k) | None => None end
                    end
                  else if beqb e x5d then Some ([i; v], r2) else None
              | _ => None
              end
        end
  end.

(* [ld]: the previous fragment was a descent (lastDescent in readExpr) *)
Fixpoint parse_frags (fuel : nat) (ld : bool) (w : bytes) : option (list nfrag) :=
  match fuel with
  | O => None
  | S f =>
    match w with
    | [] => Some []
    | b :: r =>
      if beqb b x2e then                                   (* afterDot *)
        match r with
        | [] => None
        | c :: r' =>
            if beqb c x2a then cons_opt (NWild true) (parse_frags f false r')
            else if beqb c x2e then cons_opt NDescent (parse_frags f true r')
            else if negb (tok_byte c) then None
            else let '(t, k) := span_token r' in cons_opt (NChild (c :: t)) (parse_frags f false k)
        end
      else if beqb b x2a then cons_opt (NWild true) (parse_frags f false r)
      else if beqb b x5b then                              (* afterBracket *)
        match skip_space r with
        | [] => None
        | q :: r' =>
            if beqb q x3a then
              match read_slice 0 r' with
              | Some (l, r2) => cons_opt (NSlice l) (parse_frags f false r2)
              | None => None
              end
            else if beqb q x2a then
              match skip_space r' with
              | e :: r3 => if beqb e x5d then cons_opt (NWild false) (parse_frags f false r3) else None
              | [] => None
              end
            else if beqb q x27 || beqb q x22 then
              match read_str q r' with
              | Some (s, r2) =>
                  match skip_space r2 with
                  | e :: r3 =>
                      if beqb e x5d then cons_opt (NChild s) (parse_frags f false r3)
                      else if beqb e x2c then
                        match read_union (length r3) r3 with
                        | Some (ms, r4) => cons_opt (NUnion (inl s :: ms)) (parse_frags f false r4)
                        | None => None
                        end
                      else None
                  | [] => None
                  end
              | None => None
              end
            else
              match read_int q r' with
              | Some (v, r2) =>
                  match skip_space r2 with
                  | e :: r3 =>
                      if beqb e x5d then cons_opt (NNth v) (parse_frags f false r3)
                      else if beqb e x2c then
                        match read_union (length r3) r3 with
                        | Some (ms, r4) => cons_opt (NUnion (inr v :: ms)) (parse_frags f false r4)
                        | None => None
                        end
                      else if beqb e x3a then
                        match read_slice v r3 with
                        | Some (l, r4) => cons_opt (NSlice l) (parse_frags f false r4)
                        | None => None
                        end
                      else None
                  | [] => None
                  end
              | None => None
              end
        end
      else if tok_byte b && ld then                        (* afterDotDot *)
        let '(t, k) := span_token r in cons_opt (NChild (b :: t)) (parse_frags f false k)
      else None
    end
  end.

Definition parse_path (w : bytes) : option (list nfrag) :=
  match w with
  | b :: r => if beqb b x24 then parse_frags (S (length r)) false r else None
  | [] => None
  end.

(* what a fragment reads back as: keys and members exactly as they were; a union of one member
   is that child / index; a slice gets its end filled in and is cut to the three numbers printed *)
Definition norm_frag (f : nfrag) : nfrag :=
  match f with
  | NUnion [inl s] => NChild s
  | NUnion [inr i] => NNth i
  | NSlice [] => NSlice [0; slice_max_end]
  | NSlice [a] => NSlice [a; slice_max_end]
  | NSlice (a :: b :: c :: _) => NSlice [a; b; c]
  | _ => f
  end.

(* ---- expressions that start with @ or with a fragment (as inside filters, or built without a
   root): the first fragment is written without its dot (Append with first = true) and read by
   nextFrag with first = true, which lets a token start the expression *)
Inductive head : Set := HRoot | HAt | HNone.
Definition print_first (fs : list nfrag) : bytes :=
  match fs with
  | NChild k :: r => (if token_ok k then k else print_frag (NChild k)) ++ print_frags r
  | NWild true :: r => x2a :: print_frags r
  | _ => print_frags fs
  end.
Definition print_path_h (h : head) (fs : list nfrag) : bytes :=
  match h with
  | HRoot => x24 :: print_frags fs
  | HAt => x40 :: print_frags fs
  | HNone => print_first fs
  end.
Definition parse_path_h (w : bytes) : option (head * list nfrag) :=
  match w with
  | b :: r =>
      if beqb b x24 then match parse_frags (S (length r)) false r with Some fs => Some (HRoot, fs) | None => None end
      else if beqb b x40 then match parse_frags (S (length r)) false r with Some fs => Some (HAt, fs) | None => None end
      else match parse_frags (S (length w)) true w with Some fs => Some (HNone, fs) | None => None end
  | [] => Some (HNone, [])
  end.

(* ---- printable forms for the correspondence run:  c<hex> | i<int>, space separated *)
Definition show_frag (f : nfrag) : bytes :=
  match f with
  | NChild k => x63 :: Jv.hex_of_bytes k
  | NNth i => x69 :: format_int i
  | NWild true => [x77; x2a]
  | NWild false => [x77; x23]
  | NDescent => [x64]
  | NSlice l => x6c :: flat_map (fun i => x2c :: format_int i) l
  | NUnion ms => x75 :: flat_map (fun m => match m with inl s => x2c :: x73 :: Jv.hex_of_bytes s | inr i => x2c :: x69 :: format_int i end) ms
  end.
Fixpoint show_frags (fs : list nfrag) : bytes :=
  match fs with [] => [] | [f] => show_frag f | f :: r => show_frag f ++ x20 :: show_frags r end.
Definition model_jpparse_h (w : bytes) : bytes :=
  match parse_path_h w with
  | None => [x2d]
  | Some (h, fs) => x4f :: x20 :: (match h with HRoot => x24 | HAt => x40 | HNone => x2d end) :: x20 :: show_frags fs
  end.
Definition model_jpparse (w : bytes) : bytes :=
  match parse_path w with None => [x2d] | Some fs => x4f :: x20 :: show_frags fs end.
