(* C14, normal paths: the text of a path made of a root and child / index fragments (the paths
   Locate and Walk hand out) reads back as the same path. Printer: Expr.Append with Child.Append
   (dot form when every byte is a token byte of the GENERATED jp_tokenMap, else the bracketed
   string literal of jp.AppendString) and Nth.Append. Parser: readExpr / nextFrag / afterDot /
   afterBracket / readInt / readStr restricted to these fragments. Both are extracted and compared
   with the code (requests jppath / jpparse). *)
From Coq Require Import Init.Byte NArith ZArith List Bool Lia.
Require Import Ojg.Base.Bytes Ojg.Base.Utf8 Ojg.Gen.StrMaps Ojg.Json.Writer Ojg.Jp.Str Ojg.Jp.StrU.
Import ListNotations.
Open Scope Z_scope.

Inductive nfrag : Set := NChild (k : bytes) | NNth (i : Z).

(* ---- printer *)
Definition tok_byte (b : byte) : bool := negb (beqb (jp_tokenMap b) x2e).
Definition token_ok (k : bytes) : bool :=
  match k with [] => false | _ => forallb tok_byte k end.

Definition print_frag (f : nfrag) : bytes :=
  match f with
  | NChild k => if token_ok k then x2e :: k else x5b :: x27 :: enc_body_u (length k) k ++ [x27; x5d]
  | NNth i => x5b :: format_int i ++ [x5d]
  end.
Definition print_path (fs : list nfrag) : bytes := x24 :: flat_map print_frag fs.

(* ---- parser *)
Fixpoint skip_space (w : bytes) : bytes :=
  match w with b :: r => if beqb b x20 then skip_space r else w | [] => [] end.

Fixpoint span_token (w : bytes) : bytes * bytes :=
  match w with
  | b :: r => if tok_byte b then let '(t, k) := span_token r in (b :: t, k) else ([], w)
  | [] => ([], [])
  end.

Fixpoint read_digits (acc : Z) (w : bytes) : Z * bytes :=
  match w with
  | b :: r => if is_digit b then read_digits (acc * 10 + digit_val b) r else (acc, w)
  | [] => (acc, [])
  end.

Definition cons_opt (f : nfrag) (r : option (list nfrag)) : option (list nfrag) :=
  match r with Some l => Some (f :: l) | None => None end.

Fixpoint parse_frags (fuel : nat) (w : bytes) : option (list nfrag) :=
  match fuel with
  | O => None
  | S f =>
    match w with
    | [] => Some []
    | b :: r =>
      if beqb b x2e then                                   (* afterDot *)
        match r with
        | [] => None
        | c :: r' =>
            if beqb c x2a || beqb c x2e then None          (* wildcard, descent: outside this model *)
            else if negb (tok_byte c) then None
            else let '(t, k) := span_token r' in cons_opt (NChild (c :: t)) (parse_frags f k)
        end
      else if beqb b x5b then                              (* afterBracket *)
        match skip_space r with
        | [] => None
        | q :: r' =>
            if beqb q x27 || beqb q x22 then
              match read_str q r' with
              | Some (s, r2) =>
                  match skip_space r2 with
                  | e :: r3 => if beqb e x5d then cons_opt (NChild s) (parse_frags f r3) else None
                  | [] => None
                  end
              | None => None
              end
            else
              let neg := beqb q x2d in
              let ds := if neg then r' else q :: r' in
              match ds with
              | d :: _ =>
                  if is_digit d then
                    let '(v, r2) := read_digits 0 ds in
                    match skip_space r2 with
                    | e :: r3 => if beqb e x5d then cons_opt (NNth (if neg then - v else v)) (parse_frags f r3) else None
                    | [] => None
                    end
                  else None
              | [] => None
              end
        end
      else None
    end
  end.

Definition parse_path (w : bytes) : option (list nfrag) :=
  match w with
  | b :: r => if beqb b x24 then parse_frags (S (length r)) r else None
  | [] => None
  end.

(* what a fragment reads back as: a key printed in brackets has its invalid UTF-8 replaced *)
Definition norm_frag (f : nfrag) : nfrag :=
  match f with
  | NChild k => if token_ok k then NChild k else NChild (sanitize k)
  | NNth i => NNth i
  end.

(* ---- printable forms for the correspondence run:  c<hex> | i<int>, space separated *)
Definition show_frag (f : nfrag) : bytes :=
  match f with
  | NChild k => x63 :: Jv.hex_of_bytes k
  | NNth i => x69 :: format_int i
  end.
Fixpoint show_frags (fs : list nfrag) : bytes :=
  match fs with [] => [] | [f] => show_frag f | f :: r => show_frag f ++ x20 :: show_frags r end.
Definition model_jpparse (w : bytes) : bytes :=
  match parse_path w with None => [x2d] | Some fs => x4f :: x20 :: show_frags fs end.
