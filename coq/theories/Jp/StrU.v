(* C14, string clause for EVERY byte string: jp.AppendString with its utf8.DecodeRune branch
   (class '8' of the GENERATED jp_jMap: U+2028 / U+2029 / invalid bytes are escaped, other runes
   copied) followed by the parser's readStr / readEscStr is the identity up to the replacement
   of invalid UTF-8 by U+FFFD (sanitize). *)
From Coq Require Import Init.Byte NArith ZArith List Bool Lia.
Require Import Ojg.Base.Bytes Ojg.Base.Utf8 Ojg.Gen.StrMaps Ojg.Json.Sweep Ojg.Json.Writer Ojg.Json.WStr Ojg.Jp.Str.
Import ListNotations.
Open Scope Z_scope.

Definition j2028 : bytes := [x5c; x75; x32; x30; x32; x38].
Definition j2029 : bytes := [x5c; x75; x32; x30; x32; x39].
Definition jfffd : bytes := [x5c; x75; x66; x66; x66; x64].

Fixpoint enc_body_u (fuel : nat) (s : bytes) : bytes :=
  match fuel, s with
  | O, _ => []
  | _, [] => []
  | S f, b :: r =>
      if beqb (jp_jMap b) x38 then
        let '(rn, w) := decode_rune s in
        let w := match w with O => 1%nat | _ => w end in
        (if rn =? 8232 then j2028 else if rn =? 8233 then j2029
         else if rn =? rune_error then jfffd else firstn w s) ++ enc_body_u f (skipn w s)
      else enc_byte b ++ enc_body_u f r
  end.

Definition append_string_u (s : bytes) (delim : byte) : bytes := delim :: enc_body_u (length s) s ++ [delim].

(* class '8' is exactly the bytes >= 0x80 *)
Definition jclass_ok (b : byte) : bool := Bool.eqb (beqb (jp_jMap b) x38) (128 <=? b2z b).
Lemma jclass_sweep : forallb jclass_ok all_bytes = true.
Proof. vm_compute. reflexivity. Qed.
Lemma jclass_of b : beqb (jp_jMap b) x38 = (128 <=? b2z b).
Proof.
  pose proof jclass_sweep as H. rewrite forallb_forall in H. specialize (H b (all_bytes_complete b)).
  unfold jclass_ok in H. apply Bool.eqb_prop in H. exact H.
Qed.

Lemma enc_body_u_ascii fuel : forall s, (length s <= fuel)%nat -> Forall ascii s -> enc_body_u fuel s = enc_body s.
Proof.
  induction fuel as [|f IH]; intros s Hl Hs.
  - destruct s; [reflexivity|simpl in Hl; lia].
  - destruct s as [|b r]; [reflexivity|]. inversion Hs as [|? ? Hb Hr]; subst. simpl in Hl.
    cbn [enc_body_u]. rewrite jclass_of. unfold ascii in Hb.
    destruct (128 <=? b2z b) eqn:E; [apply Z.leb_le in E; lia|].
    rewrite IH by (assumption || lia). reflexivity.
Qed.

(* a byte >= 0x80 is read as itself *)
Lemma read_high term b k : (term = x22 \/ term = x27) -> 128 <= b2z b ->
  read_str term (b :: k) = push [b] (read_str term k).
Proof.
  intros Ht Hb. cbn [read_str].
  assert (E1 : beqb b term = false).
  { destruct (beqb b term) eqn:E; [|reflexivity]. apply beqb_eq in E. subst b. destruct Ht as [-> | ->]; vm_compute in Hb; exfalso; apply Hb; reflexivity. }
  assert (E2 : beqb b x5c = false).
  { destruct (beqb b x5c) eqn:E; [|reflexivity]. apply beqb_eq in E. subst b. vm_compute in Hb. exfalso. apply Hb. reflexivity. }
  rewrite E1, E2. reflexivity.
Qed.

Lemma read_high_list term bs : forall k, (term = x22 \/ term = x27) -> Forall high bs ->
  read_str term (bs ++ k) = push bs (read_str term k).
Proof.
  induction bs as [|b bs IH]; intros k Ht H.
  - simpl. destruct (read_str term k) as [[s k']|]; reflexivity.
  - inversion H as [|? ? Hb Hbs]; subst. change ((b :: bs) ++ k) with (b :: (bs ++ k)).
    rewrite read_high by assumption. rewrite IH by assumption. rewrite push_push. reflexivity.
Qed.

Lemma read_fixed term h1 h2 h3 h4 a b c d k :
  hexv h1 = Some a -> hexv h2 = Some b -> hexv h3 = Some c -> hexv h4 = Some d ->
  (term = x22 \/ term = x27) ->
  read_str term ([x5c; x75; h1; h2; h3; h4] ++ k) = push (encode_rune (((a * 16 + b) * 16 + c) * 16 + d)) (read_str term k).
Proof.
  intros H1 H2 H3 H4 Ht. cbn [List.app read_str].
  assert (E1 : beqb x5c term = false) by (destruct Ht as [-> | ->]; reflexivity).
  rewrite E1. change (beqb x5c x5c) with true. cbn iota.
  change (beqb x75 x75 || beqb x75 x55) with true. cbn iota. rewrite H1, H2, H3, H4. reflexivity.
Qed.

Theorem string_roundtrip_u fuel : forall s term k, (length s <= fuel)%nat ->
  (term = x22 \/ term = x27) ->
  read_str term (enc_body_u fuel s ++ k) = push (sanitize_utf8 fuel s) (read_str term k).
Proof.
  induction fuel as [|f IH]; intros s term k Hl Ht.
  - destruct s; [|simpl in Hl; lia]. simpl. destruct (read_str term k) as [[x y]|]; reflexivity.
  - destruct s as [|b r]; [simpl; destruct (read_str term k) as [[x y]|]; reflexivity|].
    simpl in Hl. assert (Hr : (length r <= f)%nat) by lia.
    cbn [enc_body_u sanitize_utf8]. rewrite jclass_of.
    destruct (128 <=? b2z b) eqn:E.
    + apply Z.leb_le in E.
      destruct (b2z b <? 128) eqn:E128; [apply Z.ltb_lt in E128; lia|].
      pose proof (decode_high b r E) as HD.
      destruct (decode_rune (b :: r)) as [rn w] eqn:ED.
      set (w' := match w with O => 1%nat | _ => w end).
      assert (Hw : (1 <= w' <= S (length r))%nat /\ (w <> 0%nat -> w' = w)).
      { unfold w'. destruct HD as [(_ & [->| ->] & Hl')|(_ & Hw2 & Hl' & _)]; simpl in *; [lia|lia|]. destruct w; [lia|]. split; [simpl in *; lia | reflexivity]. }
      destruct Hw as [Hw1 Hw2].
      assert (Hsk : (length (skipn w' (b :: r)) <= f)%nat).
      { rewrite skipn_length. cbn [length]. lia. }
      rewrite <- app_assoc.
      destruct HD as [(Hrn & Hw & Hl')|(Hrn & Hw & Hl' & Hhigh & H28 & H29)].
      * subst rn. change (rune_error =? 8232) with false. change (rune_error =? 8233) with false. rewrite Z.eqb_refl.
        rewrite (read_fixed term x66 x66 x66 x64 15 15 15 13) by (reflexivity || exact Ht).
        rewrite (IH _ term k Hsk Ht), push_push. reflexivity.
      * assert (Ew : w' = w) by (apply Hw2; lia). rewrite Ew in *.
        destruct (rn =? rune_error) eqn:Er; [apply Z.eqb_eq in Er; contradiction|].
        destruct (rn =? 8232) eqn:E28.
        { apply Z.eqb_eq in E28. rewrite (H28 E28).
          rewrite (read_fixed term x32 x30 x32 x38 2 0 2 8) by (reflexivity || exact Ht).
          rewrite (IH _ term k Hsk Ht), push_push. reflexivity. }
        destruct (rn =? 8233) eqn:E29.
        { apply Z.eqb_eq in E29. rewrite (H29 E29).
          rewrite (read_fixed term x32 x30 x32 x39 2 0 2 9) by (reflexivity || exact Ht).
          rewrite (IH _ term k Hsk Ht), push_push. reflexivity. }
        rewrite (read_high_list term _ _ Ht Hhigh). rewrite (IH _ term k Hsk Ht), push_push. reflexivity.
    + apply Z.leb_gt in E. assert (E128 : (b2z b <? 128) = true) by (apply Z.ltb_lt; lia). rewrite E128.
      rewrite <- app_assoc. rewrite read_enc_byte by (assumption || exact E).
      rewrite (IH r term k Hr Ht), push_push. reflexivity.
Qed.

Theorem string_roundtrip_all s term k :
  (term = x22 \/ term = x27) ->
  read_str term (enc_body_u (length s) s ++ term :: k) = Some (sanitize s, k).
Proof.
  intro Ht. rewrite (string_roundtrip_u (length s) s term (term :: k) (le_n _) Ht).
  cbn [read_str]. assert (Eb : beqb term term = true) by (apply beqb_eq; reflexivity). rewrite Eb. unfold push, sanitize. rewrite app_nil_r. reflexivity.
Qed.
