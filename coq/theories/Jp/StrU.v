(* C14, string clause for EVERY byte string: jp.AppendString with its utf8.DecodeRune branch
   (class '8' of the GENERATED jp_jMap: U+2028 / U+2029 / U+FFFD are written as \u escapes, a byte
   that is not UTF-8 as a \x escape, other runes copied) followed by the parser's readStr /
   readEscStr is the identity. *)
From Coq Require Import Init.Byte NArith ZArith List Bool Lia.
Require Import Ojg.Base.Bytes Ojg.Base.Utf8 Ojg.Gen.StrMaps Ojg.Json.Sweep Ojg.Json.Fmt Ojg.Json.Writer Ojg.Json.WStr Ojg.Jp.Str.
Import ListNotations.
Open Scope Z_scope.

Definition j2028 : bytes := [x5c; x75; x32; x30; x32; x38].
Definition j2029 : bytes := [x5c; x75; x32; x30; x32; x39].
Definition jfffd : bytes := [x5c; x75; x66; x66; x66; x64].

Fixpoint enc_body_u (fuel : nat) (s : bytes) : bytes :=
  match fuel, s with
  | O, _ => []
  | _, [] => []
  | S f, b :: r =>
      if beqb (jp_jMap b) x38 then
        let '(rn, w) := decode_rune s in
        let w := match w with O => 1%nat | _ => w end in
        (if rn =? 8232 then j2028 else if rn =? 8233 then j2029
         else if rn =? rune_error then
           (if Nat.eqb w 1 then [x5c; x78; hex_digit (b2z b / 16); hex_digit (b2z b mod 16)] else jfffd)
         else firstn w s) ++ enc_body_u f (skipn w s)
      else enc_byte b ++ enc_body_u f r
  end.

Definition append_string_u (s : bytes) (delim : byte) : bytes := delim :: enc_body_u (length s) s ++ [delim].

(* class '8' is exactly the bytes >= 0x80 *)
Definition jclass_ok (b : byte) : bool := Bool.eqb (beqb (jp_jMap b) x38) (128 <=? b2z b).
Lemma jclass_sweep : forallb jclass_ok all_bytes = true.
Proof. vm_compute. reflexivity. Qed.
Lemma jclass_of b : beqb (jp_jMap b) x38 = (128 <=? b2z b).
Proof.
  pose proof jclass_sweep as H. rewrite forallb_forall in H. specialize (H b (all_bytes_complete b)).
  unfold jclass_ok in H. apply Bool.eqb_prop in H. exact H.
Qed.

Lemma enc_body_u_ascii fuel : forall s, (length s <= fuel)%nat -> Forall ascii s -> enc_body_u fuel s = enc_body s.
Proof.
  induction fuel as [|f IH]; intros s Hl Hs.
  - destruct s; [reflexivity|simpl in Hl; lia].
  - destruct s as [|b r]; [reflexivity|]. inversion Hs as [|? ? Hb Hr]; subst. simpl in Hl.
    cbn [enc_body_u]. rewrite jclass_of. unfold ascii in Hb.
    destruct (128 <=? b2z b) eqn:E; [apply Z.leb_le in E; lia|].
    rewrite IH by (assumption || lia). reflexivity.
Qed.

(* a byte >= 0x80 is read as itself *)
Lemma read_high term b k : (term = x22 \/ term = x27) -> 128 <= b2z b ->
  read_str term (b :: k) = push [b] (read_str term k).
Proof.
  intros Ht Hb. cbn [read_str].
  assert (E1 : beqb b term = false).
  { destruct (beqb b term) eqn:E; [|reflexivity]. apply beqb_eq in E. subst b. destruct Ht as [-> | ->]; vm_compute in Hb; exfalso; apply Hb; reflexivity. }
  assert (E2 : beqb b x5c = false).
  { destruct (beqb b x5c) eqn:E; [|reflexivity]. apply beqb_eq in E. subst b. vm_compute in Hb. exfalso. apply Hb. reflexivity. }
  rewrite E1, E2. reflexivity.
Qed.

Lemma read_high_list term bs : forall k, (term = x22 \/ term = x27) -> Forall high bs ->
  read_str term (bs ++ k) = push bs (read_str term k).
Proof.
  induction bs as [|b bs IH]; intros k Ht H.
  - simpl. destruct (read_str term k) as [[s k']|]; reflexivity.
  - inversion H as [|? ? Hb Hbs]; subst. change ((b :: bs) ++ k) with (b :: (bs ++ k)).
    rewrite read_high by assumption. rewrite IH by assumption. rewrite push_push. reflexivity.
Qed.

(* the only three bytes that decode to U+FFFD are its encoding *)
Lemma decode_fffd b0 t : decode_rune (b0 :: t) = (rune_error, 3%nat) -> firstn 3 (b0 :: t) = [xef; xbf; xbd].
Proof.
  unfold decode_rune.
  destruct (b2z b0 <? 128); [intro H; inversion H|].
  destruct (b2z b0 <? 194); [intro H; inversion H|].
  destruct (b2z b0 <? 224) eqn:E3.
  { destruct t as [|b1 t]; [intro H; inversion H|]. destruct (is_cont b1); intro H; inversion H. }
  apply Z.ltb_ge in E3. destruct (b2z b0 <? 240) eqn:E4.
  - apply Z.ltb_lt in E4. destruct t as [|b1 [|b2 t]]; try (intro H; inversion H; fail).
    set (lo := if b2z b0 =? 224 then 160 else 128). set (hi := if b2z b0 =? 237 then 159 else 191).
    unfold is_cont.
    destruct ((lo <=? b2z b1) && (b2z b1 <=? hi) && ((128 <=? b2z b2) && (b2z b2 <=? 191))) eqn:C; [|intro H; inversion H].
    apply andb_true_iff in C as [C C2]. apply andb_true_iff in C as [Cl Ch]. apply andb_true_iff in C2 as [C2a C2b].
    apply Z.leb_le in Cl, Ch, C2a, C2b.
    assert (Hlo : 128 <= lo) by (unfold lo; destruct (b2z b0 =? 224); lia).
    assert (Hhi : hi <= 191) by (unfold hi; destruct (b2z b0 =? 237); lia).
    intro H. inversion H as [Hv]. unfold rune_error in Hv.
    assert (b2z b0 = 239 /\ b2z b1 = 191 /\ b2z b2 = 189) as (A0 & A1 & A2) by lia.
    assert (Hb : forall x y : byte, b2z x = b2z y -> x = y).
    { intros x y Hxy. rewrite <- (z2b_b2z x), <- (z2b_b2z y), Hxy. reflexivity. }
    simpl. f_equal; [apply Hb; rewrite A0; reflexivity|]. f_equal; [apply Hb; rewrite A1; reflexivity|].
    f_equal. apply Hb. rewrite A2. reflexivity.
  - destruct (b2z b0 <? 245); [|intro H; inversion H].
    destruct t as [|b1 [|b2 [|b3 t]]]; try (intro H; inversion H; fail).
    match goal with |- (if ?c then _ else _) = _ -> _ => destruct c end; intro H; inversion H.
Qed.

(* \xHH written for a byte reads back as that byte *)
Definition xesc_ok (b : byte) : bool :=
  match hexv (hex_digit (b2z b / 16)), hexv (hex_digit (b2z b mod 16)) with
  | Some a, Some c => beqb (z2b (a * 16 + c)) b
  | _, _ => false
  end.
Lemma xesc_sweep : forallb xesc_ok all_bytes = true.
Proof. vm_compute. reflexivity. Qed.

Lemma read_xesc term b k : (term = x22 \/ term = x27) ->
  read_str term ([x5c; x78; hex_digit (b2z b / 16); hex_digit (b2z b mod 16)] ++ k) = push [b] (read_str term k).
Proof.
  intro Ht. pose proof xesc_sweep as S. rewrite forallb_forall in S. specialize (S b (all_bytes_complete b)).
  unfold xesc_ok in S. cbn [List.app read_str].
  assert (E1 : beqb x5c term = false) by (destruct Ht as [-> | ->]; reflexivity).
  rewrite E1. change (beqb x5c x5c) with true. cbn iota.
  change (beqb x78 x75 || beqb x78 x55) with false. cbn iota. change (beqb x78 x78) with true. cbn iota.
  destruct (hexv (hex_digit (b2z b / 16))) as [a|]; [|discriminate S].
  destruct (hexv (hex_digit (b2z b mod 16))) as [c|]; [|discriminate S].
  apply beqb_eq in S. rewrite S. reflexivity.
Qed.

Lemma read_fixed term h1 h2 h3 h4 a b c d k :
  hexv h1 = Some a -> hexv h2 = Some b -> hexv h3 = Some c -> hexv h4 = Some d ->
  (term = x22 \/ term = x27) ->
  read_str term ([x5c; x75; h1; h2; h3; h4] ++ k) = push (encode_rune (((a * 16 + b) * 16 + c) * 16 + d)) (read_str term k).
Proof.
  intros H1 H2 H3 H4 Ht. cbn [List.app read_str].
  assert (E1 : beqb x5c term = false) by (destruct Ht as [-> | ->]; reflexivity).
  rewrite E1. change (beqb x5c x5c) with true. cbn iota.
  change (beqb x75 x75 || beqb x75 x55) with true. cbn iota. rewrite H1, H2, H3, H4. reflexivity.
Qed.

Theorem string_roundtrip_u fuel : forall s term k, (length s <= fuel)%nat ->
  (term = x22 \/ term = x27) ->
  read_str term (enc_body_u fuel s ++ k) = push s (read_str term k).
Proof.
  induction fuel as [|f IH]; intros s term k Hl Ht.
  - destruct s; [|simpl in Hl; lia]. simpl. destruct (read_str term k) as [[x y]|]; reflexivity.
  - destruct s as [|b r]; [simpl; destruct (read_str term k) as [[x y]|]; reflexivity|].
    simpl in Hl. assert (Hr : (length r <= f)%nat) by lia.
    cbn [enc_body_u]. rewrite jclass_of.
    destruct (128 <=? b2z b) eqn:E.
    + apply Z.leb_le in E.
      pose proof (decode_high b r E) as HD.
      destruct (decode_rune (b :: r)) as [rn w] eqn:ED.
      set (w' := match w with O => 1%nat | _ => w end).
      assert (Hw : (1 <= w' <= S (length r))%nat /\ (w <> 0%nat -> w' = w)).
      { unfold w'. destruct HD as [(_ & [->| ->] & Hl')|(_ & Hw2 & Hl' & _)]; simpl in *; [lia|lia|]. destruct w; [lia|]. split; [simpl in *; lia | reflexivity]. }
      destruct Hw as [Hw1 Hw2].
      assert (Hsk : (length (skipn w' (b :: r)) <= f)%nat).
      { rewrite skipn_length. cbn [length]. lia. }
      assert (Hsplit : forall n, firstn n (b :: r) ++ skipn n (b :: r) = b :: r) by (intro n; apply firstn_skipn).
      rewrite <- app_assoc.
      destruct HD as [(Hrn & Hw & Hl')|(Hrn & Hw & Hl' & Hhigh & H28 & H29)].
      * subst rn. change (rune_error =? 8232) with false. change (rune_error =? 8233) with false. rewrite Z.eqb_refl.
        destruct Hw as [Hw|Hw]; subst w.
        { change w' with 1%nat in *. change (Nat.eqb 1 1) with true. cbn iota.
          rewrite (read_xesc term b _ Ht). rewrite (IH _ term k Hsk Ht), push_push. reflexivity. }
        { change w' with 3%nat in *. change (Nat.eqb 3 1) with false. cbn iota.
          rewrite (read_fixed term x66 x66 x66 x64 15 15 15 13) by (reflexivity || exact Ht).
          rewrite (IH _ term k Hsk Ht), push_push.
          change (encode_rune (((15 * 16 + 15) * 16 + 15) * 16 + 13)) with [xef; xbf; xbd].
          rewrite <- (decode_fffd b r ED). rewrite Hsplit. reflexivity. }
      * assert (Ew : w' = w) by (apply Hw2; lia). rewrite Ew in *.
        destruct (rn =? rune_error) eqn:Er; [apply Z.eqb_eq in Er; contradiction|].
        destruct (rn =? 8232) eqn:E28.
        { apply Z.eqb_eq in E28.
          rewrite (read_fixed term x32 x30 x32 x38 2 0 2 8) by (reflexivity || exact Ht).
          rewrite (IH _ term k Hsk Ht), push_push.
          change (encode_rune (((2 * 16 + 0) * 16 + 2) * 16 + 8)) with [xe2; x80; xa8].
          rewrite <- (H28 E28). rewrite Hsplit. reflexivity. }
        destruct (rn =? 8233) eqn:E29.
        { apply Z.eqb_eq in E29.
          rewrite (read_fixed term x32 x30 x32 x39 2 0 2 9) by (reflexivity || exact Ht).
          rewrite (IH _ term k Hsk Ht), push_push.
          change (encode_rune (((2 * 16 + 0) * 16 + 2) * 16 + 9)) with [xe2; x80; xa9].
          rewrite <- (H29 E29). rewrite Hsplit. reflexivity. }
        rewrite (read_high_list term _ _ Ht Hhigh). rewrite (IH _ term k Hsk Ht), push_push. rewrite Hsplit. reflexivity.
    + apply Z.leb_gt in E.
      rewrite <- app_assoc. rewrite read_enc_byte by (assumption || exact E).
      rewrite (IH r term k Hr Ht), push_push. reflexivity.
Qed.

Theorem string_roundtrip_all s term k :
  (term = x22 \/ term = x27) ->
  read_str term (enc_body_u (length s) s ++ term :: k) = Some (s, k).
Proof.
  intro Ht. rewrite (string_roundtrip_u (length s) s term (term :: k) (le_n _) Ht).
  cbn [read_str]. assert (Eb : beqb term term = true) by (apply beqb_eq; reflexivity). rewrite Eb. unfold push. rewrite app_nil_r. reflexivity.
Qed.
