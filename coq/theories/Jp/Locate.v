(* Has / First / Locate as separately defined evaluators over the same denotation, and their
   agreement with get_spec (C11). *)
From Coq Require Import Init.Byte NArith ZArith QArith List Bool Lia.
Require Import Ojg.Base.Bytes Ojg.Base.Jv Ojg.Jp.Expr Ojg.Jp.GetFacts.
Import ListNotations.
Open Scope Z_scope.

(* ---------------------------------------------------------------- First / Has: early exit *)

(* depth-first search that stops at the first complete match (the shape of FirstFound / Has) *)
Fixpoint first_from (x : expr) (root : jv) (v : jv) {struct x} : option jv :=
  match x with
  | [] => Some v
  | f :: rest =>
      (fix try (cs : list jv) : option jv :=
         match cs with
         | [] => None
         | c :: cs' => match first_from rest root c with Some r => Some r | None => try cs' end
         end) (sel f (match rest with [] => true | _ => false end) root v)
  end.

Definition first_spec (x : expr) (d : jv) : option jv :=
  match x with [] => None | _ => first_from x d d end.
Definition has_spec (x : expr) (d : jv) : bool :=
  match first_spec x d with Some _ => true | None => false end.

Lemma eval_path_nil x : forall root, eval_path x root [] = [].
Proof. induction x as [|f x IH]; intro root; simpl; auto. Qed.

Lemma eval_path_app_vs x : forall root a b, eval_path x root (a ++ b) = eval_path x root a ++ eval_path x root b.
Proof.
  induction x as [|f x IH]; intros root a b; simpl; [reflexivity|].
  rewrite flat_map_app. apply IH.
Qed.

Lemma eval_path_cons x root c cs : eval_path x root (c :: cs) = eval_path x root [c] ++ eval_path x root cs.
Proof. apply (eval_path_app_vs x root [c] cs). Qed.

(* First returns the first element of Get's result list *)
Theorem first_is_head x : forall root v, first_from x root v = hd_error (eval_path x root [v]).
Proof.
  induction x as [|f rest IH]; intros root v; simpl; [reflexivity|].
  rewrite app_nil_r.
  generalize (sel f (match rest with [] => true | _ => false end) root v) as cs.
  induction cs as [|c cs IHc]; simpl.
  - rewrite eval_path_nil. reflexivity.
  - rewrite eval_path_cons. rewrite IH.
    destruct (eval_path rest root [c]) as [|r rs]; simpl; [exact IHc|reflexivity].
Qed.

Corollary first_spec_head x d : first_spec x d = hd_error (get_spec x d).
Proof. destruct x; [reflexivity|]. unfold first_spec, get_spec. apply first_is_head. Qed.

(* Has is true exactly when Get is non-empty *)
Corollary has_iff_get_nonempty x d : has_spec x d = negb (match get_spec x d with [] => true | _ => false end).
Proof. unfold has_spec. rewrite first_spec_head. destruct (get_spec x d); reflexivity. Qed.

(* First returns a member of Get's results *)
Corollary first_in_get x d r : first_spec x d = Some r -> In r (get_spec x d).
Proof. rewrite first_spec_head. destruct (get_spec x d); simpl; intro H; [discriminate|inversion H; auto]. Qed.

(* ---------------------------------------------------------------- Locate *)

Definition pv := (list frag * jv)%type.

Fixpoint indexed_from (i : Z) (l : list jv) : list (Z * jv) :=
  match l with [] => [] | x :: l' => (i, x) :: indexed_from (i + 1) l' end.

Definition child_locs (p : list frag) (v : jv) : list pv :=
  match v with
  | JArr l => map (fun ix => (p ++ [FNth (fst ix)], snd ix)) (indexed_from 0 l)
  | JObj m => map (fun kv => (p ++ [FChild (fst kv)], snd kv)) m
  | _ => []
  end.

(* all proper descendants with their paths, same order as [descendants] *)
Fixpoint desc_locs (p : list frag) (v : jv) {struct v} : list pv :=
  match v with
  | JArr l =>
      map (fun ix => (p ++ [FNth (fst ix)], snd ix)) (indexed_from 0 l) ++
      (fix go (i : Z) (l : list jv) : list pv :=
         match l with [] => [] | c :: l' => desc_locs (p ++ [FNth i]) c ++ go (i + 1) l' end) 0 l
  | JObj m =>
      map (fun kv => (p ++ [FChild (fst kv)], snd kv)) m ++
      (fix go (m : list (bytes * jv)) : list pv :=
         match m with [] => [] | (k, c) :: m' => desc_locs (p ++ [FChild k]) c ++ go m' end) m
  | _ => []
  end.

Definition arr_nth_loc (p : list frag) (l : list jv) (i : Z) : list pv :=
  match nth_norm (Z.of_nat (length l)) i with
  | Some k => match nth_error l (Z.to_nat k) with Some v => [(p ++ [FNth k], v)] | None => [] end
  | None => []
  end.

(* Slice.startEndStep: the normalisation used by Locate, Walk and the per-fragment mutation
   methods. It differs from Get's (a start beyond the end clamps to the last element, a negative
   end counts from one past the end); the difference is the recorded known finding
   C11-slice-normalisation. [ses = true] selects it. *)
Definition slice_indexes_ses (len : Z) (sl : list Z) : list Z :=
  let start := nth 0 sl 0 in
  let stop := nth 1 sl max_end in
  let step := nth 2 sl 1 in
  if step =? 0 then [] else
  let start := if start <? 0 then len + start else if len <=? start then len - 1 else start in
  let start := if start <? 0 then 0 else start in
  let stop := if stop <? 0 then (let e := len + stop + 1 in if (e <? 0) && (step <? 0) then -1 else e)
              else if len <? stop then len else stop in
  if 0 <? step then up_from (Z.to_nat len) start stop step
  else down_from (Z.to_nat len + 1) start stop step.

(* [six] = how a slice picks its indexes; the specification uses [slice_indexes] (Get's) *)
Definition sel_loc_six (six : Z -> list Z -> list Z) (f : frag) (last : bool) (root : jv) (x : pv) : list pv :=
  let '(p, v) := x in
  match f with
  | FRoot => [([FRoot], root)]
  | FAt => [(p, v)]
  | FChild k => match v with JObj m => match map_get k m with Some c => [(p ++ [FChild k], c)] | None => [] end | _ => [] end
  | FNth i => match v with JArr l => arr_nth_loc p l i | _ => [] end
  | FWild => child_locs p v
  | FDescent => (p, v) :: desc_locs p v
  | FUnion us =>
      flat_map (fun u => match u, v with
                         | UKey k, JObj m => match map_get k m with Some c => [(p ++ [FChild k], c)] | None => [] end
                         | UIdx i, JArr l => arr_nth_loc p l i
                         | _, _ => []
                         end) us
  | FSlice sl =>
      match v with
      | JArr l => flat_map (fun i => match nth_error l (Z.to_nat i) with Some c => [(p ++ [FNth i], c)] | None => [] end)
                           (six (Z.of_nat (length l)) sl)
      | _ => []
      end
  | FFilter e => filter (fun pc => existsb is_true (evals e root (snd pc))) (child_locs p v)
  end.

Definition sel_loc := sel_loc_six slice_indexes.

Fixpoint eval_loc_six (six : Z -> list Z -> list Z) (x : expr) (root : jv) (pvs : list pv) : list pv :=
  match x with
  | [] => pvs
  | f :: x' => eval_loc_six six x' root (flat_map (sel_loc_six six f (match x' with [] => true | _ => false end) root) pvs)
  end.
Definition locate_six (six : Z -> list Z -> list Z) (x : expr) (d : jv) : list pv :=
  match x with [] => [] | _ => eval_loc_six six x d [([], d)] end.

(* Known-finding variant (C11-filter-root-operand-in-locate-walk): which document a filter's $
   operands see. mode 0: nil (Filter.locate calls evalWithRoot with a nil root); mode 1: the
   candidate element itself (Expr.Walk goes through Script.Match). *)
Definition sel_loc_rv (mode : Z) (six : Z -> list Z -> list Z) (f : frag) (last : bool) (root : jv) (x : pv) : list pv :=
  match f with
  | FFilter e =>
      filter (fun pc => existsb is_true (evals e (if mode =? 0 then JNull else snd pc) (snd pc))) (child_locs (fst x) (snd x))
  | _ => sel_loc_six six f last root x
  end.
Fixpoint eval_loc_rv (mode : Z) (six : Z -> list Z -> list Z) (x : expr) (root : jv) (pvs : list pv) : list pv :=
  match x with
  | [] => pvs
  | f :: x' => eval_loc_rv mode six x' root (flat_map (sel_loc_rv mode six f (match x' with [] => true | _ => false end) root) pvs)
  end.
Definition locate_rv (mode : Z) (six : Z -> list Z -> list Z) (x : expr) (d : jv) : list pv :=
  match x with [] => [] | _ => eval_loc_rv mode six x d [([], d)] end.

(* the slice rule of Set, Del, Remove and Modify (set.go, modify.go, slice.go remove): the end
   is INCLUSIVE, defaults to the last element, and negative bounds that fall before the start of
   the array select nothing. Recorded known finding C13-slice-inclusive-end. *)
Definition slice_indexes_incl (len : Z) (sl : list Z) : list Z :=
  let start := nth 0 sl 0 in
  let stop := nth 1 sl (-1) in
  let step := nth 2 sl 1 in
  let start := if start <? 0 then len + start else start in
  let stop := if stop <? 0 then len + stop else stop in
  if (start <? 0) || (stop <? 0) || (len <=? start) || (step =? 0) then [] else
  let stop := if len <=? stop then len - 1 else stop in
  if 0 <? step then up_from (Z.to_nat len) start (stop + 1) step
  else down_from (Z.to_nat len + 1) start (stop - 1) step.

Fixpoint eval_loc (x : expr) (root : jv) (pvs : list pv) : list pv :=
  match x with
  | [] => pvs
  | f :: x' => eval_loc x' root (flat_map (sel_loc f (match x' with [] => true | _ => false end) root) pvs)
  end.

Definition locate_spec (x : expr) (d : jv) : list pv :=
  match x with [] => [] | _ => eval_loc x d [([], d)] end.

(* the values Locate points at are exactly Get's results, in the same order *)
Lemma indexed_from_snd l : forall i, map snd (indexed_from i l) = l.
Proof. induction l as [|x l IH]; intro i; simpl; [reflexivity|]. rewrite IH. reflexivity. Qed.

Lemma child_locs_values p v : map snd (child_locs p v) = children v.
Proof.
  destruct v; simpl; try reflexivity.
  - rewrite map_map. simpl. apply indexed_from_snd.
  - rewrite map_map. reflexivity.
Qed.

Lemma desc_locs_values v : forall p, map snd (desc_locs p v) = descendants v.
Proof.
  induction v as [| | | | | |l IH|m IH] using jv_ind2; intro p; simpl; try reflexivity.
  - rewrite map_app, map_map. simpl. rewrite indexed_from_snd. f_equal.
    generalize 0 as i. induction IH as [|c l Hc _ IHl]; intro i; simpl; [reflexivity|].
    rewrite map_app, Hc, IHl. reflexivity.
  - rewrite map_app, map_map. simpl. f_equal.
    induction IH as [|[k c] m Hc _ IHm]; simpl; [reflexivity|].
    rewrite map_app. simpl in Hc. rewrite Hc. f_equal. exact IHm.
Qed.

Lemma arr_nth_loc_values p l i : map snd (arr_nth_loc p l i) = arr_nth l i.
Proof.
  unfold arr_nth_loc, arr_nth. destruct (nth_norm _ i); [|reflexivity].
  destruct (nth_error l _); reflexivity.
Qed.

Lemma map_snd_filter (f : jv -> bool) (l : list pv) :
  map snd (filter (fun pc => f (snd pc)) l) = filter f (map snd l).
Proof.
  induction l as [|[p c] l IH]; simpl; [reflexivity|]. destruct (f c); simpl; rewrite IH; reflexivity.
Qed.

Lemma map_snd_flat_map {A} (g : A -> list pv) (h : A -> list jv) (l : list A) :
  (forall a, map snd (g a) = h a) -> map snd (flat_map g l) = flat_map h l.
Proof.
  intro H. induction l as [|a l IH]; simpl; [reflexivity|]. rewrite map_app. f_equal; [apply H|exact IH].
Qed.

Lemma sel_loc_values f last root p v : map snd (sel_loc f last root (p, v)) = sel f last root v.
Proof.
  unfold sel_loc. destruct f; simpl.
  - reflexivity.
  - reflexivity.
  - destruct v; try reflexivity. destruct (map_get k m); reflexivity.
  - destruct v; try reflexivity. apply arr_nth_loc_values.
  - apply child_locs_values.
  - f_equal. apply desc_locs_values.
  - apply map_snd_flat_map. intros [k|i]; destruct v; try reflexivity.
    + destruct (map_get k m); reflexivity.
    + apply arr_nth_loc_values.
  - destruct v; try reflexivity. unfold pick. apply map_snd_flat_map. intro i.
    destruct (nth_error _ (Z.to_nat i)); reflexivity.
  - rewrite (map_snd_filter (fun el => existsb is_true (evals e root el))). rewrite child_locs_values. reflexivity.
Qed.

(* Locate reports, in order, exactly the values Get returns *)
Theorem locate_values x : forall root pvs, map snd (eval_loc x root pvs) = eval_path x root (map snd pvs).
Proof.
  induction x as [|f x IH]; intros root pvs; simpl; [reflexivity|].
  rewrite IH. f_equal.
  induction pvs as [|[p v] pvs IHp]; simpl; [reflexivity|].
  rewrite map_app. f_equal; [apply sel_loc_values|exact IHp].
Qed.

Corollary locate_spec_values x d : map snd (locate_spec x d) = get_spec x d.
Proof. destruct x; [reflexivity|]. unfold locate_spec, get_spec. rewrite locate_values. reflexivity. Qed.

(* the known-finding variant of Locate/Walk: slices normalised by startEndStep *)
Definition locate_ses (x : expr) (d : jv) : list pv := locate_six slice_indexes_ses x d.

(* ---------------------------------------------------------------- streaming Match (C17) *)

Definition frag_eqb' (a b : frag) : bool :=
  match a, b with
  | FRoot, FRoot => true
  | FChild x, FChild y => bytes_eqb x y
  | FNth x, FNth y => x =? y
  | _, _ => false
  end.
Fixpoint path_eqb (p q : list frag) : bool :=
  match p, q with
  | [], [] => true
  | a :: p', b :: q' => frag_eqb' a b && path_eqb p' q'
  | _, _ => false
  end.
Fixpoint proper_prefix (p q : list frag) : bool :=
  match p, q with
  | [], _ :: _ => true
  | a :: p', b :: q' => frag_eqb' a b && proper_prefix p' q'
  | _, _ => false
  end.

(* every location of the document with its normalized path, in document (pre-)order *)
Fixpoint pre_locs (p : list frag) (v : jv) {struct v} : list pv :=
  (p, v) ::
  match v with
  | JArr l => (fix go (i : Z) (l : list jv) : list pv :=
                 match l with [] => [] | c :: l' => pre_locs (p ++ [FNth i]) c ++ go (i + 1) l' end) 0 l
  | JObj m => (fix go (m : list (bytes * jv)) : list pv :=
                 match m with [] => [] | (k, c) :: m' => pre_locs (p ++ [FChild k]) c ++ go m' end) m
  | _ => []
  end.
Definition all_locs (d : jv) : list pv := pre_locs [FRoot] d.

(* the locations some target selects *)
Definition selected (targets : list expr) (d : jv) : list (list frag) :=
  flat_map (fun x => map fst (locate_spec x d)) targets.

(* one callback per outermost selected location, in document order *)
Definition match_spec (targets : list expr) (d : jv) : list pv :=
  let sel := selected targets d in
  filter (fun pc => existsb (path_eqb (fst pc)) sel && negb (existsb (fun s => proper_prefix s (fst pc)) sel))
         (all_locs d).
