(* String literals in JSONPath text: jp.AppendString (jp/string.go, escape classes from the
   GENERATED jp_jMap) and the parser's readStr/readEscStr (jp/parse.go). C14's string clause. *)
From Coq Require Import Init.Byte NArith ZArith List Bool Lia.
Require Import Ojg.Base.Bytes Ojg.Base.Utf8 Ojg.Gen.StrMaps.
Import ListNotations.
Open Scope Z_scope.

(* AppendString's treatment of one byte below 0x80 (bytes >= 0x80 go through utf8.DecodeRune) *)
Definition enc_byte (b : byte) : bytes :=
  let c := jp_jMap b in
  if beqb c x6f then [b]                                              (* 'o': verbatim *)
  else if beqb c x2e then                                             (* '.': \u00XX *)
    [x5c; x75; x30; x30; hex_digit (b2z b / 16); hex_digit (b2z b mod 16)]
  else [x5c; c].                                                      (* \c *)

Definition enc_body (s : bytes) : bytes := flat_map enc_byte s.
Definition append_string (s : bytes) (delim : byte) : bytes := delim :: enc_body s ++ [delim].

Definition hexv (b : byte) : option Z :=
  let x := b2z b in
  if (48 <=? x) && (x <=? 57) then Some (x - 48)
  else if (97 <=? x) && (x <=? 102) then Some (x - 87)
  else if (65 <=? x) && (x <=? 70) then Some (x - 55)
  else None.

Definition simple_esc (e : byte) : option byte :=
  if beqb e x62 then Some x08 else if beqb e x74 then Some x09 else if beqb e x6e then Some x0a
  else if beqb e x66 then Some x0c else if beqb e x72 then Some x0d else if beqb e x22 then Some x22
  else if beqb e x27 then Some x27 else if beqb e x5c then Some x5c else None.

Definition push (bs : bytes) (r : option (bytes * bytes)) : option (bytes * bytes) :=
  match r with Some (s, k) => Some (bs ++ s, k) | None => None end.

(* readStr + readEscStr: the string up to the terminator, and what follows it *)
Fixpoint read_str (term : byte) (w : bytes) : option (bytes * bytes) :=
  match w with
  | [] => None
  | b :: r =>
      if beqb b term then Some ([], r)
      else if beqb b x5c then
        match r with
        | e :: r1 =>
            if beqb e x75 || beqb e x55 then
              match r1 with
              | h1 :: h2 :: h3 :: h4 :: r2 =>
                  match hexv h1, hexv h2, hexv h3, hexv h4 with
                  | Some a, Some b', Some c, Some d =>
                      push (encode_rune (((a * 16 + b') * 16 + c) * 16 + d)) (read_str term r2)
                  | _, _, _, _ => None
                  end
              | _ => None
              end
            else if beqb e x78 then                       (* \xHH: one byte *)
              match r1 with
              | h1 :: h2 :: r2 =>
                  match hexv h1, hexv h2 with
                  | Some a, Some b' => push [z2b (a * 16 + b')] (read_str term r2)
                  | _, _ => None
                  end
              | _ => None
              end
            else match simple_esc e with
                 | Some c => push [c] (read_str term r1)
                 | None => None
                 end
        | [] => None
        end
      else push [b] (read_str term r)
  end.

Definition ascii (b : byte) : Prop := b2z b < 128.

Lemma read_enc_byte term b k :
  (term = x22 \/ term = x27) -> ascii b ->
  read_str term (enc_byte b ++ k) = push [b] (read_str term k).
Proof.
  intros [-> | ->] Ha; unfold ascii in Ha;
    destruct b; try (exfalso; vm_compute in Ha; discriminate Ha); reflexivity.
Qed.

Lemma push_push a b r : push a (push b r) = push (a ++ b) r.
Proof. destruct r as [[s k]|]; simpl; [rewrite app_assoc|]; reflexivity. Qed.

(* C14, string clause: a printed string literal reads back as the same string, for every string
   of bytes below 0x80 (quotes, backslashes and control characters included) and either quote *)
Theorem string_roundtrip s : forall term k,
  (term = x22 \/ term = x27) -> Forall ascii s ->
  read_str term (enc_body s ++ term :: k) = Some (s, k).
Proof.
  induction s as [|b s IH]; intros term k Ht Hs.
  - simpl. destruct Ht as [-> | ->]; reflexivity.
  - inversion Hs; subst. unfold enc_body. simpl. rewrite <- app_assoc.
    rewrite read_enc_byte by assumption.
    change (flat_map enc_byte s) with (enc_body s). rewrite IH by assumption. reflexivity.
Qed.

Example string_roundtrip_example :
  read_str x27 (enc_body [x61; x27; x5c; x0a; x01; x22] ++ [x27; x5d]) = Some ([x61; x27; x5c; x0a; x01; x22], [x5d]).
Proof. vm_compute. reflexivity. Qed.
