(* C14, paths of children, indexes, wildcards, descents, unions and slices: parse_path
   (print_path fs) = Some (map norm_frag fs) for EVERY such fragment list (any key bytes, any
   integer); norm_frag is the identity except on one-member unions and short / long slices. *)
From Coq Require Import Init.Byte NArith ZArith List Bool Lia.
Require Import Ojg.Base.Bytes Ojg.Base.Utf8 Ojg.Gen.StrMaps Ojg.Json.Ref Ojg.Json.IntLit Ojg.Json.Fmt Ojg.Json.Writer Ojg.Json.WInt.
Require Import Ojg.Jp.Str Ojg.Jp.StrU Ojg.Jp.PathText.
Import ListNotations.
Open Scope Z_scope.

(* the printer in the form the parser sees it: a descent is both dots, and the fragment after it
   drops its own dot *)
Fixpoint print_ld (ld : bool) (fs : list nfrag) : bytes :=
  match fs with
  | [] => []
  | NDescent :: r => x2e :: x2e :: print_ld true r
  | NChild k :: r => (if token_ok k then (if ld then k else x2e :: k) else print_frag (NChild k)) ++ print_ld false r
  | NWild true :: r => (if ld then [x2a] else [x2e; x2a]) ++ print_ld false r
  | f :: r => print_frag f ++ print_ld false r
  end.

Lemma print_frags_ld fs :
  print_frags fs = print_ld false fs /\
  (if second_dot fs then [x2e] else []) ++ print_frags fs = x2e :: print_ld true fs.
Proof.
  induction fs as [|f fs [IH1 IH2]]; [split; reflexivity|].
  destruct f as [k|i|star| |ms|l].
  - cbn [print_frags print_ld second_dot print_frag]. rewrite IH1. destruct (token_ok k); split; reflexivity.
  - cbn [print_frags print_ld second_dot print_frag]. rewrite IH1. split; reflexivity.
  - cbn [print_frags print_ld second_dot print_frag]. rewrite IH1. destruct star; split; reflexivity.
  - cbn [print_frags print_ld second_dot]. split.
    + cbn [List.app]. f_equal. exact IH2.
    + cbn [List.app]. f_equal. f_equal. exact IH2.
  - cbn [print_frags print_ld second_dot]. rewrite IH1. split; reflexivity.
  - cbn [print_frags print_ld second_dot]. rewrite IH1. split; reflexivity.
Qed.

(* what follows a token in a printed path: nothing, or a byte that ends a token *)
Definition ends_token (w : bytes) : Prop := w = [] \/ exists b r, w = b :: r /\ tok_byte b = false.

Lemma printed_ends_token fs : ends_token (print_ld false fs).
Proof.
  destruct fs as [|f fs]; [left; reflexivity|]. right.
  destruct f as [k|i|star| |ms|l]; cbn [print_ld print_frag].
  - destruct (token_ok k); eexists; eexists; (split; [reflexivity|reflexivity]).
  - eexists; eexists; (split; [reflexivity|reflexivity]).
  - destruct star; eexists; eexists; (split; [reflexivity|reflexivity]).
  - eexists; eexists; (split; [reflexivity|reflexivity]).
  - eexists; eexists; (split; [reflexivity|reflexivity]).
  - eexists; eexists; (split; [reflexivity|reflexivity]).
Qed.

Lemma span_token_run k : forall rest, forallb tok_byte k = true -> ends_token rest ->
  span_token (k ++ rest) = (k, rest).
Proof.
  induction k as [|b k IH]; intros rest Hk Hr.
  - cbn [List.app]. destruct Hr as [-> | (b & r & -> & Hb)]; [reflexivity|]. cbn [span_token]. rewrite Hb. reflexivity.
  - cbn [forallb] in Hk. apply andb_true_iff in Hk as [Hb Hk]. cbn [List.app span_token]. rewrite Hb.
    rewrite (IH rest Hk Hr). reflexivity.
Qed.

Lemma read_digits_run ds : forall acc e rest, all_digits ds -> is_digit e = false ->
  read_digits acc (ds ++ e :: rest) = (fold_left (fun a d => a * 10 + digit_val d) ds acc, e :: rest).
Proof.
  induction ds as [|d ds IH]; intros acc e rest H He.
  - cbn [List.app read_digits fold_left]. rewrite He. reflexivity.
  - pose proof (Forall_inv H) as Hd. cbn beta in Hd. pose proof (Forall_inv_tail H) as Hds.
    cbn [List.app read_digits fold_left]. rewrite Hd. apply IH; assumption.
Qed.

(* the decimal text of a positive number: digits, the first one not 0, with that value *)
Lemma dec_text n : 1 <= n -> exists d ds, format_uint n = d :: ds /\ all_digits (d :: ds) /\ digits_val (d :: ds) = n.
Proof.
  intro H. destruct (dec_exists (Z.to_nat n) n H (le_n _)) as (ds & HL & HA & HV).
  assert (E : format_uint n = ds) by (rewrite <- HV; apply format_uint_digits; assumption).
  destruct HL as (d & r & -> & _). exists d, r. auto.
Qed.

Lemma is_digit_not_special d : is_digit d = true ->
  beqb d x27 = false /\ beqb d x22 = false /\ beqb d x2d = false /\ beqb d x20 = false /\ beqb d x2a = false /\
  beqb d x5d = false /\ beqb d x3a = false.
Proof.
  unfold is_digit. intro H. apply andb_true_iff in H as [H1 H2]. apply Z.leb_le in H1, H2.
  repeat split; (destruct (beqb d _) eqn:E; [apply beqb_eq in E; subst d; vm_compute in H1; vm_compute in H2; exfalso; first [apply H1; reflexivity | apply H2; reflexivity] | reflexivity]).
Qed.

(* the text of an integer followed by a non-digit: its first byte is neither a quote, a star nor a
   space, and readInt gives the integer back and stops at that byte *)
Lemma read_int_fmt i e rest : is_digit e = false ->
  exists q r', format_int i ++ e :: rest = q :: r' /\
    beqb q x20 = false /\ beqb q x2a = false /\ beqb q x27 || beqb q x22 = false /\
    read_int q r' = Some (i, e :: rest) /\ beqb q x5d = false /\ beqb q x3a = false.
Proof.
  intro He. unfold format_int. destruct (i <? 0) eqn:En.
  - apply Z.ltb_lt in En. destruct (dec_text (- i) ltac:(lia)) as (d & ds & E & HA & HV). rewrite E.
    pose proof (Forall_inv HA) as Hd. cbn beta in Hd.
    exists x2d, ((d :: ds) ++ e :: rest). split; [reflexivity|]. split; [reflexivity|]. split; [reflexivity|]. split; [reflexivity|].
    split; [|split; reflexivity].
    unfold read_int. change (beqb x2d x2d) with true. cbn iota. cbn [List.app]. rewrite Hd.
    change (d :: ds ++ e :: rest) with ((d :: ds) ++ e :: rest). rewrite (read_digits_run (d :: ds) 0 e rest HA He).
    fold (digits_val (d :: ds)). rewrite HV. replace (- - i) with i by lia. reflexivity.
  - apply Z.ltb_ge in En.
    assert (Hfmt : exists d ds, format_uint i = d :: ds /\ all_digits (d :: ds) /\ digits_val (d :: ds) = i).
    { destruct (Z.eq_dec i 0) as [->|Hne].
      - exists x30, []. split; [reflexivity|]. split; [repeat constructor | reflexivity].
      - apply dec_text. lia. }
    destruct Hfmt as (d & ds & E & HA & HV). rewrite E. pose proof (Forall_inv HA) as Hd. cbn beta in Hd.
    destruct (is_digit_not_special d Hd) as (N1 & N2 & N3 & N4 & N5 & N6 & N7).
    exists d, (ds ++ e :: rest). split; [reflexivity|]. split; [exact N4|]. split; [exact N5|]. split; [rewrite N1, N2; reflexivity|].
    split; [|split; assumption].
    unfold read_int. rewrite N3. cbn iota. rewrite Hd.
    change (d :: ds ++ e :: rest) with ((d :: ds) ++ e :: rest). rewrite (read_digits_run (d :: ds) 0 e rest HA He).
    fold (digits_val (d :: ds)). rewrite HV. reflexivity.
Qed.

Lemma parse_nth f ld i rest :
  parse_frags (S f) ld (print_frag (NNth i) ++ rest) = cons_opt (NNth i) (parse_frags f false rest).
Proof.
  unfold print_frag. cbn [List.app]. rewrite <- app_assoc. cbn [List.app].
  destruct (read_int_fmt i x5d rest eq_refl) as (q & r' & E & N1 & N2 & N3 & HR & N4 & N5).
  cbn [parse_frags]. change (beqb x5b x2e) with false. change (beqb x5b x2a) with false. change (beqb x5b x5b) with true. cbn iota.
  rewrite E. cbn [skip_space]. rewrite N1, N5, N2, N3. cbn iota. rewrite HR.
  cbn [skip_space]. change (beqb x5d x20) with false. cbn iota. change (beqb x5d x5d) with true. cbn iota. reflexivity.
Qed.

(* ---- unions *)

(* one member followed by a comma or the closing bracket, inside readUnion *)
Lemma read_member fuel m e rest : (e = x2c \/ e = x5d) ->
  read_union (S fuel) (print_member m ++ e :: rest) =
  after_member m (e :: rest) (read_union fuel).
Proof.
  intro He. destruct m as [s|i]; cbn [print_member read_union].
  - cbn [List.app skip_space]. change (beqb x27 x20) with false. cbn iota.
    change (beqb x27 x27 || beqb x27 x22) with true. cbn iota.
    rewrite <- app_assoc. cbn [List.app].
    rewrite (string_roundtrip_all s x27 (e :: rest) (or_intror eq_refl)). reflexivity.
  - assert (Hd : is_digit e = false) by (destruct He as [-> | ->]; reflexivity).
    destruct (read_int_fmt i e rest Hd) as (q & r' & E & N1 & N2 & N3 & HR & _ & _).
    rewrite E. cbn [skip_space]. rewrite N1, N3. cbn iota. rewrite HR. reflexivity.
Qed.

Lemma read_members ms : forall fuel rest, ms <> [] -> (length ms <= fuel)%nat ->
  read_union fuel (print_members ms ++ x5d :: rest) = Some (ms, rest).
Proof.
  induction ms as [|m ms IH]; intros fuel rest Hne Hf; [contradiction|].
  destruct fuel as [|fuel]; [simpl in Hf; lia|]. simpl in Hf.
  destruct ms as [|m2 ms].
  - cbn [print_members]. rewrite (read_member fuel m x5d rest (or_intror eq_refl)).
    unfold after_member. cbn [skip_space]. change (beqb x5d x20) with false. cbn iota.
    change (beqb x5d x2c) with false. change (beqb x5d x5d) with true. cbn iota. reflexivity.
  - change (print_members (m :: m2 :: ms)) with (print_member m ++ x2c :: print_members (m2 :: ms)).
    rewrite <- app_assoc. cbn [List.app].
    rewrite (read_member fuel m x2c _ (or_introl eq_refl)).
    unfold after_member. cbn [skip_space]. change (beqb x2c x20) with false. cbn iota.
    change (beqb x2c x2c) with true. cbn iota.
    rewrite (IH fuel rest ltac:(discriminate) ltac:(simpl in *; lia)). reflexivity.
Qed.

Lemma print_members_length ms : (length ms <= S (length (print_members ms)))%nat.
Proof.
  induction ms as [|m ms IH]; [simpl; lia|]. destruct ms as [|m2 ms]; [simpl; lia|].
  change (print_members (m :: m2 :: ms)) with (print_member m ++ x2c :: print_members (m2 :: ms)).
  rewrite app_length. cbn [length] in *. lia.
Qed.

(* a union of at least two members *)
Lemma parse_union f ld m1 m2 ms rest :
  parse_frags (S f) ld (print_frag (NUnion (m1 :: m2 :: ms)) ++ rest) =
  cons_opt (NUnion (m1 :: m2 :: ms)) (parse_frags f false rest).
Proof.
  unfold print_frag. change (print_members (m1 :: m2 :: ms)) with (print_member m1 ++ x2c :: print_members (m2 :: ms)).
  set (tl := print_members (m2 :: ms)).
  assert (Htl : read_union (length (tl ++ x5d :: rest)) (tl ++ x5d :: rest) = Some (m2 :: ms, rest)).
  { apply read_members; [discriminate|]. rewrite app_length. pose proof (print_members_length (m2 :: ms)). fold tl in H. cbn [length] in *. lia. }
  cbn [List.app parse_frags]. change (beqb x5b x2e) with false. change (beqb x5b x2a) with false. change (beqb x5b x5b) with true. cbn iota.
  rewrite <- !app_assoc. cbn [List.app].
  destruct m1 as [s|i]; cbn [print_member].
  - cbn [List.app skip_space]. change (beqb x27 x20) with false. cbn iota. change (beqb x27 x2a) with false. cbn iota.
    change (beqb x27 x27 || beqb x27 x22) with true. cbn iota.
    rewrite <- app_assoc. cbn [List.app].
    rewrite (string_roundtrip_all s x27 (x2c :: tl ++ x5d :: rest) (or_intror eq_refl)).
    cbn [skip_space]. change (beqb x2c x20) with false. cbn iota. change (beqb x2c x5d) with false. change (beqb x2c x2c) with true. cbn iota.
    rewrite Htl. reflexivity.
  - destruct (read_int_fmt i x2c (tl ++ x5d :: rest) eq_refl) as (q & r' & E & N1 & N2 & N3 & HR & N4 & N5).
    rewrite E. cbn [skip_space]. rewrite N1, N5, N2, N3. cbn iota. rewrite HR.
    cbn [skip_space]. change (beqb x2c x20) with false. cbn iota. change (beqb x2c x5d) with false. change (beqb x2c x2c) with true. cbn iota.
    rewrite Htl. reflexivity.
Qed.

(* ---- slices *)
Lemma read_last_int_fmt c rest :
  exists d r, format_int c ++ x5d :: rest = d :: r /\ beqb d x5d = false /\ beqb d x20 = false /\ beqb d x3a = false /\
    read_last_int d r = Some (c, rest).
Proof.
  destruct (read_int_fmt c x5d rest eq_refl) as (q & r' & E & N1 & N2 & N3 & HR & N4 & N5).
  exists q, r'. split; [exact E|]. split; [exact N4|]. split; [exact N1|]. split; [exact N5|].
  unfold read_last_int. rewrite HR. reflexivity.
Qed.

Lemma read_slice_end i rest : read_slice i (x5d :: rest) = Some ([i; slice_max_end], rest).
Proof. reflexivity. Qed.

Lemma read_slice_b i b rest : read_slice i (format_int b ++ x5d :: rest) = Some ([i; b], rest).
Proof.
  destruct (read_int_fmt b x5d rest eq_refl) as (q & r' & E & N1 & N2 & N3 & HR & N4 & N5).
  rewrite E. unfold read_slice. rewrite N4. cbn [skip_space]. rewrite N1, N5. rewrite HR.
  change (beqb x5d x3a) with false. change (beqb x5d x5d) with true. cbn iota. reflexivity.
Qed.

Lemma read_slice_c i c rest : read_slice i (x3a :: format_int c ++ x5d :: rest) = Some ([i; slice_max_end; c], rest).
Proof.
  destruct (read_last_int_fmt c rest) as (d & r & E & N1 & N2 & N3 & HR).
  unfold read_slice. change (beqb x3a x5d) with false. cbn iota. cbn [skip_space]. change (beqb x3a x20) with false. cbn iota.
  change (beqb x3a x3a) with true. cbn iota. rewrite E. rewrite N1. rewrite HR. reflexivity.
Qed.

Lemma read_slice_bc i b c rest :
  read_slice i (format_int b ++ x3a :: format_int c ++ x5d :: rest) = Some ([i; b; c], rest).
Proof.
  destruct (read_int_fmt b x3a (format_int c ++ x5d :: rest) eq_refl) as (q & r' & E & N1 & N2 & N3 & HR & N4 & N5).
  destruct (read_last_int_fmt c rest) as (d & r & E2 & M1 & M2 & M3 & HR2).
  rewrite E. unfold read_slice. rewrite N4. cbn [skip_space]. rewrite N1, N5. rewrite HR.
  change (beqb x3a x3a) with true. cbn iota. rewrite E2. rewrite M1. rewrite HR2. reflexivity.
Qed.

(* the text after the first colon, and what it reads as *)
Definition slice_tail (l : list Z) : bytes :=
  match l with
  | [] | [_] => []
  | [_; b] => print_end b
  | _ :: b :: c :: _ => print_end b ++ x3a :: format_int c
  end.
Definition slice_start (l : list Z) : Z := match l with a :: _ => a | [] => 0 end.
Definition slice_norm (l : list Z) : list Z :=
  match l with
  | [] => [0; slice_max_end]
  | [a] => [a; slice_max_end]
  | [a; b] => [a; b]
  | a :: b :: c :: _ => [a; b; c]
  end.

Lemma print_slice_split l : print_slice l = print_start (slice_start l) ++ x3a :: slice_tail l.
Proof. destruct l as [|a [|b [|c l]]]; reflexivity. Qed.

Lemma read_slice_tail l rest : read_slice (slice_start l) (slice_tail l ++ x5d :: rest) = Some (slice_norm l, rest).
Proof.
  destruct l as [|a [|b [|c l]]]; cbn [slice_tail slice_start slice_norm List.app].
  - reflexivity.
  - reflexivity.
  - unfold print_end. destruct (b =? slice_max_end) eqn:Eb.
    + apply Z.eqb_eq in Eb. subst b. reflexivity.
    + apply read_slice_b.
  - unfold print_end. destruct (b =? slice_max_end) eqn:Eb.
    + apply Z.eqb_eq in Eb. subst b. cbn [List.app]. apply read_slice_c.
    + rewrite <- app_assoc. cbn [List.app]. apply read_slice_bc.
Qed.

Lemma norm_slice l : norm_frag (NSlice l) = NSlice (slice_norm l).
Proof. destruct l as [|a [|b [|c l]]]; reflexivity. Qed.

Lemma parse_slice f ld l rest :
  parse_frags (S f) ld (print_frag (NSlice l) ++ rest) = cons_opt (norm_frag (NSlice l)) (parse_frags f false rest).
Proof.
  rewrite norm_slice. unfold print_frag. rewrite print_slice_split.
  cbn [List.app]. rewrite <- !app_assoc. cbn [List.app].
  pose proof (read_slice_tail l rest) as HT.
  cbn [parse_frags]. change (beqb x5b x2e) with false. change (beqb x5b x2a) with false. change (beqb x5b x5b) with true. cbn iota.
  unfold print_start. destruct (slice_start l =? 0) eqn:E0.
  - apply Z.eqb_eq in E0. rewrite E0 in HT. cbn [List.app skip_space]. change (beqb x3a x20) with false. cbn iota.
    change (beqb x3a x3a) with true. cbn iota. rewrite HT. reflexivity.
  - destruct (read_int_fmt (slice_start l) x3a (slice_tail l ++ x5d :: rest) eq_refl) as (q & r' & E & N1 & N2 & N3 & HR & N4 & N5).
    rewrite E. cbn [skip_space]. rewrite N1, N5, N2, N3. cbn iota. rewrite HR.
    cbn [skip_space]. change (beqb x3a x20) with false. cbn iota.
    change (beqb x3a x5d) with false. change (beqb x3a x2c) with false. change (beqb x3a x3a) with true. cbn iota.
    rewrite HT. reflexivity.
Qed.

Lemma tok_byte_not_special c : tok_byte c = true -> beqb c x2a = false /\ beqb c x2e = false /\ beqb c x5b = false.
Proof.
  intro H. repeat split; (destruct (beqb c _) eqn:E; [apply beqb_eq in E; subst c; discriminate H | reflexivity]).
Qed.

Lemma parse_bracket_text f ld k rest :
  parse_frags (S f) ld (x5b :: x27 :: enc_body_u (length k) k ++ x27 :: x5d :: rest) =
  cons_opt (NChild k) (parse_frags f false rest).
Proof.
  cbn [parse_frags]. change (beqb x5b x2e) with false. change (beqb x5b x2a) with false. change (beqb x5b x5b) with true. cbn iota.
  cbn [skip_space]. change (beqb x27 x20) with false. cbn iota. change (beqb x27 x3a) with false. change (beqb x27 x2a) with false. cbn iota.
  change (beqb x27 x27 || beqb x27 x22) with true. cbn iota.
  rewrite (string_roundtrip_all k x27 (x5d :: rest) (or_intror eq_refl)).
  cbn [skip_space]. change (beqb x5d x20) with false. cbn iota. change (beqb x5d x5d) with true. cbn iota. reflexivity.
Qed.

Lemma parse_bracket_child f ld k rest : token_ok k = false ->
  parse_frags (S f) ld (print_frag (NChild k) ++ rest) = cons_opt (NChild k) (parse_frags f false rest).
Proof.
  intro Ht. unfold print_frag. rewrite Ht. cbn [List.app]. rewrite <- app_assoc. cbn [List.app].
  apply parse_bracket_text.
Qed.

Lemma parse_dot_child f ld c k rest : tok_byte c = true -> forallb tok_byte k = true -> ends_token rest ->
  parse_frags (S f) ld (x2e :: (c :: k) ++ rest) = cons_opt (NChild (c :: k)) (parse_frags f false rest).
Proof.
  intros Hc Hk Hr. destruct (tok_byte_not_special c Hc) as (N1 & N2 & N3).
  cbn [List.app parse_frags]. change (beqb x2e x2e) with true. cbn iota.
  rewrite N1, N2. cbn iota. rewrite Hc. cbn [negb]. cbn iota.
  rewrite (span_token_run k rest Hk Hr). reflexivity.
Qed.

Lemma parse_bare_child f c k rest : tok_byte c = true -> forallb tok_byte k = true -> ends_token rest ->
  parse_frags (S f) true ((c :: k) ++ rest) = cons_opt (NChild (c :: k)) (parse_frags f false rest).
Proof.
  intros Hc Hk Hr. destruct (tok_byte_not_special c Hc) as (N1 & N2 & N3).
  cbn [List.app parse_frags]. rewrite N2, N1, N3. cbn iota. rewrite Hc. cbn [andb]. cbn iota.
  rewrite (span_token_run k rest Hk Hr). reflexivity.
Qed.

Definition frag_ok (f : nfrag) : Prop := match f with NUnion [] => False | _ => True end.

Lemma parse_printed fs : forall fuel ld, Forall frag_ok fs -> (length fs < fuel)%nat ->
  parse_frags fuel ld (print_ld ld fs) = Some (map norm_frag fs).
Proof.
  induction fs as [|f fs IH]; intros fuel ld Hok Hf.
  - destruct fuel; [simpl in Hf; lia|]. reflexivity.
  - destruct fuel as [|fuel]; [simpl in Hf; lia|]. simpl in Hf. cbn [map].
    pose proof (Forall_inv Hok) as Hokf. pose proof (Forall_inv_tail Hok) as Hoks.
    destruct f as [k|i|star| |ms|l].
    + cbn [print_ld]. destruct (token_ok k) eqn:Ht.
      * change (norm_frag (NChild k)) with (NChild k).
        destruct k as [|c k]; [discriminate Ht|]. unfold token_ok in Ht. cbn [forallb] in Ht.
        apply andb_true_iff in Ht as [Hc Hk].
        destruct ld.
        { rewrite (parse_bare_child fuel c k _ Hc Hk (printed_ends_token fs)). rewrite IH by (assumption || lia). reflexivity. }
        { change ((x2e :: c :: k) ++ print_ld false fs) with (x2e :: (c :: k) ++ print_ld false fs).
          rewrite (parse_dot_child fuel false c k _ Hc Hk (printed_ends_token fs)). rewrite IH by (assumption || lia). reflexivity. }
      * change (norm_frag (NChild k)) with (NChild k). rewrite (parse_bracket_child fuel ld k _ Ht). rewrite IH by (assumption || lia). reflexivity.
    + cbn [print_ld]. rewrite parse_nth. rewrite IH by (assumption || lia). reflexivity.
    + destruct star; cbn [print_ld print_frag].
      * destruct ld; cbn [List.app parse_frags].
        { change (beqb x2a x2e) with false. change (beqb x2a x2a) with true. cbn iota. rewrite IH by (assumption || lia). reflexivity. }
        { change (beqb x2e x2e) with true. cbn iota. change (beqb x2a x2a) with true. cbn iota. rewrite IH by (assumption || lia). reflexivity. }
      * cbn [List.app parse_frags]. change (beqb x5b x2e) with false. change (beqb x5b x2a) with false. change (beqb x5b x5b) with true. cbn iota.
        cbn [skip_space]. change (beqb x2a x20) with false. cbn iota. change (beqb x2a x3a) with false. change (beqb x2a x2a) with true. cbn iota.
        cbn [skip_space]. change (beqb x5d x20) with false. cbn iota. change (beqb x5d x5d) with true. cbn iota.
        rewrite IH by (assumption || lia). reflexivity.
    + cbn [print_ld parse_frags]. change (beqb x2e x2e) with true. cbn iota. change (beqb x2e x2a) with false. cbn iota.
      rewrite IH by (assumption || lia). reflexivity.
    + cbn [print_ld]. destruct ms as [|m1 [|m2 ms]].
      * contradiction.
      * destruct m1 as [s|i].
        { cbn [print_frag print_members print_member norm_frag List.app]. rewrite <- !app_assoc. cbn [List.app].
          rewrite parse_bracket_text. rewrite IH by (assumption || lia). reflexivity. }
        { change (print_frag (NUnion [inr i])) with (print_frag (NNth i)). rewrite parse_nth.
          rewrite IH by (assumption || lia). reflexivity. }
      * rewrite parse_union. rewrite IH by (assumption || lia).
        assert (Hn : norm_frag (NUnion (m1 :: m2 :: ms)) = NUnion (m1 :: m2 :: ms)) by (destruct m1; reflexivity).
        rewrite Hn. reflexivity.
    + cbn [print_ld]. rewrite parse_slice. rewrite IH by (assumption || lia). reflexivity.
Qed.

Lemma printed_length fs : forall ld, (length fs <= length (print_ld ld fs))%nat.
Proof.
  induction fs as [|f fs IH]; intro ld; [simpl; lia|].
  destruct f as [k|i|star| |ms|l]; cbn [print_ld length]; try rewrite app_length.
  - specialize (IH false). destruct (token_ok k) eqn:Ht.
    + destruct k as [|c k]; [discriminate Ht|]. destruct ld; simpl; lia.
    + unfold print_frag. rewrite Ht. simpl. lia.
  - specialize (IH false). simpl. lia.
  - specialize (IH false). destruct star; [destruct ld|]; simpl; lia.
  - specialize (IH true). lia.
  - specialize (IH false). simpl. lia.
  - specialize (IH false). simpl. lia.
Qed.

Theorem path_text_round_trip fs : Forall frag_ok fs -> parse_path (print_path fs) = Some (map norm_frag fs).
Proof.
  intro Hok. unfold parse_path, print_path. change (beqb x24 x24) with true. cbn iota.
  destruct (print_frags_ld fs) as [-> _].
  apply parse_printed; [exact Hok|]. pose proof (printed_length fs false). lia.
Qed.

(* the path comes back unchanged when its unions have at least two members and its slices two
   or three numbers *)
Definition frag_clean (f : nfrag) : Prop :=
  match f with
  | NUnion ms => (2 <= length ms)%nat
  | NSlice l => (length l = 2 \/ length l = 3)%nat
  | _ => True
  end.
Lemma norm_clean f : frag_clean f -> norm_frag f = f /\ frag_ok f.
Proof.
  destruct f as [k|i|star| |ms|l]; simpl; try (intros; split; [reflexivity|exact I]).
  - intro Hl. destruct ms as [|m1 [|m2 ms]]; try (simpl in Hl; lia). split; [|exact I]. destruct m1; reflexivity.
  - intro Hl. split; [|exact I]. destruct l as [|a [|b [|c [|d l]]]]; simpl in Hl; try lia; reflexivity.
Qed.

Theorem path_text_round_trip_clean fs : Forall frag_clean fs -> parse_path (print_path fs) = Some fs.
Proof.
  intro H. rewrite path_text_round_trip.
  - f_equal. induction H as [|f fs Hf _ IH]; [reflexivity|]. cbn [map]. rewrite (proj1 (norm_clean f Hf)), IH. reflexivity.
  - eapply Forall_impl; [|exact H]. intros f Hf. exact (proj2 (norm_clean f Hf)).
Qed.

(* ---- BracketString: without descents (whose [..] the parser does not read) the bracketed text
   parses back too; both wildcards come back as the bracketed one *)
Definition norm_frag_b (f : nfrag) : nfrag := match f with NWild _ => NWild false | _ => norm_frag f end.
Definition no_descent (f : nfrag) : Prop := match f with NDescent => False | _ => True end.

Lemma parse_printed_b fs : forall fuel ld, Forall frag_ok fs -> Forall no_descent fs -> (length fs < fuel)%nat ->
  parse_frags fuel ld (flat_map print_frag_b fs) = Some (map norm_frag_b fs).
Proof.
  induction fs as [|f fs IH]; intros fuel ld Hok Hnd Hf.
  - destruct fuel; [simpl in Hf; lia|]. reflexivity.
  - destruct fuel as [|fuel]; [simpl in Hf; lia|]. simpl in Hf. cbn [map flat_map].
    pose proof (Forall_inv Hok) as Hokf. pose proof (Forall_inv_tail Hok) as Hoks.
    pose proof (Forall_inv Hnd) as Hndf. pose proof (Forall_inv_tail Hnd) as Hnds.
    destruct f as [k|i|star| |ms|l].
    + cbn [print_frag_b norm_frag_b norm_frag List.app]. rewrite <- !app_assoc. cbn [List.app].
      rewrite parse_bracket_text. rewrite IH by (assumption || lia). reflexivity.
    + change (print_frag_b (NNth i)) with (print_frag (NNth i)). rewrite parse_nth. rewrite IH by (assumption || lia). reflexivity.
    + cbn [print_frag_b norm_frag_b List.app parse_frags].
      change (beqb x5b x2e) with false. change (beqb x5b x2a) with false. change (beqb x5b x5b) with true. cbn iota.
      cbn [skip_space]. change (beqb x2a x20) with false. cbn iota. change (beqb x2a x3a) with false. change (beqb x2a x2a) with true. cbn iota.
      cbn [skip_space]. change (beqb x5d x20) with false. cbn iota. change (beqb x5d x5d) with true. cbn iota.
      rewrite IH by (assumption || lia). reflexivity.
    + contradiction.
    + change (print_frag_b (NUnion ms)) with (print_frag (NUnion ms)). destruct ms as [|m1 [|m2 ms]].
      * contradiction.
      * destruct m1 as [s|i].
        { cbn [print_frag print_members print_member norm_frag_b norm_frag List.app]. rewrite <- !app_assoc. cbn [List.app].
          rewrite parse_bracket_text. rewrite IH by (assumption || lia). reflexivity. }
        { change (print_frag (NUnion [inr i])) with (print_frag (NNth i)). rewrite parse_nth.
          rewrite IH by (assumption || lia). reflexivity. }
      * rewrite parse_union. rewrite IH by (assumption || lia).
        assert (Hn : norm_frag_b (NUnion (m1 :: m2 :: ms)) = NUnion (m1 :: m2 :: ms)) by (destruct m1; reflexivity).
        rewrite Hn. reflexivity.
    + change (print_frag_b (NSlice l)) with (print_frag (NSlice l)). rewrite parse_slice. rewrite IH by (assumption || lia). reflexivity.
Qed.

Lemma no_descent_end fs : Forall no_descent fs -> ends_in_descent fs = false.
Proof.
  intro H. unfold ends_in_descent. destruct (rev fs) as [|f r] eqn:E; [reflexivity|].
  assert (Hin : In f fs) by (apply in_rev; rewrite E; left; reflexivity).
  rewrite Forall_forall in H. specialize (H f Hin). destruct f; try reflexivity. contradiction.
Qed.

Lemma printed_length_b fs : (length fs <= length (flat_map print_frag_b fs))%nat.
Proof.
  induction fs as [|f fs IH]; [simpl; lia|]. cbn [flat_map length]. rewrite app_length.
  assert (1 <= length (print_frag_b f))%nat.
  { destruct f as [k|i|star| |ms|l]; simpl; lia. }
  lia.
Qed.

Theorem bracket_text_round_trip fs : Forall frag_ok fs -> Forall no_descent fs ->
  parse_path (print_path_b fs) = Some (map norm_frag_b fs).
Proof.
  intros Hok Hnd. unfold parse_path, print_path_b. rewrite (no_descent_end fs Hnd), app_nil_r.
  change (beqb x24 x24) with true. cbn iota.
  apply parse_printed_b; [exact Hok|exact Hnd|]. pose proof (printed_length_b fs). lia.
Qed.

(* the recorded finding in the model: a descent's bracket form does not parse *)
Theorem bracket_descent_refuted : parse_path (print_path_b [NDescent; NChild [x61]]) = None.
Proof. vm_compute. reflexivity. Qed.

(* ---- expressions starting with @ or with a fragment *)
Lemma print_first_ld fs : print_first fs = print_ld true fs.
Proof.
  destruct fs as [|f fs]; [reflexivity|]. destruct (print_frags_ld fs) as [E1 E2].
  destruct f as [k|i|star| |ms|l]; cbn [print_first print_ld].
  - rewrite E1. reflexivity.
  - destruct (print_frags_ld (NNth i :: fs)) as [E _]. exact (eq_trans E eq_refl) || (rewrite E; reflexivity).
  - destruct star; [rewrite E1; reflexivity|]. cbn [print_frags print_frag]. rewrite E1. reflexivity.
  - cbn [print_frags]. cbn [List.app]. f_equal. exact E2.
  - cbn [print_frags]. rewrite E1. reflexivity.
  - cbn [print_frags]. rewrite E1. reflexivity.
Qed.

Theorem path_text_round_trip_h h fs : Forall frag_ok fs ->
  parse_path_h (print_path_h h fs) = Some (h, map norm_frag fs).
Proof.
  intro Hok. destruct h.
  - assert (E : parse_path_h (print_path_h HRoot fs) = Some (HRoot, map norm_frag fs)).
    { unfold parse_path_h, print_path_h. change (beqb x24 x24) with true. cbn iota.
      destruct (print_frags_ld fs) as [-> _]. rewrite parse_printed; [reflexivity|exact Hok|].
      pose proof (printed_length fs false). lia. }
    exact E.
  - assert (E : parse_path_h (print_path_h HAt fs) = Some (HAt, map norm_frag fs)).
    { unfold parse_path_h, print_path_h. change (beqb x40 x24) with false. change (beqb x40 x40) with true. cbn iota.
      destruct (print_frags_ld fs) as [-> _]. rewrite parse_printed; [reflexivity|exact Hok|].
      pose proof (printed_length fs false). lia. }
    exact E.
  - (* no head: the text starts with the first fragment, which is never $ or @ *)
    unfold print_path_h. rewrite print_first_ld.
    assert (G : forall w, w = print_ld true fs ->
                (match w with b :: _ => beqb b x24 = false /\ beqb b x40 = false | [] => True end) ->
                parse_path_h w = Some (HNone, map norm_frag fs)).
    { intros w Ew Hw. unfold parse_path_h. destruct w as [|b r].
      - destruct fs as [|f fs']; [reflexivity|]. exfalso. pose proof (printed_length (f :: fs') true) as HL. rewrite <- Ew in HL. simpl in HL. lia.
      - destruct Hw as [H1 H2]. rewrite H1, H2. rewrite Ew. rewrite parse_printed; [reflexivity|exact Hok|].
        pose proof (printed_length fs true). rewrite <- Ew. rewrite <- Ew in H. simpl in *. lia. }
    destruct fs as [|f fs']; [reflexivity|].
    destruct f as [k|i|star| |ms|l].
    + destruct k as [|c k]; [apply G; [reflexivity|]; cbn [print_ld token_ok print_frag List.app]; split; reflexivity|].
      apply G; [reflexivity|]. cbn [print_ld].
      destruct (token_ok (c :: k)) eqn:Ht.
      * unfold token_ok in Ht. cbn [forallb] in Ht. apply andb_true_iff in Ht as [Hc _]. cbn [List.app].
        split; (destruct (beqb c _) eqn:E; [apply beqb_eq in E; subst c; discriminate Hc | reflexivity]).
      * unfold print_frag. rewrite Ht. cbn [List.app]. split; reflexivity.
    + apply G; [reflexivity|]. cbn [print_ld print_frag List.app]. split; reflexivity.
    + apply G; [reflexivity|]. destruct star; cbn [print_ld print_frag List.app]; split; reflexivity.
    + apply G; [reflexivity|]. cbn [print_ld]. split; reflexivity.
    + apply G; [reflexivity|]. cbn [print_ld print_frag List.app]. split; reflexivity.
    + apply G; [reflexivity|]. cbn [print_ld print_frag List.app]. split; reflexivity.
Qed.
