(* C14, normal paths: parse_path (print_path fs) = Some (map norm_frag fs) for EVERY list of
   child / index fragments (any key bytes, any integer). *)
From Coq Require Import Init.Byte NArith ZArith List Bool Lia.
Require Import Ojg.Base.Bytes Ojg.Base.Utf8 Ojg.Gen.StrMaps Ojg.Json.Ref Ojg.Json.IntLit Ojg.Json.Fmt Ojg.Json.Writer Ojg.Json.WInt.
Require Import Ojg.Jp.Str Ojg.Jp.StrU Ojg.Jp.PathText.
Import ListNotations.
Open Scope Z_scope.

(* what follows a fragment in a printed path: nothing, or a byte that ends a token *)
Definition ends_token (w : bytes) : Prop := w = [] \/ exists b r, w = b :: r /\ tok_byte b = false.

Lemma print_frag_starts f : exists b r, print_frag f = b :: r /\ (b = x2e \/ b = x5b).
Proof.
  destruct f as [k|i]; unfold print_frag.
  - destruct (token_ok k); eexists; eexists; split; try reflexivity; auto.
  - eexists; eexists; split; [reflexivity | auto].
Qed.

Lemma printed_ends_token fs : ends_token (flat_map print_frag fs).
Proof.
  destruct fs as [|f fs]; [left; reflexivity|]. right. cbn [flat_map].
  destruct (print_frag_starts f) as (b & r & E & Hb). rewrite E. exists b, (r ++ flat_map print_frag fs).
  split; [reflexivity|]. destruct Hb as [-> | ->]; reflexivity.
Qed.

Lemma span_token_run k : forall rest, forallb tok_byte k = true -> ends_token rest ->
  span_token (k ++ rest) = (k, rest).
Proof.
  induction k as [|b k IH]; intros rest Hk Hr.
  - cbn [List.app]. destruct Hr as [-> | (b & r & -> & Hb)]; [reflexivity|]. cbn [span_token]. rewrite Hb. reflexivity.
  - cbn [forallb] in Hk. apply andb_true_iff in Hk as [Hb Hk]. cbn [List.app span_token]. rewrite Hb.
    rewrite (IH rest Hk Hr). reflexivity.
Qed.

Lemma read_digits_run ds : forall acc rest, all_digits ds ->
  read_digits acc (ds ++ x5d :: rest) = (fold_left (fun a d => a * 10 + digit_val d) ds acc, x5d :: rest).
Proof.
  induction ds as [|d ds IH]; intros acc rest H.
  - reflexivity.
  - inversion H as [|? ? Hd Hds]; subst. cbn [List.app read_digits fold_left]. rewrite Hd. apply IH. exact Hds.
Qed.

(* the decimal text of a positive number: digits, the first one not 0, with that value *)
Lemma dec_text n : 1 <= n -> exists d ds, format_uint n = d :: ds /\ all_digits (d :: ds) /\ digits_val (d :: ds) = n.
Proof.
  intro H. destruct (dec_exists (Z.to_nat n) n H (le_n _)) as (ds & HL & HA & HV).
  assert (E : format_uint n = ds) by (rewrite <- HV; apply format_uint_digits; assumption).
  destruct HL as (d & r & -> & _). exists d, r. auto.
Qed.

Lemma is_digit_not_special d : is_digit d = true ->
  beqb d x27 = false /\ beqb d x22 = false /\ beqb d x2d = false /\ beqb d x20 = false.
Proof.
  unfold is_digit. intro H. apply andb_true_iff in H as [H1 H2]. apply Z.leb_le in H1, H2.
  repeat split; (destruct (beqb d _) eqn:E; [apply beqb_eq in E; subst d; vm_compute in H1; vm_compute in H2; exfalso; (apply H1 || apply H2); reflexivity | reflexivity]).
Qed.

Lemma parse_nth f i rest :
  parse_frags (S f) (print_frag (NNth i) ++ rest) = cons_opt (NNth i) (parse_frags f rest).
Proof.
  unfold print_frag, format_int. destruct (i <? 0) eqn:En.
  - apply Z.ltb_lt in En. destruct (dec_text (- i) ltac:(lia)) as (d & ds & E & HA & HV). rewrite E.
    pose proof (Forall_inv HA) as Hd. cbn beta in Hd.
    cbn [List.app parse_frags]. change (beqb x5b x2e) with false. change (beqb x5b x5b) with true. cbn iota.
    cbn [skip_space]. change (beqb x2d x20) with false. cbn iota.
    change (beqb x2d x27 || beqb x2d x22) with false. cbn iota. change (beqb x2d x2d) with true. cbn iota.
    rewrite <- app_assoc. cbn [List.app]. rewrite Hd.
    change (d :: ds ++ x5d :: rest) with ((d :: ds) ++ x5d :: rest). rewrite (read_digits_run (d :: ds) 0 rest HA).
    cbn [skip_space]. change (beqb x5d x20) with false. cbn iota. change (beqb x5d x5d) with true. cbn iota.
    fold (digits_val (d :: ds)). rewrite HV. replace (- - i) with i by lia. reflexivity.
  - apply Z.ltb_ge in En.
    assert (Hfmt : exists d ds, format_uint i = d :: ds /\ all_digits (d :: ds) /\ digits_val (d :: ds) = i).
    { destruct (Z.eq_dec i 0) as [->|Hne].
      - exists x30, []. split; [reflexivity|]. split; [repeat constructor | reflexivity].
      - apply dec_text. lia. }
    destruct Hfmt as (d & ds & E & HA & HV). rewrite E. pose proof (Forall_inv HA) as Hd. cbn beta in Hd.
    destruct (is_digit_not_special d Hd) as (N1 & N2 & N3 & N4).
    cbn [List.app parse_frags]. change (beqb x5b x2e) with false. change (beqb x5b x5b) with true. cbn iota.
    cbn [skip_space]. rewrite N4. rewrite N1, N2. cbn [orb]. cbn iota. rewrite N3. cbn iota. rewrite Hd.
    rewrite <- app_assoc. cbn [List.app].
    change (d :: ds ++ x5d :: rest) with ((d :: ds) ++ x5d :: rest). rewrite (read_digits_run (d :: ds) 0 rest HA).
    cbn [skip_space]. change (beqb x5d x20) with false. cbn iota. change (beqb x5d x5d) with true. cbn iota.
    fold (digits_val (d :: ds)). rewrite HV. reflexivity.
Qed.

Lemma tok_byte_not_special c : tok_byte c = true -> beqb c x2a || beqb c x2e = false.
Proof.
  intro H. destruct (beqb c x2a) eqn:E1; [apply beqb_eq in E1; subst c; discriminate H|].
  destruct (beqb c x2e) eqn:E2; [apply beqb_eq in E2; subst c; discriminate H|]. reflexivity.
Qed.

Lemma parse_child f k rest : ends_token rest ->
  parse_frags (S f) (print_frag (NChild k) ++ rest) = cons_opt (norm_frag (NChild k)) (parse_frags f rest).
Proof.
  intro Hr. unfold print_frag, norm_frag. destruct (token_ok k) eqn:Ht.
  - destruct k as [|c k]; [discriminate Ht|]. unfold token_ok in Ht. cbn [forallb] in Ht.
    apply andb_true_iff in Ht as [Hc Hk].
    cbn [List.app parse_frags]. change (beqb x2e x2e) with true. cbn iota.
    rewrite (tok_byte_not_special c Hc). cbn iota. rewrite Hc. cbn [negb]. cbn iota.
    rewrite (span_token_run k rest Hk Hr). reflexivity.
  - cbn [List.app parse_frags]. change (beqb x5b x2e) with false. change (beqb x5b x5b) with true. cbn iota.
    cbn [skip_space]. change (beqb x27 x20) with false. cbn iota.
    change (beqb x27 x27 || beqb x27 x22) with true. cbn iota.
    rewrite <- app_assoc. cbn [List.app].
    rewrite (string_roundtrip_all k x27 (x5d :: rest) (or_intror eq_refl)).
    cbn [skip_space]. change (beqb x5d x20) with false. cbn iota. change (beqb x5d x5d) with true. cbn iota. reflexivity.
Qed.

Lemma parse_printed fs : forall fuel, (length fs < fuel)%nat ->
  parse_frags fuel (flat_map print_frag fs) = Some (map norm_frag fs).
Proof.
  induction fs as [|f fs IH]; intros fuel Hf.
  - destruct fuel; [simpl in Hf; lia|]. reflexivity.
  - destruct fuel as [|fuel]; [simpl in Hf; lia|]. simpl in Hf. cbn [flat_map map].
    destruct f as [k|i].
    + rewrite (parse_child fuel k _ (printed_ends_token fs)). rewrite IH by lia. reflexivity.
    + rewrite parse_nth. rewrite IH by lia. reflexivity.
Qed.

Lemma print_frag_nonempty f : (1 <= length (print_frag f))%nat.
Proof. destruct (print_frag_starts f) as (b & r & -> & _). simpl. lia. Qed.

Lemma printed_length fs : (length fs <= length (flat_map print_frag fs))%nat.
Proof.
  induction fs as [|f fs IH]; [simpl; lia|]. cbn [flat_map length]. rewrite app_length.
  pose proof (print_frag_nonempty f). lia.
Qed.

Theorem path_text_round_trip fs : parse_path (print_path fs) = Some (map norm_frag fs).
Proof.
  unfold parse_path, print_path. change (beqb x24 x24) with true. cbn iota.
  apply parse_printed. pose proof (printed_length fs). lia.
Qed.

(* keys that are valid UTF-8 (sanitize k = k) come back unchanged, so the whole path does *)
Definition frag_clean (f : nfrag) : Prop := match f with NChild k => sanitize k = k | NNth _ => True end.
Lemma norm_clean f : frag_clean f -> norm_frag f = f.
Proof. destruct f as [k|i]; simpl; [|reflexivity]. intro H. destruct (token_ok k); [reflexivity | rewrite H; reflexivity]. Qed.

Theorem path_text_round_trip_clean fs : Forall frag_clean fs -> parse_path (print_path fs) = Some fs.
Proof.
  intro H. rewrite path_text_round_trip. f_equal.
  induction H as [|f fs Hf _ IH]; [reflexivity|]. cbn [map]. rewrite (norm_clean f Hf), IH. reflexivity.
Qed.
