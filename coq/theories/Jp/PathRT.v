(* C14, paths of children, indexes, wildcards and descents: parse_path (print_path fs) =
   Some (map norm_frag fs) for EVERY such fragment list (any key bytes, any integer). *)
From Coq Require Import Init.Byte NArith ZArith List Bool Lia.
Require Import Ojg.Base.Bytes Ojg.Base.Utf8 Ojg.Gen.StrMaps Ojg.Json.Ref Ojg.Json.IntLit Ojg.Json.Fmt Ojg.Json.Writer Ojg.Json.WInt.
Require Import Ojg.Jp.Str Ojg.Jp.StrU Ojg.Jp.PathText.
Import ListNotations.
Open Scope Z_scope.

(* the printer in the form the parser sees it: a descent is both dots, and the fragment after it
   drops its own dot *)
Fixpoint print_ld (ld : bool) (fs : list nfrag) : bytes :=
  match fs with
  | [] => []
  | NDescent :: r => x2e :: x2e :: print_ld true r
  | NChild k :: r => (if token_ok k then (if ld then k else x2e :: k) else print_frag (NChild k)) ++ print_ld false r
  | NWild true :: r => (if ld then [x2a] else [x2e; x2a]) ++ print_ld false r
  | f :: r => print_frag f ++ print_ld false r
  end.

Lemma print_frags_ld fs :
  print_frags fs = print_ld false fs /\
  (if second_dot fs then [x2e] else []) ++ print_frags fs = x2e :: print_ld true fs.
Proof.
  induction fs as [|f fs [IH1 IH2]]; [split; reflexivity|].
  destruct f as [k|i|star|].
  - cbn [print_frags print_ld second_dot print_frag]. rewrite IH1. destruct (token_ok k); split; reflexivity.
  - cbn [print_frags print_ld second_dot print_frag]. rewrite IH1. split; reflexivity.
  - cbn [print_frags print_ld second_dot print_frag]. rewrite IH1. destruct star; split; reflexivity.
  - cbn [print_frags print_ld second_dot]. split.
    + cbn [List.app]. f_equal. exact IH2.
    + cbn [List.app]. f_equal. f_equal. exact IH2.
Qed.

(* what follows a token in a printed path: nothing, or a byte that ends a token *)
Definition ends_token (w : bytes) : Prop := w = [] \/ exists b r, w = b :: r /\ tok_byte b = false.

Lemma printed_ends_token fs : ends_token (print_ld false fs).
Proof.
  destruct fs as [|f fs]; [left; reflexivity|]. right.
  destruct f as [k|i|star|]; cbn [print_ld print_frag].
  - destruct (token_ok k); eexists; eexists; (split; [reflexivity|reflexivity]).
  - eexists; eexists; (split; [reflexivity|reflexivity]).
  - destruct star; eexists; eexists; (split; [reflexivity|reflexivity]).
  - eexists; eexists; (split; [reflexivity|reflexivity]).
Qed.

Lemma span_token_run k : forall rest, forallb tok_byte k = true -> ends_token rest ->
  span_token (k ++ rest) = (k, rest).
Proof.
  induction k as [|b k IH]; intros rest Hk Hr.
  - cbn [List.app]. destruct Hr as [-> | (b & r & -> & Hb)]; [reflexivity|]. cbn [span_token]. rewrite Hb. reflexivity.
  - cbn [forallb] in Hk. apply andb_true_iff in Hk as [Hb Hk]. cbn [List.app span_token]. rewrite Hb.
    rewrite (IH rest Hk Hr). reflexivity.
Qed.

Lemma read_digits_run ds : forall acc rest, all_digits ds ->
  read_digits acc (ds ++ x5d :: rest) = (fold_left (fun a d => a * 10 + digit_val d) ds acc, x5d :: rest).
Proof.
  induction ds as [|d ds IH]; intros acc rest H.
  - reflexivity.
  - inversion H as [|? ? Hd Hds]; subst. cbn [List.app read_digits fold_left]. rewrite Hd. apply IH. exact Hds.
Qed.

(* the decimal text of a positive number: digits, the first one not 0, with that value *)
Lemma dec_text n : 1 <= n -> exists d ds, format_uint n = d :: ds /\ all_digits (d :: ds) /\ digits_val (d :: ds) = n.
Proof.
  intro H. destruct (dec_exists (Z.to_nat n) n H (le_n _)) as (ds & HL & HA & HV).
  assert (E : format_uint n = ds) by (rewrite <- HV; apply format_uint_digits; assumption).
  destruct HL as (d & r & -> & _). exists d, r. auto.
Qed.

Lemma is_digit_not_special d : is_digit d = true ->
  beqb d x27 = false /\ beqb d x22 = false /\ beqb d x2d = false /\ beqb d x20 = false /\ beqb d x2a = false.
Proof.
  unfold is_digit. intro H. apply andb_true_iff in H as [H1 H2]. apply Z.leb_le in H1, H2.
  repeat split; (destruct (beqb d _) eqn:E; [apply beqb_eq in E; subst d; vm_compute in H1; vm_compute in H2; exfalso; (apply H1 || apply H2); reflexivity | reflexivity]).
Qed.

Lemma parse_nth f ld i rest :
  parse_frags (S f) ld (print_frag (NNth i) ++ rest) = cons_opt (NNth i) (parse_frags f false rest).
Proof.
  unfold print_frag, format_int. destruct (i <? 0) eqn:En.
  - apply Z.ltb_lt in En. destruct (dec_text (- i) ltac:(lia)) as (d & ds & E & HA & HV). rewrite E.
    pose proof (Forall_inv HA) as Hd. cbn beta in Hd.
    cbn [List.app parse_frags]. change (beqb x5b x2e) with false. change (beqb x5b x2a) with false. change (beqb x5b x5b) with true. cbn iota.
    cbn [skip_space]. change (beqb x2d x20) with false. cbn iota.
    change (beqb x2d x2a) with false. change (beqb x2d x27 || beqb x2d x22) with false. cbn iota. change (beqb x2d x2d) with true. cbn iota.
    rewrite <- app_assoc. cbn [List.app]. rewrite Hd.
    change (d :: ds ++ x5d :: rest) with ((d :: ds) ++ x5d :: rest). rewrite (read_digits_run (d :: ds) 0 rest HA).
    cbn [skip_space]. change (beqb x5d x20) with false. cbn iota. change (beqb x5d x5d) with true. cbn iota.
    fold (digits_val (d :: ds)). rewrite HV. replace (- - i) with i by lia. reflexivity.
  - apply Z.ltb_ge in En.
    assert (Hfmt : exists d ds, format_uint i = d :: ds /\ all_digits (d :: ds) /\ digits_val (d :: ds) = i).
    { destruct (Z.eq_dec i 0) as [->|Hne].
      - exists x30, []. split; [reflexivity|]. split; [repeat constructor | reflexivity].
      - apply dec_text. lia. }
    destruct Hfmt as (d & ds & E & HA & HV). rewrite E. pose proof (Forall_inv HA) as Hd. cbn beta in Hd.
    destruct (is_digit_not_special d Hd) as (N1 & N2 & N3 & N4 & N5).
    cbn [List.app parse_frags]. change (beqb x5b x2e) with false. change (beqb x5b x2a) with false. change (beqb x5b x5b) with true. cbn iota.
    cbn [skip_space]. rewrite N4. rewrite N5. rewrite N1, N2. cbn [orb]. cbn iota. rewrite N3. cbn iota. rewrite Hd.
    rewrite <- app_assoc. cbn [List.app].
    change (d :: ds ++ x5d :: rest) with ((d :: ds) ++ x5d :: rest). rewrite (read_digits_run (d :: ds) 0 rest HA).
    cbn [skip_space]. change (beqb x5d x20) with false. cbn iota. change (beqb x5d x5d) with true. cbn iota.
    fold (digits_val (d :: ds)). rewrite HV. reflexivity.
Qed.

Lemma tok_byte_not_special c : tok_byte c = true -> beqb c x2a = false /\ beqb c x2e = false /\ beqb c x5b = false.
Proof.
  intro H. repeat split; (destruct (beqb c _) eqn:E; [apply beqb_eq in E; subst c; discriminate H | reflexivity]).
Qed.

Lemma parse_bracket_child f ld k rest : token_ok k = false ->
  parse_frags (S f) ld (print_frag (NChild k) ++ rest) = cons_opt (norm_frag (NChild k)) (parse_frags f false rest).
Proof.
  intro Ht. unfold print_frag, norm_frag. rewrite Ht.
  cbn [List.app parse_frags]. change (beqb x5b x2e) with false. change (beqb x5b x2a) with false. change (beqb x5b x5b) with true. cbn iota.
  cbn [skip_space]. change (beqb x27 x20) with false. cbn iota. change (beqb x27 x2a) with false. cbn iota.
  change (beqb x27 x27 || beqb x27 x22) with true. cbn iota.
  rewrite <- app_assoc. cbn [List.app].
  rewrite (string_roundtrip_all k x27 (x5d :: rest) (or_intror eq_refl)).
  cbn [skip_space]. change (beqb x5d x20) with false. cbn iota. change (beqb x5d x5d) with true. cbn iota. reflexivity.
Qed.

Lemma parse_dot_child f ld c k rest : tok_byte c = true -> forallb tok_byte k = true -> ends_token rest ->
  parse_frags (S f) ld (x2e :: (c :: k) ++ rest) = cons_opt (NChild (c :: k)) (parse_frags f false rest).
Proof.
  intros Hc Hk Hr. destruct (tok_byte_not_special c Hc) as (N1 & N2 & N3).
  cbn [List.app parse_frags]. change (beqb x2e x2e) with true. cbn iota.
  rewrite N1, N2. cbn iota. rewrite Hc. cbn [negb]. cbn iota.
  rewrite (span_token_run k rest Hk Hr). reflexivity.
Qed.

Lemma parse_bare_child f c k rest : tok_byte c = true -> forallb tok_byte k = true -> ends_token rest ->
  parse_frags (S f) true ((c :: k) ++ rest) = cons_opt (NChild (c :: k)) (parse_frags f false rest).
Proof.
  intros Hc Hk Hr. destruct (tok_byte_not_special c Hc) as (N1 & N2 & N3).
  cbn [List.app parse_frags]. rewrite N2, N1, N3. cbn iota. rewrite Hc. cbn [andb]. cbn iota.
  rewrite (span_token_run k rest Hk Hr). reflexivity.
Qed.

Lemma parse_printed fs : forall fuel ld, (length fs < fuel)%nat ->
  parse_frags fuel ld (print_ld ld fs) = Some (map norm_frag fs).
Proof.
  induction fs as [|f fs IH]; intros fuel ld Hf.
  - destruct fuel; [simpl in Hf; lia|]. reflexivity.
  - destruct fuel as [|fuel]; [simpl in Hf; lia|]. simpl in Hf. cbn [map].
    destruct f as [k|i|star|].
    + cbn [print_ld]. destruct (token_ok k) eqn:Ht.
      * assert (Hn : norm_frag (NChild k) = NChild k) by (unfold norm_frag; rewrite Ht; reflexivity). rewrite Hn.
        destruct k as [|c k]; [discriminate Ht|]. unfold token_ok in Ht. cbn [forallb] in Ht.
        apply andb_true_iff in Ht as [Hc Hk].
        destruct ld.
        { rewrite (parse_bare_child fuel c k _ Hc Hk (printed_ends_token fs)). rewrite IH by lia. reflexivity. }
        { change ((x2e :: c :: k) ++ print_ld false fs) with (x2e :: (c :: k) ++ print_ld false fs).
          rewrite (parse_dot_child fuel false c k _ Hc Hk (printed_ends_token fs)). rewrite IH by lia. reflexivity. }
      * rewrite (parse_bracket_child fuel ld k _ Ht). rewrite IH by lia. reflexivity.
    + cbn [print_ld]. rewrite parse_nth. rewrite IH by lia. reflexivity.
    + destruct star; cbn [print_ld print_frag].
      * destruct ld; cbn [List.app parse_frags].
        { change (beqb x2a x2e) with false. change (beqb x2a x2a) with true. cbn iota. rewrite IH by lia. reflexivity. }
        { change (beqb x2e x2e) with true. cbn iota. change (beqb x2a x2a) with true. cbn iota. rewrite IH by lia. reflexivity. }
      * cbn [List.app parse_frags]. change (beqb x5b x2e) with false. change (beqb x5b x2a) with false. change (beqb x5b x5b) with true. cbn iota.
        cbn [skip_space]. change (beqb x2a x20) with false. cbn iota. change (beqb x2a x2a) with true. cbn iota.
        cbn [skip_space]. change (beqb x5d x20) with false. cbn iota. change (beqb x5d x5d) with true. cbn iota.
        rewrite IH by lia. reflexivity.
    + cbn [print_ld parse_frags]. change (beqb x2e x2e) with true. cbn iota. change (beqb x2e x2a) with false. cbn iota.
      rewrite IH by lia. reflexivity.
Qed.

Lemma printed_length fs : forall ld, (length fs <= length (print_ld ld fs))%nat.
Proof.
  induction fs as [|f fs IH]; intro ld; [simpl; lia|].
  destruct f as [k|i|star|]; cbn [print_ld length]; try rewrite app_length.
  - specialize (IH false). destruct (token_ok k) eqn:Ht.
    + destruct k as [|c k]; [discriminate Ht|]. destruct ld; simpl; lia.
    + unfold print_frag. rewrite Ht. simpl. lia.
  - specialize (IH false). simpl. lia.
  - specialize (IH false). destruct star; [destruct ld|]; simpl; lia.
  - specialize (IH true). lia.
Qed.

Theorem path_text_round_trip fs : parse_path (print_path fs) = Some (map norm_frag fs).
Proof.
  unfold parse_path, print_path. change (beqb x24 x24) with true. cbn iota.
  destruct (print_frags_ld fs) as [-> _].
  apply parse_printed. pose proof (printed_length fs false). lia.
Qed.

(* keys that are valid UTF-8 (sanitize k = k) come back unchanged, so the whole path does *)
Definition frag_clean (f : nfrag) : Prop := match f with NChild k => sanitize k = k | _ => True end.
Lemma norm_clean f : frag_clean f -> norm_frag f = f.
Proof. destruct f as [k|i|star|]; simpl; try reflexivity. intro H. destruct (token_ok k); [reflexivity | rewrite H; reflexivity]. Qed.

Theorem path_text_round_trip_clean fs : Forall frag_clean fs -> parse_path (print_path fs) = Some fs.
Proof.
  intro H. rewrite path_text_round_trip. f_equal.
  induction H as [|f fs Hf _ IH]; [reflexivity|]. cbn [map]. rewrite (norm_clean f Hf), IH. reflexivity.
Qed.
