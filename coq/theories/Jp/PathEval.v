(* C14, "evaluates identically, prints identically": the fragments a printed path parses back to
   (PathRT.path_text_round_trip) select the same values on every document as the original ones, in
   the evaluation model Jp/Expr.v that the suites of C05 / C11 / C14 compare with Expr.Get; and
   they print to the same text again unless a union has a single member (whose text is that of a
   child / index). *)
From Coq Require Import Init.Byte NArith ZArith List Bool Lia.
Require Import Ojg.Base.Bytes Ojg.Base.Jv Ojg.Jp.Expr Ojg.Jp.PathText Ojg.Jp.PathRT.
Import ListNotations.
Open Scope Z_scope.

Definition to_item (m : bytes + Z) : uitem := match m with inl s => UKey s | inr i => UIdx i end.
Definition to_frag (f : nfrag) : frag :=
  match f with
  | NChild k => FChild k
  | NNth i => FNth i
  | NWild _ => FWild
  | NDescent => FDescent
  | NUnion ms => FUnion (map to_item ms)
  | NSlice l => FSlice l
  end.

Lemma sel_norm f last root v : sel (to_frag (norm_frag f)) last root v = sel (to_frag f) last root v.
Proof.
  destruct f as [k|i|star| |ms|l]; try reflexivity.
  - destruct ms as [|m1 [|m2 ms]]; try reflexivity.
    + destruct m1 as [s|i]; cbn [norm_frag to_frag map to_item sel flat_map]; rewrite app_nil_r; destruct v; reflexivity.
    + destruct m1; reflexivity.
  - destruct l as [|a [|b [|c l]]]; reflexivity.
Qed.

Lemma eval_norm fs : forall root vs,
  eval_path (map to_frag (map norm_frag fs)) root vs = eval_path (map to_frag fs) root vs.
Proof.
  induction fs as [|f fs IH]; intros root vs; [reflexivity|].
  cbn [map eval_path]. rewrite <- IH.
  assert (E : (match map to_frag (map norm_frag fs) with [] => true | _ => false end) =
              (match map to_frag fs with [] => true | _ => false end)) by (destruct fs; reflexivity).
  rewrite E. f_equal. clear. induction vs as [|v vs IHv]; [reflexivity|]. cbn [flat_map]. rewrite sel_norm, IHv. reflexivity.
Qed.

Theorem get_norm fs d :
  get_spec (FRoot :: map to_frag (map norm_frag fs)) d = get_spec (FRoot :: map to_frag fs) d.
Proof.
  unfold get_spec. cbn [eval_path].
  assert (E : (match map to_frag (map norm_frag fs) with [] => true | _ => false end) =
              (match map to_frag fs with [] => true | _ => false end)) by (destruct fs; reflexivity).
  rewrite E. apply eval_norm.
Qed.

(* printing again *)
Definition no_single (f : nfrag) : Prop := match f with NUnion [_] => False | _ => True end.

Lemma print_frag_norm f : no_single f -> print_frag (norm_frag f) = print_frag f.
Proof.
  destruct f as [k|i|star| |ms|l]; try reflexivity.
  - destruct ms as [|m1 [|m2 ms]]; [reflexivity|contradiction|]. intros _. destruct m1; reflexivity.
  - intros _. destruct l as [|a [|b [|c l]]]; reflexivity.
Qed.

Lemma second_dot_norm fs : Forall no_single fs -> second_dot (map norm_frag fs) = second_dot fs.
Proof.
  destruct fs as [|f fs]; [reflexivity|]. intro H. pose proof (Forall_inv H) as Hf.
  destruct f as [k|i|star| |ms|l]; try reflexivity.
  - destruct ms as [|m1 [|m2 ms]]; [reflexivity|contradiction|]. destruct m1; reflexivity.
  - destruct l as [|a [|b [|c l]]]; reflexivity.
Qed.

Lemma norm_descent f : no_single f -> (norm_frag f = NDescent <-> f = NDescent).
Proof.
  destruct f as [k|i|star| |ms|l]; intro H; split; intro E; try discriminate; try reflexivity.
  - destruct ms as [|m1 [|m2 ms]]; [discriminate|contradiction|destruct m1; discriminate].
  - destruct l as [|a [|b [|c l]]]; discriminate.
Qed.

Lemma print_frags_norm fs : Forall no_single fs -> print_frags (map norm_frag fs) = print_frags fs.
Proof.
  induction fs as [|f fs IH]; intro H; [reflexivity|].
  pose proof (Forall_inv H) as Hf. pose proof (Forall_inv_tail H) as Hfs. specialize (IH Hfs).
  cbn [map]. destruct f as [k|i|star| |ms|l].
  - cbn [norm_frag print_frags]. rewrite IH. reflexivity.
  - cbn [norm_frag print_frags]. rewrite IH. reflexivity.
  - cbn [norm_frag print_frags]. rewrite IH. reflexivity.
  - cbn [norm_frag print_frags]. rewrite IH, (second_dot_norm fs Hfs). reflexivity.
  - pose proof (print_frag_norm (NUnion ms) Hf) as E.
    destruct ms as [|m1 [|m2 ms]]; [|contradiction|].
    + cbn [norm_frag print_frags]. rewrite IH. reflexivity.
    + assert (En : norm_frag (NUnion (m1 :: m2 :: ms)) = NUnion (m1 :: m2 :: ms)) by (destruct m1; reflexivity).
      rewrite En. cbn [print_frags]. rewrite IH. reflexivity.
  - pose proof (print_frag_norm (NSlice l) Hf) as E.
    assert (Ek : exists l', norm_frag (NSlice l) = NSlice l') by (destruct l as [|a [|b [|c l]]]; eexists; reflexivity).
    destruct Ek as [l' El]. rewrite El in *. cbn [print_frags]. rewrite E, IH. reflexivity.
Qed.

Theorem path_text_faithful fs d : Forall frag_ok fs ->
  exists fs', parse_path (print_path fs) = Some fs' /\
    get_spec (FRoot :: map to_frag fs') d = get_spec (FRoot :: map to_frag fs) d /\
    (Forall no_single fs -> print_path fs' = print_path fs).
Proof.
  intro Hok. exists (map norm_frag fs). split; [apply path_text_round_trip; exact Hok|]. split; [apply get_norm|].
  intro Hs. unfold print_path. rewrite (print_frags_norm fs Hs). reflexivity.
Qed.
