From Coq Require Import Init.Byte NArith ZArith List Bool.
Require Import Ojg.Base.Bytes Ojg.Base.Jv Ojg.Jp.Expr.
Import ListNotations.

Fixpoint join_sp' (l : list bytes) : bytes :=
  match l with [] => [] | [a] => a | a :: l' => a ++ x20 :: join_sp' l' end.

(* results one per token, separated by " ; " so that the harness can split them *)
Fixpoint join_semi (l : list bytes) : bytes :=
  match l with [] => [] | [a] => a | a :: l' => a ++ x20 :: x3b :: x20 :: join_semi l' end.

Definition model_get (x : expr) (d : jv) : bytes := join_semi (map (fun v => show (canon v)) (get_spec x d)).
Definition model_match (e : eqn) (d : jv) : bytes := if script_match e d then [x74] else [x66].
