From Coq Require Import Init.Byte NArith ZArith List Bool.
Require Import Ojg.Base.Bytes Ojg.Base.Jv Ojg.Jp.Expr.
Import ListNotations.

Fixpoint join_sp' (l : list bytes) : bytes :=
  match l with [] => [] | [a] => a | a :: l' => a ++ x20 :: join_sp' l' end.

(* results one per token, separated by " ; " so that the harness can split them *)
Fixpoint join_semi (l : list bytes) : bytes :=
  match l with [] => [] | [a] => a | a :: l' => a ++ x20 :: x3b :: x20 :: join_semi l' end.

Definition model_get (x : expr) (d : jv) : bytes := join_semi (map (fun v => show (canon v)) (get_spec x d)).
Definition model_match (e : eqn) (d : jv) : bytes := if script_match e d then [x74] else [x66].

Require Import Ojg.Jp.Locate.

Definition show_nfrag (f : frag) : bytes :=
  match f with
  | FRoot => [x52]
  | FAt => [x41]
  | FChild k => x28 :: x63 :: x20 :: hex_of_bytes k ++ [x29]
  | FNth i => x28 :: x6e :: x20 :: format_int i ++ [x29]
  | _ => [x3f]
  end.

Definition show_npath (p : list frag) : bytes := x28 :: x70 :: x20 :: join_sp' (map show_nfrag p) ++ [x29].

Definition model_locate (x : expr) (d : jv) : bytes :=
  join_semi (map (fun pc => show_npath (fst pc) ++ x20 :: x7c :: x20 :: show (canon (snd pc))) (locate_spec x d)).
Definition model_first (x : expr) (d : jv) : bytes :=
  match first_spec x d with Some v => x53 :: x20 :: show (canon v) | None => [x4e] end.
Definition model_has (x : expr) (d : jv) : bytes := if has_spec x d then [x74] else [x66].

Definition model_locate_ses (x : expr) (d : jv) : bytes :=
  join_semi (map (fun pc => show_npath (fst pc) ++ x20 :: x7c :: x20 :: show (canon (snd pc))) (locate_ses x d)).

Require Import Ojg.Jp.Mutate.
Open Scope Z_scope.

Definition model_locate_rv (mode ses : Z) (x : expr) (d : jv) : bytes :=
  join_semi (map (fun pc => show_npath (fst pc) ++ x20 :: x7c :: x20 :: show (canon (snd pc)))
                 (locate_rv mode (if ses =? 0 then slice_indexes else slice_indexes_ses) x d)).

(* modifiers used by the harness: 0 = replace by v, 1 = wrap the element in an array *)
Definition modifier (k : Z) (v : jv) : jv -> jv :=
  if k =? 0 then (fun _ => v) else (fun e => JArr [e]).

(* op: 0 Set, 1 Del, 2 Remove, 3 Modify(const v), 4 Modify(wrap);
   incl = false: the specification (slices as Get); incl = true: the known-finding variant *)
Definition six_of (incl : bool) : Z -> list Z -> list Z := if incl then slice_indexes_incl else slice_indexes.

Definition model_mutate (incl : bool) (op : Z) (x : expr) (d v : jv) : bytes :=
  let six := six_of incl in
  let comparable :=
    if (op =? 0) || (op =? 1) then set_comparable six x d
    else if op =? 2 then negb (overlapping (map fst (parents_of six x d)))
    else negb (overlapping (map fst (locate_six six x d))) in
  let r :=
    if op =? 0 then set_spec six x v d
    else if op =? 1 then del_spec six x d
    else if op =? 2 then (if incl then remove_spec_elem_root six x d else remove_spec six x d)
    else modify_spec six x (modifier (op - 3) v) d in
  (if comparable then x63 else x75) :: x20 :: show (canon r).

Definition model_mutate_live (incl : bool) (op : Z) (x : expr) (d v : jv) : bytes :=
  show (canon (modify_live_spec (six_of incl) x (modifier (op - 3) v) d)).

Definition model_mutate_one (incl : bool) (op : Z) (x : expr) (d v : jv) : bytes :=
  let six := six_of incl in
  let comparable :=
    if (op =? 0) || (op =? 1) then set_comparable six x d else true in
  (if comparable then x63 else x75) :: x20 ::
  join_semi (map (fun r => show (canon r)) (one_candidates six (if 3 <=? op then 3 else op) x v (modifier (op - 3) v) d)).

Require Import Ojg.Jp.Str Ojg.Jp.StrU.
Definition model_jpstr (s : bytes) (delim : byte) : bytes := hex_of_bytes (append_string_u s delim).
Definition model_jpread (term : byte) (w : bytes) : bytes :=
  match read_str term w with
  | None => [x2d]
  | Some (s, k) => hex_of_bytes s ++ x20 :: hex_of_bytes k
  end.

Definition model_matchdoc (targets : list expr) (d : jv) : bytes :=
  join_semi (map (fun pc => show_npath (fst pc) ++ x20 :: x7c :: x20 :: show (canon (snd pc))) (match_spec targets d)).
