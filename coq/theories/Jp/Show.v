From Coq Require Import Init.Byte NArith ZArith List Bool.
Require Import Ojg.Base.Bytes Ojg.Base.Jv Ojg.Jp.Expr.
Import ListNotations.

Fixpoint join_sp' (l : list bytes) : bytes :=
  match l with [] => [] | [a] => a | a :: l' => a ++ x20 :: join_sp' l' end.

(* results one per token, separated by " ; " so that the harness can split them *)
Fixpoint join_semi (l : list bytes) : bytes :=
  match l with [] => [] | [a] => a | a :: l' => a ++ x20 :: x3b :: x20 :: join_semi l' end.

Definition model_get (x : expr) (d : jv) : bytes := join_semi (map (fun v => show (canon v)) (get_spec x d)).
Definition model_match (e : eqn) (d : jv) : bytes := if script_match e d then [x74] else [x66].

Require Import Ojg.Jp.Locate.

Definition show_nfrag (f : frag) : bytes :=
  match f with
  | FRoot => [x52]
  | FAt => [x41]
  | FChild k => x28 :: x63 :: x20 :: hex_of_bytes k ++ [x29]
  | FNth i => x28 :: x6e :: x20 :: format_int i ++ [x29]
  | _ => [x3f]
  end.

Definition show_npath (p : list frag) : bytes := x28 :: x70 :: x20 :: join_sp' (map show_nfrag p) ++ [x29].

Definition model_locate (x : expr) (d : jv) : bytes :=
  join_semi (map (fun pc => show_npath (fst pc) ++ x20 :: x7c :: x20 :: show (canon (snd pc))) (locate_spec x d)).
Definition model_first (x : expr) (d : jv) : bytes :=
  match first_spec x d with Some v => x53 :: x20 :: show (canon v) | None => [x4e] end.
Definition model_has (x : expr) (d : jv) : bytes := if has_spec x d then [x74] else [x66].

Definition model_locate_ses (x : expr) (d : jv) : bytes :=
  join_semi (map (fun pc => show_npath (fst pc) ++ x20 :: x7c :: x20 :: show (canon (snd pc))) (locate_ses x d)).
