(* Facts about the JSONPath denotation (C05, C12). *)
From Coq Require Import Init.Byte NArith ZArith QArith List Bool Lia.
Require Import Ojg.Base.Bytes Ojg.Base.Jv Ojg.Jp.Expr.
Import ListNotations.
Open Scope Z_scope.

(* a fragment selects the same elements whether it is the last fragment or not *)
Lemma sel_position_independent f b1 b2 root v : sel f b1 root v = sel f b2 root v.
Proof. destruct f; reflexivity. Qed.

(* evaluation is compositional: a path is evaluated fragment by fragment *)
Lemma eval_path_app x : forall y root vs,
  y <> [] -> eval_path (x ++ y) root vs = eval_path y root (eval_path x root vs).
Proof.
  induction x as [|f x IH]; intros y root vs Hy; simpl; [reflexivity|].
  rewrite IH by assumption.
  destruct x; simpl; [destruct y; [contradiction|]|];
    f_equal; apply flat_map_ext; intro a; apply sel_position_independent.
Qed.

(* index with negative-from-end *)
Lemma nth_norm_spec len i :
  0 <= len ->
  nth_norm len i = if (0 <=? i) && (i <? len) then Some i
                   else if (i <? 0) && (0 <=? len + i) then Some (len + i) else None.
Proof.
  intro Hl. unfold nth_norm.
  destruct (i <? 0) eqn:E.
  - apply Z.ltb_lt in E.
    replace (0 <=? i) with false by (symmetry; apply Z.leb_gt; lia). simpl.
    destruct (0 <=? len + i) eqn:E2; simpl.
    + replace (len + i <? len) with true by (symmetry; apply Z.ltb_lt; lia). reflexivity.
    + reflexivity.
  - simpl. reflexivity.
Qed.

(* slice, positive step: exactly the indexes start, start+step, ... below stop, ascending *)
Lemma up_from_spec fuel : forall i stop step k,
  0 < step -> (stop - i <= Z.of_nat fuel * step) ->
  (In k (up_from fuel i stop step) <-> i <= k < stop /\ (k - i) mod step = 0).
Proof.
  induction fuel as [|fuel IH]; intros i stop step k Hs Hf; simpl.
  - split; [intros []|]. intros [H _]. simpl in Hf. lia.
  - destruct (i <? stop) eqn:E.
    + apply Z.ltb_lt in E. simpl. rewrite IH by (try assumption; lia).
      split.
      * intros [<-|[H1 H2]].
        -- split; [lia|]. rewrite Z.sub_diag. apply Z.mod_0_l. lia.
        -- split; [lia|]. replace (k - i) with ((k - (i + step)) + 1 * step) by lia.
           rewrite Z.mod_add by lia. exact H2.
      * intros [H1 H2].
        destruct (Z.eq_dec k i) as [->|Hne]; [left; reflexivity|right].
        assert (Hge : step <= k - i).
        { destruct (Z.lt_ge_cases (k - i) step) as [Hlt|]; [|assumption].
          rewrite Z.mod_small in H2 by lia. lia. }
        split; [lia|].
        replace (k - (i + step)) with ((k - i) + (-1) * step) by lia.
        rewrite Z.mod_add by lia. exact H2.
    + apply Z.ltb_ge in E. simpl. split; [intros []|]. intros [H _]. lia.
Qed.

Lemma up_from_sorted fuel : forall i stop step,
  0 < step -> forall a b l1 l2 l3, up_from fuel i stop step = l1 ++ a :: l2 ++ b :: l3 -> a < b.
Proof.
  induction fuel as [|fuel IH]; intros i stop step Hs a b l1 l2 l3 H; simpl in H.
  - destruct l1; discriminate.
  - destruct (i <? stop) eqn:E; [|destruct l1; discriminate].
    destruct l1 as [|x l1]; simpl in H.
    + inversion H; subst.
      assert (Hin : In b (up_from fuel (a + step) stop step)).
      { rewrite H2. apply in_or_app. right. left. reflexivity. }
      assert (Hle : forall f j, In b (up_from f j stop step) -> j <= b).
      { induction f as [|f IHf]; intros j Hj; simpl in Hj; [contradiction|].
        destruct (j <? stop); [|contradiction]. destruct Hj as [<-|Hj]; [lia|].
        specialize (IHf _ Hj). lia. }
      specialize (Hle _ _ Hin). lia.
    + inversion H; subst. eapply IH; eauto.
Qed.

(* ---- C12 *)

(* == and != are complements for all single-valued operands of every kind *)
Lemma eq_neq_complement a b :
  exists r, apply_bin OEq a b = SBool r /\ apply_bin ONeq a b = SBool (negb r).
Proof. exists (spec_eq a b). split; reflexivity. Qed.

(* containers and mismatched kinds are simply unequal *)
Definition kind_of (a : sv) : Z :=
  match a with
  | SNothing => 0 | SNull => 1 | SBool _ => 2 | SInt _ | SFlt _ => 3 | SStr _ => 4 | SVal _ => 5
  end.

Lemma eq_mixed_kinds_false a b : kind_of a <> kind_of b -> apply_bin OEq a b = SBool false.
Proof.
  destruct a as [| | | | | |x], b as [| | | | | |y]; simpl; intro H; try reflexivity; try (exfalso; apply H; reflexivity);
    try (destruct x; reflexivity); try (destruct y; reflexivity).
Qed.

Lemma eq_containers_false x y :
  is_container x = true -> is_container y = true -> apply_bin OEq (SVal x) (SVal y) = SBool false.
Proof. destruct x, y; simpl; intros; try discriminate; reflexivity. Qed.

(* ordering between different kinds is false *)
Lemma order_mixed_false o a b :
  (o = OLt \/ o = OGt \/ o = OLte \/ o = OGte) -> kind_of a <> kind_of b ->
  apply_bin o a b = SBool false.
Proof.
  intros [ -> | [ -> | [ -> | -> ] ] ] H; destruct a, b; simpl in *; try reflexivity; try (exfalso; apply H; reflexivity).
Qed.

(* numbers compare by value across int and float *)
Lemma int_float_eq z q : apply_bin OEq (SInt z) (SFlt q) = SBool (Qeq_bool (inject_Z z) q).
Proof. reflexivity. Qed.

(* a missing path is Nothing for exists/has *)
Lemma exists_nothing boo : apply_bin OExists SNothing (SBool boo) = SBool (negb boo).
Proof. destruct boo; reflexivity. Qed.
Lemma exists_something a boo : a <> SNothing -> apply_bin OExists a (SBool boo) = SBool boo.
Proof. destruct a, boo; simpl; intro H; try reflexivity; contradiction. Qed.

(* evaluation is total: some value always results (no fault, no empty result) *)
Lemma evals_nonempty e : forall root cur, evals e root cur <> [].
Proof.
  induction e as [c| |p|o a IH|o a IHa b IHb]; intros root cur; simpl.
  - discriminate.
  - discriminate.
  - match goal with |- context[match ?x with [] => _ | _ => _ end] => destruct x end; simpl; discriminate.
  - assert (H : map (apply_un o) (evals a root cur) <> []).
    { specialize (IH root cur). destruct (evals a root cur); [contradiction|discriminate]. }
    destruct o; try exact H. destruct a; try exact H. discriminate.
  - specialize (IHa root cur). specialize (IHb root cur).
    destruct (evals a root cur) as [|x xs]; [contradiction|]. simpl.
    destruct (evals b root cur) as [|y ys]; [contradiction|]. simpl. discriminate.
Qed.

(* Script.Match(v) equals membership of v in the result of the corresponding filter *)
Lemma match_iff_filter e root el :
  existsb is_true (evals e root el) = true <-> In el (sel (FFilter e) true root (JArr [el])).
Proof.
  simpl. destruct (existsb is_true (evals e root el)); simpl; split; intro H.
  - left; reflexivity.
  - reflexivity.
  - discriminate.
  - contradiction.
Qed.
