(* The leaf a number literal becomes, for every front-end kind: collects IntLit, Dec, Expo. *)
From Coq Require Import Init.Byte NArith ZArith List Bool Lia.
Require Import Ojg.Base.Bytes Ojg.Base.Jv Ojg.Json.Number Ojg.Json.NumberFacts Ojg.Json.Machine Ojg.Json.Ref Ojg.Json.Frontends Ojg.Json.ValueSim Ojg.Json.IntLit Ojg.Json.Fmt Ojg.Json.Dec Ojg.Json.Expo.
Import ListNotations.
Open Scope Z_scope.

(* the number leaf of any front-end kind is AsNum / AsNode of the builder state (the two coincide
   on what they return for the modelled conversions) *)
Lemma tr_big_any : forall K t, tr K (JBig t) = as_num (num_of t).
Proof. intros K t. simpl. unfold num_value. destruct (k_kind K); reflexivity. Qed.

(* integer literals, through the machine's own path (scan-ahead loop of the first buffer for
   non-negative literals, digit-at-a-time for negative ones): the leaf that C02_documents assigns
   to a plain integer literal is that integer *)
Theorem leaf_int_literal_plain : forall K d1 ds,
  is_19 d1 = true -> all_digits ds -> digits_val (d1 :: ds) < 9223372036854775800 ->
  tr K (JBig (d1 :: ds)) = JInt (digits_val (d1 :: ds)).
Proof. intro K; intros; rewrite tr_big_any; apply int_literal_plain; assumption. Qed.
Theorem leaf_int_literal_zero : forall K, tr K (JBig [x30]) = JInt 0.
Proof. intro K. rewrite tr_big_any. exact int_literal_zero. Qed.
Theorem leaf_int_literal_neg : forall K d1 ds,
  is_19 d1 = true -> all_digits ds -> digits_val (d1 :: ds) <= max_int64 ->
  tr K (JBig (x2d :: d1 :: ds)) = JInt (- digits_val (d1 :: ds)).
Proof. intro K; intros; rewrite tr_big_any; apply int_literal_neg; assumption. Qed.

(* decimal literals  [-] int . frac  (no exponent, at most 18 fraction digits): the leaf is a float
   whose text is the literal itself; the delivered float64 is strconv.ParseFloat of that text
   (gen.Number.AsNum), so it is the float64 nearest to the literal *)
Theorem leaf_dec_literal_plain : forall K d1 ds fr,
  is_19 d1 = true -> all_digits ds -> digits_val (d1 :: ds) < 9223372036854775800 -> frac_ok fr ->
  tr K (JBig ((d1 :: ds) ++ x2e :: fr)) = JFloat ((d1 :: ds) ++ x2e :: fr).
Proof. intro K; intros; rewrite tr_big_any; apply dec_literal_plain; assumption. Qed.
Theorem leaf_dec_literal_zero : forall K fr, frac_ok fr ->
  tr K (JBig (x30 :: x2e :: fr)) = JFloat (x30 :: x2e :: fr).
Proof. intro K; intros; rewrite tr_big_any; apply dec_literal_zero; assumption. Qed.
Theorem leaf_dec_literal_neg : forall K d1 ds fr,
  is_19 d1 = true -> all_digits ds -> digits_val (d1 :: ds) <= max_int64 -> frac_ok fr ->
  tr K (JBig (x2d :: (d1 :: ds) ++ x2e :: fr)) = JFloat (x2d :: (d1 :: ds) ++ x2e :: fr).
Proof. intro K; intros; rewrite tr_big_any; apply dec_literal_neg; assumption. Qed.

(* literals with an exponent (mantissa: a plain integer or int.frac, non-negative; exponent value
   1..1022, any spelling of it): the leaf is a float whose text is the mantissa as written followed
   by the canonical exponent  e[-]E  - the same number, spelled without plus sign, capital E or
   leading zeros *)
Theorem leaf_exp_literal_int : forall K d1 ds e sg es,
  is_19 d1 = true -> all_digits ds -> digits_val (d1 :: ds) < 9223372036854775800 ->
  is_eb e -> sign_ok sg -> all_digits es -> 0 < digits_val es <= 1022 ->
  tr K (JBig ((d1 :: ds) ++ e :: sg ++ es)) =
  JFloat ((d1 :: ds) ++ x65 :: (if sign_neg sg then [x2d] else []) ++ format_uint (digits_val es)).
Proof. intro K; intros; rewrite tr_big_any; apply exp_literal_int; assumption. Qed.
Theorem leaf_exp_literal_dec : forall K d1 ds fr e sg es,
  is_19 d1 = true -> all_digits ds -> digits_val (d1 :: ds) < 9223372036854775800 -> frac_ok fr ->
  is_eb e -> sign_ok sg -> all_digits es -> 0 < digits_val es <= 1022 ->
  tr K (JBig (((d1 :: ds) ++ x2e :: fr) ++ e :: sg ++ es)) =
  JFloat (((d1 :: ds) ++ x2e :: fr) ++ x65 :: (if sign_neg sg then [x2d] else []) ++ format_uint (digits_val es)).
Proof. intro K; intros; rewrite tr_big_any; apply exp_literal_dec; assumption. Qed.
