(* Data part of C06: the value stack of Parser / gen.Parser never faults.

   The Go code builds values on one slice (p.stack) whose layout is only implied by the
   control state: a map under every pending key (add() writes into p.stack[len-2] unchecked),
   a placeholder under the elements of every open array (closeArray slices from
   p.starts[depth]+1), one value at index 0 when a document is handed over (p.stack[0]).
   [frames] states that layout against the control stack; [adata_step] is the effect of one
   byte on the only part of it the control state does not determine (is a key pending?);
   a finite sweep over the regenerated tables shows that the abstract effect is always
   defined and agrees with the reference grammar position; [data_step_frames] shows that a
   defined abstract effect means the concrete step does not fault and keeps the layout. *)
From Coq Require Import Init.Byte NArith ZArith List Bool Lia.
Require Import Ojg.Base.Bytes Ojg.Base.Jv Ojg.Gen.OjMaps Ojg.Json.Number Ojg.Json.Machine Ojg.Json.Ref Ojg.Json.Sweep.
Import ListNotations.
Open Scope Z_scope.

Definition parent_pend (s : list bool) : bool := match s with true :: _ => true | _ => false end.
Definition is_sval (i : sitem) : Prop := exists v, i = SVal v.

(* layout of the value stack (top first) against the control stack (top first);
   the boolean says whether a key is waiting for its value in the innermost object *)
Inductive frames : list bool -> bool -> list sitem -> list Z -> Prop :=
  | F_top : frames [] false [] []
  | F_obj s m rest starts :
      frames s (parent_pend s) rest starts ->
      frames (true :: s) false (SMap m :: rest) (-1 :: starts)
  | F_objk s m k rest starts :
      frames s (parent_pend s) rest starts ->
      frames (true :: s) true (SKey k :: SMap m :: rest) (-1 :: starts)
  | F_arr s vals rest starts :
      frames s (parent_pend s) rest starts -> Forall is_sval vals ->
      frames (false :: s) false (vals ++ SMark :: rest) (Z.of_nat (length rest) :: starts).

(* is a key pending, as a function of the grammar position *)
Definition pend_of (r : rmode) (v : view) : bool :=
  top_obj v &&
  match r with
  | RColon | RVal | RStr false | REsc false | RHex false _ | RLit _ _ | RNum _ => true
  | _ => false
  end.

Lemma frames_nil p stk st : frames [] p stk st -> stk = [] /\ st = [].
Proof. intro H. inversion H. auto. Qed.

Lemma is_act_eq a b : is_act a b = true -> a = b.
Proof. unfold is_act. intro H. apply N.eqb_eq in H. destruct a, b; try reflexivity; discriminate H. Qed.

Section AData.
  Variable K : cfg.

  (* a value is delivered: allowed where, and is it a top-level value? *)
  Definition a_emit (v : view) (pend : bool) : option (bool * bool) :=
    match vtop v with
    | None => if pend then None else Some (false, true)
    | Some true => if pend then Some (false, false) else None
    | Some false => if pend then None else Some (false, false)
    end.

  Definition a_open (v : view) (pend : bool) : bool :=
    match vtop v with Some true => pend | _ => negb pend end.

  Definition a_close (c : fctl) (v : view) (want_obj : bool) (pend : bool) : option (bool * bool) :=
    let p1 := if has_num K && fin_is K (c_mode c) 110
              then match a_emit v pend with Some (p, false) => Some p | _ => None end
              else Some pend in
    match p1 with
    | Some false =>
        match v with
        | VOne o => if Bool.eqb o want_obj then Some (false, true) else None
        | VMany o => if Bool.eqb o want_obj then Some (false, false) else None
        | VEmpty => None
        end
    | _ => None
    end.

  (* effect of one byte on (key pending?, top-level value delivered?); None = the layout
     would be violated or an index would be out of range *)
  Definition adata_build (c : fctl) (v : view) (b : byte) (op : sop) (pend : bool) : option (bool * bool) :=
    let m := c_mode c in
    let same := if sop_eqb op SNone then Some (pend, false) else None in
    match k_tab K m b with
    | A_numComma | A_numSpc | A_numNewline => if sop_eqb op SNone then a_emit v pend else None
    | A_escOk => match k_data K m b with Some _ => same | None => None end
    | A_openObject => if sop_eqb op (SPush true) && a_open v pend then Some (false, false) else None
    | A_openArray => if sop_eqb op (SPush false) && a_open v pend then Some (false, false) else None
    | A_closeObject => if sop_eqb op SPop then a_close c v true pend else None
    | A_closeArray => if sop_eqb op SPop then a_close c v false pend else None
    | A_strQuote =>
        if sop_eqb op SNone then
          if is_act (k_tab K (c_next c) x3a) A_colonColon
          then (if top_obj v && negb pend then Some (true, false) else None)
          else a_emit v pend
        else None
    | A_tokenOk =>
        if sop_eqb op SNone then
          let fin_lit (w : bytes) :=
            if Z.of_nat (length w) - 1 <=? c_ri c + 1 then a_emit v pend else Some (pend, false) in
          if is_act (k_tab K m x72) A_tokenOk then fin_lit w_true
          else if is_act (k_tab K m x61) A_tokenOk then fin_lit w_false
          else if is_act (k_tab K m x75) A_tokenOk && is_act (k_tab K m x6c) A_tokenOk then fin_lit w_null
          else Some (pend, false)
        else None
    | _ => same
    end.

  (* Tokenizer and Validator keep no value stack: only the escape table can fault *)
  Definition adata_flat (c : fctl) (b : byte) : bool :=
    match k_tab K (c_mode c) b with
    | A_escOk => if has_num K then match k_data K (c_mode c) b with Some _ => true | None => false end else true
    | _ => true
    end.

  (* ------------------------------------------------------------ concrete lemmas *)

  Lemma view_top_true s : vtop (view_of (true :: s)) = Some true.
  Proof. destruct s; reflexivity. Qed.
  Lemma view_top_false s : vtop (view_of (false :: s)) = Some false.
  Proof. destruct s; reflexivity. Qed.

  Lemma a_emit_fst v p p' et : a_emit v p = Some (p', et) -> p' = false.
  Proof. unfold a_emit. destruct (vtop v) as [[]|], p; intro H; inversion H; reflexivity. Qed.

  Lemma add_not_key stk v :
    match stk with SKey _ :: _ => False | _ => True end -> add stk v = Some (SVal v :: stk).
  Proof. destruct stk as [|[]]; simpl; intro H; try reflexivity. contradiction. Qed.

  Lemma add_frames s pend stk st v p' et :
    frames s pend stk st -> a_emit (view_of s) pend = Some (p', et) ->
    exists stk', add stk v = Some stk' /\
      (if et then s = [] /\ stk' = [SVal v] /\ st = [] else frames s p' stk' st).
  Proof.
    intros HF HA. destruct HF as [|s m rest starts HF|s m k rest starts HF|s vals rest starts HF Hv].
    - simpl in HA. inversion HA; subst. exists [SVal v]. split; [reflexivity|]. auto.
    - unfold a_emit in HA. rewrite view_top_true in HA. discriminate HA.
    - unfold a_emit in HA. rewrite view_top_true in HA. inversion HA; subst.
      exists (SMap (map_set k v m) :: rest). split; [reflexivity|]. constructor. exact HF.
    - unfold a_emit in HA. rewrite view_top_false in HA. inversion HA; subst.
      exists (SVal v :: vals ++ SMark :: rest). split.
      + apply add_not_key. destruct vals as [|x vals]; simpl; [exact I|].
        inversion Hv as [|? ? [w Hw] ?]; subst. exact I.
      + change (SVal v :: vals ++ SMark :: rest) with ((SVal v :: vals) ++ SMark :: rest).
        constructor; [exact HF|]. constructor; [exists v; reflexivity | exact Hv].
  Qed.

  Lemma parent_emit s : a_emit (view_of s) (parent_pend s) = Some (false, match s with [] => true | _ => false end).
  Proof. destruct s as [|[] [|y s]]; reflexivity. Qed.

  Lemma add_parent s rest st v :
    frames s (parent_pend s) rest st ->
    exists stk', add rest v = Some stk' /\
      match s with [] => stk' = [SVal v] /\ st = [] | _ => frames s false stk' st end.
  Proof.
    intro HF. destruct (add_frames s _ rest st v _ _ HF (parent_emit s)) as (stk' & Ha & Hr).
    exists stk'. split; [exact Ha|]. destruct s; [tauto | exact Hr].
  Qed.

  Hypothesis Hb : builds K = true.

  Lemma b_has_num : has_num K = true.
  Proof. unfold builds in Hb. unfold has_num. destruct (k_kind K); try reflexivity; discriminate Hb. Qed.

  Lemma emit_val_b d v e :
    emit_val K d v e = match add (d_stack d) v with Some s => Some (upd_stack d s) | None => None end.
  Proof. unfold emit_val. unfold builds in Hb. destruct (k_kind K); try reflexivity; discriminate Hb. Qed.

  Lemma handoff_b d :
    handoff K d = match rev (d_stack d) with
                  | [] => None
                  | bottom :: _ => Some (upd_docs d [] (item_val bottom :: d_docs d))
                  end.
  Proof. unfold handoff. rewrite Hb. reflexivity. Qed.

  (* delivering a value, then the hand-off if it was a top-level one *)
  Lemma emit_frames s pend d v e p' et :
    frames s pend (d_stack d) (d_starts d) -> a_emit (view_of s) pend = Some (p', et) ->
    exists d', emit_val K d v e = Some d' /\
      (if et then s = [] /\ d_stack d' = [SVal v] /\ d_starts d' = []
       else frames s p' (d_stack d') (d_starts d')).
  Proof.
    intros HF HA. destruct (add_frames _ _ _ _ v _ _ HF HA) as (stk' & Hadd & Hr).
    rewrite emit_val_b, Hadd. exists (upd_stack d stk'). split; [reflexivity|]. exact Hr.
  Qed.

  Lemma handoff_frames d v :
    d_stack d = [SVal v] -> d_starts d = [] ->
    exists d', handoff K d = Some d' /\ frames [] false (d_stack d') (d_starts d').
  Proof.
    intros Hs Ht. rewrite handoff_b, Hs. simpl. eexists. split; [reflexivity|].
    simpl. rewrite Ht. constructor.
  Qed.

  Definition post_ho (et : bool) (r : option data) : option data :=
    opt_bind r (fun d => if et then handoff K d else Some d).

  Lemma emit_post s pend d v e p' et :
    frames s pend (d_stack d) (d_starts d) -> a_emit (view_of s) pend = Some (p', et) ->
    exists d', post_ho et (emit_val K d v e) = Some d' /\ frames s p' (d_stack d') (d_starts d').
  Proof.
    intros HF HA. destruct (emit_frames _ _ d v e _ _ HF HA) as (d1 & He & Hr).
    unfold post_ho. rewrite He. simpl. destruct et.
    - destruct Hr as (-> & Hs & Ht). destruct (handoff_frames d1 v Hs Ht) as (d2 & Hh & HF2).
      exists d2. split; [exact Hh|]. rewrite (a_emit_fst _ _ _ _ HA). exact HF2.
    - exists d1. split; [reflexivity | exact Hr].
  Qed.

  Lemma same_post s pend d d' :
    frames s pend (d_stack d) (d_starts d) -> d_stack d' = d_stack d -> d_starts d' = d_starts d ->
    exists d'', post_ho false (Some d') = Some d'' /\ frames s pend (d_stack d'') (d_starts d'').
  Proof. intros HF Hs Ht. exists d'. split; [reflexivity|]. rewrite Hs, Ht. exact HF. Qed.

  (* closing a container: the finished value goes to the parent frame *)
  Lemma close_post s o d (val : jv) rest st et :
    frames s (parent_pend s) rest st ->
    et = match s with [] => true | _ => false end ->
    exists d', post_ho et (match add rest val with
                           | Some stk => Some (upd_stacks d stk st)
                           | None => None end) = Some d' /\
               frames (apply_sop SPop (o :: s)) false (d_stack d') (d_starts d').
  Proof.
    intros HF ->. destruct (add_parent s rest st val HF) as (stk' & Ha & Hr). rewrite Ha. simpl.
    destruct s as [|x s].
    - destruct Hr as [-> ->]. unfold post_ho, opt_bind.
      destruct (handoff_frames (upd_stacks d [SVal val] []) val eq_refl eq_refl) as (d2 & Hh & HF2).
      exists d2. split; [exact Hh | exact HF2].
    - eexists. split; [reflexivity|]. simpl. exact Hr.
  Qed.

  Lemma a_close_inv c s want pend p' et :
    a_close c (view_of s) want pend = Some (p', et) ->
    exists s', s = want :: s' /\ p' = false /\ et = match s' with [] => true | _ => false end /\
      (if has_num K && fin_is K (c_mode c) 110
       then a_emit (view_of s) pend = Some (false, false)
       else pend = false).
  Proof.
    unfold a_close. intro H.
    destruct (has_num K && fin_is K (c_mode c) 110) eqn:E.
    - destruct (a_emit (view_of s) pend) as [[p e]|] eqn:AE; [|discriminate H].
      destruct e; [discriminate H|]. destruct p; [discriminate H|].
      destruct s as [|x [|y s]]; simpl in H; [discriminate H| |];
        destruct (Bool.eqb x want) eqn:Ex; try discriminate H; apply Bool.eqb_prop in Ex; subst x;
        inversion H; subst; eexists; repeat split; reflexivity.
    - destruct pend; [discriminate H|].
      destruct s as [|x [|y s]]; simpl in H; [discriminate H| |];
        destruct (Bool.eqb x want) eqn:Ex; try discriminate H; apply Bool.eqb_prop in Ex; subst x;
        inversion H; subst; eexists; repeat split; reflexivity.
  Qed.

  Lemma close_obj_post c s pend d p' et :
    frames s pend (d_stack d) (d_starts d) ->
    a_close c (view_of s) true pend = Some (p', et) ->
    exists d', post_ho et
      (opt_bind (if has_num K && fin_is K (c_mode c) 110 then emit_num K d else Some d) (fun d =>
         match d_stack d with
         | [] => None
         | top :: rest =>
             match add rest (item_val top) with
             | Some s => Some (upd_stacks d s (tl (d_starts d)))
             | None => None
             end
         end)) = Some d' /\ frames (apply_sop SPop s) p' (d_stack d') (d_starts d').
  Proof.
    intros HF HA. destruct (a_close_inv _ _ _ _ _ _ HA) as (s' & -> & -> & Het & Hpre).
    assert (exists d1, (if has_num K && fin_is K (c_mode c) 110 then emit_num K d else Some d) = Some d1 /\
                       frames (true :: s') false (d_stack d1) (d_starts d1)) as (d1 & -> & HF1).
    { destruct (has_num K && fin_is K (c_mode c) 110).
      - unfold emit_num. destruct (emit_frames _ _ d (num_value K (d_num d)) (num_event (d_num d)) _ _ HF Hpre) as (d1 & He & Hr).
        exists d1. split; [exact He | exact Hr].
      - subst pend. exists d. split; [reflexivity | exact HF]. }
    simpl opt_bind.
    inversion HF1 as [|s0 m rest starts HFp| |]; subst.
    simpl tl. apply (close_post s' true d1 (item_val (SMap m)) rest starts _ HFp eq_refl).
  Qed.

  Lemma firstn_app_exact {A} (l1 l2 : list A) : firstn (length l1) (l1 ++ l2) = l1.
  Proof. induction l1 as [|x l1 IH]; simpl; [destruct l2; reflexivity | rewrite IH; reflexivity]. Qed.
  Lemma skipn_app_exact {A} (l1 l2 : list A) : skipn (length l1) (l1 ++ l2) = l2.
  Proof. induction l1 as [|x l1 IH]; simpl; [reflexivity | exact IH]. Qed.

  Lemma close_arr_post c s pend d p' et :
    frames s pend (d_stack d) (d_starts d) ->
    a_close c (view_of s) false pend = Some (p', et) ->
    exists d', post_ho et
      (opt_bind (if has_num K && fin_is K (c_mode c) 110 then emit_num K d else Some d) (fun d =>
         match d_starts d with
         | [] => None
         | st :: starts' =>
             let start := st + 1 in
             let len := Z.of_nat (length (d_stack d)) in
             let size := len - start in
             if (size <? 0) || (start - 1 <? 0) then None
             else
               let elems := rev (firstn (Z.to_nat size) (d_stack d)) in
               let rest := skipn (Z.to_nat size + 1) (d_stack d) in
               match add rest (JArr (map item_val elems)) with
               | Some s => Some (upd_stacks d s starts')
               | None => None
               end
         end)) = Some d' /\ frames (apply_sop SPop s) p' (d_stack d') (d_starts d').
  Proof.
    intros HF HA. destruct (a_close_inv _ _ _ _ _ _ HA) as (s' & -> & -> & Het & Hpre).
    assert (exists d1, (if has_num K && fin_is K (c_mode c) 110 then emit_num K d else Some d) = Some d1 /\
                       frames (false :: s') false (d_stack d1) (d_starts d1)) as (d1 & -> & HF1).
    { destruct (has_num K && fin_is K (c_mode c) 110).
      - unfold emit_num. destruct (emit_frames _ _ d (num_value K (d_num d)) (num_event (d_num d)) _ _ HF Hpre) as (d1 & He & Hr).
        exists d1. split; [exact He | exact Hr].
      - subst pend. exists d. split; [reflexivity | exact HF]. }
    simpl opt_bind.
    inversion HF1 as [| | |s0 vals rest starts HFp Hv]; subst.
    cbv zeta.
    assert (Hlen : Z.of_nat (length (vals ++ SMark :: rest)) - (Z.of_nat (length rest) + 1) = Z.of_nat (length vals)).
    { rewrite app_length. simpl length. lia. }
    rewrite Hlen.
    assert (Hc : (Z.of_nat (length vals) <? 0) || (Z.of_nat (length rest) + 1 - 1 <? 0) = false).
    { apply orb_false_iff. split; apply Z.ltb_ge; lia. }
    rewrite Hc. rewrite Nat2Z.id.
    rewrite firstn_app_exact.
    replace (length vals + 1)%nat with (length (vals ++ [SMark])) by (rewrite app_length; reflexivity).
    replace (vals ++ SMark :: rest) with ((vals ++ [SMark]) ++ rest) by (rewrite <- app_assoc; reflexivity).
    rewrite skipn_app_exact.
    apply (close_post s' false d1 (JArr (map item_val (rev vals))) rest starts _ HFp eq_refl).
  Qed.

  Lemma open_frames s pend stk st :
    frames s pend stk st -> a_open (view_of s) pend = true -> frames s (parent_pend s) stk st.
  Proof.
    intros HF HA. destruct HF as [|s m rest starts HF|s m k rest starts HF|s vals rest starts HF Hv].
    - constructor.
    - unfold a_open in HA. rewrite view_top_true in HA. discriminate HA.
    - simpl. constructor. exact HF.
    - simpl. constructor; assumption.
  Qed.

  (* the concrete step under a defined abstract effect *)
  Lemma data_step_frames c b ho d s pend op p' et :
    frames s pend (d_stack d) (d_starts d) ->
    adata_build c (view_of s) b op pend = Some (p', et) -> ho = et ->
    exists d', data_step K c b ho d = Some d' /\
               frames (apply_sop op s) p' (d_stack d') (d_starts d').
  Proof.
    intros HF HA ->. unfold data_step. rewrite b_has_num.
    destruct (d_fast d && true && mode_eqb (c_mode c) M_digitMap && is_act (k_tab K (c_mode c) b) A_numDigit) eqn:Hfast.
    { apply andb_true_iff in Hfast as [_ Hact]. apply is_act_eq in Hact.
      unfold adata_build in HA. rewrite Hact in HA.
      destruct (sop_eqb op SNone) eqn:Hop; [|discriminate HA]. apply sop_eqb_eq in Hop. subst op.
      inversion HA; subst. destruct (fast_digit (d_num d) b) as [n f].
      eexists. split; [reflexivity|]. simpl. exact HF. }
    clear Hfast.
    set (d1 := upd_fast d false).
    assert (HF1 : frames s pend (d_stack d1) (d_starts d1)) by exact HF.
    clearbody d1. clear HF d. rename d1 into d.
    change (fun d0 : data => if et then handoff K d0 else Some d0) with (fun d0 : data => if et then handoff K d0 else Some d0).
    fold (post_ho et).
    unfold adata_build in HA.
    Local Ltac same_case HA HF1 :=
      match type of HA with (if sop_eqb ?op SNone then _ else _) = _ =>
        let Hop := fresh "Hop" in
        destruct (sop_eqb op SNone) eqn:Hop; [|discriminate HA]; apply sop_eqb_eq in Hop; subst op;
        inversion HA; subst;
        repeat match goal with |- context [if ?x then _ else _] => destruct x end;
        (eapply same_post; [exact HF1 | reflexivity | reflexivity])
      end.
    Local Ltac emit_case HA HF1 :=
      match type of HA with (if sop_eqb ?op SNone then _ else _) = _ =>
        let Hop := fresh "Hop" in
        destruct (sop_eqb op SNone) eqn:Hop; [|discriminate HA]; apply sop_eqb_eq in Hop; subst op
      end.
    destruct (k_tab K (c_mode c) b) eqn:Hact; fold (post_ho et);
      try (same_case HA HF1; fail).
    all: try fold (post_ho et).
    - (* openArray *)
      destruct (sop_eqb op (SPush false)) eqn:Hop; [|discriminate HA]. apply sop_eqb_eq in Hop. subst op.
      destruct (a_open (view_of s) pend) eqn:Ho; [|discriminate HA]. inversion HA; subst.
      pose proof (open_frames _ _ _ _ HF1 Ho) as HFp.
      unfold builds in Hb.
      destruct (k_kind K); try discriminate Hb;
        (eexists; split; [reflexivity|]; simpl;
         apply (F_arr s [] (d_stack d) (d_starts d) HFp); constructor).
    - (* openObject *)
      destruct (sop_eqb op (SPush true)) eqn:Hop; [|discriminate HA]. apply sop_eqb_eq in Hop. subst op.
      destruct (a_open (view_of s) pend) eqn:Ho; [|discriminate HA]. inversion HA; subst.
      pose proof (open_frames _ _ _ _ HF1 Ho) as HFp.
      unfold builds in Hb.
      destruct (k_kind K); try discriminate Hb;
        (eexists; split; [reflexivity|]; simpl; constructor; exact HFp).
    - (* closeArray *)
      destruct (sop_eqb op SPop) eqn:Hop; [|discriminate HA]. apply sop_eqb_eq in Hop. subst op.
      pose proof (close_arr_post c s pend d p' et HF1 HA) as H. rewrite b_has_num in H.
      unfold builds in Hb. destruct (k_kind K); try discriminate Hb; exact H.
    - (* closeObject *)
      destruct (sop_eqb op SPop) eqn:Hop; [|discriminate HA]. apply sop_eqb_eq in Hop. subst op.
      pose proof (close_obj_post c s pend d p' et HF1 HA) as H. rewrite b_has_num in H.
      unfold builds in Hb. destruct (k_kind K); try discriminate Hb; exact H.
    - (* numSpc *)
      emit_case HA HF1. unfold emit_num. apply (emit_post s pend d _ _ p' et HF1 HA).
    - (* numNewline *)
      emit_case HA HF1. unfold emit_num.
      destruct (emit_post s pend d (num_value K (d_num d)) (num_event (d_num d)) p' et HF1 HA) as (d2 & Hp & HF2).
      unfold post_ho in *. destruct (emit_val K d (num_value K (d_num d)) (num_event (d_num d))) as [d3|]; [|discriminate Hp].
      simpl in *. destruct et.
      + rewrite handoff_b in *. simpl. destruct (rev (d_stack d3)); [discriminate Hp|].
        inversion Hp; subst. eexists. split; [reflexivity|]. exact HF2.
      + inversion Hp; subst. eexists. split; [reflexivity|]. exact HF2.
    - (* numComma *)
      emit_case HA HF1. unfold emit_num. apply (emit_post s pend d _ _ p' et HF1 HA).
    - (* strQuote *)
      emit_case HA HF1.
      destruct (is_act (k_tab K (c_next c) x3a) A_colonColon) eqn:Hk.
      + destruct (top_obj (view_of s) && negb pend) eqn:Hc; [|discriminate HA]. inversion HA; subst.
        apply andb_true_iff in Hc as [Ht Hp]. destruct pend; [discriminate Hp|].
        inversion HF1 as [|s0 m rest starts HFp|s0 m k rest starts HFp|s0 vals rest starts HFp Hv]; subst.
        * discriminate Ht.
        * unfold builds in Hb.
          destruct (k_kind K); try discriminate Hb;
            (eexists; split; [reflexivity|]; simpl;
             match goal with H : -1 :: starts = d_starts d |- _ => rewrite <- H end;
             constructor; exact HFp).
        * unfold top_obj in Ht. rewrite view_top_false in Ht. discriminate Ht.
      + pose proof (emit_post s pend d (JStr (rev (d_rtmp d))) ENull p' et HF1 HA) as H.
        unfold builds in Hb. destruct (k_kind K); try discriminate Hb; exact H.
    - (* escOk *)
      destruct (k_data K (c_mode c) b) eqn:Hd; [|discriminate HA].
      same_case HA HF1.
    - (* tokenOk *)
      emit_case HA HF1. revert HA.
      destruct (is_act (k_tab K (c_mode c) x72) A_tokenOk);
        [|destruct (is_act (k_tab K (c_mode c) x61) A_tokenOk);
          [|destruct (is_act (k_tab K (c_mode c) x75) A_tokenOk && is_act (k_tab K (c_mode c) x6c) A_tokenOk)]];
        intro HA;
        try (match type of HA with (if ?x then _ else _) = _ => destruct x end);
        try (apply (emit_post s pend d _ _ p' et HF1 HA));
        (inversion HA; subst; eapply same_post; [exact HF1 | reflexivity | reflexivity]).
  Qed.
End AData.

(* ------------------------------------------------- the sweep and its lift to every input *)

Section DSweep.
  Variable one : bool.
  Variable K : cfg.

  Definition dcell_ok (c : fctl) (v : view) (b : byte) : bool :=
    match alpha one c v with
    | None => true
    | Some r =>
        match ctl_step K c v b with
        | COk c' op ho =>
            if builds K then
              match adata_build K c v b op (pend_of r v) with
              | Some (p', et) =>
                  Bool.eqb ho et &&
                  forallb (fun v' => match alpha one c' v' with
                                     | Some r' => Bool.eqb (pend_of r' v') p'
                                     | None => false end) (views_after op v)
              | None => false
              end
            else adata_flat K c b
        | _ => true
        end
    end.

  Definition dsweep_ok : bool :=
    forallb (fun m => forallb (fun nx => forallb (fun ri => forallb (fun v =>
      forallb (fun b => dcell_ok (mkCtl m nx ri) v b) all_bytes) all_views) all_ris) nexts) all_modes.

  Hypothesis Hsweep : sweep_ok one K = true.
  Hypothesis Hdsweep : dsweep_ok = true.

  Lemma dsweep_cell c v b : dcell_ok c v b = true.
  Proof.
    destruct (alpha one c v) eqn:A.
    2:{ unfold dcell_ok. rewrite A. reflexivity. }
    assert (Hri : (0 <=? c_ri c) && (c_ri c <=? 4) = true).
    { unfold alpha in A. destruct ((0 <=? c_ri c) && (c_ri c <=? 4)); [reflexivity | discriminate]. }
    assert (Hnx : In (c_next c) nexts).
    { destruct (existsb (mode_eqb (c_next c)) nexts) eqn:E.
      - apply existsb_exists in E as [x [Hx Hm]]. apply mode_eqb_eq in Hm. subst x. exact Hx.
      - unfold alpha in A. rewrite Hri, E in A. discriminate A. }
    unfold dsweep_ok in Hdsweep.
    rewrite forallb_forall in Hdsweep. specialize (Hdsweep _ (all_modes_complete (c_mode c))).
    rewrite forallb_forall in Hdsweep. specialize (Hdsweep _ Hnx).
    rewrite forallb_forall in Hdsweep. specialize (Hdsweep _ (ri_in c Hri)).
    rewrite forallb_forall in Hdsweep. specialize (Hdsweep _ (all_views_complete v)).
    rewrite forallb_forall in Hdsweep. specialize (Hdsweep _ (all_bytes_complete b)).
    destruct c; simpl in *. exact Hdsweep.
  Qed.

  (* the invariant of the whole machine *)
  Definition DInv (c : fctl) (s : list bool) (d : data) : Prop :=
    exists r, alpha one c (view_of s) = Some r /\
              (builds K = true -> frames s (pend_of r (view_of s)) (d_stack d) (d_starts d)).

  Lemma data_step_flat c b ho d :
    builds K = false -> adata_flat K c b = true -> exists d', data_step K c b ho d = Some d'.
  Proof.
    intros Hnb Hfl. unfold data_step, adata_flat in *.
    unfold emit_num, emit_val, handoff, has_num, builds in *.
    destruct (k_kind K); try discriminate Hnb;
      (match goal with |- context [if ?x then let '(n, f) := _ in _ else _] => destruct x end;
       [destruct (fast_digit (d_num d) b); eexists; reflexivity|]);
      destruct (k_tab K (c_mode c) b); simpl in *;
      repeat match goal with
             | |- context [if ?x then _ else _] => destruct x; simpl
             | |- context [match k_data K ?m ?b with _ => _ end] => destruct (k_data K m b); simpl
             end;
      try discriminate Hfl; eexists; reflexivity.
  Qed.

  Lemma step_inv c s d b :
    DInv c s d ->
    match step K c s d b with
    | inl OFault => False
    | inl _ => True
    | inr (St c' s' d') => DInv c' s' d'
    end.
  Proof.
    intros (r & A & HF). unfold step.
    destruct (sweep_cell one K Hsweep c (view_of s) b) as [Hc _]. unfold cell_ok in Hc. rewrite A in Hc.
    pose proof (dsweep_cell c (view_of s) b) as Hd. unfold dcell_ok in Hd. rewrite A in Hd.
    destruct (ctl_step K c (view_of s) b) as [| |c' op ho] eqn:CS.
    - exact I.
    - destruct (rstep one r (view_of s) b) as [[? ?]|]; discriminate Hc.
    - destruct (rstep one r (view_of s) b) as [[r' op']|] eqn:RS; [|discriminate Hc].
      apply andb_true_iff in Hc as [Hc Hall]. apply andb_true_iff in Hc as [Hop Hpop].
      rewrite forallb_forall in Hall.
      assert (Hin : In (view_of (apply_sop op s)) (views_after op (view_of s))).
      { apply view_after_in. destruct op; auto. destruct (view_of s); auto; discriminate. }
      specialize (Hall _ Hin).
      destruct (alpha one c' (view_of (apply_sop op s))) as [r''|] eqn:A'; [|discriminate Hall].
      destruct (builds K) eqn:Hb.
      + destruct (adata_build K c (view_of s) b op (pend_of r (view_of s))) as [[p' et]|] eqn:AD; [|discriminate Hd].
        apply andb_true_iff in Hd as [Hho Hp]. apply Bool.eqb_prop in Hho.
        rewrite forallb_forall in Hp. specialize (Hp _ Hin). rewrite A' in Hp. apply Bool.eqb_prop in Hp.
        destruct (data_step_frames K Hb c b ho d s _ op p' et (HF eq_refl) AD Hho) as (d' & -> & HF').
        exists r''. split; [exact A'|]. intros _. rewrite Hp. exact HF'.
      + destruct (data_step_flat c b ho d Hb Hd) as (d' & ->).
        exists r''. split; [exact A'|]. intro Hx; rewrite Hb in Hx; discriminate Hx.
  Qed.

  Lemma run_inv w : forall c s d,
    DInv c s d ->
    match run K c s d w with
    | inl OFault => False
    | inl _ => True
    | inr (St c' s' d') => DInv c' s' d'
    end.
  Proof.
    induction w as [|b w IH]; intros c s d H; simpl.
    - exact H.
    - pose proof (step_inv c s d b H) as Hs.
      destruct (step K c s d b) as [o|[c' s' d']].
      + exact Hs.
      + apply IH. exact Hs.
  Qed.

  Lemma fast_inv c s d f : DInv c s d -> DInv c s (upd_fast d f).
  Proof. intros (r & A & HF). exists r. split; [exact A | exact HF]. Qed.

  Lemma run_chunks_inv cs : forall c s d,
    DInv c s d ->
    match run_chunks K c s d cs with
    | inl OFault => False
    | inl _ => True
    | inr (St c' s' d') => DInv c' s' d'
    end.
  Proof.
    induction cs as [|w cs IH]; intros c s d H; simpl.
    - exact H.
    - pose proof (run_inv w c s _ (fast_inv c s d false H)) as Hr.
      destruct (run K c s (upd_fast d false) w) as [o|[c' s' d']].
      + exact Hr.
      + apply IH. exact Hr.
  Qed.

  Lemma finish_inv c s d : DInv c s d -> finish K c s d <> OFault.
  Proof.
    intros (r & A & HF). unfold finish.
    destruct (ctl_end K c (view_of s)) as [[]|] eqn:E; try discriminate.
    unfold ctl_end in E. destruct (view_of s) eqn:V; try discriminate E.
    assert (s = []) as -> by (destruct s as [|x [|y s]]; [reflexivity | discriminate V | discriminate V]).
    destruct (builds K) eqn:Hb.
    - destruct (frames_nil _ _ _ (HF eq_refl)) as [Hs Ht].
      unfold emit_num. rewrite (emit_val_b K Hb). rewrite Hs. simpl.
      rewrite (handoff_b K Hb). simpl. discriminate.
    - unfold emit_num, emit_val, handoff, builds in *.
      destruct (k_kind K); try discriminate Hb; simpl; discriminate.
  Qed.

  Lemma init_inv : DInv ctl_init [] data_init.
  Proof. exists RTop. split; [reflexivity|]. intros _. constructor. Qed.

  Theorem chunks_never_fault cs : run_all_chunks K cs <> OFault.
  Proof.
    unfold run_all_chunks. pose proof (run_chunks_inv cs _ _ _ init_inv) as H.
    destruct (run_chunks K ctl_init [] data_init cs) as [o|[c s d]].
    - destruct o; try discriminate. contradiction.
    - apply finish_inv. exact H.
  Qed.

  (* C06 for the whole machine: neither the control part nor the value stack, the number
     or string buffers fault, for any input and any way of cutting it into buffers *)
  Theorem parse_chunks_never_faults cs : parse_chunks K cs <> OFault.
  Proof.
    unfold parse_chunks.
    destruct cs as [|[|b0 [|b1 [|b2 [|b3 r]]]] cs']; try apply chunks_never_fault.
    destruct (beqb b0 xef && beqb b1 xbb && beqb b2 xbf); apply chunks_never_fault.
  Qed.

  Theorem parse_bytes_never_faults w : parse_bytes K w <> OFault.
  Proof.
    unfold parse_bytes, run_all.
    destruct w as [|b0 [|b1 [|b2 [|b3 r]]]]; try apply chunks_never_fault.
    destruct (beqb b0 xef); [|apply chunks_never_fault].
    destruct (beqb b1 xbb && beqb b2 xbf); [apply chunks_never_fault | discriminate].
  Qed.
End DSweep.
