(* C09 stated against the reference recogniser: combine the machine's error position with the
   control simulation (Sweep) and the recogniser's liveness (RefLive). *)
From Coq Require Import Init.Byte NArith ZArith List Bool Lia.
Require Import Ojg.Base.Bytes Ojg.Json.Machine Ojg.Json.Ref Ojg.Json.Sweep Ojg.Json.Position Ojg.Json.RefLive.
Import ListNotations.
Open Scope Z_scope.

Section Spec.
  Variable one : bool.
  Variable K : cfg.
  Hypothesis Hsweep : sweep_ok one K = true.
  Hypothesis Hnl : nl_table_ok K = true.

  Theorem error_position_spec w l col :
    run_all K w = OErr l col ->
    exists p r, w = p ++ r /\ l = pos_line p /\ col = pos_col p /\
      (exists e, ref_accepts one (p ++ e) = true) /\
      match r with
      | [] => ref_accepts one w = false
      | b :: _ => forall e, ref_accepts one ((p ++ [b]) ++ e) = false
      end.
  Proof.
    intro H. destruct (error_position K Hnl w l col H) as (p & r & -> & Hl & Hc & Hv & Hr).
    exists p, r. repeat split; auto.
    - destruct (ctl_run K ctl_init [] p) as [[c s]|] eqn:E; [|contradiction].
      destruct (reach_alpha one K Hsweep p c s E) as (rm & R & _).
      eapply ref_live. exact R.
    - destruct r as [|b r].
      + rewrite <- (accepts_eq_ref one K Hsweep). exact Hr.
      + intro e. apply dead_forever. apply (run_none_iff one K Hsweep). exact Hr.
  Qed.
End Spec.
