(* C04: streaming Write emits byte-for-byte the text of the in-memory call, for every
   WriteLimit, every option combination and every tree. *)
From Coq Require Import Init.Byte NArith ZArith List Bool Lia.
Require Import Ojg.Base.Bytes Ojg.Base.Jv Ojg.Json.Writer.
Import ListNotations.
Open Scope Z_scope.

Definition flat (st : wstate) : bytes := fst st ++ snd st.

Lemma flat_app st bs : flat (app st bs) = flat st ++ bs.
Proof. unfold flat, app; simpl. rewrite app_assoc. reflexivity. Qed.

Lemma flat_flush lim st : flat (flush lim st) = flat st.
Proof.
  unfold flush. destruct lim as [n|]; [|reflexivity].
  destruct (n <? Z.of_nat (length (snd st))); [|reflexivity].
  unfold flat; simpl. rewrite app_nil_r. reflexivity.
Qed.

Lemma flat_set_last st c : snd st <> [] -> flat (set_last st c) = removelast (flat st) ++ [c].
Proof.
  intro H. unfold flat, set_last; simpl. rewrite removelast_app by assumption. rewrite app_assoc. reflexivity.
Qed.

Lemma removelast_snoc (l : bytes) x : removelast (l ++ [x]) = l.
Proof. rewrite removelast_app by discriminate. simpl. apply app_nil_r. Qed.

Lemma close_flat (b : bool) st2 isx c : snd st2 <> [] ->
  flat (if b then app (app (set_last st2 x0a) isx) [c] else set_last st2 c)
  = removelast (flat st2) ++ (if b then x0a :: isx ++ [c] else [c]).
Proof.
  intro H. destruct b.
  - rewrite !flat_app, flat_set_last by exact H. repeat rewrite <- app_assoc. reflexivity.
  - apply flat_set_last. exact H.
Qed.

Section Stream.
  Variable o : wopts.

  (* the text, written without any buffer *)
  Definition member_prefix (depth : Z) (k : bytes) : bytes :=
    (if indented o then cs_str o depth else []) ++ json_string (w_html_safe o) k ++ (if indented o then [x3a; x20] else [x3a]).
  Definition elem_prefix (depth : Z) : bytes := if indented o then cs_str o depth else [].
  Definition close_with (depth : Z) (c : byte) : bytes :=
    if indented o then x0a :: is_str o depth ++ [c] else [c].
  Definition sub_depth (depth : Z) : Z := if indented o then depth + 1 else 0.

  Fixpoint text (depth : Z) (v : jv) {struct v} : bytes :=
    match v with
    | JNull => [x6e; x75; x6c; x6c]
    | JBool true => [x74; x72; x75; x65]
    | JBool false => [x66; x61; x6c; x73; x65]
    | JInt z => format_int z
    | JFloat t => t
    | JBig t => t
    | JStr s => json_string (w_html_safe o) s
    | JArr [] => [x5b; x5d]
    | JArr l =>
        x5b :: removelast ((fix go (l : list jv) : bytes :=
                 match l with
                 | [] => []
                 | x :: l' => elem_prefix depth ++ text (sub_depth depth) x ++ x2c :: go l'
                 end) l) ++ close_with depth x5d
    | JObj m =>
        let body := (fix go (m : list (bytes * jv)) : bytes :=
                 match m with
                 | [] => []
                 | (k, x) :: m' =>
                     if omitted o x then go m'
                     else member_prefix depth k ++ text (sub_depth depth) x ++ x2c :: go m'
                 end) m in
        match body with
        | [] => [x7b; x7d]
        | _ => x7b :: removelast body ++ close_with depth x7d
        end
    end.

  Variable lim : option Z.

  Definition P (v : jv) : Prop :=
    forall depth st, flat (wr o lim depth v st) = flat st ++ text depth v.

  Lemma scalar_case depth v st bs :
    wr o lim depth v st = flush lim (app st bs) -> text depth v = bs ->
    flat (wr o lim depth v st) = flat st ++ text depth v.
  Proof. intros H1 H2. rewrite H1, flat_flush, flat_app, H2. reflexivity. Qed.

  Theorem stream_text : forall v, P v.
  Proof.
    induction v as [|b|z|t|t|s|l IH|m IH] using jv_ind2; intros depth st.
    - apply (scalar_case depth JNull st [x6e; x75; x6c; x6c]); reflexivity.
    - destruct b; [apply (scalar_case depth (JBool true) st [x74; x72; x75; x65]) | apply (scalar_case depth (JBool false) st [x66; x61; x6c; x73; x65])]; reflexivity.
    - apply (scalar_case depth (JInt z) st (format_int z)); reflexivity.
    - apply (scalar_case depth (JFloat t) st t); reflexivity.
    - apply (scalar_case depth (JBig t) st t); reflexivity.
    - apply (scalar_case depth (JStr s) st (json_string (w_html_safe o) s)); reflexivity.
    - (* arrays *)
      destruct l as [|x l].
      { apply (scalar_case depth (JArr []) st [x5b; x5d]); reflexivity. }
      cbn [wr text]. rewrite flat_flush.
      set (goW := fix go (l : list jv) (st : wstate) : wstate :=
                    match l with
                    | [] => st
                    | x :: l' =>
                        let st := if indented o then app st (cs_str o depth) else st in
                        go l' (app (wr o lim (if indented o then depth + 1 else 0) x st) [x2c])
                    end).
      set (goT := fix go (l : list jv) : bytes :=
                    match l with
                    | [] => []
                    | x :: l' => elem_prefix depth ++ text (sub_depth depth) x ++ x2c :: go l'
                    end).
      assert (Hgo : forall l st, Forall P l ->
                flat (goW l st) = flat st ++ goT l /\ (l <> [] -> snd (goW l st) <> [])).
      { clear - o lim. induction l as [|y l IHl]; intros st HF.
        - simpl. rewrite app_nil_r. split; [reflexivity|intro H; contradiction].
        - inversion HF as [|? ? Hy HFl]; subst. cbn [goW goT].
          set (st0 := if indented o then app st (cs_str o depth) else st).
          set (st1 := app (wr o lim (if indented o then depth + 1 else 0) y st0) [x2c]).
          destruct (IHl st1 HFl) as [E1 E2]. split.
          + fold goW in E1. fold goT in E1. rewrite E1. unfold st1. rewrite flat_app.
            unfold P in Hy. rewrite Hy.
            assert (flat st0 = flat st ++ elem_prefix depth).
            { unfold st0, elem_prefix. destruct (indented o); [apply flat_app|rewrite app_nil_r; reflexivity]. }
            rewrite H. unfold sub_depth. repeat rewrite <- app_assoc. reflexivity.
          + intros _. destruct l as [|z l'].
            * simpl. unfold st1, app. simpl. destruct (snd (wr o lim (if indented o then depth + 1 else 0) y st0)); discriminate.
            * apply E2. discriminate. }
      destruct (Hgo (x :: l) (app st [x5b]) IH) as [E1 E2].
      fold goW. fold goT.
      assert (Hne : snd (goW (x :: l) (app st [x5b])) <> []) by (apply E2; discriminate).
      assert (HTne : goT (x :: l) <> []).
      { cbn [goT]. destruct (elem_prefix depth); [destruct (text (sub_depth depth) x)|]; discriminate. }
      assert (Hflat : flat (goW (x :: l) (app st [x5b])) = (flat st ++ [x5b]) ++ goT (x :: l)).
      { rewrite E1, flat_app. reflexivity. }
      rewrite close_flat by exact Hne.
      match goal with |- context[flat ?t] => change t with (goW (x :: l) (app st [x5b])) end.
      rewrite Hflat.
      rewrite removelast_app by exact HTne. unfold close_with. repeat rewrite <- app_assoc. reflexivity.
    - (* objects *)
      cbn [wr text]. rewrite flat_flush.
      set (goW := fix go (m : list (bytes * jv)) (acc : wstate * bool) : wstate * bool :=
               match m with
               | [] => acc
               | (k, x) :: m' =>
                   if omitted o x then go m' acc
                   else
                     let st := fst acc in
                     let st := if indented o then app st (cs_str o depth) else st in
                     let st := app st (json_string (w_html_safe o) k) in
                     let st := app st (if indented o then [x3a; x20] else [x3a]) in
                     go m' (app (wr o lim (if indented o then depth + 1 else 0) x st) [x2c], true)
               end).
      set (goT := fix go (m : list (bytes * jv)) : bytes :=
                 match m with
                 | [] => []
                 | (k, x) :: m' =>
                     if omitted o x then go m'
                     else member_prefix depth k ++ text (sub_depth depth) x ++ x2c :: go m'
                 end).
      assert (Hgo : forall m acc, Forall (fun kv => P (snd kv)) m ->
                flat (fst (goW m acc)) = flat (fst acc) ++ goT m /\
                (snd (goW m acc) = snd acc || negb (match goT m with [] => true | _ => false end)) /\
                (goT m <> [] -> snd (fst (goW m acc)) <> [])).
      { clear - o lim. induction m as [|[k y] m IHm]; intros acc HF.
        - simpl. rewrite app_nil_r. repeat split; [rewrite orb_false_r; reflexivity | intro H; contradiction].
        - inversion HF as [|? ? Hy HFm]; subst. cbn [goW goT].
          destruct (omitted o y).
          + apply IHm. exact HFm.
          + set (st0 := if indented o then app (fst acc) (cs_str o depth) else fst acc).
            set (st1 := app st0 (json_string (w_html_safe o) k)).
            set (st2 := app st1 (if indented o then [x3a; x20] else [x3a])).
            set (acc' := (app (wr o lim (if indented o then depth + 1 else 0) y st2) [x2c], true)).
            destruct (IHm acc' HFm) as (E1 & E2 & E3).
            fold goW in E1, E2, E3. fold goT in E1, E2, E3.
            assert (Hst2 : flat st2 = flat (fst acc) ++ member_prefix depth k).
            { unfold st2, st1, st0, member_prefix. rewrite !flat_app.
              destruct (indented o); [rewrite flat_app|]; repeat rewrite <- app_assoc; reflexivity. }
            repeat split.
            * rewrite E1. unfold acc'. cbn [fst]. rewrite flat_app. simpl in Hy. unfold P in Hy. rewrite Hy, Hst2.
              unfold sub_depth. repeat rewrite <- app_assoc. reflexivity.
            * rewrite E2. unfold acc'. cbn [snd]. simpl.
              destruct (member_prefix depth k ++ text (sub_depth depth) y ++ x2c :: goT m) eqn:Em.
              -- exfalso. destruct (member_prefix depth k); [destruct (text (sub_depth depth) y)|]; discriminate.
              -- rewrite orb_true_r. reflexivity.
            * intros _. destruct (goT m) as [|c r] eqn:Eg.
              -- (* nothing more is written: the buffer ends with the comma just appended *)
                 assert (Hsame : fst (goW m acc') = fst acc').
                 { clear - Eg. revert acc'. generalize dependent m. induction m as [|[k2 y2] m2 IH2]; intros Eg acc'; [reflexivity|].
                   cbn [goW goT] in *. destruct (omitted o y2); [apply IH2; exact Eg|].
                   exfalso. destruct (member_prefix depth k2); [destruct (text (sub_depth depth) y2)|]; discriminate. }
                 rewrite Hsame. unfold acc'. cbn [fst]. unfold app. simpl.
                 destruct (snd (wr o lim (if indented o then depth + 1 else 0) y st2)); discriminate.
              -- apply E3. discriminate. }
      destruct (Hgo m (app st [x7b], false) IH) as (E1 & E2 & E3).
      fold goW. fold goT.
      destruct (goW m (app st [x7b], false)) as [st2 any] eqn:EW. cbn [fst snd] in *.
      rewrite flat_app in E1.
      destruct (goT m) as [|c r] eqn:ET.
      + simpl in E2. subst any. rewrite flat_app, E1, app_nil_r. rewrite <- app_assoc. reflexivity.
      + simpl in E2. subst any.
        assert (Hne : snd st2 <> []) by (apply E3; discriminate).
        rewrite close_flat by exact Hne. rewrite E1.
        rewrite removelast_app by discriminate. unfold close_with. repeat rewrite <- app_assoc. reflexivity.
  Qed.
End Stream.

(* C04: for every WriteLimit the streamed bytes are exactly the in-memory text *)
Theorem stream_eq o lim v : write_all o (Some lim) v = write_all o None v.
Proof.
  unfold write_all.
  pose proof (stream_text o (Some lim) (if w_sort o then sort_tree v else v) 0 ([], [])) as H1.
  pose proof (stream_text o None (if w_sort o then sort_tree v else v) 0 ([], [])) as H2.
  unfold flat in H1, H2. rewrite H1, H2. reflexivity.
Qed.
