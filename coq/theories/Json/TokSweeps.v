(* the action-compatibility sweep of TokSim.v on the regenerated tables *)
Require Import Ojg.Json.Machine Ojg.Json.Frontends Ojg.Json.TokSim.
Lemma toksweep_tokenizer : toksweep_ok fe_tokenizer true = true. Proof. vm_compute. reflexivity. Qed.
Lemma toksweep_tokenizer_multi : toksweep_ok fe_tokenizer_multi false = true. Proof. vm_compute. reflexivity. Qed.
