(* C07 at the level of the machine, assembled: a run from a state whose scratch fields hold
   arbitrary leftovers gives the outcome of a run from the fresh state. *)
From Coq Require Import Init.Byte NArith ZArith List Bool Lia.
Require Import Ojg.Base.Bytes Ojg.Base.Jv Ojg.Gen.OjMaps Ojg.Json.Number Ojg.Json.Machine Ojg.Json.Sweep Ojg.Json.Scratch.
Require Import Ojg.Json.Scratch_parser Ojg.Json.Scratch_gen Ojg.Json.Scratch_tokenizer Ojg.Json.Scratch_validator.
Import ListNotations.
Open Scope Z_scope.

Section Thm.
  Variable K : cfg.
  Hypothesis Hsw : scratch_sweep K = true.

  Lemma data_norm : data_norm_stmt K.
  Proof.
    destruct (k_kind K) eqn:Hk.
    - exact (data_norm_parser K Hsw Hk).
    - exact (data_norm_validator K Hsw Hk).
    - exact (data_norm_tokenizer K Hsw Hk).
    - exact (data_norm_gen K Hsw Hk).
  Qed.

  Definition norm_st (st : state) : state :=
    match st with St c s d => St (norm_c c) s (norm_d K (c_mode c) d) end.
  Definition st_ok (st : state) : bool := match st with St c _ _ => next_ok c end.

  Lemma norm_d_upd_pos m d p : norm_d K m (upd_pos d p) = upd_pos (norm_d K m d) p.
  Proof. reflexivity. Qed.
  Lemma norm_d_pos m d : d_pos (norm_d K m d) = d_pos d.
  Proof. reflexivity. Qed.
  Lemma norm_d_idem m d : norm_d K m (norm_d K m d) = norm_d K m d.
  Proof. unfold norm_d. simpl. destruct (liveS m && has_num K), (liveN m && has_num K), (liveU m && has_num K); reflexivity. Qed.
  Lemma norm_c_idem c : norm_c (norm_c c) = norm_c c.
  Proof. unfold norm_c. simpl. destruct (liveS (c_mode c)), (liveU (c_mode c) || liveL (c_mode c)); reflexivity. Qed.
  Lemma next_ok_norm c : next_ok (norm_c c) = next_ok c.
  Proof. unfold next_ok, norm_c. simpl. destruct (liveS (c_mode c)); reflexivity. Qed.

  (* one step commutes with normalisation *)
  Lemma step_norm c s d b :
    next_ok c = true ->
    norm_res K (step K (norm_c c) s (norm_d K (c_mode c) d) b) = norm_res K (step K c s d b) /\
    match step K c s d b with inr st' => st_ok st' = true | inl _ => True end.
  Proof.
    intro Hn. unfold step.
    pose proof (ctl_norm K Hsw c (view_of s) b Hn) as HC.
    pose proof (data_norm c (view_of s) b d Hn) as HD.
    destruct (ctl_step K c (view_of s) b) as [| |c2 op2 h2] eqn:E2;
      destruct (ctl_step K (norm_c c) (view_of s) b) as [| |c1 op1 h1] eqn:E1; simpl in HC; try contradiction.
    - split; [reflexivity | exact I].
    - split; [reflexivity | exact I].
    - destruct HC as (-> & -> & Hc & Hm & Hok).
      destruct (data_step K (norm_c c) b h2 (norm_d K (c_mode c) d)) as [d1|] eqn:D1;
        destruct (data_step K c b h2 d) as [d2|] eqn:D2; simpl in HD; try discriminate HD.
      + assert (Hd : norm_d K (c_mode c2) d1 = norm_d K (c_mode c2) d2).
        { exact (f_equal (fun o => match o with Some x => x | None => norm_d K (c_mode c2) d1 end) HD). }
        cbn [norm_res]. split; [|exact Hok].
        rewrite Hc, Hm. f_equal. f_equal.
        rewrite !norm_d_upd_pos.
        assert (Hp : d_pos d1 = d_pos d2).
        { rewrite <- (norm_d_pos (c_mode c2) d1), <- (norm_d_pos (c_mode c2) d2), Hd. reflexivity. }
        rewrite Hd, Hp. reflexivity.
      + split; [reflexivity | exact I].
  Qed.

  Definition sim (a b : state) : Prop := norm_st a = norm_st b /\ st_ok a = true /\ st_ok b = true.

  Lemma step_sim a b x :
    sim a b ->
    match (let '(St c s d) := a in step K c s d x), (let '(St c s d) := b in step K c s d x) with
    | inl o1, inl o2 => o1 = o2
    | inr a', inr b' => sim a' b'
    | _, _ => False
    end.
  Proof.
    intros (Hn & Ha & Hb). destruct a as [c1 s1 d1], b as [c2 s2 d2]. simpl in Ha, Hb.
    destruct (step_norm c1 s1 d1 x Ha) as [E1 O1]. destruct (step_norm c2 s2 d2 x Hb) as [E2 O2].
    cbn [norm_st] in Hn. pose proof (f_equal (fun st => match st with St c _ _ => c end) Hn) as Hc;
      pose proof (f_equal (fun st => match st with St _ s _ => s end) Hn) as Hs;
      pose proof (f_equal (fun st => match st with St _ _ d => d end) Hn) as Hd; cbv beta iota in Hc, Hs, Hd. subst s2.
    assert (Hm : c_mode c1 = c_mode c2) by (exact (f_equal c_mode Hc)).
    rewrite Hc in E1. rewrite Hm in *. rewrite Hd in E1. rewrite E2 in E1.
    destruct (step K c1 s1 d1 x) as [o1|a'], (step K c2 s1 d2 x) as [o2|b']; simpl in E1.
    - inversion E1. reflexivity.
    - destruct b'. discriminate E1.
    - destruct a'. discriminate E1.
    - destruct a' as [ca sa da], b' as [cb sb db]. simpl in E1. inversion E1. unfold sim. simpl.
      split; [|split; assumption].
      congruence.
  Qed.

  Lemma run_sim w : forall a b,
    sim a b ->
    match (let '(St c s d) := a in run K c s d w), (let '(St c s d) := b in run K c s d w) with
    | inl o1, inl o2 => o1 = o2
    | inr a', inr b' => sim a' b'
    | _, _ => False
    end.
  Proof.
    induction w as [|x w IH]; intros a b H.
    - destruct a, b. simpl. exact H.
    - pose proof (step_sim a b x H) as S. destruct a as [c1 s1 d1], b as [c2 s2 d2]. simpl in *.
      destruct (step K c1 s1 d1 x) as [o1|[ca sa da]], (step K c2 s2 d2 x) as [o2|[cb sb db]]; try contradiction.
      + exact S.
      + apply (IH (St ca sa da) (St cb sb db) S).
  Qed.

  Lemma sim_fast a b f :
    sim a b ->
    sim (let '(St c s d) := a in St c s (upd_fast d f)) (let '(St c s d) := b in St c s (upd_fast d f)).
  Proof.
    intros (Hn & Ha & Hb). destruct a as [c1 s1 d1], b as [c2 s2 d2]. unfold sim. simpl in *.
    split; [|split; assumption]. pose proof (f_equal (fun st => match st with St c _ _ => c end) Hn) as Hc;
      pose proof (f_equal (fun st => match st with St _ s _ => s end) Hn) as Hs;
      pose proof (f_equal (fun st => match st with St _ _ d => d end) Hn) as Hd; cbv beta iota in Hc, Hs, Hd.
    assert (Hm : c_mode c1 = c_mode c2) by (exact (f_equal c_mode Hc)).
    rewrite Hm in *.
    change (norm_d K (c_mode c2) (upd_fast d1 f)) with (upd_fast (norm_d K (c_mode c2) d1) f).
    change (norm_d K (c_mode c2) (upd_fast d2 f)) with (upd_fast (norm_d K (c_mode c2) d2) f).
    rewrite Hd, Hc, Hs. reflexivity.
  Qed.

  Lemma run_chunks_sim cs : forall a b,
    sim a b ->
    match (let '(St c s d) := a in run_chunks K c s d cs), (let '(St c s d) := b in run_chunks K c s d cs) with
    | inl o1, inl o2 => o1 = o2
    | inr a', inr b' => sim a' b'
    | _, _ => False
    end.
  Proof.
    induction cs as [|w cs IH]; intros a b H.
    - destruct a, b. simpl. exact H.
    - pose proof (run_sim w _ _ (sim_fast a b false H)) as S.
      destruct a as [c1 s1 d1], b as [c2 s2 d2]. simpl in *.
      destruct (run K c1 s1 (upd_fast d1 false) w) as [o1|[ca sa da]], (run K c2 s2 (upd_fast d2 false) w) as [o2|[cb sb db]];
        try contradiction.
      + exact S.
      + apply (IH (St ca sa da) (St cb sb db) S).
  Qed.

  Lemma finish_sim a b :
    sim a b -> (let '(St c s d) := a in finish K c s d) = (let '(St c s d) := b in finish K c s d).
  Proof.
    intros (Hn & _ & _). destruct a as [c1 s1 d1], b as [c2 s2 d2]. cbn [norm_st] in Hn. pose proof (f_equal (fun st => match st with St c _ _ => c end) Hn) as Hc;
      pose proof (f_equal (fun st => match st with St _ s _ => s end) Hn) as Hs;
      pose proof (f_equal (fun st => match st with St _ _ d => d end) Hn) as Hd; cbv beta iota in Hc, Hs, Hd. subst s2.
    assert (Hm : c_mode c1 = c_mode c2) by (exact (f_equal c_mode Hc)).
    pose proof (sw_fin K Hsw (c_mode c2)) as Pf.
    unfold finish, ctl_end. rewrite Hm in *.
    destruct d1 as [stk1 sts1 tmp1 nm1 rn1 ln1 nf1 ps1 dcs1 evs1 fst1], d2 as [stk2 sts2 tmp2 nm2 rn2 ln2 nf2 ps2 dcs2 evs2 fst2].
    unfold norm_d in Hd. simpl in Hd. inversion Hd; subst. clear Hd.
    destruct (view_of s1); try reflexivity.
    unfold fin_is in Pf.
    destruct (k_fin K (c_mode c2)) as [f|]; [|reflexivity].
    destruct (f =? 110)%N eqn:F; [|reflexivity].
    simpl in Pf. rewrite Pf in *. simpl in *.
    unfold emit_num, emit_val, num_value, handoff, builds, has_num in *.
    destruct (k_kind K); simpl in *;
      repeat match goal with H : (if true then ?a else _) = (if true then ?b else _) |- _ => simpl in H end;
      try (subst; reflexivity); try congruence.
    all: subst;
      repeat first [ progress cbn [opt_bind d_stack d_starts d_docs d_evs upd_stack upd_docs push_ev]
                   | match goal with
                     | |- context [match ?x with _ => _ end] =>
                         lazymatch x with
                         | context [match _ with _ => _ end] => fail
                         | _ => destruct x eqn:?
                         end
                     end ]; reflexivity.
  Qed.

  Definition run_from (st : state) (cs : list bytes) : outcome :=
    match (let '(St c s d) := st in run_chunks K c s d cs) with
    | inl o => o
    | inr (St c s d) => finish K c s d
    end.

  (* the state a previous call may leave behind in the scratch fields *)
  Definition dirty_init (nx : mode) (ri : Z) (tmp : bytes) (nm : num) (rn : Z) : state :=
    St (mkCtl M_valueMap nx ri) [] (mkData [] [] tmp nm rn 1 (-1) 0 [] [] false).

  Theorem stale_scratch_irrelevant nx ri tmp nm rn cs :
    run_from (dirty_init nx ri tmp nm rn) cs = run_all_chunks K cs.
  Proof.
    unfold run_all_chunks, run_from.
    assert (S : sim (dirty_init nx ri tmp nm rn) (St ctl_init [] data_init)).
    { unfold sim, dirty_init. simpl. repeat split. }
    pose proof (run_chunks_sim cs _ _ S) as R. unfold dirty_init in *.
    destruct (run_chunks K {| c_mode := M_valueMap; c_next := nx; c_ri := ri |} []
                {| d_stack := []; d_starts := []; d_rtmp := tmp; d_num := nm; d_rn := rn; d_line := 1;
                   d_noff := -1; d_pos := 0; d_docs := []; d_evs := []; d_fast := false |} cs) as [o1|[ca sa da]],
             (run_chunks K ctl_init [] data_init cs) as [o2|[cb sb db]]; try contradiction.
    - exact R.
    - exact (finish_sim _ _ R).
  Qed.
End Thm.
