(* C02 + C04 composed: parsing what the writer wrote gives the tree back.
   For trees of null, booleans, integers (below the scan-ahead threshold), floats whose text is a
   plain decimal, strings that are valid UTF-8, arrays and objects (distinct names, nothing omitted): oj.Parser / gen.Parser on the
   writer's output deliver exactly the written tree, for every option set and WriteLimit. *)
From Coq Require Import Init.Byte NArith ZArith List Bool Lia.
Require Import Ojg.Base.Bytes Ojg.Base.Jv Ojg.Json.Number Ojg.Json.NumberFacts Ojg.Json.Machine Ojg.Json.Ref Ojg.Json.RefParse Ojg.Json.Sweep Ojg.Json.DataInv Ojg.Json.Frontends.
Require Import Ojg.Json.ValueSim Ojg.Json.IntLit Ojg.Json.Fmt Ojg.Json.Literals Ojg.Json.Writer Ojg.Json.WriterFacts Ojg.Json.WRound Ojg.Json.WInt Ojg.Json.WFinal Ojg.Json.WExpected Ojg.Json.DecShape.
Import ListNotations.
Open Scope Z_scope.

Section PW.
  Variable o : wopts.
  Variable K : cfg.

  Fixpoint clean (v : jv) : Prop :=
    match v with
    | JInt z => - max_int64 <= z < 9223372036854775800
    | JStr s => sanitize s = s
    | JFloat t => dec_shape t
    | JBig _ => False
    | JArr l => (fix go (l : list jv) : Prop := match l with [] => True | x :: l' => clean x /\ go l' end) l
    | JObj m => NoDup (map fst m) /\
                (fix go (m : list (bytes * jv)) : Prop :=
                   match m with [] => True | (k, x) :: m' => (sanitize k = k /\ omitted o x = false /\ clean x) /\ go m' end) m
    | _ => True
    end.

  Lemma dec_of n : 1 <= n -> exists d1 ds, is_19 d1 = true /\ all_digits (d1 :: ds) /\ digits_val (d1 :: ds) = n /\ format_uint n = d1 :: ds.
  Proof.
    intro H. destruct (dec_exists (Z.to_nat n) n H (le_n _)) as (ds & (d1 & r & -> & H19) & HA & HV).
    exists d1, r. split; [exact H19|]. split; [exact HA|]. split; [exact HV|].
    rewrite <- HV. apply format_uint_digits; [exists d1, r; auto | exact HA].
  Qed.

  Lemma tr_int z : - max_int64 <= z < 9223372036854775800 -> tr K (JBig (format_int z)) = JInt z.
  Proof.
    intro H. unfold format_int. destruct (z <? 0) eqn:E.
    - apply Z.ltb_lt in E. destruct (dec_of (- z) ltac:(lia)) as (d1 & ds & H19 & HA & HV & ->).
      pose proof (Forall_inv_tail HA) as Hds. rewrite (leaf_int_literal_neg K d1 ds H19 Hds ltac:(unfold max_int64 in *; lia)). rewrite HV. f_equal. lia.
    - apply Z.ltb_ge in E. destruct (Z.eq_dec z 0) as [->|Hne]; [apply (leaf_int_literal_zero K)|].
      destruct (dec_of z ltac:(lia)) as (d1 & ds & H19 & HA & HV & ->).
      pose proof (Forall_inv_tail HA) as Hds. rewrite (leaf_int_literal_plain K d1 ds H19 Hds ltac:(lia)). rewrite HV. reflexivity.
  Qed.

  Lemma mfold_clean l : forall acc,
    NoDup (map fst acc ++ map fst l) -> Forall (fun kv => sanitize (fst kv) = fst kv) l ->
    mfold o l acc = acc ++ map (fun kv => (fst kv, toref o (snd kv))) l.
  Proof.
    intros acc Hnd Hs. rewrite mfold_distinct.
    - f_equal. apply map_ext_in. intros kv Hin. rewrite Forall_forall in Hs. rewrite (Hs kv Hin). reflexivity.
    - replace (map (fun kv => sanitize (fst kv)) l) with (map fst l); [exact Hnd|].
      apply map_ext_in. intros kv Hin. rewrite Forall_forall in Hs. rewrite (Hs kv Hin). reflexivity.
  Qed.

  Theorem tr_toref v : clean v -> tr K (toref o v) = v.
  Proof.
    induction v using jv_ind2; intro HC; try reflexivity.
    - simpl in HC. apply tr_int. exact HC.
    - simpl in HC. apply (dec_shape_leaf K). exact HC.
    - simpl in HC. contradiction.
    - simpl in *. rewrite HC. reflexivity.
    - simpl. f_equal. simpl in HC.
      induction l as [|x l IHl]; [reflexivity|]. inversion H; subst. destruct HC as [Hx Hl].
      simpl. f_equal; [apply H2; exact Hx | apply IHl; assumption].
    - rewrite toref_obj. simpl in HC. destruct HC as [Hnd HM].
      assert (Hk : kept o m = m).
      { clear Hnd H. induction m as [|[k x] m IHm]; [reflexivity|]. destruct HM as [(_ & Ho & _) Hm]. unfold kept in *. simpl. rewrite Ho. simpl. f_equal. apply IHm. exact Hm. }
      rewrite Hk.
      assert (Hs : Forall (fun kv => sanitize (fst kv) = fst kv) m).
      { clear Hnd H Hk. induction m as [|[k x] m IHm]; [constructor|]. destruct HM as [(Hsk & _ & _) Hm]. constructor; [exact Hsk | apply IHm; exact Hm]. }
      rewrite (mfold_clean m [] Hnd Hs). simpl. f_equal. rewrite map_map. simpl.
      clear Hnd Hk Hs. induction m as [|[k x] m IHm]; [reflexivity|].
      destruct HM as [(_ & _ & Hx) Hm]. inversion H; subst. simpl in *. f_equal; [f_equal; auto | apply IHm; assumption].
  Qed.

  Lemma clean_numtexts v : clean v -> numtexts_ok v = true.
  Proof.
    induction v using jv_ind2; simpl; intro HC; try reflexivity; try contradiction.
    - apply dec_shape_num_ok. exact HC.
    - rewrite forallb_forall. rewrite Forall_forall in H. intros x Hin.
      induction l as [|y l IHl]; [contradiction Hin|]. destruct HC as [Hy Hl]. destruct Hin as [->|Hin].
      + apply H; [left; reflexivity | exact Hy].
      + apply IHl; [intros z Hz; apply H; right; exact Hz | exact Hl | exact Hin].
    - destruct HC as [_ HM]. induction m as [|[k x] m IHm]; [reflexivity|].
      destruct HM as [(_ & _ & Hx) Hm]. inversion H; subst. apply andb_true_iff. split; [simpl in *; auto | apply IHm; assumption].
  Qed.
End PW.

Section Compose.
  Variable one : bool.
  Variable K : cfg.
  Hypothesis Hb : builds K = true.
  Hypothesis Hsweep : sweep_ok one K = true.
  Hypothesis Hdsweep : dsweep_ok one K = true.
  Hypothesis Hsim : simsweep_ok K one = true.

  Theorem parse_write o lim v :
    let v' := if w_sort o then sort_tree v else v in
    clean o v' ->
    match run_all K (write_all o lim v) with
    | OOk docs _ => docs = [v']
    | _ => False
    end.
  Proof.
    intros v' HC.
    pose proof (writer_round_trip one o lim v (clean_numtexts o v' HC)) as HW. fold v' in HW.
    pose proof (parse_refines one K Hb Hsweep Hdsweep Hsim (write_all o lim v)) as HP.
    destruct (run_all K (write_all o lim v)) as [l c| | |docs evs]; try contradiction.
    - rewrite HW in HP. discriminate HP.
    - destruct HP as (rdocs & HR & ->). rewrite HW in HR. injection HR as <-. simpl. rewrite (tr_toref o K v' HC). reflexivity.
  Qed.
End Compose.
